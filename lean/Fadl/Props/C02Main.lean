/-
  C02 — soundness of the chained-call simplifier, main induction: every clause of `simpCk`.
-/
import Fadl.Props.C02Called
namespace Fadl
set_option linter.unusedSimpArgs false
set_option maxHeartbeats 1000000

variable {w : World}

theorem sem_called_uninlinable {st : SStack} (ps : List String) (body : Expr) (args : List Expr) (kwn : List String)
    (kwv : List Expr) (e' : Expr)
    (hc : (!distinctS ps || args.length > ps.length || !distinctS kwn || !sameSet kwn (ps.drop args.length)) = true) :
    Sem w st (.call (.lam ps body) args kwn kwv) e' := by
  apply Sem.of_nonlam rfl
  · intro envM env hr outv ho
    exfalso
    simp only [denLz, denHeadLz, callSemLz] at ho
    cases hvs : evalAll (denLLz w args) envM with
    | error e => simp [hvs, bind, Except.bind] at ho
    | ok vs =>
      cases hkvs : evalAll (denLLz w kwv) envM with
      | error e => simp [hvs, hkvs, bind, Except.bind] at ho
      | ok kvs =>
        cases hbp : bindParams ps vs kwn kvs envM with
        | error e => simp [hvs, hkvs, hbp, bind, Except.bind] at ho
        | ok env1 =>
          obtain ⟨hdp, hle, _, _, hkin, hrestin, hdk⟩ := bindParams_char ps vs kwn kvs envM env1 hbp
          have hvlen : vs.length = args.length := evalAll_length w envM args vs hvs
          rw [hvlen] at hle hkin hrestin
          have hss : sameSet kwn (ps.drop args.length) = true := by
            simp only [sameSet, Bool.and_eq_true, List.all_eq_true, List.contains_iff_mem]
            exact ⟨hkin, hrestin⟩
          simp only [hdp, hdk, hss, Bool.not_true, Bool.false_or, Bool.or_false, decide_eq_true_eq] at hc
          omega
  · intro _ envM env _; exact headSem_other rfl

theorem firstArg?_some {v first : Expr} (h : firstArg? v = some (some first)) :
    ∃ rest k1 k2, v = .call (.name "First") (first :: rest) k1 k2 := by
  cases v with
  | call f args k1 k2 =>
    cases f with
    | name n =>
      simp only [firstArg?] at h
      split at h
      · rename_i hn; subst hn
        cases args with
        | nil => simp at h
        | cons a rest => simp only [Option.some.injEq] at h; subst h; exact ⟨rest, k1, k2, rfl⟩
      · cases h
    | _ => simp [firstArg?] at h
  | _ => simp [firstArg?] at h

theorem opCall?_some {p : Expr} {n : String} {pargs : List Expr} (h : opCall? p = some (n, pargs)) :
    ∃ k1 k2, p = .call (.name n) pargs k1 k2 := by
  cases p with
  | call f a k1 k2 =>
    cases f with
    | name m => simp only [opCall?, Option.some.injEq, Prod.mk.injEq] at h; obtain ⟨rfl, rfl⟩ := h; exact ⟨k1, k2, rfl⟩
    | _ => simp [opCall?] at h
  | _ => simp [opCall?] at h

theorem isLam_true {e : Expr} (h : (!isLam e) = false) : ∃ ps b, e = .lam ps b := by
  cases e <;> simp [isLam] at h
  exact ⟨_, _, rfl⟩

theorem sem_op_call {st : SStack} {op : String} (hop : isOp3 op) (a b : Expr) (rest : List Expr) (kwn : List String)
    (kwv : List Expr) (e' : Expr)
    (h : ∀ envM env, EnvRel w st envM env → RLe (denLz w (fcall op [a, b]) envM) (denLz w e' env)) :
    Sem w st (.call (.name op) (a :: b :: rest) kwn kwv) e' := by
  apply Sem.of_nonlam rfl
  · intro envM env hr
    exact op_call_cases hop a b rest kwn kwv envM _ (h envM env hr)
  · intro _ envM env _; exact headSem_other rfl

theorem simpCk_sound (hw : WorldOK w) : ∀ fuel : Nat,
    (∀ st c e e' c', simpCk fuel st c e = .ok (e', c') → Sem w st e e') ∧
    (∀ st c es es' c', simpLCk fuel st c es = .ok (es', c') → SemL w st es es' ∧ es'.length = es.length) ∧
    (∀ st c args kwn kwv e' c', callSelectCk fuel st c args kwn kwv = .ok (e', c') →
        Sem w st (.call (.name "Select") args kwn kwv) e') ∧
    (∀ st c args kwn kwv e' c', callSelectManyCk fuel st c args kwn kwv = .ok (e', c') →
        Sem w st (.call (.name "SelectMany") args kwn kwv) e') ∧
    (∀ st c args kwn kwv e' c', callWhereCk fuel st c args kwn kwv = .ok (e', c') →
        Sem w st (.call (.name "Where") args kwn kwv) e') := by
  intro fuel
  induction fuel with
  | zero =>
    refine ⟨?_, ?_, ?_, ?_, ?_⟩ <;> intros <;> rename_i h <;> simp [simpCk, simpLCk, callSelectCk, callSelectManyCk, callWhereCk] at h
  | succ fuel ih =>
    obtain ⟨ihS, ihL, ihSel, ihMany, ihWhere⟩ := ih
    refine ⟨?_, ?_, ?_, ?_, ?_⟩
    · -- simpCk
      intro st c e e' c' h
      cases e with
      | name x =>
        simp only [simpCk, Except.ok.injEq, Prod.mk.injEq] at h
        obtain ⟨rfl, _⟩ := h
        exact sem_name st x
      | const k =>
        simp only [simpCk, Except.ok.injEq, Prod.mk.injEq] at h
        obtain ⟨rfl, _⟩ := h
        exact sem_const st k
      | lam ps b =>
        simp only [simpCk] at h
        cases hm : makeArgsUniqueCk ps b c st with
        | error e => simp [hm, bind, Except.bind] at h
        | ok r =>
          obtain ⟨ps', b', c1⟩ := r
          simp only [hm, bind, Except.bind] at h
          cases hb : simpCk fuel st c1 b' with
          | error e => simp [hb] at h
          | ok r2 =>
            obtain ⟨b'', c2⟩ := r2
            simp only [hb, pure, Except.pure, Except.ok.injEq, Prod.mk.injEq] at h
            obtain ⟨rfl, _⟩ := h
            obtain ⟨rfl, _, _, hf⟩ := makeArgsUniqueCk_ok hm
            exact sem_lam hw hf (ihS _ _ _ _ _ hb)
      | tuple es =>
        simp only [simpCk] at h
        cases hl : simpLCk fuel st c es with
        | error e => simp [hl, bind, Except.bind] at h
        | ok r =>
          obtain ⟨es', c1⟩ := r
          simp only [hl, bind, Except.bind, pure, Except.pure, Except.ok.injEq, Prod.mk.injEq] at h
          obtain ⟨rfl, _⟩ := h
          exact sem_tuple (ihL _ _ _ _ _ hl).1
      | list es =>
        simp only [simpCk] at h
        cases hl : simpLCk fuel st c es with
        | error e => simp [hl, bind, Except.bind] at h
        | ok r =>
          obtain ⟨es', c1⟩ := r
          simp only [hl, bind, Except.bind, pure, Except.pure, Except.ok.injEq, Prod.mk.injEq] at h
          obtain ⟨rfl, _⟩ := h
          exact sem_list (ihL _ _ _ _ _ hl).1
      | dict ks vs =>
        simp only [simpCk] at h
        cases hl : simpLCk fuel st c ks with
        | error e => simp [hl, bind, Except.bind] at h
        | ok r =>
          obtain ⟨ks', c1⟩ := r
          simp only [hl, bind, Except.bind] at h
          cases hl2 : simpLCk fuel st c1 vs with
          | error e => simp [hl2] at h
          | ok r2 =>
            obtain ⟨vs', c2⟩ := r2
            simp only [hl2, pure, Except.pure, Except.ok.injEq, Prod.mk.injEq] at h
            obtain ⟨rfl, _⟩ := h
            exact sem_dict (ihL _ _ _ _ _ hl).1 (ihL _ _ _ _ _ hl2).1
      | op k args =>
        simp only [simpCk] at h
        cases hl : simpLCk fuel st c args with
        | error e => simp [hl, bind, Except.bind] at h
        | ok r =>
          obtain ⟨es', c1⟩ := r
          simp only [hl, bind, Except.bind, pure, Except.pure, Except.ok.injEq, Prod.mk.injEq] at h
          obtain ⟨rfl, _⟩ := h
          exact sem_op k (ihL _ _ _ _ _ hl).1
      | comp kind el t i ifs a => simp [simpCk] at h
      | attr v a =>
        simp only [simpCk] at h
        cases hfa : firstArg? v with
        | some o =>
          cases o with
          | some first =>
            simp only [hfa] at h
            obtain ⟨rest, k1, k2, rfl⟩ := firstArg?_some hfa
            exact sem_first_attr hw first rest k1 k2 a (argName c) e' (ihS _ _ _ _ _ h)
          | none => simp [hfa] at h
        | none =>
          simp only [hfa] at h
          cases hv : simpCk fuel st c v with
          | error x => simp [hv, bind, Except.bind] at h
          | ok r =>
            obtain ⟨v', c1⟩ := r
            simp only [hv, bind, Except.bind] at h
            have hsv := ihS _ _ _ _ _ hv
            split at h
            · rename_i ks vs
              split at h
              · rename_i r hd
                simp only [pure, Except.pure, Except.ok.injEq, Prod.mk.injEq] at h
                obtain ⟨rfl, _⟩ := h
                exact sem_attr_dict hw a r hsv hd
              · simp only [pure, Except.pure, Except.ok.injEq, Prod.mk.injEq] at h
                obtain ⟨rfl, _⟩ := h
                exact sem_attr hw a hsv
            · cases hfa2 : firstArg? v' with
              | some o =>
                cases o with
                | some first =>
                  simp only [hfa2] at h
                  split at h
                  · rename_i hguard
                    obtain ⟨rest, k1, k2, rfl⟩ := firstArg?_some hfa2
                    exact sem_attr_first hw first rest k1 k2 a (argName c1) e' hsv hguard (ihS _ _ _ _ _ h)
                  · cases h
                | none => simp [hfa2] at h
              | none =>
                simp only [hfa2, pure, Except.pure, Except.ok.injEq, Prod.mk.injEq] at h
                obtain ⟨rfl, _⟩ := h
                exact sem_attr hw a hsv
      | sub v s =>
        simp only [simpCk] at h
        cases hv : simpCk fuel st c v with
        | error x => simp [hv, bind, Except.bind] at h
        | ok r =>
          obtain ⟨v', c1⟩ := r
          simp only [hv, bind, Except.bind] at h
          cases hs : simpCk fuel st c1 s with
          | error x => simp [hs] at h
          | ok r2 =>
            obtain ⟨s', c2⟩ := r2
            simp only [hs] at h
            have hsv := ihS _ _ _ _ _ hv
            have hss := ihS _ _ _ _ _ hs
            -- the generic continuation
            have hgen : (match firstArg? v' with
                | some (some first) =>
                  if (!(fv s').contains (argName c2) &&
                      keyFree st (fcall "First" [makeSelect first (.lam [argName c2] (.sub (.name (argName c2)) s'))])) = true then
                    simpCk fuel st (c2 + 1) (fcall "First" [makeSelect first (.lam [argName c2] (.sub (.name (argName c2)) s'))])
                  else .error (sideErr "subscript pushed under First")
                | some Option.none => .error (.internal "IndexError")
                | Option.none => .ok (.sub v' s', c2)) = .ok (e', c') → Sem w st (.sub v s) e' := by
              intro hg
              cases hfa : firstArg? v' with
              | some o =>
                cases o with
                | some first =>
                  simp only [hfa] at hg
                  split at hg
                  · rename_i hguard
                    simp only [Bool.and_eq_true] at hguard
                    obtain ⟨rest, k1, k2, rfl⟩ := firstArg?_some hfa
                    exact sem_sub_first hw first rest k1 k2 (argName c2) e' hsv hss (contains_false_iff.mp hguard.1) hguard.2
                      (ihS _ _ _ _ _ hg)
                  · cases hg
                | none => simp [hfa] at hg
              | none =>
                simp only [hfa, Except.ok.injEq, Prod.mk.injEq] at hg
                obtain ⟨rfl, _⟩ := hg
                exact sem_sub hsv hss
            split at h
            · -- constant integer selector
              rename_i n
              split at h
              · rename_i es
                split at h
                · rename_i hn
                  split at h
                  · rename_i el hel
                    simp only [pure, Except.pure, Except.ok.injEq, Prod.mk.injEq] at h
                    obtain ⟨rfl, _⟩ := h
                    exact sem_sub_tuple hw hn hel hsv hss
                  · cases h
                · exact hgen h
              · rename_i es
                split at h
                · rename_i hn
                  split at h
                  · rename_i el hel
                    simp only [pure, Except.pure, Except.ok.injEq, Prod.mk.injEq] at h
                    obtain ⟨rfl, _⟩ := h
                    exact sem_sub_list hw hn hel hsv hss
                  · cases h
                · exact hgen h
              · rename_i ks vs
                split at h
                · rename_i r hd
                  simp only [pure, Except.pure, Except.ok.injEq, Prod.mk.injEq] at h
                  obtain ⟨rfl, _⟩ := h
                  exact sem_sub_dict hw (Or.inr ⟨n, rfl⟩) hd hsv hss
                · simp only [pure, Except.pure, Except.ok.injEq, Prod.mk.injEq] at h
                  obtain ⟨rfl, _⟩ := h
                  exact sem_sub hsv hss
              · exact hgen h
            · -- constant string selector
              rename_i k
              split at h
              · rename_i ks vs
                split at h
                · rename_i r hd
                  simp only [pure, Except.pure, Except.ok.injEq, Prod.mk.injEq] at h
                  obtain ⟨rfl, _⟩ := h
                  exact sem_sub_dict hw (Or.inl ⟨k, rfl⟩) hd hsv hss
                · simp only [pure, Except.pure, Except.ok.injEq, Prod.mk.injEq] at h
                  obtain ⟨rfl, _⟩ := h
                  exact sem_sub hsv hss
              · exact hgen h
            · exact hgen h
      | call f args kwn kwv =>
        -- the generic continuation
        have hgen0 : ∀ (head : Except Err (Expr × Nat)) (P : Prop) [Decidable P], (do
              let __x ← head
              let __x_1 ← simpLCk fuel st __x.snd args
              let __x_2 ← simpLCk fuel st __x_1.snd kwv
              if P then pure (Expr.call __x.fst __x_1.fst kwn __x_2.fst, __x_2.snd)
              else Except.error (sideErr "a substituted name in callee position")) = .ok (e', c') →
            (∀ f' c1, head = .ok (f', c1) → P → ∀ envM env, EnvRel w st envM env → HeadSem w envM env f f') →
            Sem w st (.call f args kwn kwv) e' := by
          intro head P _ hg hh
          cases hf : head with
          | error x => simp [hf, bind, Except.bind] at hg
          | ok r =>
            obtain ⟨f', c1⟩ := r
            simp only [hf, bind, Except.bind] at hg
            cases ha : simpLCk fuel st c1 args with
            | error x => simp [ha] at hg
            | ok r2 =>
              obtain ⟨as', c2⟩ := r2
              simp only [ha] at hg
              cases hk : simpLCk fuel st c2 kwv with
              | error x => simp [hk] at hg
              | ok r3 =>
                obtain ⟨ks', c3⟩ := r3
                simp only [hk] at hg
                by_cases hP : P
                · simp only [hP, if_true, pure, Except.pure, Except.ok.injEq, Prod.mk.injEq] at hg
                  obtain ⟨rfl, _⟩ := hg
                  exact sem_call_head hw kwn (hh _ _ hf hP) (ihL _ _ _ _ _ ha).1 (ihL _ _ _ _ _ hk).1
                · simp [hP] at hg
        have hgen : ∀ (P : Prop) [Decidable P], (do
              let __x ← simpCk fuel st c f
              let __x_1 ← simpLCk fuel st __x.snd args
              let __x_2 ← simpLCk fuel st __x_1.snd kwv
              if P then pure (Expr.call __x.fst __x_1.fst kwn __x_2.fst, __x_2.snd)
              else Except.error (sideErr "a substituted name in callee position")) = .ok (e', c') →
            (P → headable st f) → Sem w st (.call f args kwn kwv) e' := by
          intro P _ hg hh
          exact hgen0 _ P hg (fun f' c1 hf hP => (ihS _ _ _ _ _ hf).head (hh hP))
        cases f with
        | lam ps body =>
          simp only [simpCk] at h
          split at h
          · rename_i hc
            exact sem_called_uninlinable ps body args kwn kwv e' hc
          · cases hm : makeArgsUniqueCk ps body c st with
            | error x => simp [hm, bind, Except.bind] at h
            | ok r =>
              obtain ⟨ps', body', c1⟩ := r
              simp only [hm, bind, Except.bind] at h
              cases ha : simpLCk fuel st c1 args with
              | error x => simp [ha] at h
              | ok r2 =>
                obtain ⟨as', c2⟩ := r2
                simp only [ha] at h
                cases hk : simpLCk fuel st c2 kwv with
                | error x => simp [hk] at h
                | ok r3 =>
                  obtain ⟨ks', c3⟩ := r3
                  simp only [hk] at h
                  split at h
                  · obtain ⟨rfl, _, _, hf⟩ := makeArgsUniqueCk_ok hm
                    exact sem_called_lambda hw ps ps' body e' args as' kwv ks' kwn hf (ihL _ _ _ _ _ ha).1 (ihL _ _ _ _ _ hk).1
                      (ihL _ _ _ _ _ ha).2 (ihL _ _ _ _ _ hk).2 (ihS _ _ _ _ _ h)
                  · cases h
        | attr v m =>
          simp only [simpCk] at h
          cases hfa : firstArg? v with
          | some o =>
            cases o with
            | some seq =>
              simp only [hfa] at h
              split at h
              · rename_i hguard
                simp only [Bool.and_eq_true] at hguard
                obtain ⟨rest, k1, k2, rfl⟩ := firstArg?_some hfa
                exact sem_first_method hw seq rest k1 k2 m args kwn kwv (argName c) e'
                  (contains_false_iff.mp hguard.1) (contains_false_iff.mp hguard.2) (ihS _ _ _ _ _ h)
              · cases h
            | none => simp [hfa] at h
          | none =>
            simp only [hfa] at h
            refine hgen0 _ _ h ?_
            intro f' c1 hf hm envM env hr
            cases hv : simpCk fuel st c v with
            | error x => simp [hv, bind, Except.bind] at hf
            | ok r =>
              obtain ⟨v', c0⟩ := r
              simp only [hv, bind, Except.bind] at hf
              have hsv := ihS _ _ _ _ _ hv
              have hm' : m ∈ opNames → m ∈ builtinOps := by
                intro h1
                simp only [Bool.or_eq_true, Bool.not_eq_true', List.contains_eq_mem, decide_eq_false_iff_not,
                  decide_eq_true_eq] at hm
                rcases hm with h2 | h2
                · exact absurd h1 h2
                · exact h2
              split at hf
              · rename_i ks vs
                split at hf
                · rename_i r hd
                  simp only [pure, Except.pure, Except.ok.injEq, Prod.mk.injEq] at hf
                  obtain ⟨rfl, _⟩ := hf
                  exact headSem_attr_dict m _ hsv hm' hr
                · simp only [pure, Except.pure, Except.ok.injEq, Prod.mk.injEq] at hf
                  obtain ⟨rfl, _⟩ := hf
                  exact headSem_attr hw m hsv hr
              · simp only [pure, Except.pure, Except.ok.injEq, Prod.mk.injEq] at hf
                obtain ⟨rfl, _⟩ := hf
                exact headSem_attr hw m hsv hr
        | name n =>
          simp only [simpCk] at h
          split at h
          · rename_i hn; subst hn; exact ihSel _ _ _ _ _ _ _ h
          · split at h
            · rename_i hn; subst hn; exact ihMany _ _ _ _ _ _ _ h
            · split at h
              · rename_i hn; subst hn; exact ihWhere _ _ _ _ _ _ _ h
              · exact hgen _ h (fun hk => by simpa [headable] using hk)
        | const k => simp only [simpCk] at h; exact hgen _ h (fun _ => by simp [headable])
        | sub v s => simp only [simpCk] at h; exact hgen _ h (fun _ => by simp [headable])
        | tuple es => simp only [simpCk] at h; exact hgen _ h (fun _ => by simp [headable])
        | list es => simp only [simpCk] at h; exact hgen _ h (fun _ => by simp [headable])
        | dict ks vs => simp only [simpCk] at h; exact hgen _ h (fun _ => by simp [headable])
        | op k es => simp only [simpCk] at h; exact hgen _ h (fun _ => by simp [headable])
        | comp kind el t i ifs a => simp only [simpCk] at h; exact hgen _ h (fun _ => by simp [headable])
        | call f2 a2 k2 v2 => simp only [simpCk] at h; exact hgen _ h (fun _ => by simp [headable])
    · -- simpLCk
      intro st c es es' c' h
      cases es with
      | nil =>
        simp only [simpLCk, Except.ok.injEq, Prod.mk.injEq] at h
        obtain ⟨rfl, _⟩ := h
        exact ⟨semL_nil st, rfl⟩
      | cons e es =>
        simp only [simpLCk] at h
        cases he : simpCk fuel st c e with
        | error x => simp [he, bind, Except.bind] at h
        | ok r =>
          obtain ⟨e1, c1⟩ := r
          simp only [he, bind, Except.bind] at h
          cases hes : simpLCk fuel st c1 es with
          | error x => simp [hes] at h
          | ok r2 =>
            obtain ⟨es1, c2⟩ := r2
            simp only [hes, pure, Except.pure, Except.ok.injEq, Prod.mk.injEq] at h
            obtain ⟨rfl, _⟩ := h
            have := ihL _ _ _ _ _ hes
            exact ⟨semL_cons hw (ihS _ _ _ _ _ he) this.1, by simp [this.2]⟩
    · -- callSelectCk
      intro st c args kwn kwv e' c' h
      match args, h with
      | [], h => simp [callSelectCk] at h
      | [_], h => simp [callSelectCk] at h
      | source :: transform :: rest, h =>
        simp only [callSelectCk] at h
        split at h
        · cases h
        · rename_i hlt
          obtain ⟨gps, gb, rfl⟩ := isLam_true (by simpa using hlt)
          cases hp : simpCk fuel st c source with
          | error x => simp [hp, bind, Except.bind] at h
          | ok r =>
            obtain ⟨parent, c1⟩ := r
            simp only [hp, bind, Except.bind] at h
            have hsp := ihS _ _ _ _ _ hp
            split at h
            · cases h
            · rename_i hkf
              have hkf' : keyFree st parent = true := by simpa using hkf
              apply sem_op_call (Or.inl rfl)
              intro envM env hr
              -- the default continuation
              have hdflt : (do
                    let __x ← simpCk fuel st c1 (Expr.lam gps gb)
                    pure (makeSelect parent __x.fst, __x.snd)) = .ok (e', c') →
                  RLe (denLz w (fcall "Select" [source, .lam gps gb]) envM) (denLz w e' env) := by
                intro hd
                cases ht : simpCk fuel st c1 (.lam gps gb) with
                | error x => simp [ht, bind, Except.bind] at hd
                | ok r2 =>
                  obtain ⟨sel, c2⟩ := r2
                  simp only [ht, bind, Except.bind, pure, Except.pure, Except.ok.injEq, Prod.mk.injEq] at hd
                  obtain ⟨rfl, _⟩ := hd
                  exact select_default hw hsp (ihS _ _ _ _ _ ht) hr
              split at h
              · rename_i n pargs hoc
                obtain ⟨k1, k2, rfl⟩ := opCall?_some hoc
                split at h
                · rename_i hn; subst hn
                  split at h
                  · rename_i src f prest
                    split at h
                    · cases h
                    · rename_i hlf
                      cases hcv : convoluteCk (.lam gps gb) f c1 st with
                      | error x => simp [hcv, bind, Except.bind] at h
                      | ok r2 =>
                        obtain ⟨conv, c2⟩ := r2
                        simp only [hcv, bind, Except.bind] at h
                        cases hsel : simpCk fuel st c2 conv with
                        | error x => simp [hsel] at h
                        | ok r3 =>
                          obtain ⟨sel, c3⟩ := r3
                          simp only [hsel, pure, Except.pure, Except.ok.injEq, Prod.mk.injEq] at h
                          obtain ⟨rfl, _⟩ := h
                          exact select_select hw k1 k2 prest hsp hkf' (convoluteCk_ok hcv) (ihS _ _ _ _ _ hsel) hr
                  · cases h
                · split at h
                  · rename_i hn; subst hn
                    split at h
                    · rename_i src f prest
                      split at h
                      · rename_i fps fb
                        split at h
                        · rename_i hdj
                          exact select_selectMany hw fps k1 k2 prest hsp hkf' (disjoint_iff.mp hdj) (ihS _ _ _ _ _ h) hr
                        · cases h
                      · cases h
                    · cases h
                  · exact hdflt h
              · exact hdflt h
    · -- callSelectManyCk
      intro st c args kwn kwv e' c' h
      match args, h with
      | [], h => simp [callSelectManyCk] at h
      | [_], h => simp [callSelectManyCk] at h
      | source :: selection :: rest, h =>
        simp only [callSelectManyCk] at h
        split at h
        · cases h
        · rename_i hlt
          obtain ⟨gps, gb, rfl⟩ := isLam_true (by simpa using hlt)
          cases hp : simpCk fuel st c source with
          | error x => simp [hp, bind, Except.bind] at h
          | ok r =>
            obtain ⟨parent, c1⟩ := r
            simp only [hp, bind, Except.bind] at h
            have hsp := ihS _ _ _ _ _ hp
            split at h
            · cases h
            · rename_i hkf
              have hkf' : keyFree st parent = true := by simpa using hkf
              apply sem_op_call (Or.inr (Or.inr rfl))
              intro envM env hr
              have hdflt : (do
                    let __x ← simpCk fuel st c1 (Expr.lam gps gb)
                    pure (fcall "SelectMany" [parent, __x.fst], __x.snd)) = .ok (e', c') →
                  RLe (denLz w (fcall "SelectMany" [source, .lam gps gb]) envM) (denLz w e' env) := by
                intro hd
                cases ht : simpCk fuel st c1 (.lam gps gb) with
                | error x => simp [ht, bind, Except.bind] at hd
                | ok r2 =>
                  obtain ⟨sel, c2⟩ := r2
                  simp only [ht, bind, Except.bind, pure, Except.pure, Except.ok.injEq, Prod.mk.injEq] at hd
                  obtain ⟨rfl, _⟩ := hd
                  exact selectMany_default hw hsp (ihS _ _ _ _ _ ht) hr
              split at h
              · rename_i n pargs hoc
                obtain ⟨k1, k2, rfl⟩ := opCall?_some hoc
                split at h
                · rename_i hn; subst hn
                  split at h
                  · rename_i seq f
                    split at h
                    · rename_i p prest fb
                      split at h
                      · rename_i hg
                        simp only [Bool.and_eq_true, List.isEmpty_iff] at hg
                        obtain ⟨hg1, rfl⟩ := hg
                        exact selectMany_selectMany hw p k1 k2 hsp hkf' (contains_false_iff.mp hg1) (ihS _ _ _ _ _ h) hr
                      · cases h
                    · cases h
                    · cases h
                  · cases h
                · split at h
                  · rename_i hn; subst hn
                    split at h
                    · rename_i seq f
                      split at h
                      · cases h
                      · cases hcv : convoluteCk (.lam gps gb) f c1 st with
                        | error x => simp [hcv, bind, Except.bind] at h
                        | ok r2 =>
                          obtain ⟨conv, c2⟩ := r2
                          simp only [hcv, bind, Except.bind] at h
                          cases hsel : simpCk fuel st c2 conv with
                          | error x => simp [hsel] at h
                          | ok r3 =>
                            obtain ⟨sel, c3⟩ := r3
                            simp only [hsel, pure, Except.pure, Except.ok.injEq, Prod.mk.injEq] at h
                            obtain ⟨rfl, _⟩ := h
                            exact selectMany_select hw k1 k2 hsp hkf' (convoluteCk_ok hcv) (ihS _ _ _ _ _ hsel) hr
                    · cases h
                  · exact hdflt h
              · exact hdflt h
    · -- callWhereCk
      intro st c args kwn kwv e' c' h
      match args, h with
      | [], h => simp [callWhereCk] at h
      | [_], h => simp [callWhereCk] at h
      | source :: filter :: rest, h =>
        simp only [callWhereCk] at h
        split at h
        · cases h
        · rename_i hlt
          obtain ⟨gps, gb, rfl⟩ := isLam_true (by simpa using hlt)
          cases hp : simpCk fuel st c source with
          | error x => simp [hp, bind, Except.bind] at h
          | ok r =>
            obtain ⟨parent, c1⟩ := r
            simp only [hp, bind, Except.bind] at h
            have hsp := ihS _ _ _ _ _ hp
            split at h
            · cases h
            · rename_i hkf
              have hkf' : keyFree st parent = true := by simpa using hkf
              apply sem_op_call (Or.inr (Or.inl rfl))
              intro envM env hr
              have hdflt : (do
                    let __x ← simpCk fuel st c1 (Expr.lam gps gb)
                    if lambdaIsTrue __x.fst = true then pure (parent, __x.snd)
                    else pure (fcall "Where" [parent, __x.fst], __x.snd)) = .ok (e', c') →
                  RLe (denLz w (fcall "Where" [source, .lam gps gb]) envM) (denLz w e' env) := by
                intro hd
                cases ht : simpCk fuel st c1 (.lam gps gb) with
                | error x => simp [ht, bind, Except.bind] at hd
                | ok r2 =>
                  obtain ⟨f', c2⟩ := r2
                  simp only [ht, bind, Except.bind] at hd
                  have := where_default hw hsp (ihS _ _ _ _ _ ht) hr
                  split at hd
                  · rename_i hlt'
                    simp only [pure, Except.pure, Except.ok.injEq, Prod.mk.injEq] at hd
                    obtain ⟨rfl, _⟩ := hd
                    simpa [hlt'] using this
                  · rename_i hlt'
                    simp only [pure, Except.pure, Except.ok.injEq, Prod.mk.injEq] at hd
                    obtain ⟨rfl, _⟩ := hd
                    simpa [hlt'] using this
              split at h
              · rename_i n pargs hoc
                obtain ⟨k1, k2, rfl⟩ := opCall?_some hoc
                split at h
                · rename_i hn; subst hn
                  split at h
                  · rename_i src f prest
                    split at h
                    · cases h
                    · rename_i hlf
                      obtain ⟨fps, fb, rfl⟩ := isLam_true (by simpa using hlf)
                      split at h
                      · rename_i hg
                        simp only [Bool.and_eq_true] at hg
                        exact where_where hw fps gps fb gb (argName c1) k1 k2 prest rfl hsp hkf'
                          (contains_false_iff.mp hg.1) (contains_false_iff.mp hg.2) (ihS _ _ _ _ _ h) hr
                      · cases h
                  · cases h
                · split at h
                  · rename_i hn; subst hn
                    split at h
                    · rename_i src f prest
                      split at h
                      · cases h
                      · cases hcv : convoluteCk (.lam gps gb) f c1 st with
                        | error x => simp [hcv, bind, Except.bind] at h
                        | ok r2 =>
                          obtain ⟨conv, c2⟩ := r2
                          simp only [hcv, bind, Except.bind] at h
                          cases hwx : simpCk fuel st c2 conv with
                          | error x => simp [hwx] at h
                          | ok r3 =>
                            obtain ⟨wexp, c3⟩ := r3
                            simp only [hwx] at h
                            split at h
                            · rename_i hkr
                              exact where_select hw k1 k2 prest hsp hkf' (convoluteCk_ok hcv) (ihS _ _ _ _ _ hwx) hkr
                                (ihS _ _ _ _ _ h) hr
                            · cases h
                    · cases h
                  · split at h
                    · rename_i hn; subst hn
                      split at h
                      · rename_i seq f prest
                        split at h
                        · rename_i fps fb
                          split at h
                          · rename_i hdj
                            exact where_selectMany hw fps k1 k2 prest hsp hkf' (disjoint_iff.mp hdj) (ihS _ _ _ _ _ h) hr
                          · cases h
                        · cases h
                      · cases h
                    · exact hdflt h
              · exact hdflt h

/-- the initial environments: no stack frame, a well-formed environment -/
theorem envRel_init (env : Env) (henv : EnvLe env env) : EnvRel w [[]] env env := by
  refine ⟨henv, fun _ _ => rfl, ?_⟩
  intro k a hl
  simp [stackLookup, frameLookup] at hl

/-- **C02 (checked model)**: whenever the original query evaluates under deferred execution in a well-formed
    environment, the simplified query evaluates too, to a refinement of the original's value … -/
theorem simplifyCk_refines (hw : WorldOK w) (fuel c : Nat) (e e' : Expr) (c' : Nat)
    (h : simplifyCk fuel c e = .ok (e', c')) (env : Env) (henv : EnvLe env env) :
    RLe (denLz w e env) (denLz w e' env) :=
  ((simpCk_sound hw fuel).1 [[]] _ e e' c' h).val env env (envRel_init env henv)

/-- … and to the very same value when the original's value contains no deferred failure. -/
theorem simplifyCk_preserves (hw : WorldOK w) (fuel c : Nat) (e e' : Expr) (c' : Nat)
    (h : simplifyCk fuel c e = .ok (e', c')) (env : Env) (henv : EnvLe env env) (v : Val)
    (hv : evLz w env e = .ok v) (hclean : v.clean = true) : evLz w env e' = .ok v := by
  obtain ⟨v', hv', hvv⟩ := simplifyCk_refines hw fuel c e e' c' h env henv v hv
  rw [VLe.eq_of_clean hclean hvv] at hv'
  exact hv'

/-! ### the hypotheses are satisfiable -/

/-- a world whose functions return integers is well behaved -/
example : WorldOK { method := fun _ _ _ _ _ => .ok (.int 0), func := fun _ _ _ _ => .ok (.int 1) } :=
  ⟨fun _ _ _ _ v _ _ h => by cases h; simp [VLe], fun _ _ _ _ _ v _ _ _ h => by cases h; simp [VLe]⟩

/-- an environment binding a dataset of records is well formed -/
example : EnvLe (Env.empty.upd "ds" (.list [.obj "E" ["met"] [.int 3], .obj "E" ["met"] [.int 5]]))
    (Env.empty.upd "ds" (.list [.obj "E" ["met"] [.int 3], .obj "E" ["met"] [.int 5]])) := by
  intro x v h
  simp only [Env.upd] at h ⊢
  split at h
  · rename_i hx; cases h; exact ⟨.list [.obj "E" ["met"] [.int 3], .obj "E" ["met"] [.int 5]], by simp [hx], by simp [VLe, VLeL, VLeS]⟩
  · simp [Env.empty] at h

/-- the checked simplifier succeeds on a concrete projection (and thousands of generated queries on every run of the
    C02 / C14 / C18 checks, where its output is compared with the implementation's) -/
example : simplifyCk 9 0 (.sub (.tuple [.name "a", .name "b"]) (.const (.int 0))) = .ok (.name "a", 0) := by
  have hn : nextArg (.sub (.tuple [.name "a", .name "b"]) (.const (.int 0))) = 0 := by decide +kernel
  simp [simplifyCk, hn, simpCk, simpLCk, stackLookup, frameLookup, bind, Except.bind, pure, Except.pure]

/-- the outermost visit reserves the names of the form `arg_N` the query already holds: the counter starts past them -/
example : nextArg (.lam ["x"] (.call (.name "Select") [.attr (.name "x") "jets",
    .lam ["arg_0"] (.tuple [.attr (.name "arg_0") "pt", .attr (.name "arg_7") "met"])] [] [])) = 8 := by decide +kernel

end Fadl
