/-
  C02 — soundness, part 2: an explicitly called lambda whose parameters are bound to arguments (positionally and
  by keyword) is replaced by its body, evaluated under a new stack frame.
-/
import Fadl.Props.C02Sound
import Fadl.Lemmas.BindFrame
namespace Fadl
set_option linter.unusedSimpArgs false

variable {w : World}

theorem zip_zip_left {α β γ : Type} (A : List α) (B : List β) (C : List γ) (h : B.length ≤ C.length) :
    A.zip B = (A.zip (B.zip C)).map (fun t => (t.1, t.2.1)) := by
  have : B = (B.zip C).map Prod.fst := (List.map_fst_zip h).symm
  conv => lhs; rw [this]
  rw [List.zip_map_right]
  simp [Prod.map]

theorem zip_zip_right {α β γ : Type} (A : List α) (B : List β) (C : List γ) (h : C.length ≤ B.length) :
    A.zip C = (A.zip (B.zip C)).map (fun t => (t.1, t.2.2)) := by
  have : C = (B.zip C).map Prod.snd := (List.map_snd_zip h).symm
  conv => lhs; rw [this]
  rw [List.zip_map_right]
  simp [Prod.map]

/-- the entries of `A.zip (B.zip C)` are index-aligned -/
theorem mem_zip3 {α β γ : Type} {A : List α} {B : List β} {C : List γ} {t : α × β × γ} (h : t ∈ A.zip (B.zip C)) :
    ∃ i : Nat, A[i]? = some t.1 ∧ B[i]? = some t.2.1 ∧ C[i]? = some t.2.2 := by
  rw [List.mem_iff_getElem?] at h
  obtain ⟨i, hi⟩ := h
  rw [List.getElem?_zip_eq_some] at hi
  obtain ⟨h1, h2⟩ := hi
  rw [List.getElem?_zip_eq_some] at h2
  exact ⟨i, h1, h2.1, h2.2⟩

/-- the arguments' values are refined by the values of the simplified arguments, index by index -/
theorem args_related (hw : WorldOK w) {st : SStack} {args as' : List Expr} (ha : SemL w st args as') {envM env : Env}
    (hr : EnvRel w st envM env) (vs : List Val) (hvs : evalAll (denLLz w args) envM = .ok vs) :
    ∀ (i : Nat) (v : Val) (a : Expr), vs[i]? = some v → as'[i]? = some a → ∃ v', denLz w a env = .ok v' ∧ VLe v v' := by
  obtain ⟨vs', hvs', hvv⟩ := evalAll_rel (ha envM env hr).1 vs hvs
  intro i v a hv ha'
  obtain ⟨x, hx, hax⟩ := evalAll_get w env as' vs' hvs' i a ha'
  obtain ⟨b, hb, hvb⟩ := VLeS.get i v hvv hv
  rw [hx] at hb; cases hb
  exact ⟨x, hax, hvb⟩

theorem evalAll_wf (hw : WorldOK w) (es : List Expr) (E : Env) (hE : EnvLe E E) (vs : List Val)
    (h : evalAll (denLLz w es) E = .ok vs) : ∀ v ∈ vs, VLe v v := by
  have hself := ((denLz_mono_both w hw).2 es E E hE hE).1
  obtain ⟨vs', hvs', hvv⟩ := evalAll_rel hself vs h
  rw [h] at hvs'; cases hvs'
  intro v hv
  obtain ⟨i, hi⟩ := List.mem_iff_getElem?.mp hv
  obtain ⟨b, hb, hvb⟩ := VLeS.get i v hvv hi
  exact hvb.lrefl

theorem simp_length_zip {α β : Type} (A : List α) (B : List β) : (A.zip B).map (·.1) = A.take B.length := by
  induction A generalizing B with
  | nil => simp
  | cons a A ih =>
    cases B with
    | nil => simp
    | cons b B => simp [ih]

/-- **called lambda**: the clause of the visitor that inlines `(lambda ps: body)(args, kw=…)` -/
theorem sem_called_lambda (hw : WorldOK w) {st : SStack} (ps ps' : List String) (body out : Expr)
    (args as' kwv ks' : List Expr) (kwn : List String)
    (hf : FreshFor ps' ps body st)
    (ha : SemL w st args as') (hk : SemL w st kwv ks')
    (hlenA : as'.length = args.length) (hlenK : ks'.length = kwv.length)
    (ih : Sem w ((((ps'.take args.length).zip as') ++
        (kwn.zip ks').map (fun p => ((renGet p.1 (ps.zip ps')).getD p.1, p.2))) :: st)
        (renameNames ((ps.zip ps').reverse) body) out) :
    Sem w st (.call (.lam ps body) args kwn kwv) out := by
  apply Sem.of_nonlam rfl
  · intro envM env hr outv ho
    -- the original: evaluate the arguments, bind, evaluate the body
    simp only [denLz, denHeadLz, callSemLz] at ho
    cases hvs : evalAll (denLLz w args) envM with
    | error e => simp [hvs, bind, Except.bind] at ho
    | ok vs =>
      cases hkvs : evalAll (denLLz w kwv) envM with
      | error e => simp [hvs, hkvs, bind, Except.bind] at ho
      | ok kvs =>
        cases hbp : bindParams ps vs kwn kvs envM with
        | error e => simp [hvs, hkvs, hbp, bind, Except.bind] at ho
        | ok env1 =>
          simp only [hvs, hkvs, hbp, bind, Except.bind] at ho
          obtain ⟨hdp, hle, hkl, henv1, hkin, hrestin, hdk⟩ := bindParams_char ps vs kwn kvs envM env1 hbp
          have hvlen : vs.length = args.length := evalAll_length w envM args vs hvs
          have hkvlen : kvs.length = kwv.length := evalAll_length w envM kwv kvs hkvs
          rw [hvlen] at hle henv1 hkin hrestin
          let ρ : String → String := fun k => (renGet k (ps.zip ps')).getD k
          -- triples (old key, value, simplified argument)
          let T : List (String × Val × Expr) :=
            ((ps.take args.length).zip (vs.zip as')) ++ (kwn.zip (kvs.zip ks'))
          have hbinds : ((ps.take args.length).zip vs) ++ (kwn.zip kvs) = T.map (fun t => (t.1, t.2.1)) := by
            simp only [T, List.map_append]
            rw [← zip_zip_left _ vs as' (by omega), ← zip_zip_left _ kvs ks' (by omega)]
          -- ρ on the parameters
          have hρ : ∀ (i : Nat) (p n : String), ps[i]? = some p → ps'[i]? = some n → ρ p = n := by
            intro i p n hp hn
            simp only [ρ, renGet_zip_fwd ps ps' hdp i p n hp hn, Option.getD_some]
          have hρmem : ∀ p ∈ ps, ρ p ∈ ps' := by
            intro p hp
            obtain ⟨i, hi⟩ := List.mem_iff_getElem?.mp hp
            have hlt : i < ps'.length := by
              have := (List.getElem?_eq_some_iff.mp hi).1; rw [hf.len]; exact this
            rw [hρ i p _ hi (List.getElem?_eq_getElem hlt)]
            exact List.getElem_mem hlt
          have hρinj : ∀ p ∈ ps, ∀ q ∈ ps, ρ p = ρ q → p = q := by
            intro p hp q hq hpq
            obtain ⟨i, hi⟩ := List.mem_iff_getElem?.mp hp
            obtain ⟨j, hj⟩ := List.mem_iff_getElem?.mp hq
            have hilt : i < ps'.length := by
              have := (List.getElem?_eq_some_iff.mp hi).1; rw [hf.len]; exact this
            have hjlt : j < ps'.length := by
              have := (List.getElem?_eq_some_iff.mp hj).1; rw [hf.len]; exact this
            rw [hρ i p _ hi (List.getElem?_eq_getElem hilt), hρ j q _ hj (List.getElem?_eq_getElem hjlt)] at hpq
            have hij : i = j := distinctS_index hf.dn i j _ (List.getElem?_eq_getElem hilt) (by rw [hpq]; exact List.getElem?_eq_getElem hjlt)
            subst hij
            rw [hi] at hj; cases hj; rfl
          -- the keys of T are parameters
          have hTkeys : ∀ t ∈ T, t.1 ∈ ps := by
            intro t ht
            simp only [T, List.mem_append] at ht
            rcases ht with ht | ht
            · exact List.mem_of_mem_take (List.of_mem_zip ht).1
            · exact List.mem_of_mem_drop (hkin _ (List.of_mem_zip ht).1)
          -- every parameter is a key of T
          have hallbound : ∀ p ∈ ps, p ∈ (T.map (fun t => (t.1, t.2.1))).map (·.1) := by
            intro p hp
            rw [← hbinds, List.map_append, List.mem_append, simp_length_zip, simp_length_zip]
            rw [← List.take_append_drop args.length ps] at hp
            rcases List.mem_append.mp hp with h | h
            · left; rw [hvlen, List.take_take]; simpa using h
            · right; rw [← hkl, List.take_length]; exact hrestin p h
          -- the frame the visitor pushed is T with renamed keys and the simplified arguments
          have hframe : ((ps'.take args.length).zip as') ++
              (kwn.zip ks').map (fun p => ((renGet p.1 (ps.zip ps')).getD p.1, p.2)) = T.map (fun t => (ρ t.1, t.2.2)) := by
            simp only [T, List.map_append]
            congr 1
            · rw [zip_zip_right _ vs as' (by omega)]
              -- index-wise: the i-th new name is ρ of the i-th parameter
              apply List.ext_getElem?
              intro i
              simp only [List.getElem?_map]
              cases h1 : ((ps'.take args.length).zip (vs.zip as'))[i]? with
              | none =>
                have : ((ps.take args.length).zip (vs.zip as'))[i]? = Option.none := by
                  rw [List.getElem?_eq_none_iff] at h1 ⊢
                  simp only [List.length_zip, List.length_take] at h1 ⊢
                  rw [hf.len] at h1; exact h1
                simp [this]
              | some t =>
                rw [List.getElem?_zip_eq_some] at h1
                obtain ⟨ha1, ha2⟩ := h1
                have hilt : i < args.length ∧ ps'[i]? = some t.1 := by
                  rw [List.getElem?_take] at ha1
                  split at ha1
                  · rename_i h; exact ⟨h, ha1⟩
                  · cases ha1
                have hips : i < ps.length := by omega
                have h2 : ((ps.take args.length).zip (vs.zip as'))[i]? = some (ps[i], t.2) := by
                  rw [List.getElem?_zip_eq_some]
                  refine ⟨?_, ha2⟩
                  rw [List.getElem?_take]; simp [hilt.1, hips]
                simp only [h2, Option.map_some, Function.comp]
                rw [hρ i ps[i] t.1 (List.getElem?_eq_getElem hips) hilt.2]
            · rw [zip_zip_right _ kvs ks' (by omega), List.map_map]
              rfl
          -- the environment of the renamed body
          let envM2 : Env := overlay (T.map (fun t => (ρ t.1, t.2.1))) envM
          have hvwf : ∀ t ∈ T, VLe t.2.1 t.2.1 := by
            intro t ht
            simp only [T, List.mem_append] at ht
            rcases ht with ht | ht
            · exact evalAll_wf hw args envM hr.wfM vs hvs _ (List.of_mem_zip (List.of_mem_zip ht).2).1
            · exact evalAll_wf hw kwv envM hr.wfM kvs hkvs _ (List.of_mem_zip (List.of_mem_zip ht).2).1
          have hM2wf : EnvLe envM2 envM2 := by
            apply overlay_wf _ _ hr.wfM
            intro p hp
            obtain ⟨t, ht, rfl⟩ := List.mem_map.mp hp
            exact hvwf t ht
          have hkeys2 : ∀ y, y ∈ (T.map (fun t => (ρ t.1, t.2.1))).map (·.1) → y ∈ ps' := by
            intro y hy
            simp only [List.map_map, List.mem_map, Function.comp] at hy
            obtain ⟨t, ht, rfl⟩ := hy
            exact hρmem _ (hTkeys t ht)
          -- each value is refined by the value of its simplified argument
          have hrelA := args_related hw ha hr vs hvs
          have hrelK := args_related hw hk hr kvs hkvs
          have hTrel : ∀ t ∈ T, ∃ v', denLz w t.2.2 env = .ok v' ∧ VLe t.2.1 v' := by
            intro t ht
            simp only [T, List.mem_append] at ht
            rcases ht with ht | ht
            · obtain ⟨i, _, h2, h3⟩ := mem_zip3 ht; exact hrelA i _ _ h2 h3
            · obtain ⟨i, _, h2, h3⟩ := mem_zip3 ht; exact hrelK i _ _ h2 h3
          -- lookups through ρ
          have hlook : ∀ p ∈ ps, assocLast (ρ p) (T.map (fun t => (ρ t.1, t.2.1))) = assocLast p (T.map (fun t => (t.1, t.2.1))) := by
            intro p hp
            have := assocLast_mapKeys ρ p (T.map (fun t => (t.1, t.2.1))) (by
              intro k hk hkk
              simp only [List.map_map, List.mem_map, Function.comp] at hk
              obtain ⟨t, ht, rfl⟩ := hk
              exact hρinj _ (hTkeys t ht) _ hp hkk)
            rw [List.map_map] at this
            exact this
          -- 1. the body in the bound environment is refined by the renamed body in envM2
          have hren : RLe (denLz w body env1) (denLz w (renameNames ((ps.zip ps').reverse) body) envM2) := by
            apply rename_params w hw hf env1 envM2 hM2wf
            · intro i p n hp hn v hv
              have hpin : p ∈ ps := List.mem_of_getElem? hp
              rw [← hρ i p n hp hn]
              rw [henv1, hbinds, overlay_lookup] at hv
              show ∃ v', overlay _ envM (ρ p) = some v' ∧ VLe v v'
              rw [overlay_lookup, hlook p hpin]
              cases hal : assocLast p (T.map (fun t => (t.1, t.2.1))) with
              | none => exact absurd (hallbound p hpin) ((assocLast_none_iff p _).mp hal)
              | some v0 =>
                rw [hal] at hv
                simp only [Option.some.injEq] at hv; subst hv
                refine ⟨v0, rfl, ?_⟩
                -- v0 is one of the values
                have hmem : p ∈ (T.map (fun t => (t.1, t.2.1))).map (·.1) := hallbound p hpin
                have : ∃ t ∈ T, t.2.1 = v0 := by
                  clear hlook
                  have hx : ∀ (l : List (String × Val)) (y : String) (u : Val), assocLast y l = some u → (y, u) ∈ l := by
                    intro l
                    induction l with
                    | nil => intro y u h; simp [assocLast] at h
                    | cons q rest ih =>
                      intro y u h
                      obtain ⟨k, x⟩ := q
                      simp only [assocLast] at h
                      cases hr' : assocLast y rest with
                      | some r => rw [hr'] at h; simp only [Option.some.injEq] at h; subst h; exact List.mem_cons_of_mem _ (ih y r hr')
                      | none =>
                        rw [hr'] at h
                        by_cases hk : k = y
                        · simp only [hk, if_true, Option.some.injEq] at h; subst h hk; simp
                        · simp [hk] at h
                  have := hx _ _ _ hal
                  obtain ⟨t, ht, hte⟩ := List.mem_map.mp this
                  simp only [Prod.mk.injEq] at hte
                  exact ⟨t, ht, hte.2⟩
                obtain ⟨t, ht, rfl⟩ := this
                exact hvwf t ht
            · intro y hy hyps v hv
              have hy' : y ∉ ps' := fun h => hf.free y h hy
              have h1 : env1 y = envM y := by
                rw [henv1, hbinds]
                apply overlay_not_key
                intro hh
                simp only [List.map_map, List.mem_map, Function.comp] at hh
                obtain ⟨t, ht, rfl⟩ := hh
                exact hyps (hTkeys t ht)
              have h2 : envM2 y = envM y := overlay_not_key _ _ _ (fun hh => hy' (hkeys2 y hh))
              rw [h1] at hv
              obtain ⟨v', hv', hvv⟩ := hr.wfM y v hv
              exact ⟨v', by rw [h2]; exact hv', hvv⟩
          -- 2. envM2 / env are related under the extended stack
          have hrel2 : EnvRel w ((T.map (fun t => (ρ t.1, t.2.2))) :: st) envM2 env := by
            refine ⟨hr.wf, ?_, ?_⟩
            · intro x hx
              simp only [stackKeys, List.flatMap_cons, List.mem_append, not_or] at hx
              have hx1 : x ∉ (T.map (fun t => (ρ t.1, t.2.1))).map (·.1) := by
                intro hh; apply hx.1
                simp only [List.map_map, List.mem_map, Function.comp] at hh ⊢
                exact hh
              rw [show envM2 x = envM x from overlay_not_key _ _ _ hx1]
              exact hr.off x hx.2
            · intro k a hl v hv
              simp only [stackLookup, frameLookup_eq_assocLast] at hl
              cases hfl : assocLast k (T.map (fun t => (ρ t.1, t.2.2))) with
              | some a0 =>
                rw [hfl] at hl; simp only [Option.some.injEq] at hl; subst hl
                have hv2 : assocLast k (T.map (fun t => (ρ t.1, t.2.1))) = some v := by
                  have hv' : overlay (T.map (fun t => (ρ t.1, t.2.1))) envM k = some v := hv
                  rw [overlay_lookup] at hv'
                  cases hh : assocLast k (T.map (fun t => (ρ t.1, t.2.1))) with
                  | some v0 => rw [hh] at hv'; exact hv'
                  | none =>
                    exfalso
                    have h1 := (assocLast_none_iff k _).mp hh
                    have h2 : k ∈ (T.map (fun t => (ρ t.1, t.2.2))).map (·.1) := by
                      apply Decidable.byContradiction; intro hc
                      have := (assocLast_none_iff k _).mpr hc; rw [hfl] at this; cases this
                    simp only [List.map_map] at h1 h2
                    exact h1 h2
                -- pair up
                have hpair := assocLast_pair k (T.map (fun t => (ρ t.1, t.2))) v a0
                  (by rw [List.map_map]; exact hv2) (by rw [List.map_map]; exact hfl)
                obtain ⟨t, ht, hte⟩ := List.mem_map.mp hpair
                have e1 : t.2.1 = v := by
                  have := congrArg (fun q => q.2.1) hte; simpa using this
                have e2 : t.2.2 = a0 := by
                  have := congrArg (fun q => q.2.2) hte; simpa using this
                rw [← e1, ← e2]
                exact hTrel t ht
              | none =>
                rw [hfl] at hl
                have hk1 := (assocLast_none_iff k _).mp hfl
                have hk2 : k ∉ (T.map (fun t => (ρ t.1, t.2.1))).map (·.1) := by
                  simp only [List.map_map] at hk1 ⊢; exact hk1
                have : envM2 k = envM k := overlay_not_key _ _ _ hk2
                rw [this] at hv
                exact hr.keys k a hl v hv
          rw [hframe] at ih
          exact RLe.trans hren (ih.val envM2 env hrel2) outv ho
  · intro _ envM env _; exact headSem_other rfl

end Fadl
