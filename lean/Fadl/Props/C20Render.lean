/-
  C20 — the character-level step: the text of a dump determines its token stream.

  `RenderInj` (Props/C20.lean) was an explicit hypothesis of `dump_injective_partial` and `hash_separates`.  Here it is
  proved for the trees whose identifiers and constant reprs are "self-delimiting" in the sense below, by exhibiting a
  lexer that recovers the token stream from the rendered text.  What remains trusted is only that CPython's `repr` of a
  constant (and its class / field names) has that form.
-/
import Fadl.Model.Render
import Fadl.Props.C20
namespace Fadl
set_option linter.unusedSimpArgs false
set_option linter.unusedVariables false

/-! ### the lexer -/

def nonDelim (c : Char) : Bool := !isDelim c

/-- one token (an identifier comes with the `(` or `=` that follows it) and the rest of the text -/
def lexOne : List Char → Option (List Tok × List Char)
  | [] => none
  | c :: cs =>
    if c = ')' then some ([.rp], cs)
    else if c = ']' then some ([.rb], cs)
    else if c = '[' then some ([.lb], cs)
    else if c = ',' then
      (match cs with
       | ' ' :: r => some ([.comma], r)
       | _ => none)
    else if c = '(' then
      (match spanND cs with
       | (p, ')' :: r) => if p.isEmpty then none else some ([.lit (String.ofList ('(' :: p ++ [')']))], r)
       | _ => none)
    else if isQuote c then
      (scanStr c cs).map (fun b => ([.lit (String.ofList (c :: b.1))], b.2))
    else if isDelim c then none
    else
      match spanND (c :: cs) with
      | (p, rest) =>
        match rest with
        | '(' :: r => some ([.ident (String.ofList p), .lp], r)
        | '=' :: r => some ([.ident (String.ofList p), .eq], r)
        | q :: r =>
          if isQuote q then (scanStr q r).map (fun b => ([.lit (String.ofList (p ++ q :: b.1))], b.2))
          else some ([.lit (String.ofList p)], rest)
        | [] => some ([.lit (String.ofList p)], [])

def lexFuel : Nat → List Char → Option (List Tok)
  | _, [] => some []
  | 0, _ :: _ => none
  | n + 1, cs =>
    match lexOne cs with
    | some (ts, rest) => (lexFuel n rest).map (fun more => ts ++ more)
    | none => none

def renderC (ts : List Tok) : List Char := ts.flatMap (fun t => t.text.toList)

/-- token streams as `toks` produces them: identifiers come with `(` or `=`, a literal is followed by a separator or
    a closing bracket -/
def afterLit : List Tok → Bool
  | [] => true
  | .comma :: _ => true
  | .rp :: _ => true
  | .rb :: _ => true
  | _ => false

def okSeq : List Tok → Bool
  | [] => true
  | .ident s :: .lp :: r => atomOK s.toList && okSeq r
  | .ident s :: .eq :: r => atomOK s.toList && okSeq r
  | .ident _ :: _ => false
  | .lit s :: r => litOK s.toList && afterLit r && okSeq r
  | .comma :: r => okSeq r
  | .rp :: r => okSeq r
  | .rb :: r => okSeq r
  | .lb :: r => okSeq r
  | .lp :: _ => false
  | .eq :: _ => false

/-! ### lemmas about scanning -/

def startsDelim : List Char → Bool
  | [] => true
  | d :: _ => isDelim d

theorem span_atom (p rest : List Char) (hp : p.all nonDelim = true) (hr : startsDelim rest = true) :
    spanND (p ++ rest) = (p, rest) := by
  induction p with
  | nil =>
    cases rest with
    | nil => rfl
    | cons d r =>
      simp only [startsDelim] at hr
      simp [spanND, hr]
  | cons a t ih =>
    simp only [List.all_cons, Bool.and_eq_true, nonDelim, Bool.not_eq_true'] at hp
    simp only [List.cons_append, spanND, hp.1, Bool.false_eq_true, if_false, ih hp.2]

theorem spanND_fst_all (cs : List Char) : (spanND cs).1.all nonDelim = true := by
  induction cs with
  | nil => rfl
  | cons c t ih =>
    simp only [spanND]
    split
    · rfl
    · rename_i h
      simp [nonDelim, h, ih]

theorem spanND_append (cs : List Char) : (spanND cs).1 ++ (spanND cs).2 = cs := by
  induction cs with
  | nil => rfl
  | cons c t ih =>
    simp only [spanND]
    split
    · rfl
    · simp [ih]

theorem spanND_snd_starts (cs : List Char) : startsDelim (spanND cs).2 = true := by
  induction cs with
  | nil => rfl
  | cons c t ih =>
    simp only [spanND]
    split
    · rename_i h; simpa [startsDelim] using h
    · exact ih

theorem scanStr_append (q : Char) : ∀ (n : Nat) (body rest : List Char), body.length ≤ n →
    scanStr q body = some (body, []) → scanStr q (body ++ rest) = some (body, rest) := by
  intro n
  induction n with
  | zero =>
    intro body rest hl h
    cases body with
    | nil => simp [scanStr] at h
    | cons c cs => simp at hl
  | succ n ih =>
    intro body rest hl h
    cases body with
    | nil => simp [scanStr] at h
    | cons c cs =>
      by_cases hc : c = '\\'
      · cases cs with
        | nil => simp [scanStr, hc] at h
        | cons d ds =>
          simp only [scanStr, hc, if_true, Option.map_eq_some_iff] at h
          obtain ⟨p, hp, heq⟩ := h
          obtain ⟨p1, p2⟩ := p
          simp only [Prod.mk.injEq, List.cons.injEq, true_and] at heq
          obtain ⟨h1, h2⟩ := heq
          subst h1 h2
          have := ih p1 rest (by simp at hl; omega) hp
          simp only [List.cons_append, scanStr, hc, if_true, this, Option.map_some]
      · by_cases hq : c = q
        · subst hq
          have h' : scanStr c (c :: cs) = some ([c], cs) := by
            cases cs <;> simp [scanStr, hc]
          rw [h'] at h
          simp only [Option.some.injEq, Prod.mk.injEq, List.cons.injEq, true_and] at h
          obtain ⟨hcs, _⟩ := h
          subst hcs
          cases rest <;> simp [scanStr, hc]
        · have h' : scanStr q (c :: cs) = (scanStr q cs).map (fun p => (c :: p.1, p.2)) := by
            cases cs <;> simp [scanStr, hc, hq]
          rw [h'] at h
          simp only [Option.map_eq_some_iff] at h
          obtain ⟨p, hp, heq⟩ := h
          obtain ⟨p1, p2⟩ := p
          simp only [Prod.mk.injEq, List.cons.injEq, true_and] at heq
          obtain ⟨h1, h2⟩ := heq
          subst h1 h2
          have := ih p1 rest (by simp at hl; omega) hp
          have h'' : scanStr q (c :: (p1 ++ rest)) = (scanStr q (p1 ++ rest)).map (fun p => (c :: p.1, p.2)) := by
            cases (p1 ++ rest) <;> simp [scanStr, hc, hq]
          rw [List.cons_append, h'', this]
          rfl

/-! ### one lexing step inverts rendering -/

theorem renderC_cons (t : Tok) (r : List Tok) : renderC (t :: r) = t.text.toList ++ renderC r := by
  simp [renderC]

theorem nonDelim_facts {c : Char} (h : isDelim c = false) :
    c ≠ ')' ∧ c ≠ ']' ∧ c ≠ '[' ∧ c ≠ ',' ∧ c ≠ '(' ∧ c ≠ '=' ∧ c ≠ ' ' ∧ isQuote c = false := by
  simp only [isDelim, Bool.or_eq_false_iff, decide_eq_false_iff_not] at h
  obtain ⟨⟨⟨⟨⟨⟨⟨h1, h2⟩, h3⟩, h4⟩, h5⟩, h6⟩, h7⟩, h8⟩ := h
  exact ⟨h3, h5, h4, h1, h2, h6, h7, h8⟩

/-- what can follow a literal, as text -/
def afterLitC : List Char → Bool
  | [] => true
  | c :: _ => c = ',' || c = ')' || c = ']'

theorem afterLit_render {r : List Tok} (h : afterLit r = true) : afterLitC (renderC r) = true := by
  cases r with
  | nil => rfl
  | cons t r' =>
    cases t <;> simp [afterLit] at h <;> simp [renderC_cons, Tok.text, afterLitC]

theorem afterLitC_startsDelim {cs : List Char} (h : afterLitC cs = true) : startsDelim cs = true := by
  cases cs with
  | nil => rfl
  | cons c t =>
    simp only [afterLitC, Bool.or_eq_true, decide_eq_true_eq] at h
    rcases h with (rfl | rfl) | rfl <;> simp [startsDelim, isDelim]

/-- lexing an atom that is followed by a separator, a closing bracket or the end gives that atom as a literal -/
theorem lexOne_atom (p rest : List Char) (hp : atomOK p = true) (hr : afterLitC rest = true) :
    lexOne (p ++ rest) = some ([.lit (String.ofList p)], rest) := by
  simp only [atomOK, Bool.and_eq_true, Bool.not_eq_true', List.isEmpty_eq_false_iff] at hp
  obtain ⟨hne, hall⟩ := hp
  cases p with
  | nil => exact absurd rfl hne
  | cons c cs =>
    have hc : isDelim c = false := by
      have := List.all_eq_true.mp hall c List.mem_cons_self
      simpa using this
    obtain ⟨h1, h2, h3, h4, h5, h6, h7, h8⟩ := nonDelim_facts hc
    have hsp := span_atom (c :: cs) rest (by simpa [nonDelim] using hall) (afterLitC_startsDelim hr)
    simp only [List.cons_append] at hsp ⊢
    simp only [lexOne, h1, h2, h3, h4, h5, h8, hc, if_false, Bool.false_eq_true, hsp]
    cases rest with
    | nil => rfl
    | cons d r =>
      simp only [afterLitC, Bool.or_eq_true, decide_eq_true_eq] at hr
      rcases hr with (rfl | rfl) | rfl <;> simp [isQuote]

/-- an identifier followed by `(` or `=` -/
theorem lexOne_ident (p rest : List Char) (hp : atomOK p = true) (d : Char) (hd : d = '(' ∨ d = '=') :
    lexOne (p ++ d :: rest) =
      some ([.ident (String.ofList p), if d = '(' then .lp else .eq], rest) := by
  simp only [atomOK, Bool.and_eq_true, Bool.not_eq_true', List.isEmpty_eq_false_iff] at hp
  obtain ⟨hne, hall⟩ := hp
  cases p with
  | nil => exact absurd rfl hne
  | cons c cs =>
    have hc : isDelim c = false := by
      have := List.all_eq_true.mp hall c List.mem_cons_self
      simpa using this
    obtain ⟨h1, h2, h3, h4, h5, h6, h7, h8⟩ := nonDelim_facts hc
    have hsd : startsDelim (d :: rest) = true := by rcases hd with rfl | rfl <;> simp [startsDelim, isDelim]
    have hsp := span_atom (c :: cs) (d :: rest) (by simpa [nonDelim] using hall) hsd
    simp only [List.cons_append] at hsp ⊢
    simp only [lexOne, h1, h2, h3, h4, h5, h8, hc, if_false, Bool.false_eq_true, hsp]
    rcases hd with rfl | rfl <;> simp

/-- a string literal, whatever follows -/
theorem lexOne_str (cs rest : List Char) (h : strOK cs = true) :
    lexOne (cs ++ rest) = some ([.lit (String.ofList cs)], rest) := by
  cases cs with
  | nil => simp [strOK] at h
  | cons q body =>
    simp only [strOK, Bool.and_eq_true, beq_iff_eq] at h
    obtain ⟨hq, hs⟩ := h
    have hq' : q ≠ ')' ∧ q ≠ ']' ∧ q ≠ '[' ∧ q ≠ ',' ∧ q ≠ '(' := by
      simp only [isQuote, Bool.or_eq_true, decide_eq_true_eq] at hq
      rcases hq with rfl | rfl <;> decide
    obtain ⟨h1, h2, h3, h4, h5⟩ := hq'
    simp only [List.cons_append, lexOne, h1, h2, h3, h4, h5, if_false, hq, if_true,
      scanStr_append q body.length body rest (Nat.le_refl _) hs, Option.map_some]

/-- a prefixed string literal (`b'…'`) -/
theorem lexOne_prefixed (p lit rest : List Char) (hp : p.all nonDelim = true) (hne : p ≠ []) (h : strOK lit = true) :
    lexOne (p ++ lit ++ rest) = some ([.lit (String.ofList (p ++ lit))], rest) := by
  cases p with
  | nil => exact absurd rfl hne
  | cons c cs =>
    have hc : isDelim c = false := by
      have := List.all_eq_true.mp hp c List.mem_cons_self
      simpa [nonDelim] using this
    obtain ⟨h1, h2, h3, h4, h5, h6, h7, h8⟩ := nonDelim_facts hc
    cases lit with
    | nil => simp [strOK] at h
    | cons q body =>
      simp only [strOK, Bool.and_eq_true, beq_iff_eq] at h
      obtain ⟨hq, hs⟩ := h
      have hsd : startsDelim (q :: (body ++ rest)) = true := by simp [startsDelim, isDelim, hq]
      have hsp := span_atom (c :: cs) (q :: (body ++ rest)) hp hsd
      have hq1 : q ≠ '(' ∧ q ≠ '=' := by
        simp only [isQuote, Bool.or_eq_true, decide_eq_true_eq] at hq
        rcases hq with rfl | rfl <;> decide
      simp only [List.cons_append, List.append_assoc] at hsp ⊢
      simp only [lexOne, h1, h2, h3, h4, h5, h8, hc, if_false, Bool.false_eq_true, hsp]
      have hscan := scanStr_append q body.length body rest (Nat.le_refl _) hs
      have e1 : ∀ r, (q :: r : List Char) ≠ '(' :: r := by intro r h; exact hq1.1 (List.cons.inj h).1
      split
      · rename_i r heq; exact absurd (List.cons.inj heq).1 hq1.1
      · rename_i r heq; exact absurd (List.cons.inj heq).1 hq1.2
      · rename_i q' r heq
        obtain ⟨rfl, rfl⟩ := List.cons.inj heq
        simp [hq, hscan]
      · rename_i heq; cases heq

/-- a parenthesised atom (`(1+2j)`) -/
theorem lexOne_paren (p rest : List Char) (hp : p.all nonDelim = true) (hne : p ≠ []) :
    lexOne ('(' :: p ++ ')' :: rest) = some ([.lit (String.ofList ('(' :: p ++ [')']))], rest) := by
  have hsp := span_atom p (')' :: rest) hp (by simp [startsDelim, isDelim])
  simp only [List.cons_append, lexOne]
  simp only [show ('(' : Char) ≠ ')' by decide, show ('(' : Char) ≠ ']' by decide, show ('(' : Char) ≠ '[' by decide,
    show ('(' : Char) ≠ ',' by decide, if_false, if_true, hsp]
  cases p with
  | nil => exact absurd rfl hne
  | cons c cs => simp

theorem lexOne_lit (cs rest : List Char) (h : litOK cs = true) (hr : afterLitC rest = true) :
    lexOne (cs ++ rest) = some ([.lit (String.ofList cs)], rest) := by
  unfold litOK at h
  simp only [Bool.or_eq_true] at h
  rcases h with ((h | h) | h) | h
  · exact lexOne_atom cs rest h hr
  · exact lexOne_str cs rest h
  · have hall := spanND_fst_all cs
    have happ := spanND_append cs
    generalize spanND cs = sp at h hall happ
    obtain ⟨p, lit⟩ := sp
    simp only [Bool.and_eq_true, Bool.not_eq_true', List.isEmpty_eq_false_iff] at h
    simp only [] at hall happ
    have := lexOne_prefixed p lit rest hall h.1 h.2
    rw [happ] at this
    exact this
  · cases cs with
    | nil => simp at h
    | cons c t =>
      split at h
      · rename_i rest' heq
        obtain ⟨rfl, rfl⟩ := List.cons.inj heq
        have hall := spanND_fst_all t
        have happ := spanND_append t
        generalize hsp : spanND t = sp at h hall happ
        obtain ⟨p, r2⟩ := sp
        simp only [Bool.and_eq_true, Bool.not_eq_true', List.isEmpty_eq_false_iff, beq_iff_eq] at h
        simp only [] at hall happ
        obtain ⟨hne, hr2⟩ := h
        subst hr2
        have := lexOne_paren p rest hall hne
        rw [← happ]
        simpa using this
      · cases h

theorem tok_text_ne_nil_of_ok : ∀ (ts : List Tok), okSeq ts = true → ts ≠ [] → renderC ts ≠ [] := by
  intro ts h hne
  cases ts with
  | nil => exact absurd rfl hne
  | cons t r =>
    rw [renderC_cons]
    cases t with
    | ident s =>
      cases r with
      | nil => simp [okSeq] at h
      | cons t2 r2 =>
        cases t2 <;> simp [okSeq] at h
        all_goals (
          have : s.toList ≠ [] := by
            intro hs
            simp [atomOK, hs] at h
          simp [Tok.text, this])
    | lit s =>
      simp only [okSeq, Bool.and_eq_true] at h
      have : s.toList ≠ [] := by
        intro hs
        have := h.1.1
        simp [litOK, atomOK, strOK, spanND, hs] at this
      simp [Tok.text, this]
    | _ => simp [Tok.text]

/-- one step of the lexer on the text of a well-formed token stream -/
theorem lex_step (ts : List Tok) (h : okSeq ts = true) (hne : ts ≠ []) :
    ∃ g r, ts = g ++ r ∧ okSeq r = true ∧ lexOne (renderC ts) = some (g, renderC r) ∧
      (renderC r).length < (renderC ts).length := by
  cases ts with
  | nil => exact absurd rfl hne
  | cons t r =>
    cases t with
    | rp =>
      refine ⟨[.rp], r, rfl, by simpa [okSeq] using h, ?_, by simp [renderC_cons, Tok.text]⟩
      simp [renderC_cons, Tok.text, lexOne]
    | rb =>
      refine ⟨[.rb], r, rfl, by simpa [okSeq] using h, ?_, by simp [renderC_cons, Tok.text]⟩
      simp [renderC_cons, Tok.text, lexOne]
    | lb =>
      refine ⟨[.lb], r, rfl, by simpa [okSeq] using h, ?_, by simp [renderC_cons, Tok.text]⟩
      simp [renderC_cons, Tok.text, lexOne]
    | comma =>
      refine ⟨[.comma], r, rfl, by simpa [okSeq] using h, ?_, by simp [renderC_cons, Tok.text]; omega⟩
      simp [renderC_cons, Tok.text, lexOne]
    | lp => simp [okSeq] at h
    | eq => simp [okSeq] at h
    | lit s =>
      simp only [okSeq, Bool.and_eq_true] at h
      refine ⟨[.lit s], r, rfl, h.2, ?_, ?_⟩
      · rw [renderC_cons]
        have := lexOne_lit s.toList (renderC r) h.1.1 (afterLit_render h.1.2)
        simpa [Tok.text] using this
      · rw [renderC_cons]
        have : s.toList ≠ [] := by
          intro hs
          have := h.1.1
          simp [litOK, atomOK, strOK, spanND, hs] at this
        simp only [Tok.text, List.length_append]
        have := List.length_pos_iff.mpr this
        omega
    | ident s =>
      cases r with
      | nil => simp [okSeq] at h
      | cons t2 r2 =>
        cases t2 with
        | lp =>
          simp only [okSeq, Bool.and_eq_true] at h
          refine ⟨[.ident s, .lp], r2, rfl, h.2, ?_, by simp [renderC_cons, Tok.text]; omega⟩
          have := lexOne_ident s.toList (renderC r2) h.1 '(' (Or.inl rfl)
          simpa [renderC_cons, Tok.text] using this
        | eq =>
          simp only [okSeq, Bool.and_eq_true] at h
          refine ⟨[.ident s, .eq], r2, rfl, h.2, ?_, by simp [renderC_cons, Tok.text]; omega⟩
          have := lexOne_ident s.toList (renderC r2) h.1 '=' (Or.inr rfl)
          simpa [renderC_cons, Tok.text] using this
        | _ => simp [okSeq] at h

/-- **the lexer inverts rendering** on well-formed token streams -/
theorem lex_render : ∀ (n : Nat) (ts : List Tok), okSeq ts = true → (renderC ts).length < n →
    lexFuel n (renderC ts) = some ts := by
  intro n
  induction n with
  | zero => intro ts _ hl; omega
  | succ n ih =>
    intro ts h hl
    by_cases hne : ts = []
    · subst hne; simp [renderC, lexFuel]
    · obtain ⟨g, r, rfl, hr, hlex, hlen⟩ := lex_step ts h hne
      have hnn := tok_text_ne_nil_of_ok (g ++ r) h hne
      cases hcs : renderC (g ++ r) with
      | nil => exact absurd hcs hnn
      | cons c cs =>
        rw [hcs] at hlex hlen hl
        simp only [lexFuel, hlex]
        rw [ih r hr (by simp at hl hlen ⊢; omega)]
        rfl

/-! ### the token stream of a tree is well formed -/

def okTail (r : List Tok) : Prop := afterLit r = true ∧ okSeq r = true

def TokOK (t : Tree) : Prop := ∀ r, okTail r → okSeq (toks t ++ r) = true

theorem fieldToks_ok : ∀ (fns : List String) (fvs : List Tree), (∀ t ∈ fvs, TokOK t) →
    fns.all (fun n => atomOK n.toList) = true → fns.length = fvs.length →
    ∀ r, okSeq r = true → okSeq (fieldToks fns fvs ++ .rp :: r) = true := by
  intro fns
  induction fns with
  | nil =>
    intro fvs _ _ hl r hr
    cases fvs with
    | nil => simpa [fieldToks, okSeq] using hr
    | cons v vs => simp at hl
  | cons n ns ih =>
    intro fvs hall hn hl r hr
    cases fvs with
    | nil => simp at hl
    | cons v vs =>
      simp only [List.all_cons, Bool.and_eq_true] at hn
      have hv := hall v List.mem_cons_self
      have hrest : okSeq (fieldToks ns vs ++ .rp :: r) = true :=
        ih vs (fun t ht => hall t (List.mem_cons_of_mem _ ht)) hn.2 (by simpa using hl) r hr
      cases ns with
      | nil =>
        cases vs with
        | nil =>
          simp only [fieldToks, List.cons_append, okSeq, hn.1, Bool.true_and]
          exact hv (.rp :: r) ⟨rfl, by simpa [okSeq] using hr⟩
        | cons v2 vs2 => simp at hl
      | cons n2 ns2 =>
        simp only [fieldToks, List.cons_append, List.append_assoc, okSeq, hn.1, Bool.true_and]
        exact hv (.comma :: (fieldToks (n2 :: ns2) vs ++ .rp :: r)) ⟨rfl, by simpa [okSeq] using hrest⟩

theorem elemToks_ok : ∀ (xs : List Tree), (∀ t ∈ xs, TokOK t) → ∀ r, okSeq r = true →
    okSeq (elemToks xs ++ .rb :: r) = true := by
  intro xs
  induction xs with
  | nil => intro _ r hr; simpa [elemToks, okSeq] using hr
  | cons x rest ih =>
    intro hall r hr
    have hx := hall x List.mem_cons_self
    have hrest := ih (fun t ht => hall t (List.mem_cons_of_mem _ ht)) r hr
    cases rest with
    | nil =>
      simp only [elemToks]
      exact hx (.rb :: r) ⟨rfl, by simpa [okSeq] using hr⟩
    | cons y ys =>
      simp only [elemToks, List.append_assoc, List.cons_append]
      exact hx (.comma :: (elemToks (y :: ys) ++ .rb :: r)) ⟨rfl, by simpa [okSeq] using hrest⟩

theorem wfTreeL_mem : ∀ {ts : List Tree}, WFTreeL ts = true → ∀ {t : Tree}, t ∈ ts → WFTree t = true
  | [], _, _, h => by cases h
  | v :: vs, hw, t, h => by
    simp only [WFTreeL, Bool.and_eq_true] at hw
    rcases List.mem_cons.mp h with rfl | h'
    · exact hw.1
    · exact wfTreeL_mem hw.2 h'

theorem sokL_mem : ∀ {ts : List Tree}, SOKL ts = true → ∀ {t : Tree}, t ∈ ts → SOK t = true
  | [], _, _, h => by cases h
  | v :: vs, hw, t, h => by
    simp only [SOKL, Bool.and_eq_true] at hw
    rcases List.mem_cons.mp h with rfl | h'
    · exact hw.1
    · exact sokL_mem hw.2 h'

theorem tokOK_all : ∀ t, WFTree t = true → SOK t = true → TokOK t := by
  apply Tree.induct_mem (P := fun t => WFTree t = true → SOK t = true → TokOK t)
  · intro cls fns fvs ih hwf hs r hr
    simp only [WFTree, Bool.and_eq_true, decide_eq_true_eq] at hwf
    simp only [SOK, Bool.and_eq_true] at hs
    have hall : ∀ t ∈ fvs, TokOK t := fun t ht => ih t ht (wfTreeL_mem hwf.2 ht) (sokL_mem hs.2 ht)
    simp only [toks, List.cons_append, List.append_assoc, okSeq, hs.1.1, Bool.true_and]
    exact fieldToks_ok fns fvs hall hs.1.2 hwf.1 r hr.2
  · intro xs ih hwf hs r hr
    simp only [WFTree] at hwf
    simp only [SOK] at hs
    have hall : ∀ t ∈ xs, TokOK t := fun t ht => ih t ht (wfTreeL_mem hwf ht) (sokL_mem hs ht)
    simp only [toks, List.cons_append, List.append_assoc, okSeq]
    exact elemToks_ok xs hall r hr.2
  · intro s _ hs r hr
    simp only [SOK] at hs
    simp only [toks, List.cons_append, List.nil_append, okSeq, hs, hr.1, hr.2, Bool.and_self]

/-! ### from the lexer to `RenderInj` -/

theorem foldl_append_toList (l : List String) : ∀ (init : String),
    (List.foldl (fun r s => r ++ s) init l).toList = init.toList ++ l.flatMap String.toList := by
  induction l with
  | nil => intro init; simp
  | cons x xs ih => intro init; simp [List.foldl, ih, String.toList_append, List.append_assoc]

theorem renderToks_toList (ts : List Tok) : (renderToks ts).toList = renderC ts := by
  unfold renderToks renderC String.join
  rw [foldl_append_toList]
  simp [List.flatMap_map]

/-- trees whose names are atoms and whose leaves are constant reprs -/
def SelfDelimiting (t : Tree) : Prop := WFTree t = true ∧ SOK t = true

/-- **C20 (the character-level step, proved)**: on self-delimiting trees the text of the dump determines the token stream -/
theorem renderInj_selfDelimiting : RenderInj SelfDelimiting := by
  intro a b ha hb h
  have hca : renderC (toks a) = renderC (toks b) := by
    rw [← renderToks_toList, ← renderToks_toList, h]
  have oka : okSeq (toks a) = true := by
    have := tokOK_all a ha.1 ha.2 [] ⟨rfl, rfl⟩
    simpa using this
  have okb : okSeq (toks b) = true := by
    have := tokOK_all b hb.1 hb.2 [] ⟨rfl, rfl⟩
    simpa using this
  have la := lex_render ((renderC (toks a)).length + 1) (toks a) oka (Nat.lt_succ_self _)
  have lb := lex_render ((renderC (toks b)).length + 1) (toks b) okb (Nat.lt_succ_self _)
  rw [hca] at la
  rw [la] at lb
  exact Option.some.inj lb

/-- **C20 (dump identifies structure)**, without hypothesis about rendering -/
theorem dump_injective (a b : Tree) (ha : SelfDelimiting a) (hb : SelfDelimiting b) (h : dump a = dump b) : a = b :=
  dump_injective_partial SelfDelimiting renderInj_selfDelimiting a b ha.1 hb.1 ha hb h

/-- **C20 (equal hash ⇒ equal structure, up to an MD5 collision)**, without hypothesis about rendering -/
theorem hash_separates_selfDelimiting (H : ByteArray → String) (a b : Tree) (ha : SelfDelimiting a) (hb : SelfDelimiting b)
    (h : astHash H a = astHash H b) : a = b ∨ Collision H (dump a).toUTF8 (dump b).toUTF8 :=
  hash_separates H SelfDelimiting renderInj_selfDelimiting a b ha.1 hb.1 ha hb h

/-- Non-vacuity: constant reprs with separators and brackets inside a string, a negative number, a bytes literal and
    a complex number have the required shape. -/
example : litOK ['\'', 'a', ',', ' ', 'b', ')', '=', '[', '\''] = true := by decide
example : litOK ['-', '1'] = true := by decide
example : litOK ['b', '\'', 'x', '\''] = true := by decide
example : litOK ['(', '1', '+', '2', 'j', ')'] = true := by decide
example : atomOK ['C', 'a', 'l', 'l'] = true := by decide

end Fadl
