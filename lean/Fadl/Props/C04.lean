/-
  C04 — captured variables are frozen by value at the call, respecting scope.
-/
import Fadl.Model.Capture
import Fadl.Scope
import Fadl.Props.C13
namespace Fadl

/-- the names the ignore stack hides -/
def igNames (ig : List (List String)) : List String := ig.flatten

theorem isIgnored_iff (x : String) (ig : List (List String)) : isIgnored x ig = (igNames ig).contains x := by
  induction ig with
  | nil => rfl
  | cons f fs ih =>
    have h1 : isIgnored x (f :: fs) = (f.contains x || isIgnored x fs) := by simp [isIgnored]
    have h2 : (igNames (f :: fs)).contains x = (f.contains x || (igNames fs).contains x) := by
      simp [igNames, List.contains_eq_mem, List.mem_append, Bool.decide_or]
    rw [h1, h2, ih]

/-- **C04 (scope)**: the result of capture rewriting depends on the snapshot only through the names
    that occur *free* in the lambda (free with respect to the lambda's own parameters, nested lambda
    parameters and comprehension targets).  In particular a name that only occurs bound — by a
    parameter at any nesting level or by a comprehension — is never replaced, whatever the
    enclosing scope / module globals hold under that name. -/
theorem rewrite_depends_on_free_names_both (attrs : AttrTable) (ctors : List String) (s1 s2 : Snapshot) :
    (∀ (e : Expr) (ig : List (List String)),
        (∀ x ∈ freeNames (igNames ig) e, snapGet x s1 = snapGet x s2) →
        rewriteCaptured s1 attrs ctors ig e = rewriteCaptured s2 attrs ctors ig e) ∧
    (∀ (es : List Expr) (ig : List (List String)),
        (∀ x ∈ freeNamesL (igNames ig) es, snapGet x s1 = snapGet x s2) →
        rewriteCapturedL s1 attrs ctors ig es = rewriteCapturedL s2 attrs ctors ig es) := by
  apply Expr.size.mutual_induct
    (motive_1 := fun e => ∀ (ig : List (List String)),
        (∀ x ∈ freeNames (igNames ig) e, snapGet x s1 = snapGet x s2) →
        rewriteCaptured s1 attrs ctors ig e = rewriteCaptured s2 attrs ctors ig e)
    (motive_2 := fun es => ∀ (ig : List (List String)),
        (∀ x ∈ freeNamesL (igNames ig) es, snapGet x s1 = snapGet x s2) →
        rewriteCapturedL s1 attrs ctors ig es = rewriteCapturedL s2 attrs ctors ig es)
  case case1 =>
    intro x ig h
    simp only [rewriteCaptured, isIgnored_iff]
    split
    · rfl
    · rename_i hn
      have : x ∈ freeNames (igNames ig) (.name x) := by
        simp only [freeNames, hn]; simp
      rw [h x this]
  case case2 => intro c ig _; rfl
  case case3 =>
    intro v a ih ig h
    simp only [rewriteCaptured]
    rw [ih ig (by simpa [freeNames] using h)]
  case case4 =>
    intro f args kwn kwv ihf iha ihk ig h
    simp only [freeNames, List.mem_append] at h
    simp only [rewriteCaptured]
    rw [ihf ig (fun x hx => h x (Or.inl (Or.inl hx))), iha ig (fun x hx => h x (Or.inl (Or.inr hx))),
      ihk ig (fun x hx => h x (Or.inr hx))]
  case case5 =>
    intro ps b ih ig h
    simp only [rewriteCaptured]
    rw [ih (ps :: ig) (by simpa [freeNames, igNames] using h)]
  case case6 =>
    intro v s ihv ihs ig h
    simp only [freeNames, List.mem_append] at h
    simp only [rewriteCaptured]
    rw [ihv ig (fun x hx => h x (Or.inl hx)), ihs ig (fun x hx => h x (Or.inr hx))]
  case case7 => intro es ih ig h; simp only [rewriteCaptured]; rw [ih ig (by simpa [freeNames] using h)]
  case case8 => intro es ih ig h; simp only [rewriteCaptured]; rw [ih ig (by simpa [freeNames] using h)]
  case case9 =>
    intro ks vs ihk ihv ig h
    simp only [freeNames, List.mem_append] at h
    simp only [rewriteCaptured]
    rw [ihk ig (fun x hx => h x (Or.inl hx)), ihv ig (fun x hx => h x (Or.inr hx))]
  case case10 => intro k es ih ig h; simp only [rewriteCaptured]; rw [ih ig (by simpa [freeNames] using h)]
  case case11 =>
    intro kind e t i ifs a ihe _ ihi ihifs ig h
    simp only [freeNames, List.mem_append] at h
    simp only [rewriteCaptured]
    rw [ihe (targetNames t :: ig) (by
          intro x hx; apply h x; left; left; simpa [igNames] using hx),
        ihi ig (fun x hx => h x (Or.inl (Or.inr hx))),
        ihifs (targetNames t :: ig) (by
          intro x hx; apply h x; right; simpa [igNames] using hx)]
  case case12 => intro ig _; rfl
  case case13 =>
    intro e es ihe ihes ig h
    simp only [freeNamesL, List.mem_append] at h
    simp only [rewriteCapturedL]
    rw [ihe ig (fun x hx => h x (Or.inl hx)), ihes ig (fun x hx => h x (Or.inr hx))]

theorem rewrite_depends_on_free_names (attrs : AttrTable) (ctors : List String) (s1 s2 : Snapshot) (e : Expr)
    (h : ∀ x ∈ fv e, snapGet x s1 = snapGet x s2) :
    rewriteCaptured s1 attrs ctors [] e = rewriteCaptured s2 attrs ctors [] e :=
  (rewrite_depends_on_free_names_both attrs ctors s1 s2).1 e [] (by simpa [fv, igNames] using h)

/-- **C04 (bound names are never replaced)**: if no free name of the lambda is in the snapshot
    (for instance: every name is a parameter of the lambda or of a nested lambda, or a
    comprehension variable), the lambda is recorded unchanged. -/
theorem bound_names_untouched (snap : Snapshot) (ctors : List String) (e : Expr)
    (h : ∀ x ∈ fv e, snapGet x snap = Option.none) :
    rewriteCaptured snap [] ctors [] e = rewriteCaptured [] [] ctors [] e :=
  rewrite_depends_on_free_names [] ctors snap [] e (by intro x hx; rw [h x hx]; rfl)

/-! ### frozen at the call: histories of rebinding -/

/-- what can happen to the enclosing scope / module globals, interleaved with operator calls -/
inductive HOp where
  | bind (x : String) (v : Captured)     -- (re)bind a name
  | del (x : String)                     -- delete a name
  | callOp (src : Expr)                  -- Select / Where / SelectMany called with a lambda whose source is `src`
  deriving Inhabited

structure HSt where
  scope : Snapshot
  queries : List Expr                    -- the lambdas recorded so far, oldest first
  deriving Inhabited

def hstep (attrs : AttrTable) (ctors : List String) (st : HSt) : HOp → HSt
  | .bind x v => { st with scope := (x, v) :: st.scope }
  | .del x => { st with scope := st.scope.filter (fun p => p.1 != x) }
  | .callOp src => { st with queries := st.queries ++ [parseCallable st.scope attrs ctors src] }

def hrun (attrs : AttrTable) (ctors : List String) (ops : List HOp) (st : HSt) : HSt :=
  ops.foldl (hstep attrs ctors) st

theorem hrun_queries_prefix (attrs : AttrTable) (ctors : List String) (ops : List HOp) (st : HSt) :
    ∃ more, (hrun attrs ctors ops st).queries = st.queries ++ more := by
  induction ops generalizing st with
  | nil => exact ⟨[], by simp [hrun]⟩
  | cons op ops ih =>
    obtain ⟨m, hm⟩ := ih (hstep attrs ctors st op)
    cases op with
    | bind x v => exact ⟨m, by simpa [hrun, hstep] using hm⟩
    | del x => exact ⟨m, by simpa [hrun, hstep] using hm⟩
    | callOp src =>
      refine ⟨parseCallable st.scope attrs ctors src :: m, ?_⟩
      simp only [hrun, List.foldl] at hm ⊢
      rw [hm]; simp [hstep]

/-- **C04 (frozen by value at the call)**: the lambda recorded by an operator call is computed from
    the scope *as it is at that call*; and whatever rebinding / deletion / further calls happen
    afterwards, the recorded lambda stays what it was. -/
theorem frozen (attrs : AttrTable) (ctors : List String) (before after : List HOp) (src : Expr) (st : HSt) :
    let at_call := hrun attrs ctors before st
    let final := hrun attrs ctors (before ++ [.callOp src] ++ after) st
    final.queries[at_call.queries.length]? = some (parseCallable at_call.scope attrs ctors src) := by
  intro at_call final
  have h1 : final = hrun attrs ctors after (hstep attrs ctors at_call (.callOp src)) := by
    simp [final, at_call, hrun, List.foldl_append]
  obtain ⟨more, hm⟩ := hrun_queries_prefix attrs ctors after (hstep attrs ctors at_call (.callOp src))
  rw [h1, hm]
  simp [hstep]

/-- **C04 (non-transportable captures are refused)**: whatever capture rewriting produced, the
    operator then runs `check_ast`; a lambda still containing a constant that is not a transportable
    scalar is refused with a ValueError (theorem `checkAst_refuses`, C13). -/
theorem nontransportable_refused (snap : Snapshot) (attrs : AttrTable) (ctors : List String) (src : Expr)
    (h : allConstsLegal (parseCallable snap attrs ctors src) = false) :
    ∃ t, checkAst (parseCallable snap attrs ctors src) = .error (.valueError t) :=
  checkAst_refuses _ h

/-- Non-vacuity: `x` is captured (replaced by 5) where free, left alone where a nested lambda or a
    comprehension binds it. -/
example :
    rewriteCaptured [("x", .lit (.int 5))] [] [] []
      (.lam ["e"] (.tuple [.name "x", mcall (.attr (.name "e") "jets") "Select" [.lam ["x"] (.name "x")],
        .comp "ListComp" (.name "x") (.name "x") (.attr (.name "e") "jets") [] false]))
    = .lam ["e"] (.tuple [.const (.int 5), mcall (.attr (.name "e") "jets") "Select" [.lam ["x"] (.name "x")],
        .comp "ListComp" (.name "x") (.name "x") (.attr (.name "e") "jets") [] false]) := by rfl

end Fadl
