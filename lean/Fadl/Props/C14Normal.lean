/-
  C14 — what the simplifier returns is a normal form: no constant projection is left sitting on a literal it can be taken
  out of (tuple / list with a non-negative index, dictionary with a key it defines, by subscript or by attribute), no
  projection is left sitting on a `First(...)`, and no Select / SelectMany / Where call is left sitting on a source it
  fuses with.  So wherever a later stage's projection meets the literal an earlier stage built, neither survives, and
  stages never stay separate — for every well-formed query, whatever the chain, the nesting and the binder names.
-/
import Fadl.Props.C18Total
namespace Fadl
set_option linter.unusedSimpArgs false
set_option linter.unusedVariables false

def nStack (st : SStack) : Prop := ∀ x v, stackLookup x st = some v → wfq v = true ∧ nf v = true

theorem nStack.wf {st : SStack} (h : nStack st) : wfStack st := fun x v hl => (h x v hl).1

def GoodN (r : Except Err (Expr × Nat)) : Prop :=
  match r with
  | .ok (e', _) => nf e' = true
  | .error _ => True

def GoodNL (r : Except Err (List Expr × Nat)) : Prop :=
  match r with
  | .ok (es', _) => nfL es' = true
  | .error _ => True

theorem GoodN.bind {a : Except Err (Expr × Nat)} {f : Expr × Nat → Except Err (Expr × Nat)}
    (hw : Good a) (hn : GoodN a) (hf : ∀ x c, wfq x = true → nf x = true → GoodN (f (x, c))) : GoodN (a >>= f) := by
  cases a with
  | error e => trivial
  | ok r => obtain ⟨x, c⟩ := r; exact hf x c hw hn

theorem GoodN.bindL {a : Except Err (List Expr × Nat)} {f : List Expr × Nat → Except Err (Expr × Nat)}
    (hw : GoodL a) (hn : GoodNL a) (hf : ∀ x c, wfqL x = true → nfL x = true → GoodN (f (x, c))) : GoodN (a >>= f) := by
  cases a with
  | error e => trivial
  | ok r => obtain ⟨x, c⟩ := r; exact hf x c hw hn

theorem GoodNL.bind {a : Except Err (Expr × Nat)} {f : Expr × Nat → Except Err (List Expr × Nat)}
    (hw : Good a) (hn : GoodN a) (hf : ∀ x c, wfq x = true → nf x = true → GoodNL (f (x, c))) : GoodNL (a >>= f) := by
  cases a with
  | error e => trivial
  | ok r => obtain ⟨x, c⟩ := r; exact hf x c hw hn

theorem GoodNL.bindL {a : Except Err (List Expr × Nat)} {f : List Expr × Nat → Except Err (List Expr × Nat)}
    (hw : GoodL a) (hn : GoodNL a) (hf : ∀ x c, wfqL x = true → nfL x = true → GoodNL (f (x, c))) : GoodNL (a >>= f) := by
  cases a with
  | error e => trivial
  | ok r => obtain ⟨x, c⟩ := r; exact hf x c hw hn

/-! ### facts about normal forms -/

theorem nfL_mem {es : List Expr} (h : nfL es = true) {e : Expr} (he : e ∈ es) : nf e = true := by
  induction es with
  | nil => cases he
  | cons a rest ih =>
    simp only [nfL, Bool.and_eq_true] at h
    rcases List.mem_cons.mp he with rfl | h'
    · exact h.1
    · exact ih h.2 h'

theorem nf_getElem {es : List Expr} (h : nfL es = true) {n : Nat} {el : Expr} (he : es[n]? = some el) : nf el = true :=
  nfL_mem h (List.mem_of_getElem? he)

theorem nf_dictLookup {ks vs : List Expr} {k : Const} {r : Expr} (hv : nfL vs = true)
    (h : dictLookup ks vs k = some r) : nf r = true := nfL_mem hv (dictLookup_mem h)

theorem isFusable_not_op3 {n : String} (h1 : n ≠ "Select") (h2 : n ≠ "SelectMany") (h3 : n ≠ "Where") (p : Expr) :
    isFusable n p = false := by
  unfold isFusable
  split <;> simp [h1, h2, h3]

theorem isFusable_of_not_simpOp {n : String} (h : isSimpOp n = false) (p : Expr) : isFusable n p = false := by
  unfold isSimpOp at h
  simp only [Bool.or_eq_false_iff, decide_eq_false_iff_not] at h
  exact isFusable_not_op3 h.1.1.2 h.1.2 h.2 p

theorem nf_call_name (x : String) (args : List Expr) (kwn : List String) (kwv : List Expr) :
    nf (.call (.name x) args kwn kwv) = (nfL args && nfL kwv && (match args with | parent :: _ => !isFusable x parent | [] => true)) := by
  simp only [nf]; rfl

theorem nf_call_attr (v : Expr) (m : String) (args : List Expr) (kwn : List String) (kwv : List Expr) :
    nf (.call (.attr v m) args kwn kwv) = (nfL args && nfL kwv && (nf v && !isAttrRedex v m)) := by
  simp only [nf]

theorem nf_call_other {f : Expr} (hn : ∀ x, f ≠ .name x) (ha : ∀ v m, f ≠ .attr v m) (args : List Expr) (kwn : List String)
    (kwv : List Expr) : nf (.call f args kwn kwv) = (nfL args && nfL kwv && nf f) := by
  cases f <;> first | exact absurd rfl (hn _) | exact absurd rfl (ha _ _) | simp only [nf]

/-- a call whose callee is a value the simplifier produced -/
theorem nf_call_of_value {f' : Expr} (hw : wfq f' = true) (hf : nf f' = true) {as' ks' : List Expr} (kwn : List String)
    (ha : nfL as' = true) (hk : nfL ks' = true) : nf (.call f' as' kwn ks') = true := by
  by_cases hn : ∃ y, f' = .name y
  · obtain ⟨y, rfl⟩ := hn
    rw [nf_call_name]
    simp only [wfq, Bool.not_eq_true'] at hw
    cases as' with
    | nil => simp [ha, hk]
    | cons p r => simp [ha, hk, isFusable_of_not_simpOp hw]
  · by_cases hat : ∃ v m, f' = .attr v m
    · obtain ⟨v, m, rfl⟩ := hat
      rw [nf_call_attr]
      simp only [nf, Bool.and_eq_true] at hf
      simp [ha, hk, hf.1.1, hf.1.2]
    · rw [nf_call_other (fun x h => hn ⟨x, h⟩) (fun v m h => hat ⟨v, m, h⟩)]
      simp [ha, hk, hf]

theorem nf_fcall (n : String) (args : List Expr) :
    nf (fcall n args) = (nfL args && (match args with | parent :: _ => !isFusable n parent | [] => true)) := by
  simp [fcall, nf_call_name, nfL]

theorem nf_makeSelect {src : Expr} (hs : nf src = true) (hf : isFusable "Select" src = false) (p : String) (b : Expr)
    (hb : nf b = true) : nf (makeSelect src (.lam [p] b)) = true := by
  unfold makeSelect
  split
  · exact hs
  · simp [nf_fcall, nfL, nf, hs, hb, hf]

theorem isFusable_many_eq (p : Expr) : isFusable "SelectMany" p = isFusable "Select" p := by
  unfold isFusable
  split <;> simp

theorem nf_attr (v : Expr) (a : String) : nf (.attr v a) = (nf v && !isAttrRedex v a && (firstArg? v).isNone) := by
  simp only [nf]

theorem nf_sub (v s : Expr) : nf (.sub v s) = (nf v && nf s && !isLitProjRedex v s && (firstArg? v).isNone) := by
  simp only [nf]

theorem isAttrRedex_nondict {v : Expr} (h : ∀ ks vs, v ≠ .dict ks vs) (a : String) : isAttrRedex v a = false := by
  unfold isAttrRedex
  split
  · exact absurd rfl (h _ _)
  · rfl

theorem notRedex_of_nonliteral {v : Expr} (h1 : ∀ es, v = .tuple es → False) (h2 : ∀ es, v = .list es → False)
    (h3 : ∀ ks vs, v = .dict ks vs → False) (s : Expr) : isLitProjRedex v s = false := by
  unfold isLitProjRedex
  split
  · split
    · exact absurd rfl (h1 _)
    · exact absurd rfl (h2 _)
    · exact absurd rfl (h3 _ _)
    · rfl
  · split
    · exact absurd rfl (h3 _ _)
    · rfl
  · rfl

theorem notRedex_str_of_nondict {v : Expr} (h3 : ∀ ks vs, v = .dict ks vs → False) (k : String) :
    isLitProjRedex v (.const (.str k)) = false := by
  cases v <;> first | rfl | exact absurd rfl (h3 _ _)

theorem notRedex_of_nonconst {s : Expr} (h1 : ∀ n, s = .const (.int n) → False) (h2 : ∀ k, s = .const (.str k) → False)
    (v : Expr) : isLitProjRedex v s = false := by
  unfold isLitProjRedex
  split
  · exact absurd rfl (h1 _)
  · exact absurd rfl (h2 _)
  · rfl

theorem firstArg?_dict (ks vs : List Expr) : firstArg? (.dict ks vs) = Option.none := rfl

theorem nStack_nil : nStack [[]] := by
  intro x v h
  simp [stackLookup, frameLookup] at h

theorem nStack_cons {st : SStack} (h : nStack st) (f : SFrame) (hf : ∀ p ∈ f, wfq p.2 = true ∧ nf p.2 = true) :
    nStack (f :: st) := by
  intro x v hl
  simp only [stackLookup] at hl
  split at hl
  · rename_i r hr
    cases hl
    exact hf _ (frameLookup_some_mem x _ f hr)
  · exact h x v hl

theorem goodN_lam_bind {fuel : Nat} {st : SStack} {c : Nat} {p : String} {b : Expr}
    (hg : Good (simp fuel st c (.lam [p] b))) (hn : GoodN (simp fuel st c (.lam [p] b)))
    (k : Expr × Nat → Except Err (Expr × Nat))
    (hk : ∀ p' b' c', wfq b' = true → nf b' = true → GoodN (k (.lam [p'] b', c'))) :
    GoodN (simp fuel st c (.lam [p] b) >>= k) := by
  cases hr : simp fuel st c (.lam [p] b) with
  | error e => trivial
  | ok r =>
    obtain ⟨e', c'⟩ := r
    obtain ⟨b'', rfl⟩ := simp_lam_shape fuel st c [p] b e' c' hr
    rw [hr] at hg hn
    have hw : wfq b'' = true := by simpa [Good, wfq] using hg
    have hnb : nf b'' = true := by simpa [GoodN, nf] using hn
    have hl : (makeArgsUnique [p] b c).1.length = 1 := makeArgsUnique_length [p] b c
    obtain ⟨p', hp'⟩ : ∃ p', (makeArgsUnique [p] b c).1 = [p'] := by
      rcases h : (makeArgsUnique [p] b c).1 with _ | ⟨a, _ | ⟨b, r⟩⟩
      · rw [h] at hl; simp at hl
      · exact ⟨a, rfl⟩
      · rw [h] at hl; simp at hl
    rw [hp']
    exact hk p' b'' c' hw hnb

theorem simp_nf : ∀ fuel : Nat,
    (∀ st c e, nStack st → wfq e = true → GoodN (simp fuel st c e)) ∧
    (∀ st c es, nStack st → wfqL es = true → GoodNL (simpL fuel st c es)) ∧
    (∀ st c args kwn kwv, nStack st → wfqL args = true → opShape "Select" args = true →
      GoodN (callSelect fuel st c args kwn kwv)) ∧
    (∀ st c args kwn kwv, nStack st → wfqL args = true → opShape "SelectMany" args = true →
      GoodN (callSelectMany fuel st c args kwn kwv)) ∧
    (∀ st c args kwn kwv, nStack st → wfqL args = true → opShape "Where" args = true →
      GoodN (callWhere fuel st c args kwn kwv)) := by
  intro fuel
  induction fuel with
  | zero =>
    refine ⟨?_, ?_, ?_, ?_, ?_⟩ <;> intros <;> simp only [simp, simpL, callSelect, callSelectMany, callWhere] <;> trivial
  | succ fuel ih =>
    obtain ⟨ihS, ihL, ihSel, ihMany, ihWhere⟩ := ih
    obtain ⟨tS, tL, tSel, tMany, tWhere⟩ := simp_total fuel
    refine ⟨?_, ?_, ?_, ?_, ?_⟩
    · intro st c e hst hw
      have hstw := hst.wf
      -- pushing an attribute / subscript under a First
      have hpush : ∀ (v' : Expr) (c1 : Nat) (body : String → Expr) (dflt : Except Err (Expr × Nat)),
          wfq v' = true → (∀ x, isSimpOp x = false → wfq (body x) = true) → (firstArg? v' = Option.none → GoodN dflt) →
          GoodN (match firstArg? v' with
            | some (some first) => simp fuel st (c1 + 1) (fcall "First" [makeSelect first (.lam [argName c1] (body (argName c1)))])
            | some Option.none => .error (.internal "IndexError")
            | Option.none => dflt) := by
        intro v' c1 body dflt hv hb hd
        cases hfa : firstArg? v' with
        | some o =>
          cases o with
          | some first =>
            exact ihS _ _ _ hst (wfq_first_push _ (wfq_firstArg hfa hv) (hb _ (argName_not_op c1)))
          | none => trivial
        | none => exact hd hfa
      cases e with
      | name x =>
        simp only [simp]
        cases hl : stackLookup x st with
        | some v => exact (hst x v hl).2
        | none => show nf (.name x) = true; simp [nf]
      | const k => simp only [simp]; show nf (.const k) = true; simp [nf]
      | lam ps b =>
        simp only [simp]
        simp only [wfq] at hw
        have hb := wfq_makeArgsUnique ps b c hw
        exact GoodN.bind (tS _ _ _ hstw hb) (ihS _ _ _ hst hb) (fun x c2 hx hn => by
          show nf (.lam _ x) = true
          simpa [nf] using hn)
      | attr v a =>
        simp only [wfq] at hw
        simp only [simp]
        cases hfa : firstArg? v with
        | some o =>
          cases o with
          | some first =>
            exact ihS _ _ _ hst (wfq_first_push _ (wfq_firstArg hfa hw) (by simp [wfq, argName_not_op]))
          | none => trivial
        | none =>
          refine GoodN.bind (tS _ _ _ hstw hw) (ihS _ _ _ hst hw) (fun v' c1 hv' hn' => ?_)
          simp only []
          split
          · rename_i ks vs
            cases hd : dictLookup ks vs (.str a) with
            | some r =>
              simp only [nf, Bool.and_eq_true] at hn'
              exact nf_dictLookup hn'.2 hd
            | none =>
              show nf (.attr (.dict ks vs) a) = true
              rw [nf_attr]
              simp [isAttrRedex, hd, firstArg?_dict, hn']
          · rename_i hnd
            refine hpush _ c1 (fun x => .attr (.name x) a) _ hv' (fun x hx => by simp [wfq, hx]) (fun hfa' => ?_)
            show nf (.attr v' a) = true
            rw [nf_attr]
            simp [isAttrRedex_nondict hnd, hfa', hn']
      | sub v s =>
        simp only [wfq, Bool.and_eq_true] at hw
        simp only [simp]
        refine GoodN.bind (tS _ _ _ hstw hw.1) (ihS _ _ _ hst hw.1) (fun v' c1 hv' hnv => ?_)
        simp only []
        refine GoodN.bind (tS _ _ _ hstw hw.2) (ihS _ _ _ hst hw.2) (fun s' c2 hs' hns => ?_)
        simp only []
        have hgen : isLitProjRedex v' s' = false → GoodN (match firstArg? v' with
            | some (some first) =>
              simp fuel st (c2 + 1) (fcall "First" [makeSelect first (.lam [argName c2] (.sub (.name (argName c2)) s'))])
            | some Option.none => .error (.internal "IndexError")
            | Option.none => .ok (.sub v' s', c2)) := by
          intro hred
          refine hpush v' c2 (fun x => .sub (.name x) s') _ hv' (fun x hx => by simp [wfq, hx, hs']) (fun hfa' => ?_)
          show nf (.sub v' s') = true
          rw [nf_sub]
          simp [hnv, hns, hred, hfa']
        split
        · split
          · simp only [nf] at hnv
            split
            · split
              · rename_i el hel; exact nf_getElem hnv hel
              · trivial
            · rename_i hneg; exact hgen (by simp [isLitProjRedex, hneg])
          · simp only [nf] at hnv
            split
            · split
              · rename_i el hel; exact nf_getElem hnv hel
              · trivial
            · rename_i hneg; exact hgen (by simp [isLitProjRedex, hneg])
          · split
            · rename_i r hr
              simp only [nf, Bool.and_eq_true] at hnv
              exact nf_dictLookup hnv.2 hr
            · rename_i hr
              show nf (.sub (.dict _ _) (.const (.int _))) = true
              rw [nf_sub]
              simp [isLitProjRedex, hr, firstArg?_dict, hnv, hns]
          · rename_i h1 h2 h3
            exact hgen (notRedex_of_nonliteral h1 h2 h3 _)
        · split
          · split
            · rename_i r hr
              simp only [nf, Bool.and_eq_true] at hnv
              exact nf_dictLookup hnv.2 hr
            · rename_i hr
              show nf (.sub (.dict _ _) (.const (.str _))) = true
              rw [nf_sub]
              simp [isLitProjRedex, hr, firstArg?_dict, hnv, hns]
          · rename_i h1
            exact hgen (notRedex_str_of_nondict h1 _)
        · rename_i h1 h2
          exact hgen (notRedex_of_nonconst h1 h2 _)
      | tuple es =>
        simp only [wfq] at hw
        simp only [simp]
        exact GoodN.bindL (tL _ _ _ hstw hw) (ihL _ _ _ hst hw) (fun x c1 hx hn => by show nf (.tuple x) = true; simpa [nf] using hn)
      | list es =>
        simp only [wfq] at hw
        simp only [simp]
        exact GoodN.bindL (tL _ _ _ hstw hw) (ihL _ _ _ hst hw) (fun x c1 hx hn => by show nf (.list x) = true; simpa [nf] using hn)
      | dict ks vs =>
        simp only [wfq, Bool.and_eq_true] at hw
        simp only [simp]
        refine GoodN.bindL (tL _ _ _ hstw hw.1) (ihL _ _ _ hst hw.1) (fun x c1 hx hnx => ?_)
        simp only []
        exact GoodN.bindL (tL _ _ _ hstw hw.2) (ihL _ _ _ hst hw.2) (fun y c2 hy hny => by
          show nf (.dict x y) = true; simp [nf, hnx, hny])
      | op k es =>
        simp only [wfq] at hw
        simp only [simp]
        exact GoodN.bindL (tL _ _ _ hstw hw) (ihL _ _ _ hst hw) (fun x c1 hx hn => by show nf (.op k x) = true; simpa [nf] using hn)
      | comp kind el t i ifs a =>
        simp only [wfq, Bool.and_eq_true] at hw
        simp only [simp]
        refine GoodN.bind (tS _ _ _ hstw hw.1.1.1) (ihS _ _ _ hst hw.1.1.1) (fun x1 c1 _ h1 => ?_)
        simp only []
        refine GoodN.bind (tS _ _ _ hstw hw.1.1.2) (ihS _ _ _ hst hw.1.1.2) (fun x2 c2 _ h2 => ?_)
        simp only []
        refine GoodN.bind (tS _ _ _ hstw hw.1.2) (ihS _ _ _ hst hw.1.2) (fun x3 c3 _ h3 => ?_)
        simp only []
        exact GoodN.bindL (tL _ _ _ hstw hw.2) (ihL _ _ _ hst hw.2) (fun x4 c4 _ h4 => by
          show nf (.comp kind x1 x2 x3 x4 a) = true; simp [nf, h1, h2, h3, h4])
      | call f args kwn kwv =>
        have hw' : wfqL args = true ∧ wfqL kwv = true := by
          by_cases hn : ∃ y, f = .name y
          · obtain ⟨y, rfl⟩ := hn
            rw [wfq_call_name] at hw; simp only [Bool.and_eq_true] at hw; exact hw.1
          · rw [wfq_call_nonname (fun x h => hn ⟨x, h⟩)] at hw; simp only [Bool.and_eq_true] at hw; exact hw.1
        -- the generic continuation
        have hgen : ∀ (head : Except Err (Expr × Nat)),
            (∀ f' c1, head = .ok (f', c1) → ∀ as' ks', nfL as' = true → nfL ks' = true →
              nf (.call f' as' kwn ks') = true) →
            GoodN (do
              let __x ← head
              let __x_1 ← simpL fuel st __x.snd args
              let __x_2 ← simpL fuel st __x_1.snd kwv
              pure (Expr.call __x.fst __x_1.fst kwn __x_2.fst, __x_2.snd)) := by
          intro head hok
          cases hh : head with
          | error e => trivial
          | ok r =>
            obtain ⟨f', c1⟩ := r
            show GoodN (simpL fuel st c1 args >>= _)
            cases ha : simpL fuel st c1 args with
            | error e => trivial
            | ok r1 =>
              obtain ⟨as', c2⟩ := r1
              show GoodN (simpL fuel st c2 kwv >>= _)
              cases hk : simpL fuel st c2 kwv with
              | error e => trivial
              | ok r2 =>
                obtain ⟨ks', c3⟩ := r2
                show nf (.call f' as' kwn ks') = true
                have h1 := ihL st c1 args hst hw'.1; rw [ha] at h1
                have h2 := ihL st c2 kwv hst hw'.2; rw [hk] at h2
                exact hok f' c1 hh as' ks' h1 h2
        -- a callee that is a value
        have hval : wfq f = true → GoodN (do
              let __x ← simp fuel st c f
              let __x_1 ← simpL fuel st __x.snd args
              let __x_2 ← simpL fuel st __x_1.snd kwv
              pure (Expr.call __x.fst __x_1.fst kwn __x_2.fst, __x_2.snd)) := by
          intro hf
          have hg := ihS st c f hst hf
          have hgw := tS st c f hstw hf
          refine hgen _ (fun f' c1 he as' ks' ha hk => ?_)
          rw [he] at hg hgw
          exact nf_call_of_value hgw hg kwn ha hk
        have hnn : (∀ x, f ≠ .name x) → wfq f = true := by
          intro hne
          rw [wfq_call_nonname hne] at hw; simp only [Bool.and_eq_true] at hw; exact hw.2
        cases f with
        | lam ps body =>
          have hf := hnn (by intro x h; cases h)
          simp only [simp]
          split
          · exact hval hf
          · simp only [wfq] at hf
            refine GoodN.bindL (tL _ _ _ hstw hw'.1) (ihL _ _ _ hst hw'.1) (fun as' c2 ha hna => ?_)
            simp only []
            refine GoodN.bindL (tL _ _ _ hstw hw'.2) (ihL _ _ _ hst hw'.2) (fun ks' c3 hk hnk => ?_)
            simp only []
            refine ihS _ _ _ (nStack_cons hst _ ?_) (wfq_makeArgsUnique ps body c hf)
            intro p hp
            rcases List.mem_append.mp hp with h | h
            · have hm := (List.of_mem_zip (show (p.1, p.2) ∈ _ from h)).2
              exact ⟨wfqL_mem ha hm, nfL_mem hna hm⟩
            · obtain ⟨q, hq, rfl⟩ := List.mem_map.mp h
              have hm := (List.of_mem_zip (show (q.1, q.2) ∈ _ from hq)).2
              exact ⟨wfqL_mem hk hm, nfL_mem hnk hm⟩
        | attr v m =>
          have hf := hnn (by intro x h; cases h)
          simp only [wfq] at hf
          simp only [simp]
          cases hfa : firstArg? v with
          | some o =>
            cases o with
            | some seq =>
              refine ihS _ _ _ hst (wfq_first_push _ (wfq_firstArg hfa hf) ?_)
              rw [wfq_call_nonname (by intro x h; cases h)]
              simp [hw'.1, hw'.2, wfq, argName_not_op]
            | none => trivial
          | none =>
            simp only []
            have hg := ihS st c v hst hf
            have hgw := tS st c v hstw hf
            refine hgen _ ?_
            intro f' c1 he as' ks' ha hk
            cases hv : simp fuel st c v with
            | error e2 => rw [hv] at he; simp [bind, Except.bind] at he
            | ok r =>
              rw [hv] at he hg hgw
              obtain ⟨v', c0⟩ := r
              have hv' : wfq v' = true := hgw
              have hnv : nf v' = true := hg
              simp only [bind, Except.bind] at he
              split at he
              · rename_i ks vs
                split at he
                · rename_i r hr
                  simp only [pure, Except.pure, Except.ok.injEq, Prod.mk.injEq] at he
                  rw [← he.1]
                  simp only [wfq, nf, Bool.and_eq_true] at hv' hnv
                  exact nf_call_of_value (wfq_dictLookup hv'.2 hr) (nf_dictLookup hnv.2 hr) kwn ha hk
                · rename_i hr
                  simp only [pure, Except.pure, Except.ok.injEq, Prod.mk.injEq] at he
                  rw [← he.1, nf_call_attr]
                  simp [ha, hk, hnv, isAttrRedex, hr]
              · rename_i hnd
                simp only [pure, Except.pure, Except.ok.injEq, Prod.mk.injEq] at he
                rw [← he.1, nf_call_attr]
                simp [ha, hk, hnv, isAttrRedex_nondict hnd]
        | name n =>
          rw [wfq_call_name] at hw
          simp only [Bool.and_eq_true] at hw
          simp only [simp]
          split
          · rename_i hn; subst hn; exact ihSel _ _ _ _ _ hst hw'.1 hw.2
          · split
            · rename_i hn; subst hn; exact ihMany _ _ _ _ _ hst hw'.1 hw.2
            · split
              · rename_i hn; subst hn; exact ihWhere _ _ _ _ _ hst hw'.1 hw.2
              · rename_i h1 h2 h3
                refine hgen _ ?_
                intro f' c1 he as' ks' ha hk
                cases fuel with
                | zero => simp [simp] at he
                | succ k =>
                  simp only [simp, Except.ok.injEq, Prod.mk.injEq] at he
                  cases hl : stackLookup n st with
                  | some v =>
                    rw [hl] at he
                    simp only [Option.getD_some] at he
                    rw [← he.1]
                    exact nf_call_of_value (hst n v hl).1 (hst n v hl).2 kwn ha hk
                  | none =>
                    rw [hl] at he
                    simp only [Option.getD_none] at he
                    rw [← he.1, nf_call_name]
                    cases as' with
                    | nil => simp [ha, hk]
                    | cons p r => simp [ha, hk, isFusable_not_op3 h1 h2 h3]
        | const k => simp only [simp]; exact hval (hnn (by intro x h; cases h))
        | sub v s => simp only [simp]; exact hval (hnn (by intro x h; cases h))
        | tuple es => simp only [simp]; exact hval (hnn (by intro x h; cases h))
        | list es => simp only [simp]; exact hval (hnn (by intro x h; cases h))
        | dict ks vs => simp only [simp]; exact hval (hnn (by intro x h; cases h))
        | op k es => simp only [simp]; exact hval (hnn (by intro x h; cases h))
        | comp kind el t i ifs a => simp only [simp]; exact hval (hnn (by intro x h; cases h))
        | call f2 a2 k2 v2 => simp only [simp]; exact hval (hnn (by intro x h; cases h))
    · intro st c es hst hw
      have hstw := hst.wf
      cases es with
      | nil => simp only [simpL]; show nfL [] = true; simp [nfL]
      | cons e rest =>
        simp only [wfqL, Bool.and_eq_true] at hw
        simp only [simpL]
        refine GoodNL.bind (tS _ _ _ hstw hw.1) (ihS _ _ _ hst hw.1) (fun x c1 _ hx => ?_)
        simp only []
        exact GoodNL.bindL (tL _ _ _ hstw hw.2) (ihL _ _ _ hst hw.2) (fun y c2 _ hy => by show nfL (x :: y) = true; simp [nfL, hx, hy])
    · -- callSelect
      intro st c args kwn kwv hst hw hsh
      have hstw := hst.wf
      obtain ⟨source, p, b, rfl⟩ := opShape_op3 (Or.inl rfl) hsh
      simp only [wfqL, wfq, Bool.and_eq_true, and_true] at hw
      simp only [callSelect, isLam, Bool.not_true, Bool.false_eq_true, if_false]
      refine GoodN.bind (tS _ _ _ hstw hw.1) (ihS _ _ _ hst hw.1) (fun parent c1 hp hnp => ?_)
      simp only []
      have hlw : wfq (.lam [p] b) = true := by simpa [wfq] using hw.2
      have hd : isFusable "Select" parent = false →
          GoodN (do let (sel, c2) ← simp fuel st c1 (.lam [p] b); pure (makeSelect parent sel, c2)) := fun hfus =>
        goodN_lam_bind (tS _ _ _ hstw hlw) (ihS _ _ _ hst hlw) _ (fun p' b' c' _ hb' => nf_makeSelect hnp hfus p' b' hb')
      cases hoc : opCall? parent with
      | none => exact hd (by simp [isFusable, hoc])
      | some o =>
        obtain ⟨n, pargs⟩ := o
        obtain ⟨k1, k2, rfl⟩ := opCall?_some hoc
        rw [wfq_call_name] at hp
        simp only [Bool.and_eq_true] at hp
        simp only []
        split
        · rename_i hn; subst hn
          obtain ⟨src, q, fb, rfl⟩ := opShape_op3 (Or.inl rfl) hp.2
          have hp1 := hp.1.1
          simp only [wfqL, wfq, Bool.and_eq_true, and_true] at hp1
          rw [nf_call_name] at hnp
          simp only [nfL, nf, Bool.and_eq_true, Bool.not_eq_true', and_true] at hnp
          simp only [isLam, Bool.not_true, Bool.false_eq_true, if_false]
          obtain ⟨x, body, c', hconv, hbody⟩ := wfq_convolute hw.2 hp1.2 c1
          rw [hconv]
          have hlb : wfq (.lam [x] body) = true := by simpa [wfq] using hbody
          exact goodN_lam_bind (tS _ _ _ hstw hlb) (ihS _ _ _ hst hlb) _
            (fun p' b' c'' _ hb' => nf_makeSelect hnp.1.1.1 hnp.2 p' b' hb')
        · split
          · rename_i hn; subst hn
            obtain ⟨src, q, fb, rfl⟩ := opShape_op3 (Or.inr (Or.inl rfl)) hp.2
            have hp1 := hp.1.1
            simp only [wfqL, wfq, Bool.and_eq_true, and_true] at hp1
            simp only []
            refine ihS _ _ _ hst ?_
            rw [wfq_fcall]
            simp [wfqL, wfq, opShape, hp1.1, wfq_makeSelect hp1.2 p b rfl hw.2]
          · rename_i h1 h2
            exact hd (by simp [isFusable, opCall?, h1, h2])
    · -- callSelectMany
      intro st c args kwn kwv hst hw hsh
      have hstw := hst.wf
      obtain ⟨source, p, b, rfl⟩ := opShape_op3 (Or.inr (Or.inl rfl)) hsh
      simp only [wfqL, wfq, Bool.and_eq_true, and_true] at hw
      simp only [callSelectMany, isLam, Bool.not_true, Bool.false_eq_true, if_false]
      refine GoodN.bind (tS _ _ _ hstw hw.1) (ihS _ _ _ hst hw.1) (fun parent c1 hp hnp => ?_)
      simp only []
      have hlw : wfq (.lam [p] b) = true := by simpa [wfq] using hw.2
      have hmany : ∀ (seq : Expr), nf seq = true → isFusable "Select" seq = false → ∀ p' b', nf b' = true →
          nf (fcall "SelectMany" [seq, .lam [p'] b']) = true := by
        intro seq hs hf p' b' hb'
        rw [nf_fcall]; simp [nfL, nf, hs, hb', isFusable_many_eq, hf]
      have hd : isFusable "Select" parent = false →
          GoodN (do let (sel, c2) ← simp fuel st c1 (.lam [p] b); pure (fcall "SelectMany" [parent, sel], c2)) := fun hfus =>
        goodN_lam_bind (tS _ _ _ hstw hlw) (ihS _ _ _ hst hlw) _ (fun p' b' c' _ hb' => hmany parent hnp hfus p' b' hb')
      cases hoc : opCall? parent with
      | none => exact hd (by simp [isFusable, hoc])
      | some o =>
        obtain ⟨n, pargs⟩ := o
        obtain ⟨k1, k2, rfl⟩ := opCall?_some hoc
        rw [wfq_call_name] at hp
        simp only [Bool.and_eq_true] at hp
        simp only []
        split
        · rename_i hn; subst hn
          obtain ⟨seq, q, fb, rfl⟩ := opShape_op3 (Or.inr (Or.inl rfl)) hp.2
          have hp1 := hp.1.1
          simp only [wfqL, wfq, Bool.and_eq_true, and_true] at hp1
          simp only []
          refine ihS _ _ _ hst ?_
          rw [wfq_fcall]
          simp [wfqL, wfq, opShape, hp1.1, wfq_fcall, hp1.2, hw.2]
        · split
          · rename_i hn; subst hn
            obtain ⟨seq, q, fb, rfl⟩ := opShape_op3 (Or.inl rfl) hp.2
            have hp1 := hp.1.1
            simp only [wfqL, wfq, Bool.and_eq_true, and_true] at hp1
            rw [nf_call_name] at hnp
            simp only [nfL, nf, Bool.and_eq_true, Bool.not_eq_true', and_true] at hnp
            simp only [isLam, Bool.not_true, Bool.false_eq_true, if_false]
            obtain ⟨x, body, c', hconv, hbody⟩ := wfq_convolute hw.2 hp1.2 c1
            rw [hconv]
            have hlb : wfq (.lam [x] body) = true := by simpa [wfq] using hbody
            exact goodN_lam_bind (tS _ _ _ hstw hlb) (ihS _ _ _ hst hlb) _
              (fun p' b' c'' _ hb' => hmany seq hnp.1.1.1 hnp.2 p' b' hb')
          · rename_i h1 h2
            exact hd (by simp [isFusable, opCall?, h1, h2])
    · -- callWhere
      intro st c args kwn kwv hst hw hsh
      have hstw := hst.wf
      obtain ⟨source, p, b, rfl⟩ := opShape_op3 (Or.inr (Or.inr rfl)) hsh
      simp only [wfqL, wfq, Bool.and_eq_true, and_true] at hw
      simp only [callWhere, isLam, Bool.not_true, Bool.false_eq_true, if_false]
      refine GoodN.bind (tS _ _ _ hstw hw.1) (ihS _ _ _ hst hw.1) (fun parent c1 hp hnp => ?_)
      simp only []
      have hlw : wfq (.lam [p] b) = true := by simpa [wfq] using hw.2
      have hwhere : ∀ (src w : Expr), wfq src = true → ∀ p' b', w = .lam [p'] b' → wfq b' = true →
          wfq (fcall "Where" [src, w]) = true := by
        intro src w hs p' b' hw' hb'
        subst hw'
        rw [wfq_fcall]; simp [wfqL, wfq, opShape, hs, hb']
      have hd : isFusable "Where" parent = false → GoodN (do
            let (f', c2) ← simp fuel st c1 (.lam [p] b)
            if lambdaIsTrue f' then pure (parent, c2) else pure (fcall "Where" [parent, f'], c2)) := fun hfus =>
        goodN_lam_bind (tS _ _ _ hstw hlw) (ihS _ _ _ hst hlw) _ (fun p' b' c' _ hb' => by
          simp only []
          split
          · exact hnp
          · show nf (fcall "Where" [parent, .lam [p'] b']) = true
            rw [nf_fcall]; simp [nfL, nf, hnp, hb', hfus])
      cases hoc : opCall? parent with
      | none => exact hd (by simp [isFusable, hoc])
      | some o =>
        obtain ⟨n, pargs⟩ := o
        obtain ⟨k1, k2, rfl⟩ := opCall?_some hoc
        rw [wfq_call_name] at hp
        simp only [Bool.and_eq_true] at hp
        simp only []
        split
        · rename_i hn; subst hn
          obtain ⟨src, q, fb, rfl⟩ := opShape_op3 (Or.inr (Or.inr rfl)) hp.2
          have hp1 := hp.1.1
          simp only [wfqL, wfq, Bool.and_eq_true, and_true] at hp1
          simp only [isLam, Bool.not_true, Bool.false_eq_true, if_false]
          refine ihS _ _ _ hst (hwhere src _ hp1.1 _ _ rfl ?_)
          simp [wfq, wfqL, wfq_call_nonname, hp1.2, hw.2, argName_not_op]
        · split
          · rename_i hn; subst hn
            obtain ⟨src, q, fb, rfl⟩ := opShape_op3 (Or.inl rfl) hp.2
            have hp1 := hp.1.1
            simp only [wfqL, wfq, Bool.and_eq_true, and_true] at hp1
            simp only [isLam, Bool.not_true, Bool.false_eq_true, if_false]
            obtain ⟨x, body, c', hconv, hbody⟩ := wfq_convolute hw.2 hp1.2 c1
            rw [hconv]
            have hlb : wfq (.lam [x] body) = true := by simpa [wfq] using hbody
            refine goodN_lam_bind (tS _ _ _ hstw hlb) (ihS _ _ _ hst hlb) _ (fun p' b' c'' hwb' hb' => ?_)
            simp only []
            exact ihS _ _ _ hst (wfq_makeSelect (hwhere src _ hp1.1 p' b' rfl hwb') q fb rfl hp1.2)
          · split
            · rename_i hn; subst hn
              obtain ⟨seq, q, fb, rfl⟩ := opShape_op3 (Or.inr (Or.inl rfl)) hp.2
              have hp1 := hp.1.1
              simp only [wfqL, wfq, Bool.and_eq_true, and_true] at hp1
              simp only []
              refine ihS _ _ _ hst ?_
              rw [wfq_fcall]
              simp [wfqL, wfq, opShape, hp1.1, hwhere fb _ hp1.2 p b rfl hw.2]
            · rename_i h1 h2 h3
              exact hd (by simp [isFusable, opCall?, h1, h2, h3])

/-- **C14 (normal form)**: whatever the simplifier model returns for a well-formed query is a normal form: no constant
    projection is left on a literal it can be taken out of or on a `First`, no operator call is left on a source it fuses
    with — for every query, counter and fuel. -/
theorem simplify_normal_form (fuel c : Nat) (e e' : Expr) (c' : Nat) (hw : wfq e = true)
    (h : simplify fuel c e = .ok (e', c')) : nf e' = true := by
  have := (simp_nf fuel).1 [[]] (max c (nextArg e)) e nStack_nil hw
  unfold simplify at h
  rw [h] at this
  exact this

/-- Non-vacuity: the projection of a tuple literal is a redex, so a normal form cannot contain it; and a plain
    fused query is a normal form. -/
example : nf (.sub (.tuple [.name "a", .name "b"]) (.const (.int 0))) = false := by
  simp [nf, nfL, isLitProjRedex]
example : nf (fcall "Select" [.name "ds", .lam ["x"] (.attr (.name "x") "met")]) = true := by
  simp [fcall, nf, nfL, isFusable, opCall?, isAttrRedex, firstArg?]

end Fadl
