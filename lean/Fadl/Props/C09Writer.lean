/-
  C09 — the type follower is a writer: the MetaData dictionaries and the callback-log entries it produces for an
  expression are a function of the expression (and the class model and scope) alone and are APPENDED to whatever the
  stream already carries.  Nothing that an earlier call site attached is dropped or reordered, the rewritten expression
  and its type do not depend on the incoming effects, and a failure does not either.
-/
import Fadl.Model.Follow
import Fadl.Props.C09
namespace Fadl
set_option linter.unusedSimpArgs false
set_option linter.unusedVariables false

/-- the state `st` with `dm` / `dl` in front of its MetaData list / callback log -/
def FSt.pre (dm : List PyVal) (dl : List String) (st : FSt) : FSt := { md := dm ++ st.md, log := dl ++ st.log }

def FRes.pre (dm : List PyVal) (dl : List String) (r : FRes) : FRes := ⟨r.e, r.ty, r.st.pre dm dl, r.elts⟩

@[simp] theorem FSt.pre_md (dm dl) (st : FSt) : (st.pre dm dl).md = dm ++ st.md := rfl
@[simp] theorem FSt.pre_log (dm dl) (st : FSt) : (st.pre dm dl).log = dl ++ st.log := rfl
@[simp] theorem FRes.pre_e (dm dl) (r : FRes) : (r.pre dm dl).e = r.e := rfl
@[simp] theorem FRes.pre_ty (dm dl) (r : FRes) : (r.pre dm dl).ty = r.ty := rfl
@[simp] theorem FRes.pre_st (dm dl) (r : FRes) : (r.pre dm dl).st = r.st.pre dm dl := rfl
@[simp] theorem FRes.pre_elts (dm dl) (r : FRes) : (r.pre dm dl).elts = r.elts := rfl

theorem applyCb_pre (cb : Option CbSpec) (dm : List PyVal) (dl : List String) (st : FSt) (e : Expr) :
    applyCb cb (st.pre dm dl) e = ((applyCb cb st e).1.pre dm dl, (applyCb cb st e).2) := by
  cases cb with
  | none => rfl
  | some c =>
    simp only [applyCb, FSt.pre]
    cases c.md <;> simp [List.append_assoc]

def mapE {α β : Type} (f : α → β) : Except Err α → Except Err β
  | .ok a => .ok (f a)
  | .error e => .error e

@[simp] theorem mapE_ok {α β : Type} (f : α → β) (a : α) : mapE f (.ok a) = .ok (f a) := rfl
@[simp] theorem mapE_error {α β : Type} (f : α → β) (e : Err) : mapE f (.error e : Except Err α) = .error e := rfl

theorem mapE_bind {α β γ : Type} (f : α → β) (x : Except Err α) (g : β → Except Err γ) :
    (mapE f x >>= g) = x >>= (fun a => g (f a)) := by cases x <;> rfl

theorem mapE_bind_right {α β γ : Type} (f : β → γ) (x : Except Err α) (g : α → Except Err β) :
    mapE f (x >>= g) = x >>= (fun a => mapE f (g a)) := by cases x <;> rfl

@[simp] theorem mapE_pure {α β : Type} (f : α → β) (a : α) : mapE f (pure a : Except Err α) = pure (f a) := rfl

theorem mapE_ite {α β : Type} (f : α → β) (c : Prop) [Decidable c] (a b : Except Err α) :
    mapE f (if c then a else b) = if c then mapE f a else mapE f b := by split <;> rfl

theorem bind_congr' {α β : Type} (x : Except Err α) (g h : α → Except Err β) (H : ∀ a, g a = h a) : (x >>= g) = (x >>= h) := by
  cases x <;> simp [bind, Except.bind, H]

macro "wr_step" : tactic => `(tactic| first
  | rfl
  | (apply bind_congr'; intro x; try (cases x <;> simp only [Option.map_some, Option.map_none]))
  | split
  | contradiction
  | (exfalso; simp_all; done)
  | (simp_all only [mapE_bind_right, mapE_pure, mapE_error, mapE_ite, mapE_ok, pure, Except.pure, if_true, if_false,
      FRes.pre_st, FRes.pre_e, FRes.pre_ty, FRes.pre_elts]))

def Writer (M : Model) (fuel : Nat) : Prop :=
  (∀ G st dm dl e, follow M fuel G (FSt.pre dm dl st) e = mapE (FRes.pre dm dl) (follow M fuel G st e)) ∧
  (∀ G st dm dl es, followL M fuel G (FSt.pre dm dl st) es =
      mapE (fun p => (p.1, p.2.pre dm dl)) (followL M fuel G st es)) ∧
  (∀ G st dm dl objTy recv m args kwn kwv, methodCall M fuel G (FSt.pre dm dl st) objTy recv m args kwn kwv =
      mapE (FRes.pre dm dl) (methodCall M fuel G st objTy recv m args kwn kwv)) ∧
  (∀ G st dm dl recv m args kwn kwv cands last, candLoop M fuel G (FSt.pre dm dl st) recv m args kwn kwv cands last =
      mapE (fun p => (p.1, p.2.pre dm dl)) (candLoop M fuel G st recv m args kwn kwv cands last)) ∧
  (∀ G st dm dl cand m filled, onStreamObj M fuel G (FSt.pre dm dl st) cand m filled =
      mapE (Option.map (fun p => (p.1, p.2.1, p.2.2.pre dm dl))) (onStreamObj M fuel G st cand m filled))

theorem follow_writer (M : Model) : ∀ fuel, Writer M fuel := by
  intro fuel
  induction fuel with
  | zero =>
    refine ⟨?_, ?_, ?_, ?_, ?_⟩ <;> intros <;> simp [follow, followL, methodCall, candLoop, onStreamObj]
  | succ fuel ih =>
    obtain ⟨ihS, ihL, ihM, ihC, ihO⟩ := ih
    refine ⟨?_, ?_, ?_, ?_, ?_⟩
    · intro G st dm dl e
      cases e with
      | name x =>
        simp only [follow]
        split
        · rfl
        · split <;> rfl
      | const c => simp only [follow]; rfl
      | lam ps b => simp only [follow]; rfl
      | attr v a =>
        simp only [follow, ihS, mapE_bind, mapE_bind_right, FRes.pre_st, FRes.pre_e, FRes.pre_ty, FRes.pre_elts]
        apply bind_congr'; intro r
        repeat' wr_step
      | sub v s =>
        simp only [follow, ihS, mapE_bind, mapE_bind_right, FRes.pre_st, FRes.pre_e, FRes.pre_ty, FRes.pre_elts]
        apply bind_congr'; intro rv
        apply bind_congr'; intro rs
        repeat' wr_step
      | tuple es =>
        simp only [follow, ihS, ihL, mapE_bind, mapE_bind_right, FRes.pre_st, FRes.pre_e, FRes.pre_ty, FRes.pre_elts]
        repeat' wr_step
      | list es =>
        simp only [follow, ihS, ihL, mapE_bind, mapE_bind_right, FRes.pre_st, FRes.pre_e, FRes.pre_ty, FRes.pre_elts]
        repeat' wr_step
      | dict ks vs =>
        simp only [follow, ihS, ihL, mapE_bind, mapE_bind_right, FRes.pre_st, FRes.pre_e, FRes.pre_ty, FRes.pre_elts]
        repeat' wr_step
      | op k args =>
        simp only [follow, ihS, ihL, mapE_bind, mapE_bind_right, FRes.pre_st, FRes.pre_e, FRes.pre_ty, FRes.pre_elts]
        repeat' wr_step
      | comp kind el t i ifs a =>
        simp only [follow, ihS, ihL, mapE_bind, mapE_bind_right, FRes.pre_st, FRes.pre_e, FRes.pre_ty, FRes.pre_elts]
        repeat' wr_step
      | call f args kwn kwv =>
        simp only [follow, ihS, ihL, ihM, mapE_bind, mapE_bind_right, FRes.pre_st, FRes.pre_e, FRes.pre_ty, applyCb_pre]
        repeat' wr_step
    · intro G st dm dl es
      cases es with
      | nil => simp only [followL]; rfl
      | cons e rest =>
        simp only [followL]
        rw [ihS]
        cases follow M fuel G st e with
        | error x => simp [bind, Except.bind]
        | ok r =>
          simp only [mapE_ok, bind, Except.bind, FRes.pre_st]
          rw [ihL]
          cases followL M fuel G r.st rest <;> simp [pure, Except.pure]
    · -- methodCall
      intro G st dm dl objTy recv m args kwn kwv
      simp only [methodCall, ihC, mapE_bind, mapE_bind_right, applyCb_pre]
      repeat' wr_step
    · -- candLoop
      intro G st dm dl recv m args kwn kwv cands last
      cases cands with
      | nil => simp only [candLoop]; rfl
      | cons cand rest =>
        simp only [candLoop, ihC, ihO, mapE_bind, mapE_bind_right]
        repeat' wr_step
    · -- onStreamObj
      intro G st dm dl cand m filled
      simp only [onStreamObj]
      split
      · split
        · rename_i cn item f' x body kn kv hc
          have hst : ({ md := [], log := (FSt.pre dm dl st).log } : FSt) = FSt.pre [] dl { md := [], log := st.log } := by
            simp [FSt.pre]
          rw [hst, ihS]
          simp only [mapE_bind, mapE_bind_right, FRes.pre_st, FRes.pre_e, FRes.pre_ty, FRes.pre_elts]
          apply bind_congr'; intro rb
          apply bind_congr'; intro u
          by_cases hb : (m == "Where" && !rb.ty.beq Ty.bool) = true
          · simp [hb, mapE]
          · simp [hb, FSt.pre, mapE, pure, Except.pure, List.append_assoc]
        · rfl
      · rfl

theorem FSt.pre_empty (st : FSt) : FSt.pre st.md st.log { md := [], log := [] } = st := by
  cases st; simp [FSt.pre]

/-- **C09 (nothing is dropped, nothing depends on what is already there)**: following an expression from a stream state
    `st` succeeds exactly when following it from the empty state does, with the same rewritten expression and type, and
    its MetaData list / callback log are those of `st` followed by the ones produced from the empty state. -/
theorem follow_appends (M : Model) (fuel : Nat) (G : Gamma) (st : FSt) (e : Expr) :
    follow M fuel G st e = mapE (FRes.pre st.md st.log) (follow M fuel G { md := [], log := [] } e) := by
  have := (follow_writer M fuel).1 G { md := [], log := [] } st.md st.log e
  rw [FSt.pre_empty] at this
  exact this

theorem follow_effects_appended (M : Model) (fuel : Nat) (G : Gamma) (st : FSt) (e : Expr) (r : FRes)
    (h : follow M fuel G st e = .ok r) :
    ∃ r0, follow M fuel G { md := [], log := [] } e = .ok r0 ∧ r.e = r0.e ∧ r.ty = r0.ty ∧
      r.st.md = st.md ++ r0.st.md ∧ r.st.log = st.log ++ r0.st.log := by
  rw [follow_appends] at h
  cases h0 : follow M fuel G { md := [], log := [] } e with
  | error e => rw [h0] at h; cases h
  | ok r0 =>
    rw [h0] at h
    simp only [mapE_ok, Except.ok.injEq] at h
    subst h
    exact ⟨r0, rfl, rfl, rfl, rfl, rfl⟩

/-- a failure does not depend on the incoming state either -/
theorem follow_error_independent (M : Model) (fuel : Nat) (G : Gamma) (st st' : FSt) (e : Expr) (err : Err)
    (h : follow M fuel G st e = .error err) : follow M fuel G st' e = .error err := by
  rw [follow_appends] at h ⊢
  cases h0 : follow M fuel G { md := [], log := [] } e with
  | error e2 => rw [h0] at h; simpa using h
  | ok r0 => rw [h0] at h; cases h

/-- sequencing: the effects of a list of expressions followed left to right are the concatenation of their effects
    (this is how arguments of a call contribute, in order, before the call site itself) -/
theorem followL_appends (M : Model) (fuel : Nat) (G : Gamma) (st : FSt) (es : List Expr) :
    followL M fuel G st es =
      mapE (fun p => (p.1, p.2.pre st.md st.log)) (followL M fuel G { md := [], log := [] } es) := by
  have := (follow_writer M fuel).2.1 G { md := [], log := [] } st.md st.log es
  rw [FSt.pre_empty] at this
  exact this

end Fadl
