/-
  C12 — value() runs exactly the stream's query on its own dataset, once.
-/
import Fadl.Lemmas.StreamInv
namespace Fadl

def Op.isValue : Op → Bool
  | .value .. => true
  | _ => false

/-- **C12 (no executor is invoked while a query is being built)** -/
theorem build_calls_nothing (st : St) (op : Op) (h : op.isValue = false) : (step st op).calls = st.calls := by
  cases op with
  | value s o t => simp [Op.isValue] at h
  | dataset ty dargs => rfl
  | derive s op args ty => simp only [step]; cases st.streams[s]? <;> rfl
  | terminal s op args => simp only [step]; cases st.streams[s]? <;> rfl
  | qmeta s md =>
    simp only [step]
    cases st.streams[s]? with
    | none => rfl
    | some str =>
      simp only []
      split
      · rfl
      · cases st.heap[str.root]? <;> rfl

/-- **C12 (exactly one executor, exactly once, with exactly this query)**: in any reachable state,
    a `value()` on stream `s` appends exactly one executor invocation: the override if given,
    otherwise the executor of the dataset `s` was derived from; the AST handed over is the stream's
    query (`tm`: QMetaData-free, see C16) from which only the empty MetaData wrappers are removed
    (`removeEmptyMD`, characterised in C15); the title is passed through. -/
theorem value_calls_once (ops : List Op) (hwf : ∀ op ∈ ops, op.wf = true) (i : Nat) (s : Stream)
    (hs : (run ops).streams[i]? = some s) (override : Option Nat) (title : Option String) :
    (step (run ops) (.value i override title)).calls =
      (run ops).calls ++ [{ exe := override.getD s.ds, ast := removeEmptyMD s.tm, title := title }] := by
  have hinv := inv_run ops hwf
  have hmem := mem_of_getElem? hs
  simp only [step, hs]
  cases override with
  | some e => simp [getExecutor, hinv.tm s hmem]
  | none => simp [getExecutor, hinv.exe s hmem, hinv.tm s hmem]

/-- the streams and the heap are untouched by an execution -/
theorem value_changes_nothing_else (st : St) (i : Nat) (o : Option Nat) (t : Option String) :
    (step st (.value i o t)).heap = st.heap ∧ (step st (.value i o t)).streams = st.streams := by
  simp only [step]
  cases st.streams[i]? with
  | none => exact ⟨rfl, rfl⟩
  | some str =>
    simp only []
    cases getExecutor st.heap str.root o <;> exact ⟨rfl, rfl⟩

/-! ### the root dataset node is recoverable -/

def Op.argsClean : Op → Bool
  | .derive _ _ args _ => countEDSL args == 0
  | .terminal _ _ args => countEDSL args == 0
  | _ => true

theorem countEDS_fcall (op : String) (x : Expr) (args : List Expr) (h : op ≠ "EventDataset") :
    countEDS (fcall op (x :: args)) = countEDS x + countEDSL args := by
  simp [fcall, countEDS, countEDSL, isNameOf, h]

/-- ghost-term invariant: exactly one dataset node in every stream's query -/
theorem one_root (ops : List Op) (hclean : ∀ op ∈ ops, op.argsClean = true)
    (hops : ∀ op ∈ ops, ∀ s o a t, op = .derive s o a t → o ≠ "EventDataset")
    (hops' : ∀ op ∈ ops, ∀ s o a, op = .terminal s o a → o ≠ "EventDataset") :
    ∀ s ∈ (run ops).streams, countEDS s.tm = 1 := by
  unfold run
  suffices h : ∀ (st : St), (∀ s ∈ st.streams, countEDS s.tm = 1) →
      ∀ s ∈ (ops.foldl step st).streams, countEDS s.tm = 1 from h _ (by simp [St.init])
  induction ops with
  | nil => intro st h; exact h
  | cons op ops ih =>
    intro st h
    simp only [List.foldl]
    apply ih (fun o ho => hclean o (List.mem_cons_of_mem _ ho))
      (fun o ho => hops o (List.mem_cons_of_mem _ ho)) (fun o ho => hops' o (List.mem_cons_of_mem _ ho))
    have hc := hclean op (List.mem_cons_self)
    cases op with
    | dataset ty dargs =>
      intro s hs
      simp only [step, List.mem_append, List.mem_singleton] at hs
      rcases hs with hs | hs
      · exact h s hs
      · subst hs; simp [fcall, countEDS, isNameOf]
    | derive i o args ty =>
      intro s hs
      simp only [step] at hs
      cases hstr : st.streams[i]? with
      | none => rw [hstr] at hs; exact h s hs
      | some str =>
        rw [hstr] at hs
        simp only [List.mem_append, List.mem_singleton] at hs
        rcases hs with hs | hs
        · exact h s hs
        · subst hs
          have hne := hops _ (List.mem_cons_self) i o args ty rfl
          simp only [Op.argsClean, beq_iff_eq] at hc
          rw [countEDS_fcall o _ _ hne, h str (mem_of_getElem? hstr), hc]
    | terminal i o args =>
      intro s hs
      simp only [step] at hs
      cases hstr : st.streams[i]? with
      | none => rw [hstr] at hs; exact h s hs
      | some str =>
        rw [hstr] at hs
        simp only [List.mem_append, List.mem_singleton] at hs
        rcases hs with hs | hs
        · exact h s hs
        · subst hs
          have hne := hops' _ (List.mem_cons_self) i o args rfl
          simp only [Op.argsClean, beq_iff_eq] at hc
          rw [countEDS_fcall o _ _ hne, h str (mem_of_getElem? hstr), hc]
    | qmeta i md =>
      intro s hs
      simp only [step] at hs
      cases hstr : st.streams[i]? with
      | none => rw [hstr] at hs; exact h s hs
      | some str =>
        rw [hstr] at hs
        simp only [] at hs
        split at hs
        · simp only [List.mem_append, List.mem_singleton] at hs
          rcases hs with hs | hs
          · exact h s hs
          · subst hs; exact h str (mem_of_getElem? hstr)
        · cases hcell : st.heap[str.root]? with
          | none => rw [hcell] at hs; exact h s hs
          | some c =>
            rw [hcell] at hs
            simp only [List.mem_append, List.mem_singleton] at hs
            rcases hs with hs | hs
            · exact h s hs
            · subst hs; exact h str (mem_of_getElem? hstr)
    | value i o t =>
      intro s hs
      rw [(value_changes_nothing_else st i o t).2] at hs
      exact h s hs

/-- **C12 (root recoverable)**: for every stream of a history whose lambdas and arguments contain no
    dataset node of their own, `find_EventDataset` succeeds on the stream's query. -/
theorem root_recoverable (ops : List Op) (hwf : ∀ op ∈ ops, op.wf = true)
    (hclean : ∀ op ∈ ops, op.argsClean = true)
    (hops : ∀ op ∈ ops, ∀ s o a t, op = .derive s o a t → o ≠ "EventDataset")
    (hops' : ∀ op ∈ ops, ∀ s o a, op = .terminal s o a → o ≠ "EventDataset")
    (s : Stream) (hs : s ∈ (run ops).streams) :
    findEventDataset (abs (run ops).heap s.root) = .ok () := by
  rw [(inv_run ops hwf).tm s hs]
  simp [findEventDataset, one_root ops hclean hops hops' s hs]

/-- **C12 (no root / several roots are rejected)** -/
theorem no_or_many_roots_rejected (e : Expr) (h : countEDS e ≠ 1) :
    findEventDataset e = .error (.internal "Exception") := by
  simp [findEventDataset, h]

/-- Non-vacuity: a concrete history with two datasets meets every hypothesis of the theorems above. -/
example :
    let ops := [Op.dataset "E" [], .derive 0 "Select" [.lam ["e"] (.name "e")] "E", .dataset "F" [.const (.str "hi")],
          .derive 2 "MetaData" [.dict [] []] "F", .qmeta 3 [("k", .int 1)],
          .derive 4 "Where" [.lam ["f"] (.const (.bool true))] "F"]
    (∀ op ∈ ops, op.wf = true) ∧ (∀ op ∈ ops, op.argsClean = true) := by
  refine ⟨by decide, by decide⟩

end Fadl
