/-
  C08 — type following yields the declared types.  (Stream-level rules and the local typing rules
  of the follower; the soundness theorem against a declarative typing relation is in progress.)
-/
import Fadl.Model.Follow
import Fadl.Lemmas.Basic
namespace Fadl

/-- **Where keeps the item type** (and anything it accepts has a boolean filter) -/
theorem where_keeps_item_type (M : Model) (ty : Ty) (lam l : Expr) (t : Ty) (st : FSt)
    (h : streamOp M "Where" ty lam = .ok (l, t, st)) : t = ty := by
  unfold streamOp at h
  split at h
  · rw [bind_ok_iff'] at h
    obtain ⟨rb, _, h⟩ := h
    rw [bind_ok_iff'] at h
    obtain ⟨_, _, h⟩ := h
    simp only [beq_self_eq_true, if_true] at h
    split at h
    · simp only [pure, Except.pure, Except.ok.injEq, Prod.mk.injEq] at h; exact h.2.1.symm
    · cases h
  · cases h

/-- **Where rejects a non-boolean filter with ValueError** -/
theorem where_rejects_nonbool (M : Model) (ty : Ty) (x : String) (body : Expr) (rb : FRes)
    (hf : follow M (followFuel body) [(x, ty)] { md := [], log := [] } body = .ok rb)
    (hc : checkAst (.lam [x] rb.e) = .ok ())
    (hb : Ty.beq rb.ty .bool = false) :
    ∃ msg, streamOp M "Where" ty (.lam [x] body) = .error (.valueError msg) := by
  simp [streamOp, hf, hc, hb, bind, Except.bind]

/-- **Select gives the lambda's result type** -/
theorem select_gives_body_type (M : Model) (ty : Ty) (x : String) (body : Expr) (rb : FRes)
    (hf : follow M (followFuel body) [(x, ty)] { md := [], log := [] } body = .ok rb)
    (hc : checkAst (.lam [x] rb.e) = .ok ()) :
    streamOp M "Select" ty (.lam [x] body) = .ok (.lam [x] rb.e, rb.ty, rb.st) := by
  simp [streamOp, hf, hc, bind, Except.bind, pure, Except.pure]

/-- **SelectMany gives the element type of the lambda's result** -/
theorem selectMany_gives_element_type (M : Model) (ty : Ty) (x : String) (body : Expr) (rb : FRes)
    (hf : follow M (followFuel body) [(x, ty)] { md := [], log := [] } body = .ok rb)
    (hc : checkAst (.lam [x] rb.e) = .ok ()) :
    streamOp M "SelectMany" ty (.lam [x] body) = .ok (.lam [x] rb.e, unwrapIterable M rb.ty, rb.st) := by
  simp [streamOp, hf, hc, bind, Except.bind, pure, Except.pure]

theorem unwrapIterable_iterable (M : Model) (t : Ty) : unwrapIterable M (.iterable t) = t := by
  simp [unwrapIterable, iterElem]

/-- element type through a custom Iterable subclass: `class Vec(Iterable[T])`, `Vec[Jet]` ↦ `Jet` -/
example :
    let M : Model := { classes := [{ name := "Vec", tparams := ["T"], base := some (.iterable (.tvar "T")), methods := [],
                                      props := [], classCb := Option.none, collection := false }], funcs := [] }
    unwrapIterable M (.cls "Vec" [.cls "Jet" []]) = .cls "Jet" [] := by rfl

/-- a generic subclass re-binding its base's type variable name:
    `class Grouped(Iterable[T])`, `class ListGroups(Grouped[Iterable[T]])`: `ListGroups[Jet]` iterates `Iterable[Jet]` -/
example :
    let M : Model := { classes := [
        { name := "Grouped", tparams := ["T"], base := some (.iterable (.tvar "T")), methods := [], props := [],
          classCb := Option.none, collection := false },
        { name := "ListGroups", tparams := ["T"], base := some (.cls "Grouped" [.iterable (.tvar "T")]), methods := [],
          props := [], classCb := Option.none, collection := false }], funcs := [] }
    unwrapIterable M (.cls "ListGroups" [.cls "Jet" []]) = .iterable (.cls "Jet" []) := by rfl

/-- a method's annotated return type with the class's type variables substituted -/
theorem resolveRet_generic (M : Model) (k : Klass) (args : List Ty) (ret : Ty)
    (hk : findClass M k.name = some k) (hne : args ≠ []) :
    resolveRet (.cls k.name args) M ret = substTy (k.tparams.zip args) ret := by
  simp only [resolveRet, hk]
  cases args with
  | nil => exact absurd rfl hne
  | cons a as => simp

end Fadl
