/-
  C09 — callbacks fire at every matching call site and their metadata reaches the stream.
  (Local laws of the callback machinery of the follower model; the exactness theorem against a
  declarative list of call sites is in progress.)
-/
import Fadl.Model.Follow
namespace Fadl

/-- no callback registered: no effect, call site unchanged -/
theorem no_callback_no_effect (st : FSt) (e : Expr) : applyCb Option.none st e = (st, e) := rfl

/-- a callback is logged exactly once, its MetaData is appended after whatever is already on the
    stream, and the call site it returns is what is passed on -/
theorem callback_effect (cb : CbSpec) (st : FSt) (e : Expr) :
    (applyCb (some cb) st e).1.log = st.log ++ [cb.tag] ∧
    (applyCb (some cb) st e).1.md = (match cb.md with | some d => st.md ++ [d] | Option.none => st.md) ∧
    (applyCb (some cb) st e).2 = applyCbCall cb e := by
  refine ⟨by simp [applyCb], ?_, by simp [applyCb]⟩
  simp only [applyCb]
  cases cb.md <;> rfl

/-- **class-level callback before the method-level one**, each once; the method-level callback
    receives the call site as rewritten by the class-level one -/
theorem class_before_method (ccb mcb : CbSpec) (st : FSt) (e : Expr) :
    let r1 := applyCb (some ccb) st e
    let r2 := applyCb (some mcb) r1.1 r1.2
    r2.1.log = st.log ++ [ccb.tag, mcb.tag] ∧ r2.2 = applyCbCall mcb (applyCbCall ccb e) := by
  simp [applyCb]

/-- a rewrite that renames the method and appends an argument, as emitted -/
example :
    applyCbCall { tag := "t", md := Option.none, rename := some "getAttrFloat", addArg := some (.int 99) }
      (mcall (.name "j") "getAttr" [.const (.str "emf")]) =
    mcall (.name "j") "getAttrFloat" [.const (.str "emf"), .const (.int 99)] := by rfl

end Fadl
