/-
  C10 — the type follower is inert on untyped expressions: for ANY class model, if every name in scope has an untyped
  type (Any, a builtin scalar type, a callable, or the dataclass of a dictionary literal over such types) and the
  expression calls no registered function by name, then whenever the follower returns, it returns the expression it was
  given, records no effect, and the type it reports is again untyped.  Hence Select / SelectMany / Where on an untyped
  stream emit exactly the lambda they were given, or refuse.
-/
import Fadl.Model.Untyped
import Fadl.Props.C10
namespace Fadl
set_option linter.unusedSimpArgs false
set_option linter.unusedVariables false

/-! ### untyped types have no methods and are not iterable -/

theorem findMethod_untyped (M : Model) (n : Nat) {t : Ty} (h : t.untyped = true) (m : String) : findMethod M n t m = Option.none := by
  cases n with
  | zero => rfl
  | succ n => cases t <;> simp [Ty.untyped] at h <;> rfl

theorem getInherited_untyped (M : Model) {t : Ty} (h : t.untyped = true) : getInherited M t = .any := by
  cases t <;> simp [Ty.untyped] at h <;> rfl

theorem iterElem_untyped (M : Model) (n : Nat) {t : Ty} (h : t.untyped = true) : iterElem M n t = Option.none := by
  cases n with
  | zero => rfl
  | succ n =>
    cases n with
    | zero => cases t <;> simp [Ty.untyped] at h <;> simp [iterElem]
    | succ k => cases t <;> simp [Ty.untyped] at h <;> simp [iterElem, getInherited]

theorem unwrapIterable_untyped (M : Model) {t : Ty} (h : t.untyped = true) : unwrapIterable M t = .any := by
  simp [unwrapIterable, iterElem_untyped M 16 h]

theorem isIterable_untyped (M : Model) {t : Ty} (h : t.untyped = true) : isIterable M t = false := by
  simp [isIterable, iterElem_untyped M 16 h]

theorem methodCall_untyped (M : Model) (fuel : Nat) (G : Gamma) (st : FSt) {objTy : Ty} (recv : Expr) (m : String)
    (args : List Expr) (kwn : List String) (kwv : List Expr) (r : FRes) (h : objTy.untyped = true)
    (hr : methodCall M fuel G st objTy recv m args kwn kwv = .ok r) :
    r.e = .call (.attr recv m) args kwn kwv ∧ r.ty = .any ∧ r.st = st ∧ r.elts = [] := by
  cases fuel with
  | zero => simp [methodCall] at hr
  | succ fuel =>
    simp only [methodCall, isIterable_untyped M h, Bool.false_eq_true, if_false] at hr
    cases fuel with
    | zero => simp [candLoop, bind, Except.bind] at hr
    | succ k =>
      simp only [candLoop, findMethod_untyped M 16 h] at hr
      cases k with
      | zero => simp [candLoop, bind, Except.bind] at hr
      | succ k2 =>
        simp only [candLoop, bind, Except.bind, pure, Except.pure, Except.ok.injEq] at hr
        subst hr
        exact ⟨rfl, rfl, rfl, rfl⟩

theorem untyped_dcField {t : Ty} (h : t.untyped = true) {k : String} {u : Ty} (hk : dcField k t = some u) : u.untyped = true := by
  cases t <;> simp [dcField] at hk
  rename_i ks ts
  simp only [Ty.untyped] at h
  have hm : u ∈ ts := by
    obtain ⟨l1, l2, hl, _⟩ := List.lookup_eq_some_iff.mp hk
    have : (k, u) ∈ ks.zip ts := by rw [hl]; simp
    exact (List.of_mem_zip this).2
  clear hk
  induction ts with
  | nil => cases hm
  | cons a rest ih =>
    simp only [Ty.untypedL, Bool.and_eq_true] at h
    rcases List.mem_cons.mp hm with rfl | h'
    · exact h.1
    · exact ih h.2 h'

theorem untypedL_of_forall : ∀ (ts : List Ty), (∀ t ∈ ts, t.untyped = true) → Ty.untypedL ts = true
  | [], _ => rfl
  | t :: ts, h => by
    simp only [Ty.untypedL, Bool.and_eq_true]
    exact ⟨h t List.mem_cons_self, untypedL_of_forall ts (fun u hu => h u (List.mem_cons_of_mem _ hu))⟩

theorem untyped_mkDictTy (kv : List PyVal) (ts : List Ty) (h : ∀ t ∈ ts, t.untyped = true) : (mkDictTy kv ts).untyped = true := by
  unfold mkDictTy
  split
  · split
    · simp only [Ty.untyped]; exact untypedL_of_forall ts h
    · rfl
  · rfl

theorem untyped_constTy (c : Const) : (constTy c).untyped = true := by cases c <;> rfl

theorem gammaU_append {G1 G2 : Gamma} (h1 : ∀ p ∈ G1, p.2.untyped = true) (h2 : GammaU G2) : GammaU (G1 ++ G2) := by
  intro x t hx
  induction G1 with
  | nil => exact h2 x t hx
  | cons p rest ih =>
    obtain ⟨k, u⟩ := p
    simp only [List.cons_append, gammaGet] at hx
    split at hx
    · cases hx; exact h1 (k, t) List.mem_cons_self
    · exact ih (fun q hq => h1 q (List.mem_cons_of_mem _ hq)) hx

theorem untyped_kwTy (p : String) : ∀ (kwn : List String) (kwt : List Ty), (∀ t ∈ kwt, t.untyped = true) →
    ∀ u, kwTy p kwn kwt = some u → u.untyped = true
  | [], _, _, u, h => by simp [kwTy] at h
  | _ :: _, [], _, u, h => by simp [kwTy] at h
  | k :: ks, t :: ts, hall, u, h => by
    simp only [kwTy] at h
    split at h
    · rename_i t' ht'
      cases h
      exact untyped_kwTy p ks ts (fun x hx => hall x (List.mem_cons_of_mem _ hx)) _ ht'
    · split at h
      · cases h; exact hall _ List.mem_cons_self
      · cases h

theorem lamArgTys_untyped (ps : List String) (pos : List Ty) (kwn : List String) (kwt : List Ty)
    (hp : ∀ t ∈ pos, t.untyped = true) (hk : ∀ t ∈ kwt, t.untyped = true) :
    ∀ q ∈ lamArgTys ps pos kwn kwt, q.2.untyped = true := by
  intro q hq
  simp only [lamArgTys, List.mem_map] at hq
  obtain ⟨⟨p, i⟩, _, rfl⟩ := hq
  simp only []
  cases hkw : kwTy p kwn kwt with
  | some u => simp only [Option.getD_some]; exact untyped_kwTy p kwn kwt hk u hkw
  | none =>
    simp only [Option.getD_none]
    cases hpi : pos[i]? with
    | some u => simp only [Option.getD_some]; exact hp u (List.mem_of_getElem? hpi)
    | none => rfl

theorem noFuncCallL_mem (M : Model) {es : List Expr} (h : noFuncCallL M es = true) {e : Expr} (he : e ∈ es) :
    noFuncCall M e = true := by
  induction es with
  | nil => cases he
  | cons a rest ih =>
    simp only [noFuncCallL, Bool.and_eq_true] at h
    rcases List.mem_cons.mp he with rfl | h'
    · exact h.1
    · exact ih h.2 h'

/-- what the follower guarantees on an untyped expression -/
def Inert (e : Expr) (st : FSt) (r : Except Err FRes) : Prop :=
  ∀ x, r = .ok x → x.e = e ∧ x.ty.untyped = true ∧ x.st = st ∧ (∀ t ∈ x.elts, t.untyped = true)

def InertL (es : List Expr) (st : FSt) (r : Except Err (List (Expr × Ty) × FSt)) : Prop :=
  ∀ rs st', r = .ok (rs, st') → rs.map (·.1) = es ∧ (∀ t ∈ rs.map (·.2), t.untyped = true) ∧ st' = st

theorem nil_untyped : ∀ t ∈ ([] : List Ty), t.untyped = true := by intro t ht; cases ht

theorem follow_untyped (M : Model) : ∀ fuel : Nat,
    (∀ G st e, GammaU G → noFuncCall M e = true → Inert e st (follow M fuel G st e)) ∧
    (∀ G st es, GammaU G → noFuncCallL M es = true → InertL es st (followL M fuel G st es)) := by
  intro fuel
  induction fuel with
  | zero =>
    constructor
    · intro G st e _ _ x h; simp [follow] at h
    · intro G st es _ _ rs st' h; simp [followL] at h
  | succ fuel ih =>
    obtain ⟨ihS, ihL⟩ := ih
    constructor
    · intro G st e hG hn x h
      cases e with
      | name y =>
        simp only [follow] at h
        split at h
        · rename_i t ht; cases h; exact ⟨rfl, hG y t ht, rfl, nil_untyped⟩
        · split at h <;> cases h <;> exact ⟨rfl, rfl, rfl, nil_untyped⟩
      | const k => simp only [follow, Except.ok.injEq] at h; subst h; exact ⟨rfl, untyped_constTy k, rfl, nil_untyped⟩
      | lam ps b => simp only [follow, Except.ok.injEq] at h; subst h; exact ⟨rfl, rfl, rfl, nil_untyped⟩
      | attr v a =>
        simp only [noFuncCall] at hn
        simp only [follow] at h
        cases hv : follow M fuel G st v with
        | error e => simp [hv, bind, Except.bind] at h
        | ok r =>
          obtain ⟨he, ht, hs, hel⟩ := ihS G st v hG hn r hv
          simp only [hv, bind, Except.bind] at h
          split at h
          · rename_i ks vs hd
            cases hi : dictLitIndex a ks 0 with
            | error e => simp [hi] at h
            | ok oi =>
              simp only [hi] at h
              cases oi with
              | some i =>
                simp only [] at h
                split at h
                · rename_i t _ hti _
                  simp only [pure, Except.pure, Except.ok.injEq] at h
                  subst h
                  exact ⟨by rw [he], hel t (List.mem_of_getElem? hti), hs, nil_untyped⟩
                · cases h
              | none =>
                simp only [] at h
                split at h
                · simp only [pure, Except.pure, Except.ok.injEq] at h; subst h; exact ⟨by rw [he], rfl, hs, nil_untyped⟩
                · cases h
          · split at h
            · split at h
              · rename_i t hf
                simp only [pure, Except.pure, Except.ok.injEq] at h; subst h
                exact ⟨by rw [he], untyped_dcField ht hf, hs, nil_untyped⟩
              · cases h
            · simp only [pure, Except.pure, Except.ok.injEq] at h; subst h; exact ⟨by rw [he], rfl, hs, nil_untyped⟩
      | sub v s =>
        simp only [noFuncCall, Bool.and_eq_true] at hn
        simp only [follow] at h
        cases hv : follow M fuel G st v with
        | error e => simp [hv, bind, Except.bind] at h
        | ok rv =>
          obtain ⟨he, ht, hs, hel⟩ := ihS G st v hG hn.1 rv hv
          simp only [hv, bind, Except.bind] at h
          cases hs2 : follow M fuel G rv.st s with
          | error e => simp [hs2] at h
          | ok rs =>
            obtain ⟨he2, ht2, hst2, _⟩ := ihS G rv.st s hG hn.2 rs hs2
            simp only [hs2] at h
            have hfin : ∀ (ty : Ty), ty.untyped = true → x = ⟨.sub rv.e rs.e, ty, rs.st, []⟩ →
                x.e = .sub v s ∧ x.ty.untyped = true ∧ x.st = st ∧ (∀ t ∈ x.elts, t.untyped = true) := by
              intro ty hty hx; subst hx; exact ⟨by simp only [he, he2], hty, by rw [hst2, hs], nil_untyped⟩
            split at h
            · rename_i elts hd
              repeat' (split at h)
              all_goals (try (cases h; done))
              all_goals (
                simp only [pure, Except.pure, Except.ok.injEq] at h
                refine hfin _ ?_ h.symm
                exact hel _ (List.mem_of_getElem? (by assumption)))
            · repeat' (split at h)
              all_goals (try (cases h; done))
              all_goals (
                simp only [pure, Except.pure, Except.ok.injEq] at h
                refine hfin _ ?_ h.symm
                first
                  | exact untyped_dcField ht (by assumption)
                  | (rw [unwrapIterable_untyped M ht]; rfl))
      | tuple es =>
        simp only [noFuncCall] at hn
        simp only [follow] at h
        cases hl : followL M fuel G st es with
        | error e => simp [hl, bind, Except.bind] at h
        | ok r =>
          obtain ⟨rs, st'⟩ := r
          obtain ⟨h1, h2, h3⟩ := ihL G st es hG hn rs st' hl
          simp only [hl, bind, Except.bind, pure, Except.pure, Except.ok.injEq] at h
          subst h; exact ⟨by simp only [h1], rfl, h3, h2⟩
      | list es =>
        simp only [noFuncCall] at hn
        simp only [follow] at h
        cases hl : followL M fuel G st es with
        | error e => simp [hl, bind, Except.bind] at h
        | ok r =>
          obtain ⟨rs, st'⟩ := r
          obtain ⟨h1, _, h3⟩ := ihL G st es hG hn rs st' hl
          simp only [hl, bind, Except.bind, pure, Except.pure, Except.ok.injEq] at h
          subst h; exact ⟨by simp only [h1], rfl, h3, nil_untyped⟩
      | dict ks vs =>
        simp only [noFuncCall, Bool.and_eq_true] at hn
        simp only [follow] at h
        cases hl : followL M fuel G st ks with
        | error e => simp [hl, bind, Except.bind] at h
        | ok r =>
          obtain ⟨rs, st1⟩ := r
          obtain ⟨h1, _, h3⟩ := ihL G st ks hG hn.1 rs st1 hl
          simp only [hl, bind, Except.bind] at h
          cases hl2 : followL M fuel G st1 vs with
          | error e => simp [hl2] at h
          | ok r2 =>
            obtain ⟨rs2, st2⟩ := r2
            obtain ⟨g1, g2, g3⟩ := ihL G st1 vs hG hn.2 rs2 st2 hl2
            simp only [hl2] at h
            cases hkv : (rs.map (·.1)).mapM litKey with
            | error e => simp [hkv] at h
            | ok kv =>
              simp only [hkv, pure, Except.pure, Except.ok.injEq] at h
              subst h
              exact ⟨by simp only [h1, g1], untyped_mkDictTy kv _ g2, by rw [g3, h3], g2⟩
      | op k args =>
        simp only [noFuncCall] at hn
        simp only [follow] at h
        cases hl : followL M fuel G st args with
        | error e => simp [hl, bind, Except.bind] at h
        | ok r =>
          obtain ⟨rs, st'⟩ := r
          obtain ⟨h1, h2, h3⟩ := ihL G st args hG hn rs st' hl
          simp only [hl, bind, Except.bind] at h
          have hfin : ∀ (ty : Ty), ty.untyped = true → x = ⟨.op k (rs.map (·.1)), ty, st', []⟩ →
              x.e = .op k args ∧ x.ty.untyped = true ∧ x.st = st ∧ (∀ t ∈ x.elts, t.untyped = true) := by
            intro ty hty hx; subst hx; exact ⟨by simp only [h1], hty, h3, nil_untyped⟩
          repeat' (split at h)
          all_goals (try (cases h; done))
          all_goals (
            simp only [pure, Except.pure, Except.ok.injEq] at h
            refine hfin _ ?_ h.symm
            first
              | rfl
              | (apply h2; simp [*])
              | (repeat' split) <;> rfl)
      | comp kind el t i ifs a =>
        simp only [noFuncCall, Bool.and_eq_true] at hn
        simp only [follow] at h
        cases h1 : follow M fuel G st el with
        | error e => simp [h1, bind, Except.bind] at h
        | ok r1 =>
          obtain ⟨a1, _, a3, _⟩ := ihS G st el hG hn.1.1.1 r1 h1
          simp only [h1, bind, Except.bind] at h
          cases h2 : follow M fuel G r1.st t with
          | error e => simp [h2] at h
          | ok r2 =>
            obtain ⟨b1, _, b3, _⟩ := ihS G r1.st t hG hn.1.1.2 r2 h2
            simp only [h2] at h
            cases h3 : follow M fuel G r2.st i with
            | error e => simp [h3] at h
            | ok r3 =>
              obtain ⟨c1, _, c3, _⟩ := ihS G r2.st i hG hn.1.2 r3 h3
              simp only [h3] at h
              cases h4 : followL M fuel G r3.st ifs with
              | error e => simp [h4] at h
              | ok r4 =>
                obtain ⟨rs, st'⟩ := r4
                obtain ⟨d1, _, d3⟩ := ihL G r3.st ifs hG hn.2 rs st' h4
                simp only [h4, pure, Except.pure, Except.ok.injEq] at h
                subst h
                exact ⟨by simp only [a1, b1, c1, d1], rfl, by rw [d3, c3, b3, a3], nil_untyped⟩
      | call f args kwn kwv =>
        simp only [noFuncCall, Bool.and_eq_true] at hn
        obtain ⟨⟨⟨hnf, hna⟩, hnk⟩, hnm⟩ := hn
        simp only [follow] at h
        cases hf : follow M fuel G st f with
        | error e => simp [hf, bind, Except.bind] at h
        | ok rf =>
          obtain ⟨f1, _, f3, _⟩ := ihS G st f hG hnf rf hf
          simp only [hf, bind, Except.bind] at h
          cases ha : followL M fuel G rf.st args with
          | error e => simp [ha] at h
          | ok ra =>
            obtain ⟨as', st1⟩ := ra
            obtain ⟨a1, a2, a3⟩ := ihL G rf.st args hG hna as' st1 ha
            simp only [ha] at h
            cases hk : followL M fuel G st1 kwv with
            | error e => simp [hk] at h
            | ok rk =>
              obtain ⟨ks', st2⟩ := rk
              obtain ⟨k1, k2, k3⟩ := ihL G st1 kwv hG hnk ks' st2 hk
              simp only [hk] at h
              have hst2 : st2 = st := by rw [k3, a3, f3]
              have hfin : ∀ (ty : Ty), ty.untyped = true →
                  x = ⟨.call rf.e (as'.map (·.1)) kwn (ks'.map (·.1)), ty, st2, []⟩ →
                  x.e = .call f args kwn kwv ∧ x.ty.untyped = true ∧ x.st = st ∧ (∀ t ∈ x.elts, t.untyped = true) := by
                intro ty hty hx; subst hx; exact ⟨by simp only [f1, a1, k1], hty, hst2, nil_untyped⟩
              rw [f1] at h
              cases f with
              | attr recv m =>
                simp only [] at h
                simp only [noFuncCall] at hnf
                cases hr : follow M fuel G st recv with
                | error e => simp [hr] at h
                | ok rr =>
                  obtain ⟨_, r2, _, _⟩ := ihS G st recv hG hnf rr hr
                  simp only [hr] at h
                  obtain ⟨m1, m2, m3, m4⟩ := methodCall_untyped M fuel G st2 recv m _ kwn _ x r2 h
                  exact ⟨by rw [m1]; simp only [a1, k1], by rw [m2]; rfl, by rw [m3, hst2], by rw [m4]; exact nil_untyped⟩
              | name n =>
                simp only [] at h
                simp only [Bool.not_eq_true'] at hnm
                have hnone : M.funcs.find? (fun fi => fi.name == n) = Option.none := by
                  rw [List.find?_eq_none]
                  intro fi hfi hc
                  have : M.funcs.any (fun fi => fi.name == n) = true := List.any_eq_true.mpr ⟨fi, hfi, hc⟩
                  rw [hnm] at this; cases this
                simp only [hnone, pure, Except.pure, Except.ok.injEq] at h
                rw [← f1] at h
                exact hfin _ rfl h.symm
              | sub fv sl =>
                cases fv with
                | attr recv pn =>
                  simp only [] at h
                  simp only [noFuncCall, Bool.and_eq_true] at hnf
                  cases hr : follow M fuel G st recv with
                  | error e => simp [hr] at h
                  | ok rr =>
                    obtain ⟨_, r2, _, _⟩ := ihS G st recv hG hnf.1 rr hr
                    simp only [hr] at h
                    split at h
                    · simp only [pure, Except.pure, Except.ok.injEq] at h
                      rw [← f1] at h
                      exact hfin _ rfl h.symm
                    · rename_i cn cargs hc
                      rw [hc] at r2; simp [Ty.untyped] at r2
                    · simp only [pure, Except.pure, Except.ok.injEq] at h
                      rw [← f1] at h
                      exact hfin _ rfl h.symm
                | _ =>
                  simp only [pure, Except.pure, Except.ok.injEq] at h
                  rw [← f1] at h
                  exact hfin _ rfl h.symm
              | lam ps body =>
                simp only [] at h
                simp only [noFuncCall] at hnf
                cases hb : follow M fuel (lamArgTys ps (as'.map (·.2)) kwn (ks'.map (·.2)) ++ G) st2 body with
                | error e => simp [hb] at h
                | ok rb =>
                  have hG' : GammaU (lamArgTys ps (as'.map (·.2)) kwn (ks'.map (·.2)) ++ G) :=
                    gammaU_append (lamArgTys_untyped ps _ kwn _ a2 k2) hG
                  obtain ⟨b1, b2, b3, _⟩ := ihS _ st2 body hG' hnf rb hb
                  simp only [hb, pure, Except.pure, Except.ok.injEq] at h
                  subst h
                  exact ⟨by simp only [b1, a1, k1], b2, by rw [b3, hst2], nil_untyped⟩
              | const c => simp only [pure, Except.pure, Except.ok.injEq] at h; rw [← f1] at h; exact hfin _ rfl h.symm
              | tuple es => simp only [pure, Except.pure, Except.ok.injEq] at h; rw [← f1] at h; exact hfin _ rfl h.symm
              | list es => simp only [pure, Except.pure, Except.ok.injEq] at h; rw [← f1] at h; exact hfin _ rfl h.symm
              | dict ks vs => simp only [pure, Except.pure, Except.ok.injEq] at h; rw [← f1] at h; exact hfin _ rfl h.symm
              | op k es => simp only [pure, Except.pure, Except.ok.injEq] at h; rw [← f1] at h; exact hfin _ rfl h.symm
              | comp kind el t i ifs a => simp only [pure, Except.pure, Except.ok.injEq] at h; rw [← f1] at h; exact hfin _ rfl h.symm
              | call f2 a2' k2' v2 => simp only [pure, Except.pure, Except.ok.injEq] at h; rw [← f1] at h; exact hfin _ rfl h.symm
    · intro G st es hG hn rs st' h
      cases es with
      | nil =>
        simp only [followL, Except.ok.injEq, Prod.mk.injEq] at h
        obtain ⟨rfl, rfl⟩ := h
        exact ⟨rfl, fun t ht => (by simp at ht), rfl⟩
      | cons e rest =>
        simp only [noFuncCallL, Bool.and_eq_true] at hn
        simp only [followL] at h
        cases he : follow M fuel G st e with
        | error x => simp [he, bind, Except.bind] at h
        | ok r =>
          obtain ⟨e1, e2, e3, _⟩ := ihS G st e hG hn.1 r he
          simp only [he, bind, Except.bind] at h
          cases hr : followL M fuel G r.st rest with
          | error x => simp [hr] at h
          | ok rr =>
            obtain ⟨rs2, st2⟩ := rr
            obtain ⟨r1, r2, r3⟩ := ihL G r.st rest hG hn.2 rs2 st2 hr
            simp only [hr, pure, Except.pure, Except.ok.injEq, Prod.mk.injEq] at h
            obtain ⟨rfl, rfl⟩ := h
            refine ⟨by simp only [List.map_cons, e1, r1], ?_, by rw [r3, e3]⟩
            intro t ht
            simp only [List.map_cons, List.mem_cons] at ht
            rcases ht with rfl | ht
            · exact e2
            · exact r2 t ht

/-- **C10**: Select / SelectMany / Where on a stream whose items have an untyped type (an untyped dataset: `Any`), given a
    one-parameter lambda that calls no registered function by name: whenever the operator accepts the lambda, the lambda
    it emits is exactly the one it was given and no MetaData / callback effect is recorded — for every class model. -/
theorem streamOp_untyped_identity (M : Model) (op : String) (itemTy : Ty) (x : String) (body lam' : Expr) (ty : Ty) (st : FSt)
    (hi : itemTy.untyped = true) (hn : noFuncCall M body = true)
    (h : streamOp M op itemTy (.lam [x] body) = .ok (lam', ty, st)) :
    lam' = .lam [x] body ∧ st.md = [] ∧ st.log = [] := by
  simp only [streamOp] at h
  cases hb : follow M (followFuel body) [(x, itemTy)] { md := [], log := [] } body with
  | error e => simp [hb, bind, Except.bind] at h
  | ok rb =>
    have hG : GammaU [(x, itemTy)] := by
      intro y t hy
      simp only [gammaGet] at hy
      split at hy
      · cases hy; exact hi
      · cases hy
    obtain ⟨b1, _, b3, _⟩ := (follow_untyped M (followFuel body)).1 _ _ body hG hn rb hb
    simp only [hb, bind, Except.bind] at h
    cases hc : checkAst (.lam [x] rb.e) with
    | error e => simp [hc] at h
    | ok u =>
      simp only [hc] at h
      repeat' (split at h)
      all_goals (try (cases h; done))
      all_goals (
        simp only [pure, Except.pure, Except.ok.injEq, Prod.mk.injEq] at h
        obtain ⟨rfl, _, rfl⟩ := h
        exact ⟨by rw [b1], by rw [b3], by rw [b3]⟩)

/-- Non-vacuity: an untyped environment and an expression with a method call, a subscript and a nested lambda. -/
example : GammaU [("e", .any)] := by
  intro y t hy
  simp only [gammaGet] at hy
  split at hy
  · cases hy; rfl
  · cases hy
example (M : Model) : noFuncCall M (.call (.attr (.name "e") "m") [.lam ["j"] (.sub (.name "j") (.const (.int 0)))] [] []) = true := by
  simp [noFuncCall, noFuncCallL]

end Fadl
