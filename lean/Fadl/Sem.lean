/-
  Reference semantics ("ordinary LINQ / list semantics" + the executable Python expression subset)
  for query ASTs.  This is the meaning the properties C01 C02 C05 C06 C14 C17 C18 C19 refer to.

  This file is the STRICT (eager list) reading: every operator evaluates all its elements, as Python's
  own lists do.  Fadl/SemLazy.lean gives the deferred-execution reading (`Select` maps lazily, `First`
  demands only the first element) that the chained-call simplifier relies on; on every expression the lazy
  reading succeeds with the same value whenever the strict one does.

  Design: a *compositional denotation* `den w : Expr → Env → Except EErr Val` defined by plain
  structural recursion.  All the semantic content of a call lives in the non-recursive `callSem`
  which receives the denotations of the sub-terms (and, for arguments that are lambda literals,
  their parameter list and body denotation).  func_adl queries are first order: a lambda is only
  ever the argument of an operator or the callee of an immediate call; a lambda in any other
  position evaluates to `EErr.unsupported`, which places the program outside every claim of the
  form "whenever the original evaluates without error".

  Validated against CPython by the C01 end-to-end run (trusted-base item T4), not proved.
-/
import Fadl.Syntax
import Fadl.Model.ToCalls
namespace Fadl

inductive EErr where
  | unbound (x : String)
  | type (what : String)
  | index
  | zeroDiv
  | arity
  | unsupported (what : String)
  | world (what : String)
  deriving Repr, DecidableEq, Inhabited

/-- Values.  `poison e` only ever occurs as an ELEMENT of a sequence: it is an element whose
    computation failed, under the deferred execution of LINQ-style operators (`Select` maps lazily,
    `First` forces only the first element, `Count`/`Sum`/… and Python's own list constructions force
    everything).  No name is ever bound to a poison value and no expression evaluates to one. -/
inductive Val where
  | int (n : Int)
  | bool (b : Bool)
  | str (s : String)
  | none
  | float (r : String)
  | tuple (vs : List Val)
  | list (vs : List Val)
  | dict (ks : List Val) (vs : List Val)
  | obj (cls : String) (fns : List String) (fvs : List Val)
  | slice (lo hi step : Option Int)
  | poison (e : EErr)
  deriving Repr, Inhabited

abbrev Env := String → Option Val
abbrev Res := Except EErr Val
abbrev Den := Env → Res

def Env.empty : Env := fun _ => Option.none
def Env.upd (env : Env) (x : String) (v : Val) : Env := fun y => if y = x then some v else env y
def Env.ofList : List (String × Val) → Env
  | [] => Env.empty
  | (x, v) :: rest => (Env.ofList rest).upd x v

/-- The part of the meaning that the library does not define: non-operator methods and registered
    functions.  Every theorem quantifies over all worlds. -/
structure World where
  method : String → Val → List Val → List String → List Val → Res
  func : String → List Val → List String → List Val → Res

/-! ### value-level helpers (no recursion over `Expr`) -/

mutual
def Val.beq : Val → Val → Bool
  | .int a, .int b => a == b
  | .bool a, .bool b => a == b
  | .str a, .str b => a == b
  | .none, .none => true
  | .float a, .float b => a == b
  | .tuple a, .tuple b => Val.beqL a b
  | .list a, .list b => Val.beqL a b
  | .dict ka va, .dict kb vb => Val.beqL ka kb && Val.beqL va vb
  | .obj c fn fv, .obj c' fn' fv' => c == c' && fn == fn' && Val.beqL fv fv'
  | .slice a b c, .slice a' b' c' => a == a' && b == b' && c == c'
  | .poison a, .poison b => a == b
  | _, _ => false
def Val.beqL : List Val → List Val → Bool
  | [], [] => true
  | a :: as, b :: bs => Val.beq a b && Val.beqL as bs
  | _, _ => false
end

def asInt : Val → Option Int
  | .int n => some n
  | .bool b => some (if b then 1 else 0)
  | _ => Option.none

/-- Python `==` on the modelled values (bool is an int; floats compare by repr only with floats). -/
def pyEq (a b : Val) : Bool :=
  match asInt a, asInt b with
  | some x, some y => x == y
  | _, _ => Val.beq a b

def truthy : Val → Bool
  | .int n => n != 0
  | .bool b => b
  | .str s => s != ""
  | .none => false
  | .float r => !(r == "0.0" || r == "-0.0")
  | .tuple vs => !vs.isEmpty
  | .list vs => !vs.isEmpty
  | .dict ks _ => !ks.isEmpty
  | .obj .. => true
  | .slice .. => true
  | .poison _ => true

def asSeq : Val → Except EErr (List Val)
  | .list vs => .ok vs
  | _ => .error (.type "sequence expected")

/-- demand the value of a sequence element -/
def force : Val → Res
  | .poison e => .error e
  | v => .ok v

/-- demand every element (what `Count`, `Sum`, a Python list comprehension … do) -/
def forceAll : List Val → Except EErr (List Val)
  | [] => .ok []
  | v :: vs => do
    let x ← force v
    let rest ← forceAll vs
    pure (x :: rest)

/-- an element of a lazily mapped sequence -/
def lazyElem (r : Res) : Val :=
  match r with
  | .ok v => v
  | .error e => .poison e

def lookupKey (k : Val) : List Val → List Val → Option Val
  | k' :: ks, v :: vs => if pyEq k k' then some v else lookupKey k ks vs
  | _, _ => Option.none

def lookupField (a : String) : List String → List Val → Option Val
  | n :: ns, v :: vs => if n = a then some v else lookupField a ns vs
  | _, _ => Option.none

def hasDupKey : List Val → Bool
  | [] => false
  | k :: ks => ks.any (pyEq k) || hasDupKey ks

def getIndex (vs : List Val) (i : Int) : Res :=
  let n : Int := vs.length
  let j := if i < 0 then i + n else i
  if j < 0 ∨ j ≥ n then .error .index
  else match vs[j.toNat]? with
    | some v => .ok v
    | Option.none => .error .index

def clampIdx (n : Int) (i : Option Int) (dflt : Int) : Nat :=
  match i with
  | Option.none => dflt.toNat
  | some i =>
    let j := if i < 0 then i + n else i
    (if j < 0 then 0 else if j > n then n else j).toNat

def getSlice (vs : List Val) (lo hi step : Option Int) : Except EErr (List Val) :=
  if step = Option.none ∨ step = some 1 then
    let n : Int := vs.length
    let a := clampIdx n lo 0
    let b := clampIdx n hi n
    .ok ((vs.drop a).take (b - a))
  else .error (.unsupported "slice step")

def subscript (v s : Val) : Res :=
  match v, s with
  | .list vs, .slice lo hi st => (getSlice vs lo hi st).map .list
  | .tuple vs, .slice lo hi st => (getSlice vs lo hi st).map .tuple
  | .list vs, s => match asInt s with
    | some i => getIndex vs i
    | Option.none => .error (.type "list index")
  | .tuple vs, s => match asInt s with
    | some i => getIndex vs i
    | Option.none => .error (.type "tuple index")
  | .dict ks vs, k => match lookupKey k ks vs with
    | some v => .ok v
    | Option.none => .error .index
  | _, _ => .error (.type "subscript")

/-- Attribute access: record field, or (func_adl convention after data-class lowering) key lookup on
    a dictionary value. -/
def getAttr (v : Val) (a : String) : Res :=
  match v with
  | .obj _ fns fvs => match lookupField a fns fvs with
    | some x => .ok x
    | Option.none => .error (.type ("no attribute " ++ a))
  | .dict ks vs => match lookupKey (.str a) ks vs with
    | some x => .ok x
    | Option.none => .error .index
  | _ => .error (.type ("no attribute " ++ a))

def mapRes (f : Val → Res) : List Val → Except EErr (List Val)
  | [] => .ok []
  | v :: vs => do
    let r ← f v
    let rest ← mapRes f vs
    pure (r :: rest)

/-- Strict left-to-right evaluation of a list of results. -/
def seqRes : List Res → Except EErr (List Val)
  | [] => .ok []
  | r :: rs => do
    let v ← r
    let rest ← seqRes rs
    pure (v :: rest)

def evalAll (ds : List Den) (env : Env) : Except EErr (List Val) := seqRes (ds.map (· env))

def intBin (k : String) (a b : Int) : Res :=
  if k = "Add" then .ok (.int (a + b))
  else if k = "Sub" then .ok (.int (a - b))
  else if k = "Mult" then .ok (.int (a * b))
  else if k = "FloorDiv" then (if b = 0 then .error .zeroDiv else .ok (.int (a.fdiv b)))
  else if k = "Mod" then (if b = 0 then .error .zeroDiv else .ok (.int (a.fmod b)))
  else .error (.unsupported ("binop " ++ k))

def cmpOne (o : String) (a b : Val) : Except EErr Bool :=
  if o = "Eq" then .ok (pyEq a b)
  else if o = "NotEq" then .ok (!pyEq a b)
  else if o = "Is" then (match a, b with
    | .none, .none => .ok true
    | .none, _ => .ok false
    | _, .none => .ok false
    | _, _ => .error (.unsupported "is"))
  else if o = "IsNot" then (match a, b with
    | .none, .none => .ok false
    | .none, _ => .ok true
    | _, .none => .ok true
    | _, _ => .error (.unsupported "is not"))
  else if o = "In" then (match b with
    | .list vs => .ok (vs.any (pyEq a))
    | .tuple vs => .ok (vs.any (pyEq a))
    | _ => .error (.type "in"))
  else if o = "NotIn" then (match b with
    | .list vs => .ok (!vs.any (pyEq a))
    | .tuple vs => .ok (!vs.any (pyEq a))
    | _ => .error (.type "not in"))
  else match asInt a, asInt b with
    | some x, some y =>
      if o = "Lt" then .ok (decide (x < y))
      else if o = "LtE" then .ok (decide (x ≤ y))
      else if o = "Gt" then .ok (decide (x > y))
      else if o = "GtE" then .ok (decide (x ≥ y))
      else .error (.unsupported ("cmp " ++ o))
    | _, _ => .error (.type "ordering of non-integers")

/-- chained comparison `l o1 r1 o2 r2 ...` over already-available results, short-circuiting. -/
def cmpChain : Val → List String → List Res → Res
  | _, [], _ => .ok (.bool true)
  | _, _ :: _, [] => .error .arity
  | l, o :: os, r :: rs => do
    let rv ← r
    let b ← cmpOne o l rv
    if b then
      (match os with
       | [] => .ok (.bool true)
       | _ => cmpChain rv os rs)
    else .ok (.bool false)

def andChain : List Res → Res
  | [] => .error .arity
  | [r] => r
  | r :: rs => do
    let v ← r
    if truthy v then andChain rs else .ok v

def orChain : List Res → Res
  | [] => .error .arity
  | [r] => r
  | r :: rs => do
    let v ← r
    if truthy v then .ok v else orChain rs

def optInt : Val → Except EErr (Option Int)
  | .none => .ok Option.none
  | v => match asInt v with
    | some i => .ok (some i)
    | Option.none => .error (.type "slice bound")

def pickBound (present : Bool) (vs : List Val) : Except EErr (Option Int × List Val) :=
  if present then
    match vs with
    | v :: rest => do let i ← optInt v; pure (i, rest)
    | [] => .error .arity
  else pure (Option.none, vs)

def sliceOf (a b c : Bool) (vs : List Val) : Res := do
  let (lo, vs) ← pickBound a vs
  let (hi, vs) ← pickBound b vs
  let (st, _) ← pickBound c vs
  pure (.slice lo hi st)

def unOp (n : String) (v : Val) : Res :=
  if n = "Not" then .ok (.bool (!truthy v))
  else match asInt v with
    | some i =>
      if n = "USub" then .ok (.int (-i))
      else if n = "UAdd" then .ok (.int i)
      else .error (.unsupported ("unary " ++ n))
    | Option.none => .error (.type ("unary " ++ n))

def binOp (k : String) (av bv : Val) : Res :=
  match asInt av, asInt bv with
  | some x, some y => intBin k x y
  | _, _ =>
    if k = "Add" then
      (match av, bv with
       | .str s, .str t => .ok (.str (s ++ t))
       | .list s, .list t => .ok (.list (s ++ t))
       | .tuple s, .tuple t => .ok (.tuple (s ++ t))
       | _, _ => .error (.type "+"))
    else .error (.type ("binop " ++ k))

/-- Meaning of an `op` node from the (lazily inspected) results of its children. -/
def evOp : OpKind → List Res → Res
  | .boolAnd, rs => andChain rs
  | .boolOr, rs => orChain rs
  | .ifExp, [t, a, b] => do let tv ← t; if truthy tv then a else b
  | .un n, [r] => do let v ← r; unOp n v
  | .bin k, [a, b] => do let av ← a; let bv ← b; binOp k av bv
  | .cmp ops, l :: rest => do let lv ← l; cmpChain lv ops rest
  | .slice a b c, rs => do let vs ← seqRes rs; sliceOf a b c vs
  | .starred, _ => .error (.unsupported "starred")
  | _, _ => .error .arity

/-- Bind parameters of a called lambda: positionals first, then keywords; every parameter exactly
    once, no unknown keyword (Python's rule for plain parameters without defaults). -/
def bindKw (ps : List String) (env : Env) : List String → List Val → Except EErr (Env × List String)
  | [], [] => .ok (env, ps)
  | k :: ks, v :: vs =>
    if k ∈ ps then bindKw (ps.erase k) (env.upd k v) ks vs else .error .arity
  | _, _ => .error .arity

def bindPos (env : Env) : List String → List Val → Except EErr (Env × List String)
  | ps, [] => .ok (env, ps)
  | [], _ :: _ => .error .arity
  | p :: ps, v :: vs => bindPos (env.upd p v) ps vs

def bindParams (ps : List String) (vs : List Val) (kwn : List String) (kvs : List Val) (env : Env) :
    Except EErr Env := do
  if !distinctS ps then .error .arity else
  let (env1, rest) ← bindPos env ps vs
  let (env2, rest2) ← bindKw rest env1 kwn kvs
  if rest2.isEmpty then pure env2 else .error .arity

/-- One-parameter lambda literal applied to a value. -/
def applyLam1 (lam : Option (List String × Den)) (env : Env) (v : Val) : Res :=
  match lam with
  | some ([x], body) => body (env.upd x v)
  | some _ => .error .arity
  | Option.none => .error (.unsupported "operator argument is not a lambda literal")

def applyLam2 (lam : Option (List String × Den)) (env : Env) (a v : Val) : Res :=
  match lam with
  | some ([x, y], body) => if x = y then .error .arity else body ((env.upd x a).upd y v)
  | some _ => .error .arity
  | Option.none => .error (.unsupported "operator argument is not a lambda literal")

def filterM' (p : Val → Res) : List Val → Except EErr (List Val)
  | [] => .ok []
  | v :: vs => do
    let b ← p v
    let rest ← filterM' p vs
    pure (if truthy b then v :: rest else rest)

def concatSeqs : List Val → Except EErr (List Val)
  | [] => .ok []
  | v :: vs => do
    let a ← asSeq v
    let rest ← concatSeqs vs
    pure (a ++ rest)

def foldM' (f : Val → Val → Res) : Val → List Val → Res
  | acc, [] => .ok acc
  | acc, v :: vs => do
    let acc' ← f acc v
    foldM' f acc' vs

/-- `Sum`, `Max`, `Min` are defined on sequences of integers (the property's quantifier); anything
    else, including booleans, is a type error, i.e. outside the claim. -/
def sumInts : List Val → Except EErr Int
  | [] => .ok 0
  | .int i :: vs => do let r ← sumInts vs; pure (i + r)
  | _ :: _ => .error (.type "Sum of non-integers")

def maxInts (acc : Int) : List Val → Except EErr Int
  | [] => .ok acc
  | .int i :: vs => maxInts (if acc > i then acc else i) vs
  | _ :: _ => .error (.type "Max of non-integers")

def minInts (acc : Int) : List Val → Except EErr Int
  | [] => .ok acc
  | .int i :: vs => minInts (if acc < i then acc else i) vs
  | _ :: _ => .error (.type "Min of non-integers")

/-- Names with built-in sequence semantics (function form; method form of the `opNames` among
    them is the same clause with the receiver as first argument). -/
def builtinOps : List String :=
  ["Select", "SelectMany", "Where", "First", "Count", "len", "Sum", "Max", "Min", "Aggregate"]

def seqOp1 (n : String) (vs : List Val) : Res :=
  if n = "First" then (match vs with | v :: _ => .ok v | [] => .error .index)
  else if n = "Count" ∨ n = "len" then .ok (.int vs.length)
  else if n = "Sum" then (sumInts vs).map .int
  else if n = "Max" then (maxInts 0 vs).map .int
  else if n = "Min" then (minInts 0 vs).map .int
  else .error .arity

def seqOp2 (n : String) (f : Val → Res) (vs : List Val) : Res :=
  if n = "Select" then (mapRes f vs).map .list
  else if n = "Where" then (filterM' f vs).map .list
  else if n = "SelectMany" then do
    let rs ← mapRes f vs
    let flat ← concatSeqs rs
    pure (.list flat)
  else .error .arity

abbrev LamD := Option (List String × Den)

/-- Function-form call `n(args…)`.  `args` are the denotations of the positional arguments and
    `lamsTail` describes, for the arguments *after the first*, those that are lambda literals
    (parameters and body denotation). -/
def fnCall (w : World) (n : String) (args : List Den) (lamsTail : List LamD)
    (kwn : List String) (kwv : List Den) : Den := fun env =>
  if n ∈ builtinOps then
    match args, lamsTail with
    | [src], _ => do
      let vs ← asSeq (← src env)
      seqOp1 n vs
    | [src, _], [lam] => do
      let vs ← asSeq (← src env)
      seqOp2 n (applyLam1 lam env) vs
    | [src, init, _], [_, lam] =>
      if n = "Aggregate" then do
        let vs ← asSeq (← src env)
        let i ← init env
        foldM' (applyLam2 lam env) i vs
      else .error .arity
    | _, _ => .error .arity
  else do
    let vs ← evalAll args env
    let kvs ← evalAll kwv env
    w.func n vs kwn kvs

inductive Head where
  | fn (n : String)
  | meth (recv : Den) (m : String)
  | lamH (ps : List String) (body : Den)
  | other

def callSem (w : World) (h : Head) (args : List Den) (lams : List LamD)
    (kwn : List String) (kwv : List Den) : Den :=
  match h with
  | .fn n => fnCall w n args lams.tail kwn kwv
  | .meth recv m =>
    if m ∈ opNames then fnCall w m (recv :: args) lams kwn kwv
    else fun env => do
      let r ← recv env
      let vs ← evalAll args env
      let kvs ← evalAll kwv env
      w.method m r vs kwn kvs
  | .lamH ps body => fun env => do
    let vs ← evalAll args env
    let kvs ← evalAll kwv env
    let env' ← bindParams ps vs kwn kvs env
    body env'
  | .other => fun _ => .error (.unsupported "callee is not a name, attribute or lambda")

def constVal : Const → Res
  | .int n => .ok (.int n)
  | .float r => .ok (.float r)
  | .str s => .ok (.str s)
  | .bool b => .ok (.bool b)
  | .none => .ok .none
  | .bytes _ => .error (.unsupported "bytes")
  | .ellipsis => .error (.unsupported "ellipsis")
  | .opaque t => .error (.unsupported ("opaque constant " ++ t))

/-- `d[k] = v` on the two parallel lists: an equal key keeps its place and takes the new value (Python: the
    later entry of a dictionary display overrides the earlier one), a new key goes to the end -/
def dictInsert (k v : Val) : List Val → List Val → List Val × List Val
  | k' :: ks, v' :: vs =>
    if pyEq k k' then (k' :: ks, v :: vs)
    else ((k' :: (dictInsert k v ks vs).1), (v' :: (dictInsert k v ks vs).2))
  | _, _ => ([k], [v])

def dictBuild : List Val → List Val → List Val → List Val → List Val × List Val
  | k :: ks, v :: vs, ak, av => dictBuild ks vs (dictInsert k v ak av).1 (dictInsert k v ak av).2
  | _, _, ak, av => (ak, av)

/-- the value of a dictionary display: entries inserted left to right -/
def mkDict (ks vs : List Val) : Res :=
  .ok (.dict (dictBuild ks vs [] []).1 (dictBuild ks vs [] []).2)

/-- The name a comprehension binds, if its target is a plain name. -/
def targetName : Expr → Option String
  | .name x => some x
  | _ => Option.none

/-- all conditions hold (left to right, short-circuit at the first falsy one) -/
def condsHold : List Res → Except EErr Bool
  | [] => .ok true
  | r :: rs => do
    let v ← r
    if truthy v then condsHold rs else pure false

def filterMB (p : Val → Except EErr Bool) : List Val → Except EErr (List Val)
  | [] => .ok []
  | v :: vs => do
    let b ← p v
    let rest ← filterMB p vs
    pure (if b then v :: rest else rest)

def compSem (target : Option String) (elt iter : Den) (ifs : List Den) (isAsync : Bool) : Den := fun env =>
  match target, isAsync with
  | some x, false => do
    let vs ← asSeq (← iter env)
    let keep ← filterMB (fun v => condsHold (ifs.map (· (env.upd x v)))) vs
    let rs ← mapRes (fun v => elt (env.upd x v)) keep
    pure (.list rs)
  | _, _ => .error (.unsupported "comprehension form")

mutual
def den (w : World) : Expr → Den
  | .name x => fun env => match env x with
    | some v => .ok v
    | Option.none => .error (.unbound x)
  | .const c => fun _ => constVal c
  | .attr v a => fun env => do let x ← den w v env; getAttr x a
  | .call f args kwn kwv =>
    callSem w (denHead w f) (denL w args) (denLamL w args) kwn (denL w kwv)
  | .lam _ _ => fun _ => .error (.unsupported "lambda as a value")
  | .sub v s => fun env => do
    let x ← den w v env
    let i ← den w s env
    subscript x i
  | .tuple es => fun env => do let vs ← evalAll (denL w es) env; pure (.tuple vs)
  | .list es => fun env => do let vs ← evalAll (denL w es) env; pure (.list vs)
  | .dict ks vs => fun env => do
    let kv ← evalAll (denL w ks) env
    let vv ← evalAll (denL w vs) env
    if kv.length = vv.length then mkDict kv vv else .error .arity
  | .op k args => fun env => evOp k ((denL w args).map (· env))
  | .comp _ e t i ifs a => compSem (targetName t) (den w e) (den w i) (denL w ifs) a
def denL (w : World) : List Expr → List Den
  | [] => []
  | e :: es => den w e :: denL w es
def denLamL (w : World) : List Expr → List LamD
  | [] => []
  | e :: es => denLam w e :: denLamL w es
def denLam (w : World) : Expr → LamD
  | .lam ps b => some (ps, den w b)
  | _ => Option.none
def denHead (w : World) : Expr → Head
  | .name n => .fn n
  | .attr v m => .meth (den w v) m
  | .lam ps b => .lamH ps (den w b)
  | _ => .other
end

/-- `ev w env e` : the value of query `e` in environment `env`. -/
def ev (w : World) (env : Env) (e : Expr) : Res := den w e env

end Fadl
