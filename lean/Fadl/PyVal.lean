/-
  Python *values* of literal expressions, and `ast.literal_eval` (CPython 3.12 `ast._convert`)
  restricted to the constructs the library can meet: constants, tuples, lists, dicts, unary plus and minus on
  numbers.  (Sets, complex arithmetic: outside the model → `unsupported`.)
-/
import Fadl.Syntax
import Fadl.Err
namespace Fadl

inductive PyVal where
  | int (n : Int)
  | float (r : String)
  | str (s : String)
  | bytes (r : String)
  | bool (b : Bool)
  | none
  | ellipsis
  | tuple (vs : List PyVal)
  | list (vs : List PyVal)
  | dict (ks : List PyVal) (vs : List PyVal)
  deriving Repr, Inhabited

mutual
def PyVal.beq : PyVal → PyVal → Bool
  | .int a, .int b => a == b
  | .float a, .float b => a == b
  | .str a, .str b => a == b
  | .bytes a, .bytes b => a == b
  | .bool a, .bool b => a == b
  | .none, .none => true
  | .ellipsis, .ellipsis => true
  | .tuple a, .tuple b => PyVal.beqL a b
  | .list a, .list b => PyVal.beqL a b
  | .dict ka va, .dict kb vb => PyVal.beqL ka kb && PyVal.beqL va vb
  | _, _ => false
def PyVal.beqL : List PyVal → List PyVal → Bool
  | [], [] => true
  | a :: as, b :: bs => PyVal.beq a b && PyVal.beqL as bs
  | _, _ => false
end

/-- Key equality as Python's dict sees it on the modelled keys (`True == 1`). -/
def PyVal.keyEq (a b : PyVal) : Bool :=
  match a, b with
  | .int x, .bool y => x == (if y then 1 else 0)
  | .bool x, .int y => (if x then 1 else 0) == y
  | a, b => PyVal.beq a b

mutual
def PyVal.hashable : PyVal → Bool
  | .list _ => false
  | .dict _ _ => false
  | .tuple vs => PyVal.hashableL vs
  | _ => true
def PyVal.hashableL : List PyVal → Bool
  | [] => true
  | v :: vs => v.hashable && PyVal.hashableL vs
end

/-- `dict(zip(keys, values))`: later value wins, first position kept. -/
def dictSet (k v : PyVal) : List PyVal → List PyVal → List PyVal × List PyVal
  | [], [] => ([k], [v])
  | k' :: ks, v' :: vs =>
    if PyVal.keyEq k k' then (k' :: ks, v :: vs)
    else let (ks', vs') := dictSet k v ks vs; (k' :: ks', v' :: vs')
  | _, _ => ([k], [v])

def dictOfPairs : List PyVal → List PyVal → List PyVal × List PyVal → List PyVal × List PyVal
  | k :: ks, v :: vs, (ak, av) => dictOfPairs ks vs (dictSet k v ak av)
  | _, _, acc => acc

/-- Sign flip on the textual `repr` of a float (`1.5` ↔ `-1.5`, `0.0` ↔ `-0.0`). -/
def negFloatRepr (r : String) : String :=
  match r.toList with
  | '-' :: rest => String.ofList rest
  | cs => String.ofList ('-' :: cs)

def constToPyVal : Const → Except Err PyVal
  | .int n => .ok (.int n)
  | .float r => .ok (.float r)
  | .str s => .ok (.str s)
  | .bytes r => .ok (.bytes r)
  | .bool b => .ok (.bool b)
  | .none => .ok .none
  | .ellipsis => .ok .ellipsis
  | .opaque t => .error (.unsupported ("opaque constant " ++ t))

mutual
/-- `ast.literal_eval` on an expression node. -/
def literalEval : Expr → Except Err PyVal
  | .const c => constToPyVal c
  | .tuple es => do pure (.tuple (← literalEvalL es))
  | .list es => do pure (.list (← literalEvalL es))
  | .dict ks vs => do
    let kv ← literalEvalL ks
    let vv ← literalEvalL vs
    if kv.length ≠ vv.length then .error (.valueError "malformed node")
    else if !PyVal.hashableL kv then .error (.internal "TypeError")
    else
      let (k, v) := dictOfPairs kv vv ([], [])
      pure (.dict k v)
  | .op (.un n) [e] => do
    let v ← literalEval e
    match n, v with
    | "USub", .int i => pure (.int (-i))
    | "UAdd", .int i => pure (.int i)
    | "USub", .float r => pure (.float (negFloatRepr r))
    | "UAdd", .float r => pure (.float r)
    | _, _ => .error (.valueError "malformed node")
  | _ => .error (.valueError "malformed node")
def literalEvalL : List Expr → Except Err (List PyVal)
  | [] => .ok []
  | e :: es => do
    let v ← literalEval e
    let vs ← literalEvalL es
    pure (v :: vs)
end

/-! wire format -/

mutual
def PyVal.toSExpr : PyVal → SExpr
  | .int n => .list [.atom "int", .atom (toString n)]
  | .float r => .list [.atom "float", .str r]
  | .str s => .list [.atom "str", .str s]
  | .bytes r => .list [.atom "bytes", .str r]
  | .bool b => .list [.atom "bool", .atom (if b then "true" else "false")]
  | .none => .atom "none"
  | .ellipsis => .atom "ellipsis"
  | .tuple vs => .list [.atom "tuple", .list (PyVal.toSExprL vs)]
  | .list vs => .list [.atom "list", .list (PyVal.toSExprL vs)]
  | .dict ks vs => .list [.atom "dict", .list (PyVal.toSExprL ks), .list (PyVal.toSExprL vs)]
def PyVal.toSExprL : List PyVal → List SExpr
  | [] => []
  | v :: vs => v.toSExpr :: PyVal.toSExprL vs
end

mutual
partial def PyVal.ofSExpr : SExpr → Option PyVal
  | .list [.atom "int", .atom n] => n.toInt?.map .int
  | .list [.atom "float", .str r] => some (.float r)
  | .list [.atom "str", .str s] => some (.str s)
  | .list [.atom "bytes", .str r] => some (.bytes r)
  | .list [.atom "bool", .atom b] => some (.bool (b == "true"))
  | .atom "none" => some .none
  | .atom "ellipsis" => some .ellipsis
  | .list [.atom "tuple", .list vs] => do pure (.tuple (← PyVal.ofSExprL vs))
  | .list [.atom "list", .list vs] => do pure (.list (← PyVal.ofSExprL vs))
  | .list [.atom "dict", .list ks, .list vs] => do pure (.dict (← PyVal.ofSExprL ks) (← PyVal.ofSExprL vs))
  | _ => none
partial def PyVal.ofSExprL : List SExpr → Option (List PyVal)
  | [] => some []
  | x :: xs => do
    let v ← PyVal.ofSExpr x
    let vs ← PyVal.ofSExprL xs
    pure (v :: vs)
end

end Fadl
