/-
  `simpCk`: the simplifier model of Fadl/Model/Simplify.lean with its side conditions made explicit.

  Every place where `simplify_chained_calls` relies on a generated name being fresh, on a parameter not being
  used as a function, or on nesting a lambda under another lambda's parameter without capturing anything, carries
  a guard here; a failing guard ends the run with `Err.internal "side-condition: …"`.  Apart from the guards the
  function is `simp`, clause for clause.  The soundness theorem (Props/C02Sound.lean) is about `simpCk`; the
  driver runs `simpCk` next to `simp` on every generated query, so a guard that fires shows up as a
  disagreement with the implementation.
-/
import Fadl.Model.Simplify
import Fadl.Scope
import Fadl.Lemmas.Rename
import Fadl.Sem
namespace Fadl

def stackKeys (st : SStack) : List String := st.flatMap (fun f => f.map (·.1))
def stackVals (st : SStack) : List Expr := st.flatMap (fun f => f.map (·.2))

def disjoint (a b : List String) : Bool := a.all (fun x => !b.contains x)

def sideErr (what : String) : Err := .internal ("side-condition: " ++ what)

/-- the names `ns` can be introduced as binders around `body` (whose old parameters are `ps`) under the stack `st` -/
def freshFor (ns ps : List String) (body : Expr) (st : SStack) : Bool :=
  disjoint ns (bindersOf body) && disjoint ns (fv body) && disjoint ps (headNames body) &&
  disjoint ns (stackKeys st) && (stackVals st).all (fun a => disjoint ns (fv a)) && noComp body && distinctS ns &&
  disjoint ns ps

/-- an expression produced by the simplifier mentions no stack key -/
def keyFree (st : SStack) (e : Expr) : Bool := disjoint (stackKeys st) (fv e)

/-- `make_args_unique` with its side conditions -/
def makeArgsUniqueCk (ps : List String) (b : Expr) (c : Nat) (st : SStack) : Except Err (List String × Expr × Nat) :=
  let r := makeArgsUnique ps b c
  if freshFor r.1 ps b st && distinctS ps then .ok r else .error (sideErr "fresh parameter names")

def convoluteCk (g f : Expr) (c : Nat) (st : SStack) : Except Err (Expr × Nat) :=
  match g, f with
  | .lam gps gb, .lam fps fb => do
    let (gps', gb', c1) ← makeArgsUniqueCk gps gb c st
    let (fps', fb', c2) ← makeArgsUniqueCk fps fb c1 st
    let x := argName c2
    if !(fv (.lam gps' gb')).contains x && !(fv (.lam fps' fb')).contains x && !(stackKeys st).contains x
        && (stackVals st).all (fun a => !(fv a).contains x) && !(fv g).contains x && !(fv f).contains x then
      .ok (.lam [x] (.call (.lam gps' gb') [.call (.lam fps' fb') [.name x] [] []] [] []), c2 + 1)
    else .error (sideErr "fresh composition variable")
  | _, _ => .error (.internal "Exception")

mutual
def simpCk : Nat → SStack → Nat → Expr → Except Err (Expr × Nat)
  | 0, _, _, _ => .error .fuel
  | fuel + 1, st, c, e =>
    match e with
    | .name x => .ok ((stackLookup x st).getD (.name x), c)
    | .const k => .ok (.const k, c)
    | .lam ps b => do
      let (ps', b', c1) ← makeArgsUniqueCk ps b c st
      let (b'', c2) ← simpCk fuel st c1 b'
      pure (.lam ps' b'', c2)
    | .attr v a =>
      match firstArg? v with
      | some (some first) =>
        let x := argName c
        let select := makeSelect first (.lam [x] (.attr (.name x) a))
        simpCk fuel st (c + 1) (fcall "First" [select])
      | some Option.none => .error (.internal "IndexError")
      | Option.none => do
        let (v', c1) ← simpCk fuel st c v
        match v' with
        | .dict ks vs =>
          match dictLookup ks vs (.str a) with
          | some r => pure (r, c1)
          | Option.none => pure (.attr v' a, c1)
        | _ =>
          match firstArg? v' with
          | some (some first) =>
            let x := argName c1
            let select := makeSelect first (.lam [x] (.attr (.name x) a))
            if keyFree st (fcall "First" [select]) then
              simpCk fuel st (c1 + 1) (fcall "First" [select])
            else .error (sideErr "attribute pushed under First")
          | some Option.none => .error (.internal "IndexError")
          | Option.none => pure (.attr v' a, c1)
    | .sub v s => do
      let (v', c1) ← simpCk fuel st c v
      let (s', c2) ← simpCk fuel st c1 s
      let generic : Except Err (Expr × Nat) :=
        match firstArg? v' with
        | some (some first) =>
          let x := argName c2
          let select := makeSelect first (.lam [x] (.sub (.name x) s'))
          if !(fv s').contains x && keyFree st (fcall "First" [select]) then
            simpCk fuel st (c2 + 1) (fcall "First" [select])
          else .error (sideErr "subscript pushed under First")
        | some Option.none => .error (.internal "IndexError")
        | Option.none => .ok (.sub v' s', c2)
      match s' with
      | .const (.int n) =>
        (match v' with
         | .tuple es =>
           if n ≥ 0 then
             (match es[n.toNat]? with
              | some el => pure (el, c2)
              | Option.none => .error .indexError)
           else generic
         | .list es =>
           if n ≥ 0 then
             (match es[n.toNat]? with
              | some el => pure (el, c2)
              | Option.none => .error .indexError)
           else generic
         | .dict ks vs =>
           (match dictLookup ks vs (.int n) with
            | some r => pure (r, c2)
            | Option.none => pure (.sub v' s', c2))
         | _ => generic)
      | .const (.str k) =>
        (match v' with
         | .dict ks vs =>
           (match dictLookup ks vs (.str k) with
            | some r => pure (r, c2)
            | Option.none => pure (.sub v' s', c2))
         | _ => generic)
      | _ => generic
    | .tuple es => do let (es', c1) ← simpLCk fuel st c es; pure (.tuple es', c1)
    | .list es => do let (es', c1) ← simpLCk fuel st c es; pure (.list es', c1)
    | .dict ks vs => do
      let (ks', c1) ← simpLCk fuel st c ks
      let (vs', c2) ← simpLCk fuel st c1 vs
      pure (.dict ks' vs', c2)
    | .op k args => do let (as', c1) ← simpLCk fuel st c args; pure (.op k as', c1)
    | .comp .. => .error (sideErr "comprehension (lowered by the sugar pass before the simplifier runs)")
    | .call f args kwn kwv =>
      let generic (head : Except Err (Expr × Nat)) (headOK : Bool) : Except Err (Expr × Nat) := do
        let (f', c1) ← head
        let (as', c2) ← simpLCk fuel st c1 args
        let (ks', c3) ← simpLCk fuel st c2 kwv
        if headOK then pure (.call f' as' kwn ks', c3) else .error (sideErr "a substituted name in callee position")
      match f with
      | .lam ps body =>
        let npos := args.length
        if !distinctS ps || npos > ps.length || !distinctS kwn || !sameSet kwn (ps.drop npos) then generic (simpCk fuel st c f) true
        else do
          let (ps', body', c1) ← makeArgsUniqueCk ps body c st
          let (as', c2) ← simpLCk fuel st c1 args
          let (ks', c3) ← simpLCk fuel st c2 kwv
          let ren := ps.zip ps'
          let frame : SFrame :=
            ((ps'.take npos).zip as') ++ (kwn.zip ks').map (fun p => ((renGet p.1 ren).getD p.1, p.2))
          if kwn.length == kwv.length then
            simpCk fuel (frame :: st) c3 body'
          else .error (sideErr "arguments of an inlined lambda")
      | .attr v m =>
        match firstArg? v with
        | some (some seq) =>
          let x := argName c
          let call := Expr.call (.attr (.name x) m) args kwn kwv
          let select := makeSelect seq (.lam [x] call)
          if !(freeNamesL [] args).contains x && !(freeNamesL [] kwv).contains x then
            simpCk fuel st (c + 1) (fcall "First" [select])
          else .error (sideErr "method call pushed under First")
        | some Option.none => .error (.internal "IndexError")
        | Option.none =>
          -- a method head: visited as an attribute (dictionary fields are resolved), never taken out of a First
          let head : Except Err (Expr × Nat) := do
            let (v', c1) ← simpCk fuel st c v
            match v' with
            | .dict ks vs =>
              match dictLookup ks vs (.str m) with
              | some r => pure (r, c1)
              | Option.none => pure (.attr v' m, c1)
            | _ => pure (.attr v' m, c1)
          generic head (!(opNames.contains m) || builtinOps.contains m)
      | .name n =>
        if n = "Select" then callSelectCk fuel st c args kwn kwv
        else if n = "SelectMany" then callSelectManyCk fuel st c args kwn kwv
        else if n = "Where" then callWhereCk fuel st c args kwn kwv
        else generic (simpCk fuel st c f) (!(stackKeys st).contains n)
      | _ => generic (simpCk fuel st c f) true
def simpLCk : Nat → SStack → Nat → List Expr → Except Err (List Expr × Nat)
  | 0, _, _, _ => .error .fuel
  | _ + 1, _, c, [] => .ok ([], c)
  | fuel + 1, st, c, e :: es => do
    let (e', c1) ← simpCk fuel st c e
    let (es', c2) ← simpLCk fuel st c1 es
    pure (e' :: es', c2)
def callSelectCk : Nat → SStack → Nat → List Expr → List String → List Expr → Except Err (Expr × Nat)
  | 0, _, _, _, _, _ => .error .fuel
  | fuel + 1, st, c, args, _, _ =>
    match args with
    | source :: transform :: _ =>
      if !isLam transform then .error (.internal "AssertionError") else do
        let (parent, c1) ← simpCk fuel st c source
        if !keyFree st parent then .error (sideErr "source mentions a stack key") else
        let dflt : Unit → Except Err (Expr × Nat) := fun _ => do
          let (sel, c2) ← simpCk fuel st c1 transform
          pure (makeSelect parent sel, c2)
        match opCall? parent with
        | some (n, pargs) =>
          if n = "Select" then
            (match pargs with
             | src :: f :: _ =>
               if !isLam f then .error (.internal "AssertionError") else do
                 let (conv, c2) ← convoluteCk transform f c1 st
                 let (sel, c3) ← simpCk fuel st c2 conv
                 pure (makeSelect src sel, c3)
             | _ => .error (.internal "IndexError"))
          else if n = "SelectMany" then
            (match pargs with
             | src :: f :: _ =>
               (match f with
                | .lam fps fb =>
                  if disjoint fps (fv transform) then
                    simpCk fuel st c1 (fcall "SelectMany" [src, .lam fps (makeSelect fb transform)])
                  else .error (sideErr "Select nested under SelectMany's parameter")
                | _ => .error (.internal "AssertionError"))
             | _ => .error (.internal "IndexError"))
          else dflt ()
        | Option.none => dflt ()
    | _ => .error (.internal "IndexError")
def callSelectManyCk : Nat → SStack → Nat → List Expr → List String → List Expr → Except Err (Expr × Nat)
  | 0, _, _, _, _, _ => .error .fuel
  | fuel + 1, st, c, args, _, _ =>
    match args with
    | source :: selection :: _ =>
      if !isLam selection then .error (.internal "AssertionError") else do
        let (parent, c1) ← simpCk fuel st c source
        if !keyFree st parent then .error (sideErr "source mentions a stack key") else
        let dflt : Unit → Except Err (Expr × Nat) := fun _ => do
          let (sel, c2) ← simpCk fuel st c1 selection
          pure (fcall "SelectMany" [parent, sel], c2)
        match opCall? parent with
        | some (n, pargs) =>
          if n = "SelectMany" then
            (match pargs with
             | [seq, f] =>
               (match f with
                | .lam (p :: prest) fb =>
                  if !(fv selection).contains p && prest.isEmpty then
                    simpCk fuel st c1 (fcall "SelectMany" [seq, .lam [p] (fcall "SelectMany" [fb, selection])])
                  else .error (sideErr "SelectMany nested under SelectMany's parameter")
                | .lam [] _ => .error (.internal "IndexError")
                | _ => .error (.internal "AssertionError"))
             | _ => .error (.internal "AssertionError"))
          else if n = "Select" then
            (match pargs with
             | [seq, f] =>
               if !isLam f then .error (.internal "AssertionError") else do
                 let (conv, c2) ← convoluteCk selection f c1 st
                 let (sel, c3) ← simpCk fuel st c2 conv
                 pure (fcall "SelectMany" [seq, sel], c3)
             | _ => .error (.internal "AssertionError"))
          else dflt ()
        | Option.none => dflt ()
    | _ => .error (.internal "IndexError")
def callWhereCk : Nat → SStack → Nat → List Expr → List String → List Expr → Except Err (Expr × Nat)
  | 0, _, _, _, _, _ => .error .fuel
  | fuel + 1, st, c, args, _, _ =>
    match args with
    | source :: filter :: _ =>
      if !isLam filter then .error (.internal "AssertionError") else do
        let (parent, c1) ← simpCk fuel st c source
        if !keyFree st parent then .error (sideErr "source mentions a stack key") else
        let dflt : Unit → Except Err (Expr × Nat) := fun _ => do
          let (f', c2) ← simpCk fuel st c1 filter
          if lambdaIsTrue f' then pure (parent, c2) else pure (fcall "Where" [parent, f'], c2)
        match opCall? parent with
        | some (n, pargs) =>
          if n = "Where" then
            (match pargs with
             | src :: f :: _ =>
               if !isLam f then .error (.internal "AssertionError") else
                 let x := argName c1
                 let conv := Expr.lam [x] (.op .boolAnd [.call f [.name x] [] [], .call filter [.name x] [] []])
                 if !(fv f).contains x && !(fv filter).contains x then
                   simpCk fuel st (c1 + 1) (fcall "Where" [src, conv])
                 else .error (sideErr "fresh conjunction variable")
             | _ => .error (.internal "IndexError"))
          else if n = "Select" then
            (match pargs with
             | src :: f :: _ =>
               if !isLam f then .error (.internal "AssertionError") else do
                 let (conv, c2) ← convoluteCk filter f c1 st
                 let (w, c3) ← simpCk fuel st c2 conv
                 if keyFree st (makeSelect (fcall "Where" [src, w]) f) then
                   simpCk fuel st c3 (makeSelect (fcall "Where" [src, w]) f)
                 else .error (sideErr "filter mentions a stack key")
             | _ => .error (.internal "IndexError"))
          else if n = "SelectMany" then
            (match pargs with
             | seq :: f :: _ =>
               (match f with
                | .lam fps fb =>
                  if disjoint fps (fv filter) then
                    simpCk fuel st c1 (fcall "SelectMany" [seq, .lam fps (fcall "Where" [fb, filter])])
                  else .error (sideErr "Where nested under SelectMany's parameter")
                | _ => .error (.internal "AssertionError"))
             | _ => .error (.internal "IndexError"))
          else dflt ()
        | Option.none => dflt ()
    | _ => .error (.internal "IndexError")
end

/-- `simplify_chained_calls().visit(e)` with the side conditions checked -/
def simplifyCk (fuel : Nat) (c : Nat) (e : Expr) : Except Err (Expr × Nat) := simpCk fuel [[]] (max c (nextArg e)) e

end Fadl
