/-
  Shapes of the strings inside a dump (C20): class and field names are atoms, constant reprs are atoms, (prefixed)
  string literals or parenthesised atoms.  `Props/C20Render.lean` proves that for trees of this shape the text of the
  dump determines its token stream; the driver evaluates the shape on the tree of every generated AST, so that the one
  thing left to trust - CPython's `repr` and class / field names have this shape - is exercised on every run.
-/
import Fadl.Model.Hash
namespace Fadl

/-! ### well-formed field trees: every listed field has a value -/

mutual
def WFTree : Tree → Bool
  | .node _ fns fvs => decide (fns.length = fvs.length) && WFTreeL fvs
  | .list xs => WFTreeL xs
  | .leaf _ => true
def WFTreeL : List Tree → Bool
  | [] => true
  | t :: ts => WFTree t && WFTreeL ts
end

/-! ### the shapes of names and constant reprs -/

def isQuote (c : Char) : Bool := c = '\'' || c = '"'

/-- characters that end an atom -/
def isDelim (c : Char) : Bool :=
  c = ',' || c = '(' || c = ')' || c = '[' || c = ']' || c = '=' || c = ' ' || isQuote c

/-- an identifier, a number, `None`, `True`, `Ellipsis`, `inf`, `1e+22`, … : non-empty, no delimiter inside -/
def atomOK (cs : List Char) : Bool := !cs.isEmpty && cs.all (fun c => !isDelim c)

/-- scan the body of a string literal opened with quote `q`: up to and including the closing quote; a backslash
    protects the character after it -/
def scanStr (q : Char) : List Char → Option (List Char × List Char)
  | [] => none
  | c :: cs =>
    if c = '\\' then
      match cs with
      | [] => none
      | d :: ds => (scanStr q ds).map (fun p => (c :: d :: p.1, p.2))
    else if c = q then some ([c], cs)
    else (scanStr q cs).map (fun p => (c :: p.1, p.2))

/-- a complete string literal: quote, body, closing quote, nothing after -/
def strOK : List Char → Bool
  | q :: body => isQuote q && scanStr q body == some (body, [])
  | [] => false

/-- the longest prefix without a delimiter, and the rest -/
def spanND : List Char → List Char × List Char
  | [] => ([], [])
  | c :: cs => if isDelim c then ([], c :: cs) else ((spanND cs).1.cons c, (spanND cs).2)

/-- a constant repr: an atom (`1`, `-2.5`, `None`), a string (`'a, b'`), a prefixed string (`b'x'`), or a
    parenthesised atom (`(1+2j)`) -/
def litOK (cs : List Char) : Bool :=
  atomOK cs || strOK cs ||
  (match spanND cs with
   | (p, rest) => !p.isEmpty && strOK rest) ||
  (match cs with
   | '(' :: rest => (match spanND rest with
      | (p, r2) => !p.isEmpty && r2 == [')'])
   | _ => false)

mutual
/-- class names and field names are atoms, leaves are constant reprs -/
def SOK : Tree → Bool
  | .node cls fns fvs => atomOK cls.toList && fns.all (fun n => atomOK n.toList) && SOKL fvs
  | .list xs => SOKL xs
  | .leaf s => litOK s.toList
def SOKL : List Tree → Bool
  | [] => true
  | t :: ts => SOK t && SOKL ts
end

/-- trees whose listed fields all have values, whose names are atoms and whose leaves are constant reprs -/
def selfDelimiting (t : Tree) : Bool := WFTree t && SOK t

end Fadl
