/-
  Well-formed queries for the simplifier (C18): operator names occur only in callee position, and calls of the four
  operators the simplifier knows by name have their arity and a one-parameter lambda where the simplifier expects one.
  `Props/C18Total.lean` proves that on such queries the visitor model cannot fail with an internal error.
-/
import Fadl.Model.Simplify
namespace Fadl

/-- the four operators the simplifier knows by name -/
def isSimpOp (n : String) : Bool := n = "First" || n = "Select" || n = "SelectMany" || n = "Where"

/-- operator calls have their arity and a one-parameter lambda where the simplifier expects one -/
def opShape (n : String) (args : List Expr) : Bool :=
  if n = "First" then (match args with | [_] => true | _ => false)
  else if n = "Select" || n = "SelectMany" || n = "Where" then
    (match args with
     | [_, .lam [_] _] => true
     | _ => false)
  else true

mutual
/-- well-formed query: operator names only in callee position, operator calls well shaped -/
def wfq : Expr → Bool
  | .name x => !isSimpOp x
  | .const _ => true
  | .attr v _ => wfq v
  | .lam _ b => wfq b
  | .sub v s => wfq v && wfq s
  | .tuple es => wfqL es
  | .list es => wfqL es
  | .dict ks vs => wfqL ks && wfqL vs
  | .op _ es => wfqL es
  | .comp _ e t i ifs _ => wfq e && wfq t && wfq i && wfqL ifs
  | .call f args _ kwv =>
    wfqL args && wfqL kwv &&
      (match f with
       | .name n => opShape n args
       | f => wfq f)
def wfqL : List Expr → Bool
  | [] => true
  | e :: es => wfq e && wfqL es
end

/-! ### normal forms (C14): what the simplifier leaves behind -/

/-- a constant projection applied directly to a literal it can be taken out of -/
def isLitProjRedex (v s : Expr) : Bool :=
  match s with
  | .const (.int n) =>
    (match v with
     | .tuple _ => decide (n ≥ 0)
     | .list _ => decide (n ≥ 0)
     | .dict ks vs => (dictLookup ks vs (.int n)).isSome
     | _ => false)
  | .const (.str k) =>
    (match v with
     | .dict ks vs => (dictLookup ks vs (.str k)).isSome
     | _ => false)
  | _ => false

/-- an attribute that names a key of the dictionary literal it is applied to -/
def isAttrRedex (v : Expr) (a : String) : Bool :=
  match v with
  | .dict ks vs => (dictLookup ks vs (.str a)).isSome
  | _ => false

/-- the operator `n` applied to a source that is itself an operator call it fuses with -/
def isFusable (n : String) (parent : Expr) : Bool :=
  match opCall? parent with
  | some (m, _) =>
    ((n = "Select" || n = "SelectMany") && (m = "Select" || m = "SelectMany")) ||
    (n = "Where" && (m = "Where" || m = "Select" || m = "SelectMany"))
  | Option.none => false

mutual
/-- normal form: no projection sits on a literal it can be taken out of or on a `First`, and no operator call sits
    on a source it fuses with -/
def nf : Expr → Bool
  | .name _ => true
  | .const _ => true
  | .attr v a => nf v && !isAttrRedex v a && (firstArg? v).isNone
  | .lam _ b => nf b
  | .sub v s => nf v && nf s && !isLitProjRedex v s && (firstArg? v).isNone
  | .tuple es => nfL es
  | .list es => nfL es
  | .dict ks vs => nfL ks && nfL vs
  | .op _ es => nfL es
  | .comp _ e t i ifs _ => nf e && nf t && nf i && nfL ifs
  | .call f args _ kwv =>
    nfL args && nfL kwv &&
      (match f with
       | .name n => (match args with
          | parent :: _ => !isFusable n parent
          | [] => true)
       | .attr v m => nf v && !isAttrRedex v m      -- a method head: may sit on a First (left to the backend)
       | f => nf f)
def nfL : List Expr → Bool
  | [] => true
  | e :: es => nf e && nfL es
end

end Fadl
