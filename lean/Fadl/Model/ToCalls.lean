/-
  Model of func_adl/ast/func_adl_ast_utils.py : change_extension_functions_to_calls
  (class transform_calls, lines 103-121) with the default function list (lines 84-97).

  Python: visit_Call does generic_visit first (func, args, keywords), then, if the visited func is
  an Attribute whose attr is in the list, returns function_call(attr, [func.value] + node.args)
  -- which drops the keywords.  Every other node: generic_visit.
-/
import Fadl.Syntax
namespace Fadl

/-- `default_list_of_functions`; tied to the live module by the harness's constant-table check. -/
def opNames : List String :=
  ["Select", "SelectMany", "Where", "First", "ResultTTree", "ResultAwkwardArray",
   "ResultPandasDF", "Min", "Max", "Sum", "Aggregate", "Count"]

mutual
def toCalls : Expr → Expr
  | .name i => .name i
  | .const c => .const c
  | .attr v a => .attr (toCalls v) a
  | .call f args kwn kwv =>
    match toCalls f with
    | .attr v a =>
      if a ∈ opNames then .call (.name a) (v :: toCallsL args) kwn (toCallsL kwv)   -- keyword arguments stay with the call
      else .call (.attr v a) (toCallsL args) kwn (toCallsL kwv)
    | f' => .call f' (toCallsL args) kwn (toCallsL kwv)
  | .lam ps b => .lam ps (toCalls b)
  | .sub v s => .sub (toCalls v) (toCalls s)
  | .tuple es => .tuple (toCallsL es)
  | .list es => .list (toCallsL es)
  | .dict ks vs => .dict (toCallsL ks) (toCallsL vs)
  | .op k args => .op k (toCallsL args)
  | .comp kind e t i ifs a => .comp kind (toCalls e) (toCalls t) (toCalls i) (toCallsL ifs) a
def toCallsL : List Expr → List Expr
  | [] => []
  | e :: es => toCalls e :: toCallsL es
end

end Fadl
