/-
  Model of func_adl/ast/meta_data.py :
    _extract_metadata / extract_metadata   (lines 8-60)
    remove_empty_metadata / _cleaner        (lines 63-87; after fix F8 the traversal rebuilds instead of
                                             editing in place, which a tree-level model cannot tell apart —
                                             the non-mutation claim is checked by the harness oracle and, at
                                             heap level, in Model/Heap)

  _extract_metadata.visit_Call:  Name "MetaData" → append literal_eval(args[1]) FIRST, then return
  visit(args[0]) (other arguments and keywords are dropped, unvisited).  Anything else →
  FuncADLNodeTransformer.visit_Call → generic_visit (the class defines no call_* method).
  Fewer than two arguments: `node.args[1]` raises IndexError.
-/
import Fadl.PyVal
namespace Fadl

/-- `isinstance(f, ast.Name) and f.id == n` -/
def isNameOf (n : String) : Expr → Bool
  | .name m => m == n
  | _ => false

mutual
def extractMD (acc : List PyVal) : Expr → Except Err (Expr × List PyVal)
  | .name i => .ok (.name i, acc)
  | .const c => .ok (.const c, acc)
  | .attr v a => do
    let (v', acc) ← extractMD acc v
    pure (.attr v' a, acc)
  | .call f args kwn kwv =>
    if isNameOf "MetaData" f then
      match args with
      | src :: d :: _ => do
        let dv ← literalEval d
        extractMD (acc ++ [dv]) src
      | _ => .error (.internal "IndexError")
    else do
      let (f', acc) ← extractMD acc f
      let (args', acc) ← extractMDL acc args
      let (kwv', acc) ← extractMDL acc kwv
      pure (.call f' args' kwn kwv', acc)
  | .lam ps b => do
    let (b', acc) ← extractMD acc b
    pure (.lam ps b', acc)
  | .sub v s => do
    let (v', acc) ← extractMD acc v
    let (s', acc) ← extractMD acc s
    pure (.sub v' s', acc)
  | .tuple es => do
    let (es', acc) ← extractMDL acc es
    pure (.tuple es', acc)
  | .list es => do
    let (es', acc) ← extractMDL acc es
    pure (.list es', acc)
  | .dict ks vs => do
    let (ks', acc) ← extractMDL acc ks
    let (vs', acc) ← extractMDL acc vs
    pure (.dict ks' vs', acc)
  | .op k args => do
    let (args', acc) ← extractMDL acc args
    pure (.op k args', acc)
  | .comp kind e t i ifs a => do
    let (e', acc) ← extractMD acc e
    let (t', acc) ← extractMD acc t
    let (i', acc) ← extractMD acc i
    let (ifs', acc) ← extractMDL acc ifs
    pure (.comp kind e' t' i' ifs' a, acc)
def extractMDL (acc : List PyVal) : List Expr → Except Err (List Expr × List PyVal)
  | [] => .ok ([], acc)
  | e :: es => do
    let (e', acc) ← extractMD acc e
    let (es', acc) ← extractMDL acc es
    pure (e' :: es', acc)
end

/-- `extract_metadata(a)` -/
def extractMetadata (e : Expr) : Except Err (Expr × List PyVal) := extractMD [] e

def isEmptyDict : PyVal → Bool
  | .dict [] _ => true
  | _ => false

mutual
/-- `remove_empty_metadata` (the `_cleaner` transformer): post-order; a `MetaData` name-call with
    exactly two positional arguments whose second argument literal-evaluates to an empty dict is
    replaced by its (already cleaned) first argument. -/
def removeEmptyMD : Expr → Except Err Expr
  | .name i => .ok (.name i)
  | .const c => .ok (.const c)
  | .attr v a => do pure (.attr (← removeEmptyMD v) a)
  | .call f args kwn kwv => do
    let f' ← removeEmptyMD f
    let args' ← removeEmptyMDL args
    let kwv' ← removeEmptyMDL kwv
    if isNameOf "MetaData" f' then
      match args' with
      | [src, d] => do
        let dv ← literalEval d
        if isEmptyDict dv then pure src else pure (.call f' args' kwn kwv')
      | _ => pure (.call f' args' kwn kwv')
    else pure (.call f' args' kwn kwv')
  | .lam ps b => do pure (.lam ps (← removeEmptyMD b))
  | .sub v s => do pure (.sub (← removeEmptyMD v) (← removeEmptyMD s))
  | .tuple es => do pure (.tuple (← removeEmptyMDL es))
  | .list es => do pure (.list (← removeEmptyMDL es))
  | .dict ks vs => do pure (.dict (← removeEmptyMDL ks) (← removeEmptyMDL vs))
  | .op k args => do pure (.op k (← removeEmptyMDL args))
  | .comp kind e t i ifs a => do
    pure (.comp kind (← removeEmptyMD e) (← removeEmptyMD t) (← removeEmptyMD i) (← removeEmptyMDL ifs) a)
def removeEmptyMDL : List Expr → Except Err (List Expr)
  | [] => .ok []
  | e :: es => do pure ((← removeEmptyMD e) :: (← removeEmptyMDL es))
end

end Fadl
