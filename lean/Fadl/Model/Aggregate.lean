/-
  Model of func_adl/ast/aggregate_shortcuts.py : aggregate_node_transformer (lines 23-46) and
  _generate_count_call (lines 7-20).

  visit_Call: if func is a Name:
     len / Count with exactly one positional argument -> Aggregate(visit(arg0), 0, lambda acc,v: acc+1)
     Sum / Max / Min with exactly one positional argument (after fix F7; before it: any number, and
     IndexError for zero)                                -> Aggregate(visit(arg0), 0, <lambda>)
  otherwise generic_visit.  A call with keyword arguments or a starred argument has another argument count: generic_visit.
-/
import Fadl.Syntax
namespace Fadl

def accV : List String := ["acc", "v"]
def lamCount : Expr := .lam accV (.op (.bin "Add") [.name "acc", .const (.int 1)])
def lamSum : Expr := .lam accV (.op (.bin "Add") [.name "acc", .name "v"])
def lamMax : Expr := .lam accV (.op .ifExp [.op (.cmp ["Gt"]) [.name "acc", .name "v"], .name "acc", .name "v"])
def lamMin : Expr := .lam accV (.op .ifExp [.op (.cmp ["Lt"]) [.name "acc", .name "v"], .name "acc", .name "v"])

def aggCall (seq lam : Expr) : Expr := fcall "Aggregate" [seq, .const (.int 0), lam]

/-- The fold lambda a shortcut name stands for. -/
def shortcutLam (n : String) : Option Expr :=
  if n = "len" ∨ n = "Count" then some lamCount
  else if n = "Sum" then some lamSum
  else if n = "Max" then some lamMax
  else if n = "Min" then some lamMin
  else none

def isStarredArg : Expr → Bool
  | .op .starred _ => true
  | _ => false

mutual
def aggT : Expr → Expr
  | .name i => .name i
  | .const c => .const c
  | .attr v a => .attr (aggT v) a
  | .call f args kwn kwv =>
    let args' := aggTL args
    match f, args' with
    | .name n, [a'] =>
      -- one positional argument and nothing else: a keyword or a starred argument makes it a call with another argument count
      match (if kwn.isEmpty && !isStarredArg a' then shortcutLam n else none) with
      | some l => aggCall a' l
      | none => .call (.name n) [a'] kwn (aggTL kwv)
    | _, _ => .call (aggT f) args' kwn (aggTL kwv)
  | .lam ps b => .lam ps (aggT b)
  | .sub v s => .sub (aggT v) (aggT s)
  | .tuple es => .tuple (aggTL es)
  | .list es => .list (aggTL es)
  | .dict ks vs => .dict (aggTL ks) (aggTL vs)
  | .op k args => .op k (aggTL args)
  | .comp kind e t i ifs a => .comp kind (aggT e) (aggT t) (aggT i) (aggTL ifs) a
def aggTL : List Expr → List Expr
  | [] => []
  | e :: es => aggT e :: aggTL es
end

end Fadl
