/-
  The emitted expression: what the type follower hands back for an expression, as a function of the declarations, the
  types of the names in scope and the expression the user wrote — no stream state.

  `elabOf` rewrites call nodes only.  A method call whose receiver has a declared type is emitted as the call filled in
  against the signature of the deciding candidate (`candElab`: the same walk over the object's class and the registered
  collection classes as `candTy` / `candEff`), with the lambda of a collection operator replaced by its own elaboration
  under the parameter bound to the item type, and then handed to the class-level and the method-level callback; a
  registered function is filled in against its signature and handed to its processor; a parameterized property is handed
  to its callback; the body of an immediately called lambda is elaborated with its parameters typed by the arguments.
  Everything else is rebuilt from the elaborated children.  Props/C07Elab.lean proves that whenever the follower accepts
  an expression, the tree it returns is `elabOf` of the expression.
-/
import Fadl.Model.EffectSpec
namespace Fadl

/-- what a callback returns for a call site (state aside) -/
def applyCbE : Option CbSpec → Expr → Expr
  | Option.none, e => e
  | some c, e => applyCbCall c e

def attrValue : Expr → Expr
  | .attr v _ => v
  | e => e

def subValue : Expr → Expr
  | .sub v _ => v
  | e => e

/-- the deciding candidate of a method call and the call emitted for it before the callbacks -/
structure CandElab where
  node : Expr
  cand : Ty
  mi : MethodInfo
  full : Bool

mutual
def elabOf (M : Model) : Nat → Gamma → Expr → Expr
  | 0, _, e => e
  | fuel + 1, G, e =>
    match e with
    | .name _ => e
    | .const _ => e
    | .lam _ _ => e
    | .attr v a => .attr (elabOf M fuel G v) a
    | .sub v s => .sub (elabOf M fuel G v) (elabOf M fuel G s)
    | .tuple es => .tuple (elabOfL M fuel G es)
    | .list es => .list (elabOfL M fuel G es)
    | .dict ks vs => .dict (elabOfL M fuel G ks) (elabOfL M fuel G vs)
    | .op k args => .op k (elabOfL M fuel G args)
    | .comp kind el t i ifs a => .comp kind (elabOf M fuel G el) (elabOf M fuel G t) (elabOf M fuel G i) (elabOfL M fuel G ifs) a
    | .call f args kwn kwv =>
      let f' := elabOf M fuel G f
      let args' := elabOfL M fuel G args
      let kwv' := elabOfL M fuel G kwv
      match f with
      | .attr recv m =>
        match tyOf M fuel G recv with
        | .ok rr => methodElab M fuel G rr.ty (attrValue f') m args' kwn kwv'
        | .error _ => .call f' args' kwn kwv'
      | .name n =>
        match M.funcs.find? (fun fi => fi.name == n) with
        | some fi =>
          match fillDefaults fi.params (.name n) args' kwn kwv' with
          | .ok c => applyCbE fi.proc c
          | .error _ => .call f' args' kwn kwv'
        | Option.none => .call f' args' kwn kwv'
      | .sub (.attr recv pn) _ =>
        match tyOf M fuel G recv with
        | .ok rr =>
          match rr.ty with
          | .cls cn _ =>
            match (findClass M cn).bind (fun k => k.props.find? (fun p => p.name == pn)) with
            | some p =>
              match p.cb with
              | some cb => applyCbE (some cb) (.call (.attr (attrValue (subValue f')) pn) args' kwn kwv')
              | Option.none => .call f' args' kwn kwv'
            | Option.none => .call f' args' kwn kwv'
          | _ => .call f' args' kwn kwv'
        | .error _ => .call f' args' kwn kwv'
      | .lam ps body =>
        match tyOfL M fuel G args, tyOfL M fuel G kwv with
        | .ok ta, .ok tk => .call (.lam ps (elabOf M fuel (lamArgTys ps ta kwn tk ++ G) body)) args' kwn kwv'
        | _, _ => .call f' args' kwn kwv'
      | _ => .call f' args' kwn kwv'
def elabOfL (M : Model) : Nat → Gamma → List Expr → List Expr
  | 0, _, es => es
  | _ + 1, _, [] => []
  | fuel + 1, G, e :: es => elabOf M fuel G e :: elabOfL M fuel G es
/-- `recv.m(args, kws)` with `recv : objTy`, receiver and arguments already elaborated -/
def methodElab (M : Model) : Nat → Gamma → Ty → Expr → String → List Expr → List String → List Expr → Expr
  | 0, _, _, recv, m, args, kwn, kwv => .call (.attr recv m) args kwn kwv
  | fuel + 1, G, objTy, recv, m, args, kwn, kwv =>
    let coll : List Ty :=
      if isIterable M objTy then
        (M.classes.filter (·.collection)).map (fun k => Ty.cls k.name [unwrapIterable M objTy])
      else []
    match candElab M fuel G recv m args kwn kwv (objTy :: coll) Option.none with
    | Option.none => .call (.attr recv m) args kwn kwv
    | some r => applyCbE r.mi.cb (applyCbE (classCbOf M 16 r.cand) r.node)
def candElab (M : Model) : Nat → Gamma → Expr → String → List Expr → List String → List Expr → List Ty → Option CandElab →
    Option CandElab
  | 0, _, _, _, _, _, _, _, _ => Option.none
  | _ + 1, _, _, _, _, _, _, [], last => last
  | fuel + 1, G, recv, m, args, kwn, kwv, cand :: rest, last =>
    match findMethod M 16 cand m with
    | Option.none => candElab M fuel G recv m args kwn kwv rest last
    | some (defining, mi) =>
      match fillDefaults mi.params (.attr recv m) args kwn kwv with
      | .error _ => last
      | .ok filled =>
        let hasLam := (callArgs filled).any isLamArg
        let last1 : Option CandElab :=
          match resolveRet defining M (mi.ret.getD .any) with
          | some _ => some ⟨filled, cand, mi, !hasLam⟩
          | Option.none => last
        let needFollow := match last1 with
          | Option.none => true
          | some r => !r.full
        if needFollow then
          match onStreamElab M fuel G cand m filled with
          | some n => some ⟨n, cand, mi, true⟩
          | Option.none =>
            match last1 with
            | some r => if r.full then last1 else candElab M fuel G recv m args kwn kwv rest last1
            | Option.none => candElab M fuel G recv m args kwn kwv rest last1
        else last1
def onStreamElab (M : Model) : Nat → Gamma → Ty → String → Expr → Option Expr
  | 0, _, _, _, _ => Option.none
  | fuel + 1, G, cand, m, filled =>
    match cand, filled with
    | .cls cn [item], .call f' [.lam [x] body] kn kv =>
      if (findClass M cn).any (·.collection) && opNamesFollow.contains m then
        some (.call f' [.lam [x] (elabOf M fuel ((x, item) :: G) body)] kn kv)
      else Option.none
    | _, _ => Option.none
end

/-- the lambda `Select` / `SelectMany` / `Where` emit for `lambda x: body` on a stream of `itemTy` -/
def streamOpElab (M : Model) (itemTy : Ty) (x : String) (body : Expr) : Expr :=
  .lam [x] (elabOf M (followFuel body) [(x, itemTy)] body)

end Fadl
