/-
  End-to-end composition (property C01): operator chains as built by func_adl/object_stream.py
  (`Select`/`Where`/`SelectMany`: `function_call(op, [self.query_ast, lambda])`), what the same chain computes
  on in-memory sequences, and the backend passes shipped with the library applied in their documented order
  (func_adl/ast/__init__.py: change_extension_functions_to_calls, aggregate_node_transformer,
  simplify_chained_calls).
-/
import Fadl.Sem
import Fadl.Model.Aggregate
import Fadl.Model.Simplify
import Fadl.Model.Stream
namespace Fadl

inductive COp where
  | select | wher | selectMany
  deriving Repr, DecidableEq, Inhabited

def COp.name : COp → String
  | .select => "Select"
  | .wher => "Where"
  | .selectMany => "SelectMany"

/-- one operator call of a chain, with a one-parameter lambda -/
structure ChainStep where
  op : COp
  param : String
  body : Expr
  deriving Inhabited

def ChainStep.lam (s : ChainStep) : Expr := .lam [s.param] s.body

/-- the query AST of `src.op1(lam1).op2(lam2)…` -/
def buildChain (src : Expr) : List ChainStep → Expr
  | [] => src
  | s :: rest => buildChain (fcall s.op.name [src, s.lam]) rest

/-- what one operator does to an in-memory sequence when Python runs the lambda on each element -/
def stepVal (w : World) (env : Env) (s : ChainStep) (vs : List Val) : Except EErr (List Val) :=
  let f := fun v => den w s.body (env.upd s.param v)
  match s.op with
  | .select => mapRes f vs
  | .wher => filterM' f vs
  | .selectMany => do
    let rs ← mapRes f vs
    concatSeqs rs

/-- the chain run directly on an in-memory sequence -/
def runChain (w : World) (env : Env) : List Val → List ChainStep → Except EErr (List Val)
  | vs, [] => .ok vs
  | vs, s :: rest => do
    let vs' ← stepVal w env s vs
    runChain w env vs' rest

/-- the backend passes in the order the backends apply them -/
def backendFront (e : Expr) : Expr := aggT (toCalls e)
def backend (fuel c : Nat) (e : Expr) : Except Err Expr := (simplify fuel c (backendFront e)).map (·.1)

/-- the operations building a linear chain on a fresh dataset: stream 0 is the dataset, stream i+1 the
    result of the i-th operator -/
def chainOpsFrom (i : Nat) : List ChainStep → List Op
  | [] => []
  | s :: rest => .derive i s.op.name [s.lam] "Any" :: chainOpsFrom (i + 1) rest

def chainOps (steps : List ChainStep) : List Op := .dataset "Any" [] :: chainOpsFrom 0 steps

end Fadl
