/-
  Model of the library's own logic in func_adl/util_ast.py : _parse_source_for_lambda (the lambda branch,
  lines "Grab all the lambdas on a single line" … "lda = good_lambdas[0]") and _token_runner.tokens_till.

  CPython's tokenizer, `inspect.findsource` and `ast.parse` are outside the model: its inputs are
  (a) the candidates the scan produced — for each `lambda` met on the logical line, the NAME token that
  preceded it (the "caller" key, none if there was none) and its parameter names — in scan order, and
  (b) token lists for `tokensTill`.
-/
import Fadl.Syntax
import Fadl.Err
namespace Fadl

structure Cand where
  key : Option String         -- NAME token before the `lambda` keyword (find_identifier's `last_identifier`)
  params : List String        -- lambda_arg_list(lda)
  deriving Repr, DecidableEq, Inhabited

/-- `lambdas_on_a_line[caller_name]` if a caller name is given, else every lambda -/
def toSearch (caller : Option String) (cands : List (Nat × Cand)) : List (Nat × Cand) :=
  match caller with
  | some c => cands.filter (fun p => p.2.key == some c)
  | Option.none => cands

/-- the selection: index (in scan order) of the lambda that is recorded, or the ValueError -/
def pickLambda (caller : Option String) (argNames : List String) (cands : List Cand) : Except Err Nat :=
  let indexed := cands.zipIdx.map (fun p => (p.2, p.1))
  let search := toSearch caller indexed
  if search.isEmpty then .error (.valueError "Found no lambda")
  else
    let good := search.filter (fun p => p.2.params == argNames)
    match good with
    | [] => .error (.valueError "Found no lambda in source with the arguments")
    | [p] => .ok p.1
    | _ :: _ :: _ => .error (.valueError "Found multiple calls on same line")

/-! ### tokens_till -/

inductive TKind where
  | name | op | newline | nl | comment | other
  deriving Repr, DecidableEq, Inhabited

structure Token where
  kind : TKind
  text : String
  deriving Repr, DecidableEq, Inhabited

def depthDelta (t : Token) : Int :=
  if t.kind = .op then
    if t.text = "(" ∨ t.text = "[" ∨ t.text = "{" then 1
    else if t.text = ")" ∨ t.text = "]" ∨ t.text = "}" then -1
    else 0
  else 0

/-- `tokens_till({OP: [",", ")"]})`: the tokens yielded (comments dropped) up to, not including, the
    first `,` or `)` met at bracket depth 0; the three counters of the code are independent but only
    their being all zero matters — the model keeps them separately -/
def tokensTill : List Token → Int → Int → Int → List Token
  | [], _, _, _ => []
  | t :: ts, p, b, c =>
    if t.kind = .op ∧ (t.text = "," ∨ t.text = ")") ∧ p = 0 ∧ b = 0 ∧ c = 0 then []
    else
      let p' := if t.kind = .op then (if t.text = "(" then p + 1 else if t.text = ")" then p - 1 else p) else p
      let b' := if t.kind = .op then (if t.text = "[" then b + 1 else if t.text = "]" then b - 1 else b) else b
      let c' := if t.kind = .op then (if t.text = "{" then c + 1 else if t.text = "}" then c - 1 else c) else c
      if t.kind = .comment then tokensTill ts p' b' c' else t :: tokensTill ts p' b' c'

/-! ### the token scan of `_parse_source_for_lambda` (model additions) -/

def isStopTok (t : Token) : Bool := t.kind == .op && (t.text == "," || t.text == ")")

/-- what `tokens_till` leaves in the tokenizer: the tokens after the stop token it consumed -/
def tokensTillRest : List Token → Int → Int → Int → List Token
  | [], _, _, _ => []
  | t :: ts, p, b, c =>
    if t.kind = .op ∧ (t.text = "," ∨ t.text = ")") ∧ p = 0 ∧ b = 0 ∧ c = 0 then ts
    else
      let p' := if t.kind = .op then (if t.text = "(" then p + 1 else if t.text = ")" then p - 1 else p) else p
      let b' := if t.kind = .op then (if t.text = "[" then b + 1 else if t.text = "]" then b - 1 else b) else b
      let c' := if t.kind = .op then (if t.text = "{" then c + 1 else if t.text = "}" then c - 1 else c) else c
      tokensTillRest ts p' b' c'

theorem tokensTillRest_length : ∀ (ts : List Token) (p b c : Int), (tokensTillRest ts p b c).length ≤ ts.length
  | [], _, _, _ => by simp [tokensTillRest]
  | t :: ts, p, b, c => by
    simp only [tokensTillRest]
    split
    · simp
    · have := tokensTillRest_length ts
        (if t.kind = .op then (if t.text = "(" then p + 1 else if t.text = ")" then p - 1 else p) else p)
        (if t.kind = .op then (if t.text = "[" then b + 1 else if t.text = "]" then b - 1 else b) else b)
        (if t.kind = .op then (if t.text = "{" then c + 1 else if t.text = "}" then c - 1 else c) else c)
      simp only [List.length_cons]; omega

/-- `find_identifier(ids, can_encounter_newline)`: (token before, the identifier token, what is left of the stream) -/
def findIdentifier (ids : List String) (canNewline : Bool) : List Token → Option Token → Option (Option Token × Token × List Token)
  | [], _ => Option.none
  | t :: ts, last =>
    if t.kind = .name then
      if ids.contains t.text then some (last, t, ts)
      else findIdentifier ids canNewline ts (some t)
    else if t.kind = .newline ∧ !canNewline then Option.none
    else findIdentifier ids canNewline ts last

theorem findIdentifier_length (ids : List String) (cn : Bool) : ∀ (ts : List Token) (last : Option Token) r,
    findIdentifier ids cn ts last = some r → r.2.2.length < ts.length
  | [], _, r, h => by simp [findIdentifier] at h
  | t :: ts, last, r, h => by
    simp only [findIdentifier] at h
    split at h
    · split at h
      · cases h; simp
      · have := findIdentifier_length ids cn ts _ r h; simp only [List.length_cons]; omega
    · split at h
      · cases h
      · have := findIdentifier_length ids cn ts _ r h; simp only [List.length_cons]; omega

def sawNewline (ts : List Token) : Bool := ts.any (fun t => t.kind == .newline || t.text == "\n")

/-- one `_get_lambda_in_stream`: the tokens handed to the parser after the `lambda` token, whether a newline was seen -/
def lambdaExtent (ts : List Token) : List Token × Bool :=
  let acc := tokensTill ts 0 0 0
  (acc, sawNewline acc)

/-- the loop "grab all the lambdas on a single line": for each lambda met, the NAME token before it (its key) and the
    tokens of its extent, in scan order; `ts` is the stream after the first `lambda` token -/
def scanLine : Nat → Option Token → List Token → List (Option String × List Token)
  | 0, _, _ => []
  | fuel + 1, key, ts =>
    let (acc, nl) := lambdaExtent ts
    let here := (key.map (·.text), acc)
    if nl then [here]
    else
      match findIdentifier ["lambda"] false (tokensTillRest ts 0 0 0) Option.none with
      | some (key', _, rest) => here :: scanLine fuel key' rest
      | Option.none => [here]

end Fadl
