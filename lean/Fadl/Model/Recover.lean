/-
  Model of the library's own logic in func_adl/util_ast.py : _parse_source_for_lambda (the lambda branch,
  lines "Grab all the lambdas on a single line" … "lda = good_lambdas[0]") and _token_runner.tokens_till.

  CPython's tokenizer, `inspect.findsource` and `ast.parse` are outside the model: its inputs are
  (a) the candidates the scan produced — for each `lambda` met on the logical line, the NAME token that
  preceded it (the "caller" key, none if there was none) and its parameter names — in scan order, and
  (b) token lists for `tokensTill`.
-/
import Fadl.Syntax
import Fadl.Err
namespace Fadl

structure Cand where
  key : Option String         -- NAME token before the `lambda` keyword (find_identifier's `last_identifier`)
  params : List String        -- lambda_arg_list(lda)
  deriving Repr, DecidableEq, Inhabited

/-- `lambdas_on_a_line[caller_name]` if a caller name is given, else every lambda -/
def toSearch (caller : Option String) (cands : List (Nat × Cand)) : List (Nat × Cand) :=
  match caller with
  | some c => cands.filter (fun p => p.2.key == some c)
  | Option.none => cands

/-- the selection: index (in scan order) of the lambda that is recorded, or the ValueError -/
def pickLambda (caller : Option String) (argNames : List String) (cands : List Cand) : Except Err Nat :=
  let indexed := cands.zipIdx.map (fun p => (p.2, p.1))
  let search := toSearch caller indexed
  if search.isEmpty then .error (.valueError "Found no lambda")
  else
    let good := search.filter (fun p => p.2.params == argNames)
    match good with
    | [] => .error (.valueError "Found no lambda in source with the arguments")
    | [p] => .ok p.1
    | _ :: _ :: _ => .error (.valueError "Found multiple calls on same line")

/-! ### tokens_till -/

inductive TKind where
  | name | op | newline | nl | comment | other
  deriving Repr, DecidableEq, Inhabited

structure Token where
  kind : TKind
  text : String
  deriving Repr, DecidableEq, Inhabited

def depthDelta (t : Token) : Int :=
  if t.kind = .op then
    if t.text = "(" ∨ t.text = "[" ∨ t.text = "{" then 1
    else if t.text = ")" ∨ t.text = "]" ∨ t.text = "}" then -1
    else 0
  else 0

/-- `tokens_till({OP: [",", ")"]})`: the tokens yielded (comments dropped) up to, not including, the
    first `,` or `)` met at bracket depth 0; the three counters of the code are independent but only
    their being all zero matters — the model keeps them separately -/
def tokensTill : List Token → Int → Int → Int → List Token
  | [], _, _, _ => []
  | t :: ts, p, b, c =>
    if t.kind = .op ∧ (t.text = "," ∨ t.text = ")") ∧ p = 0 ∧ b = 0 ∧ c = 0 then []
    else
      let p' := if t.kind = .op then (if t.text = "(" then p + 1 else if t.text = ")" then p - 1 else p) else p
      let b' := if t.kind = .op then (if t.text = "[" then b + 1 else if t.text = "]" then b - 1 else b) else b
      let c' := if t.kind = .op then (if t.text = "{" then c + 1 else if t.text = "}" then c - 1 else c) else c
      if t.kind = .comment then tokensTill ts p' b' c' else t :: tokensTill ts p' b' c'

end Fadl
