/-
  Model of the stream plumbing: func_adl/object_stream.py (clone_with_new_ast, Select/Where/
  SelectMany/MetaData wrapping, QMetaData, As* terminals, _get_executor, value_async),
  func_adl/event_dataset.py (EventDataset.__init__, find_EventDataset) and
  func_adl/ast/meta_data.py : lookup_query_metadata.

  The query AST of a stream is a chain of `ast.Call` nodes linked through `args[0]`; streams
  derived from a common parent *share* the parent's nodes.  The model keeps exactly that sharing:
  a `Heap` of cells, one per operator-call node, holding
     the operator name, the reference to the source cell (`args[0]`), the remaining arguments by
     value (`Expr`; lambdas are fresh immutable sub-trees), and the non-field attributes the
     library hangs on the node: `_func_adl_executor` (dataset id) and `_q_metadata`.
  `abs` rebuilds the field tree of a cell — what `ast.dump`, `calc_ast_hash` and the executor see;
  non-field attributes are not part of it.

  What is *not* in this model (DESIGN section 5, C11 "partial"): an `ast.Lambda` *object* owned by
  the user and passed to several operator calls — there the type follower's in-place edits are
  visible through aliasing (known finding F10).
-/
import Fadl.Model.MetaData
import Fadl.Model.AsAst
namespace Fadl

abbrev QMd := List (String × PyVal)

structure Cell where
  op : String
  src : Option Nat
  args : List Expr
  exe : Option Nat          -- `_func_adl_executor` / `_eds_object`: id of the dataset object
  qmd : Option QMd          -- `_q_metadata` attribute (absent = none)
  deriving Inhabited

abbrev Heap := List Cell

/-- One `ObjectStream` object (`root`, `itemType`) plus ghost state used only to state the
    theorems (not in Python, never read by `step` to decide anything). -/
structure Stream where
  root : Nat
  itemType : String
  /-- ghost: QMetaData dictionaries applied on the derivation path, most recent first -/
  path : List QMd
  /-- ghost: the dataset this stream was derived from -/
  ds : Nat
  /-- ghost: the query the same chain builds when every QMetaData call is left out -/
  tm : Expr
  deriving Inhabited

structure CallEvent where
  exe : Nat                 -- which executor was invoked
  ast : Except Err Expr     -- the AST it received
  title : Option String
  deriving Inhabited

structure St where
  heap : Heap
  streams : List Stream
  calls : List CallEvent      -- executor invocations so far, oldest first
  deriving Inhabited

def St.init : St := { heap := [], streams := [], calls := [] }

/-! ### reading the heap -/

/-- field tree of the node `r`.  `args[0]` of a node always refers to an older node (smaller
    index); the guard makes the definition total without fuel. -/
def abs (h : Heap) (r : Nat) : Expr :=
  match h[r]? with
  | Option.none => .name "<dangling>"
  | some c =>
    match c.src with
    | Option.none => fcall c.op c.args
    | some s => if s < r then fcall c.op (abs h s :: c.args) else .name "<dangling>"
termination_by r

def qmdGet (k : String) : QMd → Option PyVal
  | [] => Option.none
  | (k', v) :: rest => if k' = k then some v else qmdGet k rest

def qmdSet (k : String) (v : PyVal) : QMd → QMd
  | [] => [(k, v)]
  | (k', v') :: rest => if k' = k then (k, v) :: rest else (k', v') :: qmdSet k v rest

/-- `{**a, **b}` -/
def qmdMerge (a : QMd) : QMd → QMd
  | [] => a
  | (k, v) :: rest => qmdMerge (qmdSet k v a) rest

/-- `lookup_query_metadata`: the first node on the way down that defines the key. -/
def lookupQMD (h : Heap) (r : Nat) (k : String) : Option PyVal :=
  match h[r]? with
  | Option.none => Option.none
  | some c =>
    match c.qmd.bind (qmdGet k) with
    | some v => some v
    | Option.none =>
      match c.src with
      | Option.none => Option.none
      | some s => if s < r then lookupQMD h s k else Option.none
termination_by r

/-- `_get_executor` without override: walk `args[0]` to the first node carrying the attribute.
    A chain without any such node ends in an IndexError / AttributeError. -/
def executorOf (h : Heap) (r : Nat) : Except Err Nat :=
  match h[r]? with
  | Option.none => .error (.internal "IndexError")
  | some c =>
    match c.exe with
    | some d => .ok d
    | Option.none =>
      match c.src with
      | Option.none => .error (.internal "IndexError")
      | some s => if s < r then executorOf h s else .error (.internal "IndexError")
termination_by r

def getExecutor (h : Heap) (r : Nat) (override : Option Nat) : Except Err Nat :=
  match override with
  | some e => .ok e
  | Option.none => executorOf h r

/-! ### operations -/

inductive Op where
  /-- a dataset object; `args`: extra arguments a subclass puts on its root `EventDataset(...)` node -/
  | dataset (itemType : String) (args : List Expr)
  /-- Select / Where / SelectMany / MetaData: `clone_with_new_ast(function_call(op, [self.ast] ++ args), ty)` -/
  | derive (s : Nat) (op : String) (args : List Expr) (newType : String)
  /-- As* terminals: a brand-new `ObjectStream[ReturnedDataPlaceHolder]` around
      `function_call(op, [self.ast] ++ args)`; its `item_type` attribute is the constructor default `Any` -/
  | terminal (s : Nat) (op : String) (args : List Expr)
  | qmeta (s : Nat) (md : QMd)
  | value (s : Nat) (override : Option Nat) (title : Option String)
  deriving Inhabited

def pyValNe (a b : PyVal) : Bool := !PyVal.beq a b

/-- the part of `metadata` that QMetaData decides to store: new keys, and keys whose visible
    value differs -/
def qmdToAdd (h : Heap) (root : Nat) : QMd → QMd → QMd
  | acc, [] => acc
  | acc, (k, v) :: rest =>
    match lookupQMD h root k with
    | Option.none => qmdToAdd h root (qmdSet k v acc) rest
    | some .none => qmdToAdd h root (qmdSet k v acc) rest     -- `found_md is None`
    | some found => if pyValNe found v then qmdToAdd h root (qmdSet k v acc) rest else qmdToAdd h root acc rest

def step (st : St) : Op → St
  | .dataset ty args =>
    let id := st.heap.length
    { st with heap := st.heap ++ [{ op := "EventDataset", src := Option.none, args := args, exe := some id, qmd := Option.none }],
              streams := st.streams ++ [{ root := id, itemType := ty, path := [], ds := id, tm := fcall "EventDataset" args }] }
  | .derive s op args ty =>
    match st.streams[s]? with
    | Option.none => st
    | some str =>
      let id := st.heap.length
      { st with heap := st.heap ++ [{ op := op, src := some str.root, args := args, exe := Option.none, qmd := Option.none }],
                streams := st.streams ++ [{ root := id, itemType := ty, path := str.path, ds := str.ds, tm := fcall op (str.tm :: args) }] }
  | .terminal s op args =>
    match st.streams[s]? with
    | Option.none => st
    | some str =>
      let id := st.heap.length
      { st with heap := st.heap ++ [{ op := op, src := some str.root, args := args, exe := Option.none, qmd := Option.none }],
                streams := st.streams ++ [{ root := id, itemType := "Any", path := str.path, ds := str.ds,
                                            tm := fcall op (str.tm :: args) }] }
  | .qmeta s md =>
    match st.streams[s]? with
    | Option.none => st
    | some str =>
      let add := qmdToAdd st.heap str.root [] md
      if add.isEmpty then
        { st with streams := st.streams ++ [{ str with path := md :: str.path }] }
      else
        match st.heap[str.root]? with
        | Option.none => st
        | some c =>
          let id := st.heap.length
          -- copy.copy(base_ast): same fields (same children), same attributes; then the merged dict
          { st with heap := st.heap ++ [{ c with qmd := some (qmdMerge (c.qmd.getD []) add) }],
                    streams := st.streams ++ [{ str with root := id, path := md :: str.path }] }
  | .value s override title =>
    match st.streams[s]? with
    | Option.none => st
    | some str =>
      match getExecutor st.heap str.root override with
      | .error _ => st
      | .ok e => { st with calls := st.calls ++ [{ exe := e, ast := removeEmptyMD (abs st.heap str.root), title := title }] }

def run (ops : List Op) : St := ops.foldl step St.init

/-! ### find_EventDataset -/

mutual
/-- number of `EventDataset(...)` name-calls met by the visitor (it does not look inside one) -/
def countEDS : Expr → Nat
  | .name _ => 0
  | .const _ => 0
  | .attr v _ => countEDS v
  | .call f args _ kwv =>
    if isNameOf "EventDataset" f then 1 else countEDS f + countEDSL args + countEDSL kwv
  | .lam _ b => countEDS b
  | .sub v s => countEDS v + countEDS s
  | .tuple es => countEDSL es
  | .list es => countEDSL es
  | .dict ks vs => countEDSL ks + countEDSL vs
  | .op _ args => countEDSL args
  | .comp _ e t i ifs _ => countEDS e + countEDS t + countEDS i + countEDSL ifs
def countEDSL : List Expr → Nat
  | [] => 0
  | e :: es => countEDS e + countEDSL es
end

/-- `find_EventDataset`: succeeds iff exactly one dataset node is met; otherwise a plain `Exception`. -/
def findEventDataset (e : Expr) : Except Err Unit :=
  if countEDS e = 1 then .ok () else .error (.internal "Exception")

end Fadl
