/-
  The domain of the semantic theorem about `_resolve_called_lambdas` (C05, Props/C05Sem.lean): no comprehension, every
  immediately called lambda binds positionally (so it is inlined), every other lambda has one parameter, no lambda
  parameter is used as a function name.  `inlB` is the executable form, evaluated by the driver on generated inputs.
-/
import Fadl.Model.Called
import Fadl.Lemmas.Rename
namespace Fadl

mutual
/-- every immediately called lambda binds positionally (so it is inlined) -/
def allInlinable : Expr → Bool
  | .name _ => true
  | .const _ => true
  | .attr v _ => allInlinable v
  | .call f args _ kwv =>
    (match f with
     | .lam ps _ => decide (ps.length = args.length)
     | _ => true) && allInlinable f && allInlinableL args && allInlinableL kwv
  | .lam _ b => allInlinable b
  | .sub v s => allInlinable v && allInlinable s
  | .tuple es => allInlinableL es
  | .list es => allInlinableL es
  | .dict ks vs => allInlinableL ks && allInlinableL vs
  | .op _ args => allInlinableL args
  | .comp _ e t i ifs _ => allInlinable e && allInlinable t && allInlinable i && allInlinableL ifs
def allInlinableL : List Expr → Bool
  | [] => true
  | e :: es => allInlinable e && allInlinableL es
end

mutual
/-- every lambda that is not immediately called (an operator argument) has exactly one parameter -/
def lam1 : Expr → Bool
  | .name _ => true
  | .const _ => true
  | .attr v _ => lam1 v
  | .call f args _ kwv =>
    (match f with
     | .lam _ body => lam1 body
     | f => lam1 f) && lam1L args && lam1L kwv
  | .lam ps b => decide (ps.length = 1) && lam1 b
  | .sub v s => lam1 v && lam1 s
  | .tuple es => lam1L es
  | .list es => lam1L es
  | .dict ks vs => lam1L ks && lam1L vs
  | .op _ args => lam1L args
  | .comp _ e t i ifs _ => lam1 e && lam1 t && lam1 i && lam1L ifs
def lam1L : List Expr → Bool
  | [] => true
  | e :: es => lam1 e && lam1L es
end

def inlB (e : Expr) : Bool :=
  noComp e && lam1 e && allInlinable e && (bindersOf e).all (fun p => !(headNames e).contains p)

end Fadl
