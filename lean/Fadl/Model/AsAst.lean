/-
  Model of the places where a Python *value* is embedded into a query:

    util_ast.as_ast (lines 26-46)      value → literal AST, via `ast.parse(str(value))`, strings via
                                       `repr` (after fix F12)
    util_ast.as_literal (lines 13-23)  value → `ast.Constant(value)` directly (declared defaults,
                                       captured variables)
    util_ast.check_ast (lines 766-784) every Constant inside an emitted lambda must have a legal type
    object_stream terminals (MetaData, AsPandasDF, AsROOTTTree, AsParquetFiles, AsAwkwardArray)

  `valToExpr v` is the literal AST CPython's parser produces for the text `repr(v)`: the model
  states *what as_ast returns*, not the text round trip inside CPython (tokenizer, parser and
  `repr` are outside the model; the correspondence run compares as_ast(v) with valToExpr v on
  generated values, including all the quoting / escaping cases).
-/
import Fadl.PyVal
namespace Fadl

def isNegRepr (r : String) : Bool := r.toList.head? == some '-'
def absRepr (r : String) : String := String.ofList (r.toList.drop 1)

mutual
def valToExpr : PyVal → Expr
  | .int n => if n < 0 then .op (.un "USub") [.const (.int (-n))] else .const (.int n)
  | .float r => if isNegRepr r then .op (.un "USub") [.const (.float (absRepr r))] else .const (.float r)
  | .str s => .const (.str s)
  | .bytes r => .const (.bytes r)
  | .bool b => .const (.bool b)
  | .none => .const .none
  | .ellipsis => .name "Ellipsis"
  | .tuple vs => .tuple (valToExprL vs)
  | .list vs => .list (valToExprL vs)
  | .dict ks vs => .dict (valToExprL ks) (valToExprL vs)
def valToExprL : List PyVal → List Expr
  | [] => []
  | v :: vs => valToExpr v :: valToExprL vs
end

/-- `as_ast(v)` -/
def asAst (v : PyVal) : Expr := valToExpr v

/-- `g_legal_capture_types = (str, int, float, bool, complex, str, bytes, ModuleType)` seen through
    the `Const` encoding (opaque tags are produced by harness/astcodec.py: const_tag). -/
def legalConst : Const → Bool
  | .int _ => true
  | .float _ => true
  | .str _ => true
  | .bytes _ => true
  | .bool _ => true
  | .none => false
  | .ellipsis => false
  | .opaque t => t.startsWith "complex:" || t.startsWith "module:"

mutual
/-- `check_ast`: ValueError on the first constant whose type is not legal. -/
def checkAst : Expr → Except Err Unit
  | .name _ => .ok ()
  | .const c => if legalConst c then .ok () else .error (.valueError "Invalid constant type")
  | .attr v _ => checkAst v
  | .call f args _ kwv => do checkAst f; checkAstL args; checkAstL kwv
  | .lam _ b => checkAst b
  | .sub v s => do checkAst v; checkAst s
  | .tuple es => checkAstL es
  | .list es => checkAstL es
  | .dict ks vs => do checkAstL ks; checkAstL vs
  | .op _ args => checkAstL args
  | .comp _ e t i ifs _ => do checkAst e; checkAst t; checkAst i; checkAstL ifs
def checkAstL : List Expr → Except Err Unit
  | [] => .ok ()
  | e :: es => do checkAst e; checkAstL es
end

/-- `columns` arguments: a single string becomes a one-element list. -/
def normColumns : PyVal → PyVal
  | .str s => .list [.str s]
  | v => v

/-! terminals of object_stream.py (source `src` is the stream's query AST) -/
def mdCall (src : Expr) (md : PyVal) : Expr := fcall "MetaData" [src, asAst md]
def asPandas (src : Expr) (cols : PyVal) : Expr := fcall "ResultPandasDF" [src, asAst (normColumns cols)]
def asAwkward (src : Expr) (cols : PyVal) : Expr := fcall "ResultAwkwardArray" [src, asAst (normColumns cols)]
def asRootTTree (src : Expr) (filename treename cols : PyVal) : Expr :=
  fcall "ResultTTree" [src, asAst (normColumns cols), asAst treename, asAst filename]
def asParquet (src : Expr) (filename cols : PyVal) : Expr :=
  fcall "ResultParquet" [src, asAst (normColumns cols), asAst filename]

end Fadl
