/-
  The declared-type checker: what the annotations of a class model imply for an expression.

  `tyOf` is a function of the class model's *declarations* only (classes, inheritance, type parameters, method and
  function signatures, return annotations, registered collection classes), the types of the names in scope and the
  expression the user wrote.  It has no stream state, runs no callback, builds no tree and fills in no default value:
  it is the specification the type follower (`follow`, Model/Follow.lean: the model of `remap_by_types`) is proved to
  agree with in Props/C08Sound.lean, and it is also run against the implementation's item types by the C08 check.

  Fuel: like every recursive model here, `tyOf` takes a fuel argument; it is re-entered for the body of a lambda that
  is the argument of a collection operator, and for the body of an immediately called lambda.
-/
import Fadl.Model.Follow
namespace Fadl

/-- the type of a node and, for a tuple or dictionary literal, the types of its elements / values -/
structure TInfo where
  ty : Ty
  elts : List Ty
  deriving Inhabited

/-- arithmetic: `Any` is contagious, then `float`, true division gives `float`, everything else `int` -/
def binTy (n : String) (tl tr : Ty) : Ty :=
  if Ty.beq tl .any || Ty.beq tr .any then .any
  else if Ty.beq tl .float || Ty.beq tr .float then .float
  else if n == "Div" then .float
  else .int

/-- operators: `not`, comparisons, `and` / `or` give `bool`; unary operators keep the operand's type; a conditional
    needs equal branch types, or two number-like branches (then `float`) -/
def opTy (k : OpKind) (ts : List Ty) : Except Err Ty :=
  match k, ts with
  | .un "Not", _ => pure .bool
  | .un _, [t] => pure t
  | .bin n, [tl, tr] => pure (binTy n tl tr)
  | .boolAnd, _ => pure .bool
  | .boolOr, _ => pure .bool
  | .cmp _, _ => pure .bool
  | .ifExp, [_, tt, tf] =>
    if Ty.beq tt tf then pure tt
    else if numLike tt && numLike tf then pure .float
    else .error (.valueError "IfExp branches have different types")
  | _, _ => pure .any

/-- the item type a collection operator produces from the item type and the type of its lambda's body -/
def operatorElemTy (M : Model) (m : String) (item body : Ty) : Ty :=
  if m == "Select" then body else if m == "SelectMany" then unwrapIterable M body else item

mutual
def tyOf (M : Model) : Nat → Gamma → Expr → Except Err TInfo
  | 0, _, _ => .error .fuel
  | fuel + 1, G, e =>
    match e with
    | .name x =>
      match gammaGet x G with
      | some t => pure ⟨t, []⟩
      | Option.none => if M.funcs.any (fun f => f.name == x) then pure ⟨.callable, []⟩ else pure ⟨.any, []⟩
    | .const c => pure ⟨constTy c, []⟩
    | .lam _ _ => pure ⟨.callable, []⟩
    | .attr v a => do
      let r ← tyOf M fuel G v
      match v with
      | .dict ks vs =>
        -- a field of a dictionary literal: the type of that value
        match ← dictLitIndex a ks 0 with
        | some i =>
          match r.elts[i]?, vs[i]? with
          | some t, some _ => pure ⟨t, []⟩
          | _, _ => .error (.internal "IndexError")
        | Option.none =>
          if a.toLower == "zip" then pure ⟨.any, []⟩ else .error (.valueError "Key not found in dict expression")
      | _ =>
        -- a field of a value built from a dictionary literal elsewhere: the field's type
        if isDC r.ty then
          match dcField a r.ty with
          | some t => pure ⟨t, []⟩
          | Option.none => .error (.valueError "Key not found in dataclass/dictionary")
        else pure ⟨.any, []⟩
    | .sub v s => do
      let rv ← tyOf M fuel G v
      let _ ← tyOf M fuel G s
      match v with
      | .tuple elts =>
        -- a constant index into a tuple literal: the type of that element
        match s with
        | .const (.int n) =>
          if (elts.length : Int) ≤ n then .error (.valueError "Index out of range")
          else
            let idx := if n < 0 then (elts.length : Int) + n else n
            match rv.elts[idx.toNat]?, elts[idx.toNat]? with
            | some t, some _ => if idx < 0 then .error (.internal "IndexError") else pure ⟨t, []⟩
            | _, _ => .error (.internal "IndexError")
        | .const (.bool b) =>
          let n := if b then 1 else 0
          if elts.length ≤ n then .error (.valueError "Index out of range")
          else match rv.elts[n]?, elts[n]? with
            | some t, some _ => pure ⟨t, []⟩
            | _, _ => .error (.internal "IndexError")
        | _ => .error (.valueError "Slices must be indexable constants only")
      | _ =>
        if isDC rv.ty then do
          let k ← litKey s
          match keyStr k with
          | some ks =>
            match dcField ks rv.ty with
            | some t => pure ⟨t, []⟩
            | Option.none => .error (.valueError "Key not found in dataclass/dictionary")
          | Option.none => .error (.valueError "Key not found in dataclass/dictionary")
        else
          -- subscripting anything else: the element type
          pure ⟨unwrapIterable M rv.ty, []⟩
    | .tuple es => do
      let ts ← tyOfL M fuel G es
      pure ⟨.any, ts⟩
    | .list es => do
      let _ ← tyOfL M fuel G es
      pure ⟨.any, []⟩
    | .dict ks vs => do
      let _ ← tyOfL M fuel G ks
      let tv ← tyOfL M fuel G vs
      let kv ← ks.mapM litKey
      pure ⟨mkDictTy kv tv, tv⟩
    | .op k args => do
      let ts ← tyOfL M fuel G args
      let t ← opTy k ts
      pure ⟨t, []⟩
    | .comp _ el t i ifs _ => do
      let _ ← tyOf M fuel G el
      let _ ← tyOf M fuel G t
      let _ ← tyOf M fuel G i
      let _ ← tyOfL M fuel G ifs
      pure ⟨.any, []⟩
    | .call f args kwn kwv => do
      let _ ← tyOf M fuel G f
      let ta ← tyOfL M fuel G args
      let tk ← tyOfL M fuel G kwv
      match f with
      | .attr recv m => do
        -- a method call: by the type of the receiver
        let rr ← tyOf M fuel G recv
        methodTy M fuel G rr.ty m args kwn kwv
      | .name n =>
        -- a registered function: its return annotation (the call must bind)
        match M.funcs.find? (fun fi => fi.name == n) with
        | some fi =>
          match fillDefaults fi.params (.name n) args kwn kwv with
          | .error _ => .error (.valueError "Error processing function call")
          | .ok _ => pure ⟨fi.ret.getD .any, []⟩
        | Option.none => pure ⟨.any, []⟩
      | .sub (.attr recv pn) sl => do
        -- a parameterized property of an object of a declared class: its declared type
        let rr ← tyOf M fuel G recv
        match rr.ty with
        | .any => pure ⟨.any, []⟩
        | .cls cn _ =>
          match (findClass M cn).bind (fun k => k.props.find? (fun p => p.name == pn)) with
          | some p =>
            match p.cb with
            | some _ => do
              let _ ← litKey sl
              pure ⟨p.ret, []⟩
            | Option.none => .error (.valueError "Property was not decorated")
          | Option.none => .error (.internal "AttributeError")
        | _ => pure ⟨.any, []⟩
      | .lam ps body => do
        -- an immediately called lambda: the type of its body, parameters typed by the arguments
        let rb ← tyOf M fuel (lamArgTys ps ta kwn tk ++ G) body
        pure ⟨rb.ty, []⟩
      | _ => pure ⟨.any, []⟩
def tyOfL (M : Model) : Nat → Gamma → List Expr → Except Err (List Ty)
  | 0, _, _ => .error .fuel
  | _ + 1, _, [] => pure []
  | fuel + 1, G, e :: es => do
    let r ← tyOf M fuel G e
    let rest ← tyOfL M fuel G es
    pure (r.ty :: rest)
/-- `recv.m(args, kws)` with `recv : objTy`: the candidates are the object's own class and, for an iterable, every
    registered collection class at the element type -/
def methodTy (M : Model) : Nat → Gamma → Ty → String → List Expr → List String → List Expr → Except Err TInfo
  | 0, _, _, _, _, _, _ => .error .fuel
  | fuel + 1, G, objTy, m, args, kwn, kwv => do
    let coll : List Ty :=
      if isIterable M objTy then
        (M.classes.filter (·.collection)).map (fun k => Ty.cls k.name [unwrapIterable M objTy])
      else []
    let last ← candTy M fuel G m args kwn kwv (objTy :: coll) Option.none
    match last with
    | Option.none => pure ⟨.any, []⟩
    | some r => pure ⟨r.1, []⟩
/-- candidates in order; the answer is that of the first candidate declaring `m` whose return annotation resolves and
    whose call has no lambda argument, or whose lambda can be followed (a collection operator); failing those, the
    last resolved annotation; `(type, fully resolved)` -/
def candTy (M : Model) : Nat → Gamma → String → List Expr → List String → List Expr → List Ty → Option (Ty × Bool) →
    Except Err (Option (Ty × Bool))
  | 0, _, _, _, _, _, _, _ => .error .fuel
  | _ + 1, _, _, _, _, _, [], last => pure last
  | fuel + 1, G, m, args, kwn, kwv, cand :: rest, last =>
    match findMethod M 16 cand m with
    | Option.none => candTy M fuel G m args kwn kwv rest last
    | some (defining, mi) => do
      -- the call must bind to the declared signature
      let filled ← fillDefaults mi.params (.name m) args kwn kwv
      let hasLam := (callArgs filled).any isLamArg
      -- the annotated return type with the class's type variables substituted
      let last1 : Option (Ty × Bool) :=
        match resolveRet defining M (mi.ret.getD .any) with
        | some t => some (t, !hasLam)
        | Option.none => last
      let needFollow := match last1 with
        | Option.none => true
        | some r => !r.2
      if needFollow then do
        let followed ← onStreamTy M fuel G cand m filled
        match followed with
        | some t => pure (some (t, true))
        | Option.none =>
          match last1 with
          | some r => if r.2 then pure last1 else candTy M fuel G m args kwn kwv rest last1
          | Option.none => candTy M fuel G m args kwn kwv rest last1
      else pure last1
/-- `Select` / `SelectMany` / `Where` of a collection class with one single-parameter lambda: the lambda's body is
    typed with the parameter at the item type; Select gives the body's type, SelectMany its element type, Where keeps
    the item type and refuses a non-boolean filter -/
def onStreamTy (M : Model) : Nat → Gamma → Ty → String → Expr → Except Err (Option Ty)
  | 0, _, _, _, _ => .error .fuel
  | fuel + 1, G, cand, m, filled =>
    match cand, filled with
    | .cls cn [item], .call _ [.lam [x] body] _ _ =>
      if (findClass M cn).any (·.collection) && opNamesFollow.contains m then do
        let rb ← tyOf M fuel ((x, item) :: G) body
        if m == "Where" && !(Ty.beq rb.ty .bool) then .error (.valueError "The Where filter must return a boolean")
        else pure (some (.iterable (operatorElemTy M m item rb.ty)))
      else pure Option.none
    | _, _ => pure Option.none
end

/-- the item type `Select` / `SelectMany` / `Where` give a stream of `itemTy` for `lambda x: body` -/
def streamOpTy (M : Model) (op : String) (itemTy : Ty) (x : String) (body : Expr) : Except Err Ty := do
  let rb ← tyOf M (followFuel body) [(x, itemTy)] body
  if op == "Where" then
    if Ty.beq rb.ty .bool then pure itemTy else .error (.valueError "The Where filter must return a boolean")
  else if op == "SelectMany" then pure (unwrapIterable M rb.ty)
  else pure rb.ty

end Fadl
