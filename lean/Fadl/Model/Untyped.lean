/-
  Untyped expressions for the type follower (C10): types that carry no class information, environments over them, and
  expressions that call no registered function by name.  `Props/C10Full.lean` proves that the follower is inert there.
-/
import Fadl.Model.Follow
namespace Fadl

mutual
/-- types that carry no class information -/
def Ty.untyped : Ty → Bool
  | .any => true
  | .int => true
  | .float => true
  | .bool => true
  | .str => true
  | .callable => true
  | .other _ => true
  | .dictDC _ ts => Ty.untypedL ts
  | _ => false
def Ty.untypedL : List Ty → Bool
  | [] => true
  | t :: ts => t.untyped && Ty.untypedL ts
end

def GammaU (G : Gamma) : Prop := ∀ x t, gammaGet x G = some t → t.untyped = true

mutual
/-- no call of a registered function by name (those get their defaults filled in: C07) -/
def noFuncCall (M : Model) : Expr → Bool
  | .name _ => true
  | .const _ => true
  | .attr v _ => noFuncCall M v
  | .lam _ b => noFuncCall M b
  | .sub v s => noFuncCall M v && noFuncCall M s
  | .tuple es => noFuncCallL M es
  | .list es => noFuncCallL M es
  | .dict ks vs => noFuncCallL M ks && noFuncCallL M vs
  | .op _ es => noFuncCallL M es
  | .comp _ e t i ifs _ => noFuncCall M e && noFuncCall M t && noFuncCall M i && noFuncCallL M ifs
  | .call f args _ kwv =>
    noFuncCall M f && noFuncCallL M args && noFuncCallL M kwv &&
      (match f with
       | .name n => !(M.funcs.any (fun fi => fi.name == n))
       | _ => true)
def noFuncCallL (M : Model) : List Expr → Bool
  | [] => true
  | e :: es => noFuncCall M e && noFuncCallL M es
end

/-! ### hypotheses of the no-internal-error theorem (Props/C10NoInt.lean) -/

/-- the failures that are refusals (ValueError), or belong to the model (fuel, input outside the modelled fragment) -/
def Err.designed : Err → Bool
  | .valueError _ => true
  | .fuel => true
  | .unsupported _ => true
  | _ => false

/-- `ast.literal_eval` of the node does not fail with an internal error (an unhashable key inside a dictionary literal) -/
def litSafe (e : Expr) : Bool :=
  match literalEval e with
  | .error err => err.designed
  | .ok _ => true

mutual
/-- trees Python's parser produces: a dictionary literal has as many keys as values and its keys evaluate (or are refused)
    without a TypeError; a constant index into a tuple literal is not below `-len` (the parser writes `-1` as a unary
    minus, which is refused as a non-constant index) -/
def wfU : Expr → Bool
  | .name _ => true
  | .const _ => true
  | .attr v _ => wfU v
  | .lam _ b => wfU b
  | .sub v s =>
    wfU v && wfU s && litSafe s &&
      (match v, s with
       | .tuple elts, .const (.int n) => decide (-(elts.length : Int) ≤ n)
       | _, _ => true)
  | .tuple es => wfUL es
  | .list es => wfUL es
  | .dict ks vs => wfUL ks && wfUL vs && (ks.length == vs.length) && ks.all litSafe
  | .op _ es => wfUL es
  | .comp _ e t i ifs _ => wfU e && wfU t && wfU i && wfUL ifs
  | .call f args _ kwv => wfU f && wfUL args && wfUL kwv
def wfUL : List Expr → Bool
  | [] => true
  | e :: es => wfU e && wfUL es
end

end Fadl
