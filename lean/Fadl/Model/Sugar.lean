/-
  Model of func_adl/ast/syntatic_sugar.py : resolve_syntatic_sugar (class syntax_transformer).

  visit_ListComp / visit_GeneratorExp (lines 69-85): generic_visit first, then resolve_generator
    (lines 24-67): target must be a Name (else ValueError), not async (else ValueError); every `if`
    becomes `source.Where(lambda target: cond)` in order, then `source.Select(lambda target: elt)`
    (method form).  (The Expr grammar carries exactly one `for` clause; comprehensions with several
    are outside the model and outside property C06.)
  visit_Call (lines 131-155) + convert_call_to_dict (lines 87-129): generic_visit first; a call whose
    func is a Constant holding a dataclass / NamedTuple class becomes a Dict of field-name constants.

  `ClassTable` maps the opaque tag of a class constant to its constructor parameter names
  (inspect.signature(cls) for dataclasses, cls._fields for NamedTuples) — read from the real classes by
  the harness.
-/
import Fadl.Syntax
import Fadl.Err
namespace Fadl

abbrev ClassTable := List (String × List String)

def lookupClass (cs : ClassTable) : Const → Option (List String)
  | .opaque t => (cs.find? (fun p => p.1 == t)).map (·.2)
  | _ => Option.none

/-- `{a.arg: a.value for a in keywords}[name]` : the last keyword with that name -/
def kwLookup (n : String) : List String → List Expr → Option Expr
  | k :: ks, v :: vs => match kwLookup n ks vs with
    | some x => some x
    | Option.none => if k = n then some v else Option.none
  | _, _ => Option.none

/-- fields after the positional ones that are given by keyword, in declaration order -/
def kwBound (rest : List String) (kwn : List String) (kwv : List Expr) : List (String × Expr) :=
  rest.filterMap (fun n => (kwLookup n kwn kwv).map (fun v => (n, v)))

def convertCallToDict (names : List String) (args : List Expr) (kwn : List String) (kwv : List Expr) :
    Except Err Expr :=
  if names.length < args.length + kwn.length then .error (.valueError "Too many arguments for dataclass")
  else
    let extra := kwBound (names.drop args.length) kwn kwv
    if kwn.any (fun k => !(names.contains k)) then .error (.valueError "Argument not found in dataclass")
    else
      .ok (.dict (((names.take args.length) ++ extra.map (·.1)).map (fun n => .const (.str n)))
                 (args ++ extra.map (·.2)))

/-- the constructor parameters as the class table lists them: an entry "*" marks where the keyword-only parameters begin
    (as in Python's own rendering of a signature, `(x, *, y=0)`) -/
def ctorNames (names : List String) : List String := names.filter (· != "*")
def ctorPositional (names : List String) : Nat := (names.takeWhile (· != "*")).length

/-- `convert_call_to_dict` behind the check of the positional arguments against the parameters that can be bound by position -/
def convertCall (names : List String) (args : List Expr) (kwn : List String) (kwv : List Expr) : Except Err Expr :=
  if ctorPositional names < args.length then .error (.valueError "Too many positional arguments for dataclass")
  else convertCallToDict (ctorNames names) args kwn kwv

/-- `resolve_generator` for one `for` clause (children already visited) -/
def lowerComp (elt target iter : Expr) (ifs : List Expr) (isAsync : Bool) : Except Err Expr :=
  match target with
  | .name x =>
    if isAsync then .error (.valueError "Comprehension can't be async")
    else
      let src := ifs.foldl (fun s c => mcall s "Where" [.lam [x] c]) iter
      .ok (mcall src "Select" [.lam [x] elt])
  | _ => .error (.valueError "Comprehension variable must be a name")

mutual
def resolveSugar (cs : ClassTable) : Expr → Except Err Expr
  | .name i => .ok (.name i)
  | .const c => .ok (.const c)
  | .attr v a => do pure (.attr (← resolveSugar cs v) a)
  | .call f args kwn kwv => do
    let f' ← resolveSugar cs f
    let args' ← resolveSugarL cs args
    let kwv' ← resolveSugarL cs kwv
    match f' with
    | .const c =>
      match lookupClass cs c with
      | some names => convertCall names args' kwn kwv'
      | Option.none => pure (.call f' args' kwn kwv')
    | _ => pure (.call f' args' kwn kwv')
  | .lam ps b => do pure (.lam ps (← resolveSugar cs b))
  | .sub v s => do pure (.sub (← resolveSugar cs v) (← resolveSugar cs s))
  | .tuple es => do pure (.tuple (← resolveSugarL cs es))
  | .list es => do pure (.list (← resolveSugarL cs es))
  | .dict ks vs => do pure (.dict (← resolveSugarL cs ks) (← resolveSugarL cs vs))
  | .op k args => do pure (.op k (← resolveSugarL cs args))
  | .comp _ e t i ifs a => do
    let e' ← resolveSugar cs e
    let t' ← resolveSugar cs t
    let i' ← resolveSugar cs i
    let ifs' ← resolveSugarL cs ifs
    lowerComp e' t' i' ifs' a
def resolveSugarL (cs : ClassTable) : List Expr → Except Err (List Expr)
  | [] => .ok []
  | e :: es => do pure ((← resolveSugar cs e) :: (← resolveSugarL cs es))
end

end Fadl
