/-
  The query of the stream a typed operator returns: the MetaData dictionaries that callbacks attached while the lambda was
  followed wrap the SOURCE, one `MetaData(source, dict)` call per dictionary, a later one around the earlier ones; the
  operator is applied to that (object_stream.py: Select / SelectMany / Where call `remap_from_lambda`, which returns the
  stream the callbacks extended with `.MetaData(...)`, and then `function_call(op, [stream.query_ast, lambda])`).
-/
import Fadl.Model.EffectSpec
namespace Fadl

/-- `s.MetaData(d)` for each dictionary a callback attached, in order: a later one wraps the earlier ones -/
def wrapMd (src : Expr) (mds : List PyVal) : Expr := mds.foldl mdCall src

/-- the query of the stream that `Select` / `SelectMany` / `Where` return for a stream whose query is `src` -/
def streamOpQuery (M : Model) (op : String) (src : Expr) (itemTy : Ty) (lam : Expr) : Except Err (Expr × Ty × List String) := do
  let (l, t, st) ← streamOp M op itemTy lam
  pure (fcall op [wrapMd src st.md, l], t, st.log)

end Fadl
