/-
  Concurrently awaited `value_async()` calls (C12).

  `value_async` is `exe = self._get_executor(executor); return await exe(remove_empty_metadata(self.query_ast), title)`:
  everything the library does happens BEFORE the await (the executor is chosen and invoked with the cleaned query); after
  it the coroutine hands on what the executor produced.  So a concurrent history is a sequence of events

    op o                 any operation of the sequential model (Model/Stream.lean), an un-awaited `value()` included
    start s ovr title    a value_async task runs up to its await: one executor invocation is logged
    complete c out       executor invocation number `c` finishes with `out`; the task awaiting it finishes with `out`

  in ANY order the scheduler produces (completions in any permutation, interleaved with further derivations and starts).
  The model is executable (driver op `conc`) and is compared with real asyncio runs of the library on every C12 run.
-/
import Fadl.Model.Stream
namespace Fadl

/-- what an executor invocation produced: `ret n` / `raise n` name the value or exception object of invocation `n` -/
inductive Outcome where
  | ret (n : Nat)
  | raise (n : Nat)
  deriving DecidableEq, Repr, Inhabited

inductive Ev where
  | op (o : Op)
  | start (s : Nat) (override : Option Nat) (title : Option String)
  | complete (call : Nat) (out : Outcome)
  deriving Inhabited

/-- how a value_async task ended -/
inductive TaskEnd where
  | got (call : Nat) (out : Outcome)     -- it returned / raised what executor invocation `call` produced
  | failedEarly                          -- no executor could be found: the task raised before invoking anything
  deriving DecidableEq, Repr, Inhabited

structure CSt where
  st : St
  /-- (executor invocation, task) pairs still awaited -/
  pending : List (Nat × Nat)
  /-- per finished task (task number, how it ended), in finishing order -/
  done : List (Nat × TaskEnd)
  /-- number of value_async tasks started so far -/
  tasks : Nat
  /-- ghost: every (executor invocation, task) pair ever started -/
  log : List (Nat × Nat)
  deriving Inhabited

def CSt.init : CSt := { st := St.init, pending := [], done := [], tasks := 0, log := [] }

def pendingTask (c : Nat) : List (Nat × Nat) → Option Nat
  | [] => Option.none
  | (c', t) :: rest => if c' = c then some t else pendingTask c rest

def cstep (cs : CSt) : Ev → CSt
  | .op o => { cs with st := step cs.st o }
  | .start s ovr title =>
    let st' := step cs.st (.value s ovr title)
    if st'.calls.length = cs.st.calls.length + 1 then
      { cs with st := st', pending := cs.pending ++ [(cs.st.calls.length, cs.tasks)], tasks := cs.tasks + 1,
                log := cs.log ++ [(cs.st.calls.length, cs.tasks)] }
    else
      -- no such stream / no executor on the chain: the task ends at once, nothing was invoked
      { cs with st := st', done := cs.done ++ [(cs.tasks, .failedEarly)], tasks := cs.tasks + 1 }
  | .complete c out =>
    match pendingTask c cs.pending with
    | some t => { cs with pending := cs.pending.filter (fun p => p.1 ≠ c), done := cs.done ++ [(t, .got c out)] }
    | Option.none => cs          -- not an invocation anybody awaits: no such event can happen

def crun (evs : List Ev) : CSt := evs.foldl cstep CSt.init

/-- the sequential history a concurrent one amounts to as far as streams and executor invocations go -/
def Ev.seq : Ev → Option Op
  | .op o => some o
  | .start s ovr title => some (.value s ovr title)
  | .complete _ _ => Option.none

end Fadl
