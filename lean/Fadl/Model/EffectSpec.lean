/-
  The declared callback sites: which callbacks a query fires and which MetaData they attach, in order.

  `effOf` is a function of the class model's declarations (which classes, methods, functions and parameterized
  properties carry a callback, and the MetaData dictionary / tag of each), the types of the names in scope and the
  expression the user wrote.  It uses the declared-type checker `tyOf` (Model/TypeSpec.lean) for the type of a
  receiver; it threads no stream state, rewrites no tree and checks nothing.  The sites are listed in visiting order:
  for a call, first the callee expression, then the positional arguments, then the keyword values, then the call
  itself — the body of a collection operator's lambda, then the class-level callback of the deciding candidate, then
  the method-level callback.  Props/C09Sound.lean proves that whenever the follower accepts an expression, the MetaData
  and the callback log it leaves are exactly the initial ones followed by `effOf` of the expression as written.
-/
import Fadl.Model.TypeSpec
namespace Fadl

/-- effects put after effects -/
def FSt.app (a b : FSt) : FSt := { md := a.md ++ b.md, log := a.log ++ b.log }

def FSt.none : FSt := { md := [], log := [] }

/-- what one callback does to the stream: its MetaData dictionary (if it attaches one) and its tag in the log -/
def cbEff : Option CbSpec → FSt
  | Option.none => FSt.none
  | some c => { md := match c.md with
                      | some d => [d]
                      | Option.none => [],
                log := [c.tag] }

/-- the deciding candidate of a method call: effects of following its lambda, the candidate type (whose class-level
    callback fires), the method (whose method-level callback fires), whether the type was fully resolved -/
structure CandEff where
  eff : FSt
  cand : Ty
  mi : MethodInfo
  full : Bool

mutual
def effOf (M : Model) : Nat → Gamma → Expr → FSt
  | 0, _, _ => FSt.none
  | fuel + 1, G, e =>
    match e with
    | .name _ => FSt.none
    | .const _ => FSt.none
    | .lam _ _ => FSt.none          -- a lambda that is not called and not a collection operator's argument is not looked into
    | .attr v _ => effOf M fuel G v
    | .sub v s => (effOf M fuel G v).app (effOf M fuel G s)
    | .tuple es => effOfL M fuel G es
    | .list es => effOfL M fuel G es
    | .dict ks vs => (effOfL M fuel G ks).app (effOfL M fuel G vs)
    | .op _ args => effOfL M fuel G args
    | .comp _ el t i ifs _ =>
      (((effOf M fuel G el).app (effOf M fuel G t)).app (effOf M fuel G i)).app (effOfL M fuel G ifs)
    | .call f args kwn kwv =>
      let w := ((effOf M fuel G f).app (effOfL M fuel G args)).app (effOfL M fuel G kwv)
      match f with
      | .attr recv m =>
        -- a method call: by the declared type of the receiver
        match tyOf M fuel G recv with
        | .ok rr => w.app (methodEff M fuel G rr.ty m args kwn kwv)
        | .error _ => w
      | .name n =>
        -- a registered function: its callback
        match M.funcs.find? (fun fi => fi.name == n) with
        | some fi => w.app (cbEff fi.proc)
        | Option.none => w
      | .sub (.attr recv pn) _ =>
        -- a parameterized property of an object of a declared class: its callback
        match tyOf M fuel G recv with
        | .ok rr =>
          match rr.ty with
          | .cls cn _ =>
            match (findClass M cn).bind (fun k => k.props.find? (fun p => p.name == pn)) with
            | some p => w.app (cbEff p.cb)
            | Option.none => w
          | _ => w
        | .error _ => w
      | .lam ps body =>
        -- an immediately called lambda: the sites in its body
        match tyOfL M fuel G args, tyOfL M fuel G kwv with
        | .ok ta, .ok tk => w.app (effOf M fuel (lamArgTys ps ta kwn tk ++ G) body)
        | _, _ => w
      | _ => w
def effOfL (M : Model) : Nat → Gamma → List Expr → FSt
  | 0, _, _ => FSt.none
  | _ + 1, _, [] => FSt.none
  | fuel + 1, G, e :: es => (effOf M fuel G e).app (effOfL M fuel G es)
/-- `recv.m(…)` with `recv : objTy`: the sites inside the lambda the deciding candidate follows, then the class-level
    callback of that candidate's class (its own or the nearest inherited), then the method-level callback -/
def methodEff (M : Model) : Nat → Gamma → Ty → String → List Expr → List String → List Expr → FSt
  | 0, _, _, _, _, _, _ => FSt.none
  | fuel + 1, G, objTy, m, args, kwn, kwv =>
    let coll : List Ty :=
      if isIterable M objTy then
        (M.classes.filter (·.collection)).map (fun k => Ty.cls k.name [unwrapIterable M objTy])
      else []
    match candEff M fuel G m args kwn kwv (objTy :: coll) Option.none with
    | Option.none => FSt.none
    | some r => (r.eff.app (cbEff (classCbOf M 16 r.cand))).app (cbEff r.mi.cb)
/-- the deciding candidate (the same walk as `candTy`) -/
def candEff (M : Model) : Nat → Gamma → String → List Expr → List String → List Expr → List Ty → Option CandEff →
    Option CandEff
  | 0, _, _, _, _, _, _, _ => Option.none
  | _ + 1, _, _, _, _, _, [], last => last
  | fuel + 1, G, m, args, kwn, kwv, cand :: rest, last =>
    match findMethod M 16 cand m with
    | Option.none => candEff M fuel G m args kwn kwv rest last
    | some (defining, mi) =>
      match fillDefaults mi.params (.name m) args kwn kwv with
      | .error _ => last
      | .ok filled =>
        let hasLam := (callArgs filled).any isLamArg
        let last1 : Option CandEff :=
          match resolveRet defining M (mi.ret.getD .any) with
          | some _ => some ⟨FSt.none, cand, mi, !hasLam⟩
          | Option.none => last
        let needFollow := match last1 with
          | Option.none => true
          | some r => !r.full
        if needFollow then
          match onStreamEff M fuel G cand m filled with
          | some w => some ⟨w, cand, mi, true⟩
          | Option.none =>
            match last1 with
            | some r => if r.full then last1 else candEff M fuel G m args kwn kwv rest last1
            | Option.none => candEff M fuel G m args kwn kwv rest last1
        else last1
/-- `Select` / `SelectMany` / `Where` of a collection class with one single-parameter lambda: the sites in the lambda's
    body, with the parameter at the item type -/
def onStreamEff (M : Model) : Nat → Gamma → Ty → String → Expr → Option FSt
  | 0, _, _, _, _ => Option.none
  | fuel + 1, G, cand, m, filled =>
    match cand, filled with
    | .cls cn [item], .call _ [.lam [x] body] _ _ =>
      if (findClass M cn).any (·.collection) && opNamesFollow.contains m then
        some (effOf M fuel ((x, item) :: G) body)
      else Option.none
    | _, _ => Option.none
end

/-- the callback sites of `lambda x: body` given to Select / SelectMany / Where on a stream of `itemTy` -/
def streamOpEff (M : Model) (itemTy : Ty) (x : String) (body : Expr) : FSt :=
  effOf M (followFuel body) [(x, itemTy)] body

end Fadl
