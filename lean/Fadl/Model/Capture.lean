/-
  Model of func_adl/util_ast.py : _rewrite_captured_vars (after fixes F18, F19) and the callable branch
  of parse_as_ast (lines: `_resolve_called_lambdas().visit(_rewrite_captured_vars(cv).visit(src))`).

  The snapshot `_lookup_dict` (closure cells + every module global, read ONCE when the operator is
  called) is a parameter of the model; each captured value is classified the way visit_Name does:
     lit c    – not callable                      → Constant(value)
     klass c  – a type or a module                → Constant(value)
     lam e    – callable whose source parses      → that lambda (no further capture rewriting inside it)
     keep     – callable without recoverable source → the name is left alone
  Attribute access on a captured class/module/object constant is folded through the `AttrTable`
  (getattr at call time, supplied by the harness for the objects it generated).
-/
import Fadl.Model.Called
import Fadl.Scope
namespace Fadl

inductive Captured where
  | lit (c : Const)
  | klass (c : Const)
  | lam (e : Expr)
  | keep
  deriving Inhabited

inductive AttrResult where
  | const (c : Const)     -- Constant(getattr(obj, attr))
  | keepNode              -- Enum member without a C++ namespace hint: the original node is returned
  | expr (e : Expr)       -- Enum member with a namespace hint: the prefixed name expression
  deriving Inhabited

abbrev Snapshot := List (String × Captured)
abbrev AttrTable := List (String × String × AttrResult)

def snapGet (x : String) : Snapshot → Option Captured
  | [] => Option.none
  | (k, v) :: rest => if k = x then some v else snapGet x rest

def attrGet (t a : String) : AttrTable → Option AttrResult
  | [] => Option.none
  | (t', a', r) :: rest => if t' = t ∧ a' = a then some r else attrGet t a rest

def isIgnored (x : String) (ig : List (List String)) : Bool := ig.any (fun f => f.contains x)

/-- what `visit` hands back for the child of an Attribute when nothing is folded: NodeTransformer
    edits most nodes in place, but a replaced Name / folded Attribute is a new object that
    visit_Attribute throws away -/
def keptChild (v v' : Expr) : Expr :=
  match v, v' with
  | .name _, _ => v
  | .attr _ _, .attr _ _ => v'
  | .attr _ _, _ => v
  | _, _ => v'

mutual
def rewriteCaptured (snap : Snapshot) (attrs : AttrTable) (ctors : List String) (ig : List (List String)) :
    Expr → Expr
  | .name x =>
    if isIgnored x ig then .name x
    else match snapGet x snap with
      | some (.lit c) => .const c
      | some (.klass c) => .const c
      | some (.lam e) =>
        -- a helper whose body uses, from its own scope, a name that a parameter or loop variable binds at this call site is
        -- left by name (inlining it would put that name under the binder)
        if (freeNames [] e).any (fun n => isIgnored n ig) then .name x else e
      | some .keep => .name x
      | Option.none => .name x
  | .const c => .const c
  | .attr v a =>
    let v' := rewriteCaptured snap attrs ctors ig v
    match v' with
    | .const (.opaque t) =>
      match attrGet t a attrs with
      | some (.const c) => .const c
      | some .keepNode => .attr v a
      | some (.expr e) => e
      | Option.none => .attr (keptChild v v') a
    | _ => .attr (keptChild v v') a
  | .call f args kwn kwv =>
    let f' := rewriteCaptured snap attrs ctors ig f
    let args' := rewriteCapturedL snap attrs ctors ig args
    let kwv' := rewriteCapturedL snap attrs ctors ig kwv
    -- a callee that became a constant is put back unless it is a data class / NamedTuple
    match f' with
    | .const (.opaque t) => if ctors.contains t then .call f' args' kwn kwv' else .call f args' kwn kwv'
    | .const _ => .call f args' kwn kwv'
    | _ => .call f' args' kwn kwv'
  | .lam ps b => .lam ps (rewriteCaptured snap attrs ctors (ps :: ig) b)
  | .sub v s => .sub (rewriteCaptured snap attrs ctors ig v) (rewriteCaptured snap attrs ctors ig s)
  | .tuple es => .tuple (rewriteCapturedL snap attrs ctors ig es)
  | .list es => .list (rewriteCapturedL snap attrs ctors ig es)
  | .dict ks vs => .dict (rewriteCapturedL snap attrs ctors ig ks) (rewriteCapturedL snap attrs ctors ig vs)
  | .op k args => .op k (rewriteCapturedL snap attrs ctors ig args)
  | .comp kind e t i ifs a =>
    let inner := targetNames t :: ig
    .comp kind (rewriteCaptured snap attrs ctors inner e) t (rewriteCaptured snap attrs ctors ig i)
      (rewriteCapturedL snap attrs ctors inner ifs) a
def rewriteCapturedL (snap : Snapshot) (attrs : AttrTable) (ctors : List String) (ig : List (List String)) :
    List Expr → List Expr
  | [] => []
  | e :: es => rewriteCaptured snap attrs ctors ig e :: rewriteCapturedL snap attrs ctors ig es
end

/-- the callable branch of `parse_as_ast`, given the recovered source lambda -/
def parseCallable (snap : Snapshot) (attrs : AttrTable) (ctors : List String) (src : Expr) : Expr :=
  resolveCalled [] (rewriteCaptured snap attrs ctors [] src)

end Fadl
