/-
  Model of func_adl/type_based_replacement.py : remap_by_types (class type_transformer),
  remap_from_lambda, _fill_in_default_arguments, _find_keyword, fixup_ast_from_modifications
  (net effect), process_method_call / process_function_call / process_parameterized_method_call,
  and of the three operators of object_stream.py that drive it (Select / SelectMany / Where).

  Python's `typing` objects are replaced by the small type algebra `Ty`; the classes, functions and
  callbacks a query is followed against are data (`Model`), read from the real (generated) classes by
  the harness:
    * single-inheritance chains (class → first original base, with the base's type arguments);
    * registered collection classes (ObjectStreamInternalMethods is always present);
    * callbacks are described by what they do (`CbSpec`): attach a MetaData dictionary, optionally
      rename the called method, optionally append a constant argument — the behaviours documented
      for callbacks.
  The code edits the AST in place and then patches originals (`_old_ast` / fixup_ast_from_
  modifications); the model states the net effect as a function from trees to trees (DESIGN 4.6).
-/
import Fadl.PyVal
import Fadl.Model.AsAst
namespace Fadl

inductive Ty where
  | any | int | float | bool | str | callable
  | other (s : String)                    -- NoneType, bytes, complex, ellipsis, opaque objects
  | tvar (n : String)
  | cls (name : String) (args : List Ty)  -- a (possibly parameterised) class of the model
  | iterable (t : Ty)                     -- typing.Iterable[t]
  | stream (t : Ty)                       -- ObjectStream[t]
  | dictDC (keys : List String) (tys : List Ty)   -- dict_dataclass built from a dictionary literal
  deriving Repr, Inhabited

mutual
def Ty.beq : Ty → Ty → Bool
  | .any, .any => true
  | .int, .int => true
  | .float, .float => true
  | .bool, .bool => true
  | .str, .str => true
  | .callable, .callable => true
  | .other a, .other b => a == b
  | .tvar a, .tvar b => a == b
  | .cls a as, .cls b bs => a == b && Ty.beqL as bs
  | .iterable a, .iterable b => Ty.beq a b
  | .stream a, .stream b => Ty.beq a b
  | .dictDC _ _, .dictDC _ _ => false       -- every dict literal makes a fresh dataclass
  | _, _ => false
def Ty.beqL : List Ty → List Ty → Bool
  | [], [] => true
  | a :: as, b :: bs => Ty.beq a b && Ty.beqL as bs
  | _, _ => false
end

structure CbSpec where
  tag : String                 -- recorded in the callback log
  md : Option PyVal            -- MetaData dictionary attached to the stream
  rename : Option String       -- new method / function name of the returned call
  addArg : Option Const        -- constant appended to the returned call's positional arguments
  deriving Inhabited

structure Param where
  name : String
  dflt : Option Const
  deriving Inhabited

structure MethodInfo where
  name : String
  params : List Param          -- without `self`
  ret : Option Ty              -- none: no return annotation (→ Any)
  cb : Option CbSpec
  deriving Inhabited

structure PropInfo where
  name : String
  cb : Option CbSpec           -- none: property not decorated with func_adl_parameterized_call
  ret : Ty
  deriving Inhabited

structure Klass where
  name : String
  tparams : List String
  base : Option Ty             -- first original base with its arguments (may mention tparams)
  methods : List MethodInfo
  props : List PropInfo
  classCb : Option CbSpec
  collection : Bool            -- registered with register_func_adl_os_collection
  deriving Inhabited

structure FuncInfo where
  name : String
  params : List Param
  ret : Option Ty
  proc : Option CbSpec
  deriving Inhabited

structure Model where
  classes : List Klass
  funcs : List FuncInfo        -- `_global_functions` (abs and len are always there)
  deriving Inhabited

/-- effects of following: MetaData added to the stream (in order) and the callback log -/
structure FSt where
  md : List PyVal
  log : List String
  deriving Inhabited

abbrev Gamma := List (String × Ty)

def gammaGet (x : String) : Gamma → Option Ty
  | [] => Option.none
  | (k, t) :: rest => if k = x then some t else gammaGet x rest

/-! ### util_types -/

def findClass (M : Model) (n : String) : Option Klass := M.classes.find? (fun k => k.name == n)

mutual
def substTy (m : List (String × Ty)) : Ty → Option Ty
  | .tvar n => gammaGet n m
  | .cls n args => (substTyL m args).map (.cls n)
  | .iterable t => (substTy m t).map .iterable
  | .stream t => (substTy m t).map .stream
  | t => some t
def substTyL (m : List (String × Ty)) : List Ty → Option (List Ty)
  | [] => some []
  | t :: ts => do
    let a ← substTy m t
    let as ← substTyL m ts
    pure (a :: as)
end

/-- `get_inherited`: the parent of a class type with the class's arguments substituted -/
def getInherited (M : Model) : Ty → Ty
  | .cls n args =>
    match findClass M n with
    | some k =>
      match k.base with
      | some b => if args.isEmpty then b else (substTy (k.tparams.zip args) b).getD .any
      | Option.none => .any
    | Option.none => .any
  | .stream _ => .any
  | _ => .any

/-- `unwrap_iterable` / `is_iterable`: walk the inheritance chain to `Iterable[T]` -/
def iterElem (M : Model) : Nat → Ty → Option Ty
  | 0, _ => Option.none
  | fuel + 1, t =>
    match t with
    | .iterable a => some a
    | .any => Option.none
    | _ => iterElem M fuel (getInherited M t)

def isIterable (M : Model) (t : Ty) : Bool := (iterElem M 16 t).isSome
def unwrapIterable (M : Model) (t : Ty) : Ty := (iterElem M 16 t).getD .any

/-- `get_method_and_class`: first class on the inheritance chain that defines the method, and the
    method (a subclass that does not override shares the parent's method object) -/
def findMethod (M : Model) : Nat → Ty → String → Option (Ty × MethodInfo)
  | 0, _, _ => Option.none
  | fuel + 1, t, m =>
    match t with
    | .cls n _ =>
      match findClass M n with
      | some k =>
        match k.methods.find? (fun mi => mi.name == m) with
        | some mi => some (t, mi)
        | Option.none => findMethod M fuel (getInherited M t) m
      | Option.none => Option.none
    | _ => Option.none

/-- `getattr(obj_type, "_func_adl_type_info", None)`: the class-level callback of the object's class, or the one
    it inherits (first class on the inheritance chain that carries one) -/
def classCbOf (M : Model) : Nat → Ty → Option CbSpec
  | 0, _ => Option.none
  | fuel + 1, t =>
    match t with
    | .cls n _ =>
      match findClass M n with
      | some k =>
        match k.classCb with
        | some cb => some cb
        | Option.none => classCbOf M fuel (getInherited M t)
      | Option.none => Option.none
    | _ => Option.none

/-- `resolve_type_vars(ret, obj_type, at_class)`: the type-variable bindings are those of the class
    where the method is defined (`findMethod` returns that class already instantiated along the
    inheritance chain, so its arguments are the bindings) -/
def resolveRet (defining : Ty) (M : Model) (ret : Ty) : Option Ty :=
  match defining with
  | .cls n args =>
    match findClass M n with
    | some k => if args.isEmpty then substTy [] ret else substTy (k.tparams.zip args) ret
    | Option.none => substTy [] ret
  | _ => substTy [] ret

/-! ### _fill_in_default_arguments -/

/-- `_find_keyword` -/
def findKeyword (n : String) : List String → List Expr → Option (Expr × List String × List Expr)
  | k :: ks, v :: vs =>
    if k = n then some (v, ks, vs)
    else match findKeyword n ks vs with
      | some (e, ks', vs') => some (e, k :: ks', v :: vs')
      | Option.none => Option.none
  | _, _ => Option.none

/-- the loop over the signature's parameters (`i` = position of the current parameter) -/
def fillLoop : List Param → Nat → List Expr → List String → List Expr →
    Except Err (List Expr × List String × List Expr)
  | [], _, args, kwn, kwv => .ok (args, kwn, kwv)
  | p :: ps, i, args, kwn, kwv =>
    if args.length ≤ i then
      match findKeyword p.name kwn kwv with
      | some (e, kwn', kwv') => fillLoop ps (i + 1) (args ++ [e]) kwn' kwv'
      | Option.none =>
        match p.dflt with
        | some c => fillLoop ps (i + 1) (args ++ [.const c]) kwn kwv
        | Option.none => .error (.valueError ("Argument " ++ p.name ++ " is required"))
    else fillLoop ps (i + 1) args kwn kwv

/-- result of `_fill_in_default_arguments` on a call `f(args, kws)`: the new argument lists
    (the call node is replaced only if the number of positional arguments changed) -/
def fillDefaults (params : List Param) (f : Expr) (args : List Expr) (kwn : List String) (kwv : List Expr) :
    Except Err Expr := do
  let (args', kwn', kwv') ← fillLoop (params.filter (fun p => p.name != "known_types")) 0 args kwn kwv
  if args'.length ≠ args.length then pure (.call f args' kwn' kwv') else pure (.call f args kwn kwv)

/-! ### callbacks -/

def applyCbCall (cb : CbSpec) : Expr → Expr
  | .call f args kwn kwv =>
    let f' := match cb.rename, f with
      | some n, .attr v _ => .attr v n
      | some n, .name _ => .name n
      | _, _ => f
    let args' := match cb.addArg with
      | some c => args ++ [.const c]
      | Option.none => args
    .call f' args' kwn kwv
  | e => e

def applyCb (cb : Option CbSpec) (st : FSt) (e : Expr) : FSt × Expr :=
  match cb with
  | Option.none => (st, e)
  | some c =>
    ({ md := match c.md with
             | some d => st.md ++ [d]
             | Option.none => st.md,
       log := st.log ++ [c.tag] }, applyCbCall c e)

/-! ### small helpers of the visitors -/

def constTy : Const → Ty
  | .int _ => .int
  | .float _ => .float
  | .str _ => .str
  | .bool _ => .bool
  | .bytes _ => .other "bytes"
  | .none => .other "NoneType"
  | .ellipsis => .other "ellipsis"
  | .opaque t => .other t

def isDC : Ty → Bool
  | .dictDC _ _ => true
  | _ => false

def dcField (k : String) : Ty → Option Ty
  | .dictDC ks ts => (ks.zip ts).lookup k
  | _ => Option.none

def pyKeywords : List String :=
  ["False", "None", "True", "and", "as", "assert", "async", "await", "break", "class", "continue", "def",
   "del", "elif", "else", "except", "finally", "for", "from", "global", "if", "import", "in", "is", "lambda",
   "nonlocal", "not", "or", "pass", "raise", "return", "try", "while", "with", "yield"]

def isIdentStart (c : Char) : Bool := c.isAlpha || c == '_'
def isIdentCont (c : Char) : Bool := c.isAlphanum || c == '_'

/-- ASCII identifiers (the harness never generates non-ASCII dictionary keys for typed checks) -/
def isIdentifier (s : String) : Bool :=
  match s.toList with
  | [] => false
  | c :: cs => isIdentStart c && cs.all isIdentCont

def distinctStrs : List String → Bool
  | [] => true
  | s :: ss => !ss.contains s && distinctStrs ss

def validFieldNames (ks : List String) : Bool :=
  ks.all (fun k => isIdentifier k && !pyKeywords.contains k) && distinctStrs ks

def litKey : Expr → Except Err PyVal := literalEval

def keyStr : PyVal → Option String
  | .str s => some s
  | _ => Option.none

def numLike (t : Ty) : Bool :=
  match t with
  | .int => true
  | .float => true
  | .any => true
  | _ => false

/-- `make_dataclass("dict_dataclass", fields)` succeeds -/
def mkDictTy (keys : List PyVal) (tys : List Ty) : Ty :=
  match keys.mapM keyStr with
  | some ks => if validFieldNames ks then .dictDC ks tys else .any
  | Option.none => .any

/-- the string a key node spells, if it is a string Constant (a key like -1 or (1, 2) is not a Constant node) -/
def keyName? : Expr → Option String
  | .const (.str s) => some s
  | _ => Option.none

/-- index of the LAST entry whose key is the string constant `k` (a later entry of a dictionary display overrides an
    earlier one) -/
def dictLitIdx? (k : String) : List Expr → Nat → Option Nat
  | [], _ => Option.none
  | e :: rest, i =>
    match dictLitIdx? k rest (i + 1) with
    | some j => some j
    | Option.none => if keyName? e = some k then some i else Option.none

def dictLitIndex (k : String) (es : List Expr) (i : Nat) : Except Err (Option Nat) := .ok (dictLitIdx? k es i)

/-! ### the follower -/

structure FRes where
  e : Expr
  ty : Ty
  st : FSt
  /-- `_found_types` of the immediate children of a literal: the types recorded for the elements of a tuple and for
      the values of a dictionary literal while they were visited (empty for every other node) -/
  elts : List Ty

/-- one entry of `return_results` in process_method_call -/
structure MRes where
  node : Expr
  ty : Ty
  full : Bool
  cand : Ty
  mi : MethodInfo

/-- item type seen by an operator applied to something of type `t`: the element type for collection
    objects -/
def opNamesFollow : List String := ["Select", "SelectMany", "Where"]

/-- `process_called_lambda`: the type each parameter gets - its keyword argument's (the last one of that name),
    else its positional argument's, else `Any` -/
def kwTy (p : String) : List String → List Ty → Option Ty
  | k :: ks, t :: ts => match kwTy p ks ts with
    | some t' => some t'
    | Option.none => if k = p then some t else Option.none
  | _, _ => Option.none

def lamArgTys (ps : List String) (pos : List Ty) (kwn : List String) (kwt : List Ty) : Gamma :=
  ps.zipIdx.map (fun (p, i) => (p, (kwTy p kwn kwt).getD (pos[i]?.getD .any)))

/-- the positional arguments of a call node -/
def callArgs : Expr → List Expr
  | .call _ as _ _ => as
  | _ => []

def isLamArg : Expr → Bool
  | .lam _ _ => true
  | _ => false

mutual
/-- `type_transformer.visit` (fuel: the follower is re-entered for nested lambdas) -/
def follow (M : Model) : Nat → Gamma → FSt → Expr → Except Err FRes
  | 0, _, _, _ => .error .fuel
  | fuel + 1, G, st, e =>
    match e with
    | .name x =>
      match gammaGet x G with
      | some t => .ok ⟨e, t, st, []⟩
      | Option.none =>
        if M.funcs.any (fun f => f.name == x) then .ok ⟨e, .callable, st, []⟩ else .ok ⟨e, .any, st, []⟩
    | .const c => .ok ⟨e, constTy c, st, []⟩
    | .lam _ _ => .ok ⟨e, .callable, st, []⟩
    | .attr v a => do
      let r ← follow M fuel G st v
      match r.e with
      | .dict ks vs =>
        match ← dictLitIndex a ks 0 with
        | some i =>
          -- `lookup_type(value)`: the type recorded for that value when the dictionary was visited
          match r.elts[i]?, vs[i]? with
          | some t, some _ => pure ⟨.attr r.e a, t, r.st, []⟩
          | _, _ => .error (.internal "IndexError")
        | Option.none =>
          if a.toLower == "zip" then pure ⟨.attr r.e a, .any, r.st, []⟩
          else .error (.valueError "Key not found in dict expression")
      | _ =>
        if isDC r.ty then
          match dcField a r.ty with
          | some t => pure ⟨.attr r.e a, t, r.st, []⟩
          | Option.none => .error (.valueError "Key not found in dataclass/dictionary")
        else pure ⟨.attr r.e a, .any, r.st, []⟩
    | .sub v s => do
      let rv ← follow M fuel G st v
      let rs ← follow M fuel G rv.st s
      match rv.e with
      | .tuple elts =>
        match rs.e with
        | .const (.int n) =>
          if (elts.length : Int) ≤ n then .error (.valueError "Index out of range")
          else
            let idx := if n < 0 then (elts.length : Int) + n else n
            -- `lookup_type(elts[index])`: the type recorded for that element when the tuple was visited
            match rv.elts[idx.toNat]?, elts[idx.toNat]? with
            | some t, some _ =>
              if idx < 0 then .error (.internal "IndexError") else pure ⟨.sub rv.e rs.e, t, rs.st, []⟩
            | _, _ => .error (.internal "IndexError")
        | .const (.bool b) =>
          let n := if b then 1 else 0
          if elts.length ≤ n then .error (.valueError "Index out of range")
          else match rv.elts[n]?, elts[n]? with
            | some t, some _ => pure ⟨.sub rv.e rs.e, t, rs.st, []⟩
            | _, _ => .error (.internal "IndexError")
        | _ => .error (.valueError "Slices must be indexable constants only")
      | _ =>
        if isDC rv.ty then do
          let k ← litKey rs.e
          match keyStr k with
          | some ks =>
            match dcField ks rv.ty with
            | some t => pure ⟨.sub rv.e rs.e, t, rs.st, []⟩
            | Option.none => .error (.valueError "Key not found in dataclass/dictionary")
          | Option.none => .error (.valueError "Key not found in dataclass/dictionary")
        else pure ⟨.sub rv.e rs.e, unwrapIterable M rv.ty, rs.st, []⟩
    | .tuple es => do
      let (es', st') ← followL M fuel G st es
      pure ⟨.tuple (es'.map (·.1)), .any, st', es'.map (·.2)⟩
    | .list es => do
      let (es', st') ← followL M fuel G st es
      pure ⟨.list (es'.map (·.1)), .any, st', []⟩
    | .dict ks vs => do
      let (ks', st1) ← followL M fuel G st ks
      let (vs', st2) ← followL M fuel G st1 vs
      let kv ← (ks'.map (·.1)).mapM litKey
      pure ⟨.dict (ks'.map (·.1)) (vs'.map (·.1)), mkDictTy kv (vs'.map (·.2)), st2, vs'.map (·.2)⟩
    | .op k args => do
      let (as', st') ← followL M fuel G st args
      let es := as'.map (·.1)
      let ts := as'.map (·.2)
      match k, ts with
      | .un "Not", _ => pure ⟨.op k es, .bool, st', []⟩
      | .un _, [t] => pure ⟨.op k es, t, st', []⟩
      | .bin n, [tl, tr] =>
        let t : Ty :=
          if Ty.beq tl .any || Ty.beq tr .any then .any
          else if Ty.beq tl .float || Ty.beq tr .float then .float
          else if n == "Div" then .float
          else .int
        pure ⟨.op k es, t, st', []⟩
      | .boolAnd, _ => pure ⟨.op k es, .bool, st', []⟩
      | .boolOr, _ => pure ⟨.op k es, .bool, st', []⟩
      | .cmp _, _ => pure ⟨.op k es, .bool, st', []⟩
      | .ifExp, [_, tt, tf] =>
        if Ty.beq tt tf then pure ⟨.op k es, tt, st', []⟩
        else if numLike tt && numLike tf then pure ⟨.op k es, .float, st', []⟩
        else .error (.valueError "IfExp branches have different types")
      | _, _ => pure ⟨.op k es, .any, st', []⟩
    | .comp kind el t i ifs a => do
      -- no visitor: generic_visit (elt, then the generator: target, iter, ifs); no type
      let r1 ← follow M fuel G st el
      let r2 ← follow M fuel G r1.st t
      let r3 ← follow M fuel G r2.st i
      let (ifs', st') ← followL M fuel G r3.st ifs
      pure ⟨.comp kind r1.e r2.e r3.e (ifs'.map (·.1)) a, .any, st', []⟩
    | .call f args kwn kwv => do
      -- generic_visit: func, args, keywords
      let rf ← follow M fuel G st f
      let (as', st1) ← followL M fuel G rf.st args
      let (ks', st2) ← followL M fuel G st1 kwv
      let args' := as'.map (·.1)
      let kwv' := ks'.map (·.1)
      match rf.e, f with
      | .attr recv m, .attr recv0 _ => do
        -- `lookup_type(t_node.func.value)`: the type recorded for the receiver when it was visited (the visit of
        -- the original receiver `recv0`, from the same state, computes it again; `recv` is the rewritten receiver)
        let rr ← follow M fuel G st recv0
        methodCall M fuel G st2 rr.ty recv m args' kwn kwv'
      | .name n, _ =>
        match M.funcs.find? (fun fi => fi.name == n) with
        | some fi =>
          -- process_function_call: every exception becomes a ValueError
          match fillDefaults fi.params (.name n) args' kwn kwv' with
          | .error _ => .error (.valueError "Error processing function call")
          | .ok c =>
            let (st3, c') := applyCb fi.proc st2 c
            pure ⟨c', fi.ret.getD .any, st3, []⟩
        | Option.none => pure ⟨.call rf.e args' kwn kwv', .any, st2, []⟩
      | .sub (.attr recv pn) sl, .sub (.attr recv0 _) _ => do
        let rr ← follow M fuel G st recv0
        match rr.ty with
        | .any => pure ⟨.call rf.e args' kwn kwv', .any, st2, []⟩
        | .cls cn _ =>
          match (findClass M cn).bind (fun k => k.props.find? (fun p => p.name == pn)) with
          | some p =>
            match p.cb with
            | some cb => do
              let _ ← litKey sl
              let (st3, c') := applyCb (some cb) st2 (.call (.attr recv pn) args' kwn kwv')
              pure ⟨c', p.ret, st3, []⟩
            | Option.none => .error (.valueError "Property was not decorated")
          | Option.none => .error (.internal "AttributeError")
        -- a literal, a callable, ...: only an object of a declared class can have a parameterized property
        | _ => pure ⟨.call rf.e args' kwn kwv', .any, st2, []⟩
      | .lam ps body, _ => do
        -- process_called_lambda: the body is followed after the arguments, parameters hiding outer names
        let rb ← follow M fuel (lamArgTys ps (as'.map (·.2)) kwn (ks'.map (·.2)) ++ G) st2 body
        pure ⟨.call (.lam ps rb.e) args' kwn kwv', rb.ty, rb.st, []⟩
      | _, _ => pure ⟨.call rf.e args' kwn kwv', .any, st2, []⟩
def followL (M : Model) : Nat → Gamma → FSt → List Expr → Except Err (List (Expr × Ty) × FSt)
  | 0, _, _, _ => .error .fuel
  | _ + 1, _, st, [] => .ok ([], st)
  | fuel + 1, G, st, e :: es => do
    let r ← follow M fuel G st e
    let (rest, st') ← followL M fuel G r.st es
    pure ((r.e, r.ty) :: rest, st')
/-- `process_method_call` for `recv.m(args, kws)` with `recv : objTy` -/
def methodCall (M : Model) : Nat → Gamma → FSt → Ty → Expr → String → List Expr → List String → List Expr →
    Except Err FRes
  | 0, _, _, _, _, _, _, _, _ => .error .fuel
  | fuel + 1, G, st, objTy, recv, m, args, kwn, kwv => do
    let node := Expr.call (.attr recv m) args kwn kwv
    -- candidates: the object itself, then (for iterables) every registered collection class
    let coll : List Ty :=
      if isIterable M objTy then
        (M.classes.filter (·.collection)).map (fun k => Ty.cls k.name [unwrapIterable M objTy])
      else []
    let (last, st') ← candLoop M fuel G st recv m args kwn kwv (objTy :: coll) Option.none
    match last with
    | Option.none => pure ⟨node, .any, st', []⟩
    | some r =>
      -- process_method_callbacks: class level first, then method level
      let classCb := classCbOf M 16 r.cand
      let (s1, n1) := applyCb classCb st' r.node
      let (s2, n2) := applyCb r.mi.cb s1 n1
      pure ⟨n2, r.ty, s2, []⟩
/-- the loop over candidate objects; `last` is `return_results[-1]` -/
def candLoop (M : Model) : Nat → Gamma → FSt → Expr → String → List Expr → List String → List Expr →
    List Ty → Option MRes → Except Err (Option MRes × FSt)
  | 0, _, _, _, _, _, _, _, _, _ => .error .fuel
  | _ + 1, _, st, _, _, _, _, _, [], last => .ok (last, st)
  | fuel + 1, G, st, recv, m, args, kwn, kwv, cand :: rest, last =>
    match findMethod M 16 cand m with
    | Option.none => candLoop M fuel G st recv m args kwn kwv rest last
    | some (defining, mi) => do
      let filled ← fillDefaults mi.params (.attr recv m) args kwn kwv
      let hasLam := (callArgs filled).any isLamArg
      -- static resolution of the return annotation
      let last1 : Option MRes :=
        match resolveRet defining M (mi.ret.getD .any) with
        | some t => some ⟨filled, t, !hasLam, cand, mi⟩
        | Option.none => last
      let needFollow := match last1 with
        | Option.none => true
        | some r => !r.full
      if needFollow then do
        -- type_follow_in_callbacks → process_method_call_on_stream_obj
        let followed ← onStreamObj M fuel G st cand m filled
        match followed with
        | some (n, t, st') => pure (some ⟨n, t, true, cand, mi⟩, st')
        | Option.none =>
          match last1 with
          | some r => if r.full then pure (last1, st) else candLoop M fuel G st recv m args kwn kwv rest last1
          | Option.none => candLoop M fuel G st recv m args kwn kwv rest last1
      else pure (last1, st)
/-- `process_method_call_on_stream_obj` for the built-in operators of a collection class with one
    single-parameter lambda argument: the nested `Select` / `SelectMany` / `Where` -/
def onStreamObj (M : Model) : Nat → Gamma → FSt → Ty → String → Expr → Except Err (Option (Expr × Ty × FSt))
  | 0, _, _, _, _, _ => .error .fuel
  | fuel + 1, G, st, cand, m, filled =>
    match cand, filled with
    | .cls cn [item], .call f' [.lam [x] body] kn kv =>
      if (findClass M cn).any (·.collection) && opNamesFollow.contains m then do
        let rb ← follow M fuel ((x, item) :: G) { md := [], log := st.log } body
        let _ ← checkAst (.lam [x] rb.e)
        if m == "Where" && !(Ty.beq rb.ty .bool) then .error (.valueError "The Where filter must return a boolean")
        else
          let elemTy : Ty :=
            if m == "Select" then rb.ty else if m == "SelectMany" then unwrapIterable M rb.ty else item
          pure (some (.call f' [.lam [x] rb.e] kn kv, .iterable elemTy, { md := st.md ++ rb.st.md, log := rb.st.log }))
      else pure Option.none
    | _, _ => pure Option.none
end

/-- fuel that is enough for any expression of that size -/
def followFuel (e : Expr) : Nat := 4 * e.size + 8

/-- `ObjectStream.Select / SelectMany / Where` on a stream whose item type is `itemTy`, given the
    (already sugar-free) lambda: new lambda, new item type, effects -/
def streamOp (M : Model) (op : String) (itemTy : Ty) (lam : Expr) : Except Err (Expr × Ty × FSt) :=
  match lam with
  | .lam [x] body => do
    let rb ← follow M (followFuel body) [(x, itemTy)] { md := [], log := [] } body
    let _ ← checkAst (.lam [x] rb.e)
    if op == "Where" then
      if Ty.beq rb.ty .bool then pure (.lam [x] rb.e, itemTy, rb.st)
      else .error (.valueError "The Where filter must return a boolean")
    else if op == "SelectMany" then pure (.lam [x] rb.e, unwrapIterable M rb.ty, rb.st)
    else pure (.lam [x] rb.e, rb.ty, rb.st)
  | _ => .error (.internal "AssertionError")

end Fadl
