/-
  Model of func_adl/util_ast.py : _resolve_called_lambdas (after the two fix commits: the body is
  visited with `visit`, nested lambda parameters and comprehension targets hide outer arguments).

  visit_Call: callee is a Lambda whose parameter count equals the number of POSITIONAL arguments
  (keywords are not looked at) → arguments visited in the current scope, bound in a new frame, body
  visited, result returned.  Lambda callee with another count, and any other call → generic_visit.
  The substitution is NOT capture avoiding (known finding F22): an argument mentioning a name that
  a lambda inside the body binds is captured.
-/
import Fadl.Syntax
namespace Fadl

/-- one frame: parameter ↦ `some arg` (substitute) or `none` (locally bound: hides outer frames) -/
abbrev Frame := List (String × Option Expr)

def frameGet (x : String) : Frame → Option (Option Expr)
  | [] => Option.none
  | (k, v) :: rest => if k = x then some v else frameGet x rest

/-- innermost frame first -/
def stackGet (x : String) : List Frame → Option (Option Expr)
  | [] => Option.none
  | f :: fs => match frameGet x f with
    | some r => some r
    | Option.none => stackGet x fs

mutual
def targetNames : Expr → List String
  | .name x => [x]
  | .tuple es => targetNamesL es
  | .list es => targetNamesL es
  | .op _ es => targetNamesL es
  | .attr v _ => targetNames v
  | .sub v s => targetNames v ++ targetNames s
  | _ => []
def targetNamesL : List Expr → List String
  | [] => []
  | e :: es => targetNames e ++ targetNamesL es
end

def hideFrame (names : List String) : Frame := names.map (fun n => (n, Option.none))

/-- python dict built from zip(params, args): a repeated parameter keeps the last value -/
def bindFrame : List String → List Expr → Frame
  | p :: ps, a :: as => bindFrame ps as ++ [(p, some a)]
  | _, _ => []

mutual
def resolveCalled (st : List Frame) : Expr → Expr
  | .name x => match stackGet x st with
    | some (some e) => e
    | _ => .name x
  | .const c => .const c
  | .attr v a => .attr (resolveCalled st v) a
  | .call (.lam ps body) args kwn kwv =>
    if ps.length = args.length then
      resolveCalled (bindFrame ps (resolveCalledL st args) :: st) body
    else
      -- cannot be inlined: generic_visit (the lambda's own parameters hide outer arguments)
      .call (.lam ps (resolveCalled (hideFrame ps :: st) body)) (resolveCalledL st args) kwn (resolveCalledL st kwv)
  | .call f args kwn kwv => .call (resolveCalled st f) (resolveCalledL st args) kwn (resolveCalledL st kwv)
  | .lam ps b => .lam ps (resolveCalled (hideFrame ps :: st) b)
  | .sub v s => .sub (resolveCalled st v) (resolveCalled st s)
  | .tuple es => .tuple (resolveCalledL st es)
  | .list es => .list (resolveCalledL st es)
  | .dict ks vs => .dict (resolveCalledL st ks) (resolveCalledL st vs)
  | .op k args => .op k (resolveCalledL st args)
  | .comp kind e t i ifs a =>
    let inner := hideFrame (targetNames t) :: st
    .comp kind (resolveCalled inner e) t (resolveCalled st i) (resolveCalledL inner ifs) a
def resolveCalledL (st : List Frame) : List Expr → List Expr
  | [] => []
  | e :: es => resolveCalled st e :: resolveCalledL st es
end

end Fadl
