/-
  Model of func_adl/util_ast.py : _resolve_called_lambdas (after the two fix commits: the body is
  visited with `visit`, nested lambda parameters and comprehension targets hide outer arguments).

  visit_Call: callee is a Lambda whose parameter count equals the number of POSITIONAL arguments
  (keywords are not looked at) → arguments visited in the current scope, bound in a new frame, body
  visited, result returned.  Lambda callee with another count, and any other call → generic_visit.
  The substitution avoids capture in one direction (fix: "names bound inside an inlined body that an
  argument mentions are renamed"): a lambda parameter / comprehension target that is also mentioned
  by an argument being substituted gets a new name `x_i` first.  The other direction (a binder at the
  call site named like a name that is free in an inserted helper body) is still an open finding.
-/
import Fadl.Syntax
namespace Fadl

/-- one frame: parameter ↦ `some arg` (substitute) or `none` (locally bound: hides outer frames) -/
abbrev Frame := List (String × Option Expr)

def frameGet (x : String) : Frame → Option (Option Expr)
  | [] => Option.none
  | (k, v) :: rest => if k = x then some v else frameGet x rest

/-- innermost frame first -/
def stackGet (x : String) : List Frame → Option (Option Expr)
  | [] => Option.none
  | f :: fs => match frameGet x f with
    | some r => some r
    | Option.none => stackGet x fs

mutual
def targetNames : Expr → List String
  | .name x => [x]
  | .tuple es => targetNamesL es
  | .list es => targetNamesL es
  | .op _ es => targetNamesL es
  | .attr v _ => targetNames v
  | .sub v s => targetNames v ++ targetNames s
  | _ => []
def targetNamesL : List Expr → List String
  | [] => []
  | e :: es => targetNames e ++ targetNamesL es
end

def hideFrame (names : List String) : Frame := names.map (fun n => (n, Option.none))

/-- python dict built from zip(params, args): a repeated parameter keeps the last value -/
def bindFrame : List String → List Expr → Frame
  | p :: ps, a :: as => bindFrame ps as ++ [(p, some a)]
  | _, _ => []

mutual
/-- every `Name` node of an expression (`ast.walk`): free and bound occurrences, callee names, comprehension
    targets; not lambda parameters (those are `arg` nodes) -/
def allNames : Expr → List String
  | .name x => [x]
  | .const _ => []
  | .attr v _ => allNames v
  | .call f args _ kwv => allNames f ++ allNamesL args ++ allNamesL kwv
  | .lam _ b => allNames b
  | .sub v s => allNames v ++ allNames s
  | .tuple es => allNamesL es
  | .list es => allNamesL es
  | .dict ks vs => allNamesL ks ++ allNamesL vs
  | .op _ args => allNamesL args
  | .comp _ e t i ifs _ => allNames e ++ allNames t ++ allNames i ++ allNamesL ifs
def allNamesL : List Expr → List String
  | [] => []
  | e :: es => allNames e ++ allNamesL es
end

/-- `_names_in_arguments`: every name mentioned by a replacement on the stack (also hidden ones) -/
def activeNames (st : List Frame) : List String :=
  st.flatMap (fun f => f.flatMap (fun p => match p.2 with
    | some e => allNames e
    | Option.none => []))

/-- the first of `x_1, x_2, …` that is not taken -/
def freshLocal (x : String) (taken : List String) : String :=
  ((List.range (taken.length + 1)).map (fun i => x ++ "_" ++ toString (i + 1))).find? (fun c => !taken.contains c) |>.getD x

/-- the loop of `_visit_hiding`: new names and the frame (a renamed local maps to its new name) -/
def hideLoop (used : List String) : List String → List String → List String × Frame
  | [], _ => ([], [])
  | n :: ns, taken =>
    if used.contains n then
      let n' := freshLocal n taken
      let (rest, fr) := hideLoop used ns (n' :: taken)
      (n' :: rest, (n, some (.name n')) :: fr)
    else
      let (rest, fr) := hideLoop used ns taken
      (n :: rest, (n, Option.none) :: fr)

/-- `_visit_hiding(names, nodes)` up to the visit: `bodyNames` are the names mentioned by the nodes -/
def hideRename (st : List Frame) (names bodyNames : List String) : List String × Frame :=
  let used := activeNames st
  hideLoop used names (used ++ names ++ bodyNames)

mutual
/-- a comprehension target with its names replaced (same order as `targetNames`) -/
def renameTarget (m : List (String × String)) : Expr → Expr
  | .name x => .name ((m.lookup x).getD x)
  | .tuple es => .tuple (renameTargetL m es)
  | .list es => .list (renameTargetL m es)
  | .op k es => .op k (renameTargetL m es)
  | .attr v a => .attr (renameTarget m v) a
  | .sub v s => .sub (renameTarget m v) (renameTarget m s)
  | e => e
def renameTargetL (m : List (String × String)) : List Expr → List Expr
  | [] => []
  | e :: es => renameTarget m e :: renameTargetL m es
end

mutual
def resolveCalled (st : List Frame) : Expr → Expr
  | .name x => match stackGet x st with
    | some (some e) => e
    | _ => .name x
  | .const c => .const c
  | .attr v a => .attr (resolveCalled st v) a
  | .call (.lam ps body) args kwn kwv =>
    if ps.length = args.length then
      resolveCalled (bindFrame ps (resolveCalledL st args) :: st) body
    else
      -- cannot be inlined: generic_visit (visit_Lambda for the callee: its parameters hide outer arguments)
      let (ps', fr) := hideRename st ps (allNames body)
      -- keyword arguments follow the parameters that got new names
      let kwn' := kwn.map (fun k => ((ps.zip ps').lookup k).getD k)
      .call (.lam ps' (resolveCalled (fr :: st) body)) (resolveCalledL st args) kwn' (resolveCalledL st kwv)
  | .call f args kwn kwv => .call (resolveCalled st f) (resolveCalledL st args) kwn (resolveCalledL st kwv)
  | .lam ps b =>
    let (ps', fr) := hideRename st ps (allNames b)
    .lam ps' (resolveCalled (fr :: st) b)
  | .sub v s => .sub (resolveCalled st v) (resolveCalled st s)
  | .tuple es => .tuple (resolveCalledL st es)
  | .list es => .list (resolveCalledL st es)
  | .dict ks vs => .dict (resolveCalledL st ks) (resolveCalledL st vs)
  | .op k args => .op k (resolveCalledL st args)
  | .comp kind e t i ifs a =>
    let names := targetNames t
    let (names', fr) := hideRename st names (allNames e ++ allNamesL ifs)
    let inner := fr :: st
    .comp kind (resolveCalled inner e) (renameTarget (names.zip names') t) (resolveCalled st i) (resolveCalledL inner ifs) a
def resolveCalledL (st : List Frame) : List Expr → List Expr
  | [] => []
  | e :: es => resolveCalled st e :: resolveCalledL st es
end

end Fadl
