/-
  Model of func_adl/ast/function_simplifier.py (after the fix commits) and func_adl/ast/call_stack.py:
  arg_name, make_args_unique, convolute, make_Select, simplify_chained_calls (every visit_* / call_*
  method), the argument stack.

  `simp fuel stack c e` mirrors `simplify_chained_calls.visit(e)` with the argument stack `stack`
  (innermost frame first) and the global `argument_var_counter = c`; it returns the new tree and the
  new counter.  Fuel, because the code re-visits trees it has just built.
-/
import Fadl.Syntax
import Fadl.Err
namespace Fadl

def argName (n : Nat) : String := "arg_" ++ toString n

/-! ### make_args_unique -/

def renGet (x : String) : List (String × String) → Option String
  | [] => Option.none
  | (k, v) :: rest => if k = x then some v else renGet x rest

mutual
/-- `replace_args.visit` below the outermost lambda: every lambda met re-binds its own parameters to
    themselves (innermost binding first in `m`) -/
def renameNames (m : List (String × String)) : Expr → Expr
  | .name x => match renGet x m with
    | some y => .name y
    | Option.none => .name x
  | .const c => .const c
  | .attr v a => .attr (renameNames m v) a
  | .call f args kwn kwv => .call (renameNames m f) (renameNamesL m args) kwn (renameNamesL m kwv)
  | .lam ps b => .lam ps (renameNames (ps.reverse.map (fun p => (p, p)) ++ m) b)
  | .sub v s => .sub (renameNames m v) (renameNames m s)
  | .tuple es => .tuple (renameNamesL m es)
  | .list es => .list (renameNamesL m es)
  | .dict ks vs => .dict (renameNamesL m ks) (renameNamesL m vs)
  | .op k args => .op k (renameNamesL m args)
  | .comp kind e t i ifs a => .comp kind (renameNames m e) (renameNames m t) (renameNames m i) (renameNamesL m ifs) a
def renameNamesL (m : List (String × String)) : List Expr → List Expr
  | [] => []
  | e :: es => renameNames m e :: renameNamesL m es
end

def freshNames (c : Nat) : Nat → List String
  | 0 => []
  | n + 1 => argName c :: freshNames (c + 1) n

/-- `N` for a name spelled `arg_N` (decimal digits only) -/
def argIdx? (s : String) : Option Nat :=
  let l := s.toList
  if l.take 4 = ['a', 'r', 'g', '_'] then
    let d := l.drop 4
    if d.isEmpty || !d.all Char.isDigit then Option.none
    else some (d.foldl (fun n ch => 10 * n + (ch.toNat - '0'.toNat)) 0)
  else Option.none

mutual
/-- every `Name` id and every lambda parameter name of an expression -/
def namesAndParams : Expr → List String
  | .name x => [x]
  | .const _ => []
  | .attr v _ => namesAndParams v
  | .call f args _ kwv => namesAndParams f ++ namesAndParamsL args ++ namesAndParamsL kwv
  | .lam ps b => ps ++ namesAndParams b
  | .sub v s => namesAndParams v ++ namesAndParams s
  | .tuple es => namesAndParamsL es
  | .list es => namesAndParamsL es
  | .dict ks vs => namesAndParamsL ks ++ namesAndParamsL vs
  | .op _ args => namesAndParamsL args
  | .comp _ e t i ifs _ => namesAndParams e ++ namesAndParams t ++ namesAndParams i ++ namesAndParamsL ifs
def namesAndParamsL : List Expr → List String
  | [] => []
  | e :: es => namesAndParams e ++ namesAndParamsL es
end

/-- the first counter value whose name `arg_N`, and every later one, does not occur in the expression -/
def nextArg (e : Expr) : Nat :=
  (namesAndParams e).foldl (fun m s => match argIdx? s with
    | some k => max m (k + 1)
    | Option.none => m) 0

/-- `make_args_unique(lambda ps: b)` with counter `c`: (new parameters, new body, new counter) -/
def makeArgsUnique (ps : List String) (b : Expr) (c : Nat) : List String × Expr × Nat :=
  let ns := freshNames c ps.length
  (ns, renameNames ((ps.zip ns).reverse) b, c + ps.length)

/-! ### small helpers of util_ast / func_adl_ast_utils -/

def isCallOf (e : Expr) (n : String) : Bool :=
  match e with
  | .call (.name m) _ _ _ => m == n
  | _ => false

def lambdaIsIdentity : Expr → Bool
  | .lam [x] (.name y) => x == y
  | _ => false

def lambdaIsTrue : Expr → Bool
  | .lam _ (.const (.bool true)) => true
  | _ => false

def makeSelect (source selection : Expr) : Expr :=
  if lambdaIsIdentity selection then source else fcall "Select" [source, selection]

/-- `convolute(g, f)`: `lambda x: g'(f'(x))` with g, f made unique (g first) and x fresh -/
def convolute (g f : Expr) (c : Nat) : Except Err (Expr × Nat) :=
  match g, f with
  | .lam gps gb, .lam fps fb =>
    let (gps', gb', c1) := makeArgsUnique gps gb c
    let (fps', fb', c2) := makeArgsUnique fps fb c1
    let x := argName c2
    .ok (.lam [x] (.call (.lam gps' gb') [.call (.lam fps' fb') [.name x] [] []] [] []), c2 + 1)
  | _, _ => .error (.internal "Exception")

/-! ### the argument stack -/

abbrev SFrame := List (String × Expr)
abbrev SStack := List SFrame     -- innermost first

def frameLookup (x : String) : SFrame → Option Expr
  | [] => Option.none
  | (k, v) :: rest => match frameLookup x rest with     -- a later define_name overwrites an earlier one
    | some r => some r
    | Option.none => if k = x then some v else Option.none

def stackLookup (x : String) : SStack → Option Expr
  | [] => Option.none
  | f :: fs => match frameLookup x f with
    | some r => some r
    | Option.none => stackLookup x fs

def sameSet (a b : List String) : Bool := a.all (b.contains ·) && b.all (a.contains ·)

def dictLookupConst (keys vals : List Expr) (k : Const) : Option Expr :=
  match keys, vals with
  | .const c :: ks, v :: vs => if c == k then some v else dictLookupConst ks vs k
  | _, _ => Option.none

def allConstKeys : List Expr → Bool
  | [] => true
  | .const _ :: ks => allConstKeys ks
  | _ :: _ => false

/-- python `value.value == s` between constants of the key kinds (str / int; `True == 1`) -/
def constKeyEq (a b : Const) : Bool :=
  match a, b with
  | .int x, .bool y => x == (if y then 1 else 0)
  | .bool x, .int y => (if x then 1 else 0) == y
  | a, b => a == b

/-- the value expression of the LAST entry whose key equals `k` (a later entry overrides an earlier one) -/
def dictLookupLast (k : Const) : List Expr → List Expr → Option Expr
  | .const c :: ks, v :: vs =>
    match dictLookupLast k ks vs with
    | some r => some r
    | Option.none => if constKeyEq c k then some v else Option.none
  | _, _ => Option.none

def dictLookup (keys vals : List Expr) (k : Const) : Option Expr :=
  if allConstKeys keys then dictLookupLast k keys vals else Option.none

/-! ### simplify_chained_calls -/

/-- `First(seq, …)`: `some (some seq)`; `First()`: `some none`; anything else: `none` -/
def firstArg? : Expr → Option (Option Expr)
  | .call (.name n) args _ _ => if n = "First" then (match args with | first :: _ => some (some first) | [] => some Option.none) else Option.none
  | _ => Option.none

/-- a call of a function by name: its name and positional arguments -/
def opCall? : Expr → Option (String × List Expr)
  | .call (.name n) pargs _ _ => some (n, pargs)
  | _ => Option.none

def isLam : Expr → Bool
  | .lam _ _ => true
  | _ => false

/-!
  The visitor.  Written with flat matches (`firstArg?`, `opCall?`, `isLam`) so that the checked model
  (Model/SimplifyCk.lean) is this text plus its guards, clause for clause (theorem `simpCk_refines_simp`).
  Comments name the Python method each clause follows.
-/
mutual
def simp : Nat → SStack → Nat → Expr → Except Err (Expr × Nat)
  | 0, _, _, _ => .error .fuel
  | fuel + 1, st, c, e =>
    match e with
    -- visit_Name: a name on the argument stack is replaced by its value
    | .name x => .ok ((stackLookup x st).getD (.name x), c)
    | .const k => .ok (.const k, c)
    -- visit_Lambda: fresh parameter names, then generic_visit
    | .lam ps b => do
      let (ps', b', c1) := makeArgsUnique ps b c
      let (b'', c2) ← simp fuel st c1 b'
      pure (.lam ps' b'', c2)
    -- visit_Attribute: First(seq).a -> First(Select(seq, x: x.a)); dictionary fields; the same once more if the
    -- value turns into a First by being visited
    | .attr v a =>
      match firstArg? v with
      | some (some first) =>
        let x := argName c
        let select := makeSelect first (.lam [x] (.attr (.name x) a))
        simp fuel st (c + 1) (fcall "First" [select])
      | some Option.none => .error (.internal "IndexError")
      | Option.none => do
        let (v', c1) ← simp fuel st c v
        match v' with
        | .dict ks vs =>
          match dictLookup ks vs (.str a) with
          | some r => pure (r, c1)
          | Option.none => pure (.attr v' a, c1)
        | _ =>
          match firstArg? v' with
          | some (some first) =>
            let x := argName c1
            let select := makeSelect first (.lam [x] (.attr (.name x) a))
            simp fuel st (c1 + 1) (fcall "First" [select])
          | some Option.none => .error (.internal "IndexError")
          | Option.none => pure (.attr v' a, c1)
    -- visit_Subscript: constant selectors take literals apart; First(seq)[s] -> First(Select(seq, x: x[s]))
    | .sub v s => do
      let (v', c1) ← simp fuel st c v
      let (s', c2) ← simp fuel st c1 s
      let generic : Except Err (Expr × Nat) :=
        match firstArg? v' with
        | some (some first) =>
          let x := argName c2
          let select := makeSelect first (.lam [x] (.sub (.name x) s'))
          simp fuel st (c2 + 1) (fcall "First" [select])
        | some Option.none => .error (.internal "IndexError")
        | Option.none => .ok (.sub v' s', c2)
      match s' with
      | .const (.int n) =>
        (match v' with
         | .tuple es =>
           if n ≥ 0 then
             (match es[n.toNat]? with
              | some el => pure (el, c2)
              | Option.none => .error .indexError)
           else generic
         | .list es =>
           if n ≥ 0 then
             (match es[n.toNat]? with
              | some el => pure (el, c2)
              | Option.none => .error .indexError)
           else generic
         | .dict ks vs =>
           (match dictLookup ks vs (.int n) with
            | some r => pure (r, c2)
            | Option.none => pure (.sub v' s', c2))
         | _ => generic)
      | .const (.str k) =>
        (match v' with
         | .dict ks vs =>
           (match dictLookup ks vs (.str k) with
            | some r => pure (r, c2)
            | Option.none => pure (.sub v' s', c2))
         | _ => generic)
      | _ => generic
    | .tuple es => do let (es', c1) ← simpL fuel st c es; pure (.tuple es', c1)
    | .list es => do let (es', c1) ← simpL fuel st c es; pure (.list es', c1)
    | .dict ks vs => do
      let (ks', c1) ← simpL fuel st c ks
      let (vs', c2) ← simpL fuel st c1 vs
      pure (.dict ks' vs', c2)
    | .op k args => do let (as', c1) ← simpL fuel st c args; pure (.op k as', c1)
    | .comp kind el t i ifs a => do
      let (el', c1) ← simp fuel st c el
      let (t', c2) ← simp fuel st c1 t
      let (i', c3) ← simp fuel st c2 i
      let (ifs', c4) ← simpL fuel st c3 ifs
      pure (.comp kind el' t' i' ifs' a, c4)
    -- visit_Call: called lambdas are inlined through the argument stack; First(seq).m(args) moves the call inside;
    -- Select / SelectMany / Where go to their call_X; everything else is generic_visit (a method head `v.m` is
    -- visited as an attribute but never taken out of a First)
    | .call f args kwn kwv =>
      let generic (head : Except Err (Expr × Nat)) : Except Err (Expr × Nat) := do
        let (f', c1) ← head
        let (as', c2) ← simpL fuel st c1 args
        let (ks', c3) ← simpL fuel st c2 kwv
        pure (.call f' as' kwn ks', c3)
      match f with
      | .lam ps body =>
        let npos := args.length
        if !distinctS ps || npos > ps.length || !distinctS kwn || !sameSet kwn (ps.drop npos) then generic (simp fuel st c f)
        else do
          let (ps', body', c1) := makeArgsUnique ps body c
          let (as', c2) ← simpL fuel st c1 args
          let (ks', c3) ← simpL fuel st c2 kwv
          let ren := ps.zip ps'
          let frame : SFrame :=
            ((ps'.take npos).zip as') ++ (kwn.zip ks').map (fun p => ((renGet p.1 ren).getD p.1, p.2))
          simp fuel (frame :: st) c3 body'
      | .attr v m =>
        match firstArg? v with
        | some (some seq) =>
          let x := argName c
          let call := Expr.call (.attr (.name x) m) args kwn kwv
          let select := makeSelect seq (.lam [x] call)
          simp fuel st (c + 1) (fcall "First" [select])
        | some Option.none => .error (.internal "IndexError")
        | Option.none =>
          -- a method head: visited as an attribute (dictionary fields are resolved), never taken out of a First
          let head : Except Err (Expr × Nat) := do
            let (v', c1) ← simp fuel st c v
            match v' with
            | .dict ks vs =>
              match dictLookup ks vs (.str m) with
              | some r => pure (r, c1)
              | Option.none => pure (.attr v' m, c1)
            | _ => pure (.attr v' m, c1)
          generic head
      | .name n =>
        if n = "Select" then callSelect fuel st c args kwn kwv
        else if n = "SelectMany" then callSelectMany fuel st c args kwn kwv
        else if n = "Where" then callWhere fuel st c args kwn kwv
        else generic (simp fuel st c f)
      | _ => generic (simp fuel st c f)
def simpL : Nat → SStack → Nat → List Expr → Except Err (List Expr × Nat)
  | 0, _, _, _ => .error .fuel
  | _ + 1, _, c, [] => .ok ([], c)
  | fuel + 1, st, c, e :: es => do
    let (e', c1) ← simp fuel st c e
    let (es', c2) ← simpL fuel st c1 es
    pure (e' :: es', c2)
def callSelect : Nat → SStack → Nat → List Expr → List String → List Expr → Except Err (Expr × Nat)
  | 0, _, _, _, _, _ => .error .fuel
  | fuel + 1, st, c, args, _, _ =>
    match args with
    | source :: transform :: _ =>
      if !isLam transform then .error (.internal "AssertionError") else do
        let (parent, c1) ← simp fuel st c source
        let dflt : Unit → Except Err (Expr × Nat) := fun _ => do
          let (sel, c2) ← simp fuel st c1 transform
          pure (makeSelect parent sel, c2)
        match opCall? parent with
        | some (n, pargs) =>
          if n = "Select" then
            (match pargs with
             | src :: f :: _ =>
               if !isLam f then .error (.internal "AssertionError") else do
                 let (conv, c2) ← convolute transform f c1
                 let (sel, c3) ← simp fuel st c2 conv
                 pure (makeSelect src sel, c3)
             | _ => .error (.internal "IndexError"))
          else if n = "SelectMany" then
            (match pargs with
             | src :: f :: _ =>
               (match f with
                | .lam fps fb =>
                  simp fuel st c1 (fcall "SelectMany" [src, .lam fps (makeSelect fb transform)])
                | _ => .error (.internal "AssertionError"))
             | _ => .error (.internal "IndexError"))
          else dflt ()
        | Option.none => dflt ()
    | _ => .error (.internal "IndexError")
def callSelectMany : Nat → SStack → Nat → List Expr → List String → List Expr → Except Err (Expr × Nat)
  | 0, _, _, _, _, _ => .error .fuel
  | fuel + 1, st, c, args, _, _ =>
    match args with
    | source :: selection :: _ =>
      if !isLam selection then .error (.internal "AssertionError") else do
        let (parent, c1) ← simp fuel st c source
        let dflt : Unit → Except Err (Expr × Nat) := fun _ => do
          let (sel, c2) ← simp fuel st c1 selection
          pure (fcall "SelectMany" [parent, sel], c2)
        match opCall? parent with
        | some (n, pargs) =>
          if n = "SelectMany" then
            (match pargs with
             | [seq, f] =>
               (match f with
                | .lam (p :: _) fb =>
                  simp fuel st c1 (fcall "SelectMany" [seq, .lam [p] (fcall "SelectMany" [fb, selection])])
                | .lam [] _ => .error (.internal "IndexError")
                | _ => .error (.internal "AssertionError"))
             | _ => .error (.internal "AssertionError"))
          else if n = "Select" then
            (match pargs with
             | [seq, f] =>
               if !isLam f then .error (.internal "AssertionError") else do
                 let (conv, c2) ← convolute selection f c1
                 let (sel, c3) ← simp fuel st c2 conv
                 pure (fcall "SelectMany" [seq, sel], c3)
             | _ => .error (.internal "AssertionError"))
          else dflt ()
        | Option.none => dflt ()
    | _ => .error (.internal "IndexError")
def callWhere : Nat → SStack → Nat → List Expr → List String → List Expr → Except Err (Expr × Nat)
  | 0, _, _, _, _, _ => .error .fuel
  | fuel + 1, st, c, args, _, _ =>
    match args with
    | source :: filter :: _ =>
      if !isLam filter then .error (.internal "AssertionError") else do
        let (parent, c1) ← simp fuel st c source
        let dflt : Unit → Except Err (Expr × Nat) := fun _ => do
          let (f', c2) ← simp fuel st c1 filter
          if lambdaIsTrue f' then pure (parent, c2) else pure (fcall "Where" [parent, f'], c2)
        match opCall? parent with
        | some (n, pargs) =>
          if n = "Where" then
            (match pargs with
             | src :: f :: _ =>
               if !isLam f then .error (.internal "AssertionError") else
                 let x := argName c1
                 let conv := Expr.lam [x] (.op .boolAnd [.call f [.name x] [] [], .call filter [.name x] [] []])
                 simp fuel st (c1 + 1) (fcall "Where" [src, conv])
             | _ => .error (.internal "IndexError"))
          else if n = "Select" then
            (match pargs with
             | src :: f :: _ =>
               if !isLam f then .error (.internal "AssertionError") else do
                 let (conv, c2) ← convolute filter f c1
                 let (w, c3) ← simp fuel st c2 conv
                 simp fuel st c3 (makeSelect (fcall "Where" [src, w]) f)
             | _ => .error (.internal "IndexError"))
          else if n = "SelectMany" then
            (match pargs with
             | seq :: f :: _ =>
               (match f with
                | .lam fps fb =>
                  simp fuel st c1 (fcall "SelectMany" [seq, .lam fps (fcall "Where" [fb, filter])])
                | _ => .error (.internal "AssertionError"))
             | _ => .error (.internal "IndexError"))
          else dflt ()
        | Option.none => dflt ()
    | _ => .error (.internal "IndexError")
end

/-- `simplify_chained_calls().visit(e)`: the outermost `visit` first moves the counter past every name of the form `arg_N`
    that the query already holds (`reserve_arg_names`), so that no generated name can collide with them -/
def simplify (fuel : Nat) (c : Nat) (e : Expr) : Except Err (Expr × Nat) := simp fuel [[]] (max c (nextArg e)) e

end Fadl
