/-
  Model of func_adl/ast/function_simplifier.py (after the fix commits) and func_adl/ast/call_stack.py:
  arg_name, make_args_unique, convolute, make_Select, simplify_chained_calls (every visit_* / call_*
  method), the argument stack.

  `simp fuel stack c e` mirrors `simplify_chained_calls.visit(e)` with the argument stack `stack`
  (innermost frame first) and the global `argument_var_counter = c`; it returns the new tree and the
  new counter.  Fuel, because the code re-visits trees it has just built.
-/
import Fadl.Syntax
import Fadl.Err
namespace Fadl

def argName (n : Nat) : String := "arg_" ++ toString n

/-! ### make_args_unique -/

def renGet (x : String) : List (String × String) → Option String
  | [] => Option.none
  | (k, v) :: rest => if k = x then some v else renGet x rest

mutual
/-- `replace_args.visit` below the outermost lambda: every lambda met re-binds its own parameters to
    themselves (innermost binding first in `m`) -/
def renameNames (m : List (String × String)) : Expr → Expr
  | .name x => match renGet x m with
    | some y => .name y
    | Option.none => .name x
  | .const c => .const c
  | .attr v a => .attr (renameNames m v) a
  | .call f args kwn kwv => .call (renameNames m f) (renameNamesL m args) kwn (renameNamesL m kwv)
  | .lam ps b => .lam ps (renameNames (ps.reverse.map (fun p => (p, p)) ++ m) b)
  | .sub v s => .sub (renameNames m v) (renameNames m s)
  | .tuple es => .tuple (renameNamesL m es)
  | .list es => .list (renameNamesL m es)
  | .dict ks vs => .dict (renameNamesL m ks) (renameNamesL m vs)
  | .op k args => .op k (renameNamesL m args)
  | .comp kind e t i ifs a => .comp kind (renameNames m e) (renameNames m t) (renameNames m i) (renameNamesL m ifs) a
def renameNamesL (m : List (String × String)) : List Expr → List Expr
  | [] => []
  | e :: es => renameNames m e :: renameNamesL m es
end

def freshNames (c : Nat) : Nat → List String
  | 0 => []
  | n + 1 => argName c :: freshNames (c + 1) n

/-- `make_args_unique(lambda ps: b)` with counter `c`: (new parameters, new body, new counter) -/
def makeArgsUnique (ps : List String) (b : Expr) (c : Nat) : List String × Expr × Nat :=
  let ns := freshNames c ps.length
  (ns, renameNames ((ps.zip ns).reverse) b, c + ps.length)

/-! ### small helpers of util_ast / func_adl_ast_utils -/

def isCallOf (e : Expr) (n : String) : Bool :=
  match e with
  | .call (.name m) _ _ _ => m == n
  | _ => false

def lambdaIsIdentity : Expr → Bool
  | .lam [x] (.name y) => x == y
  | _ => false

def lambdaIsTrue : Expr → Bool
  | .lam _ (.const (.bool true)) => true
  | _ => false

def makeSelect (source selection : Expr) : Expr :=
  if lambdaIsIdentity selection then source else fcall "Select" [source, selection]

/-- `convolute(g, f)`: `lambda x: g'(f'(x))` with g, f made unique (g first) and x fresh -/
def convolute (g f : Expr) (c : Nat) : Except Err (Expr × Nat) :=
  match g, f with
  | .lam gps gb, .lam fps fb =>
    let (gps', gb', c1) := makeArgsUnique gps gb c
    let (fps', fb', c2) := makeArgsUnique fps fb c1
    let x := argName c2
    .ok (.lam [x] (.call (.lam gps' gb') [.call (.lam fps' fb') [.name x] [] []] [] []), c2 + 1)
  | _, _ => .error (.internal "Exception")

/-! ### the argument stack -/

abbrev SFrame := List (String × Expr)
abbrev SStack := List SFrame     -- innermost first

def frameLookup (x : String) : SFrame → Option Expr
  | [] => Option.none
  | (k, v) :: rest => match frameLookup x rest with     -- a later define_name overwrites an earlier one
    | some r => some r
    | Option.none => if k = x then some v else Option.none

def stackLookup (x : String) : SStack → Option Expr
  | [] => Option.none
  | f :: fs => match frameLookup x f with
    | some r => some r
    | Option.none => stackLookup x fs

def sameSet (a b : List String) : Bool := a.all (b.contains ·) && b.all (a.contains ·)

def dictLookupConst (keys vals : List Expr) (k : Const) : Option Expr :=
  match keys, vals with
  | .const c :: ks, v :: vs => if c == k then some v else dictLookupConst ks vs k
  | _, _ => Option.none

def allConstKeys : List Expr → Bool
  | [] => true
  | .const _ :: ks => allConstKeys ks
  | _ :: _ => false

/-- python `value.value == s` between constants of the key kinds (str / int; `True == 1`) -/
def constKeyEq (a b : Const) : Bool :=
  match a, b with
  | .int x, .bool y => x == (if y then 1 else 0)
  | .bool x, .int y => (if x then 1 else 0) == y
  | a, b => a == b

def dictLookup (keys vals : List Expr) (k : Const) : Option Expr :=
  if allConstKeys keys then
    (keys.zip vals).findSome? (fun p => match p.1 with
      | .const c => if constKeyEq c k then some p.2 else Option.none
      | _ => Option.none)
  else Option.none

/-! ### simplify_chained_calls -/

mutual
def simp : Nat → SStack → Nat → Expr → Except Err (Expr × Nat)
  | 0, _, _, _ => .error .fuel
  | fuel + 1, st, c, e =>
    match e with
    | .name x => .ok ((stackLookup x st).getD (.name x), c)
    | .const k => .ok (.const k, c)
    | .lam ps b =>
      -- visit_Lambda: fresh parameter names, then generic_visit
      let (ps', b', c1) := makeArgsUnique ps b c
      do let (b'', c2) ← simp fuel st c1 b'
         pure (.lam ps' b'', c2)
    | .attr v a =>
      match v with
      | .call (.name "First") (first :: _) _ _ =>
        -- visit_Attribute_Of_First
        let x := argName c
        let select := makeSelect first (.lam [x] (.attr (.name x) a))
        simp fuel st (c + 1) (fcall "First" [select])
      | .call (.name "First") [] _ _ => .error (.internal "IndexError")
      | _ => do
        let (v', c1) ← simp fuel st c v
        match v' with
        | .dict ks vs =>
          match dictLookup ks vs (.str a) with
          | some r => pure (r, c1)
          | Option.none => pure (.attr v' a, c1)
        | .call (.name "First") (first :: _) _ _ =>
          -- the value became a First only now (a substituted argument): visit_Attribute_Of_First
          let x := argName c1
          let select := makeSelect first (.lam [x] (.attr (.name x) a))
          simp fuel st (c1 + 1) (fcall "First" [select])
        | .call (.name "First") [] _ _ => .error (.internal "IndexError")
        | _ => pure (.attr v' a, c1)
    | .sub v s => do
      let (v', c1) ← simp fuel st c v
      let (s', c2) ← simp fuel st c1 s
      let generic : Except Err (Expr × Nat) :=
        match v' with
        | .call (.name "First") (first :: _) _ _ =>
          let x := argName c2
          let select := makeSelect first (.lam [x] (.sub (.name x) s'))
          simp fuel st (c2 + 1) (fcall "First" [select])
        | .call (.name "First") [] _ _ => .error (.internal "IndexError")
        | _ => .ok (.sub v' s', c2)
      match s' with
      | .const (.int n) =>
        (match v' with
         | .tuple es =>
           if n ≥ 0 then
             (match es[n.toNat]? with
              | some el => pure (el, c2)
              | Option.none => .error .indexError)
           else generic
         | .list es =>
           if n ≥ 0 then
             (match es[n.toNat]? with
              | some el => pure (el, c2)
              | Option.none => .error .indexError)
           else generic
         | .dict ks vs =>
           (match dictLookup ks vs (.int n) with
            | some r => pure (r, c2)
            | Option.none => pure (.sub v' s', c2))
         | _ => generic)
      | .const (.str k) =>
        (match v' with
         | .dict ks vs =>
           (match dictLookup ks vs (.str k) with
            | some r => pure (r, c2)
            | Option.none => pure (.sub v' s', c2))
         | _ => generic)
      | _ => generic
    | .tuple es => do let (es', c1) ← simpL fuel st c es; pure (.tuple es', c1)
    | .list es => do let (es', c1) ← simpL fuel st c es; pure (.list es', c1)
    | .dict ks vs => do
      let (ks', c1) ← simpL fuel st c ks
      let (vs', c2) ← simpL fuel st c1 vs
      pure (.dict ks' vs', c2)
    | .op k args => do let (as', c1) ← simpL fuel st c args; pure (.op k as', c1)
    | .comp kind el t i ifs a => do
      let (el', c1) ← simp fuel st c el
      let (t', c2) ← simp fuel st c1 t
      let (i', c3) ← simp fuel st c2 i
      let (ifs', c4) ← simpL fuel st c3 ifs
      pure (.comp kind el' t' i' ifs' a, c4)
    | .call f args kwn kwv =>
      match f with
      | .lam ps body =>
        -- called lambda: bind positionally, then by keyword; otherwise leave it (generic_visit)
        let npos := args.length
        if !distinctS ps || npos > ps.length || !distinctS kwn || !sameSet kwn (ps.drop npos) then do
          let (f', c1) ← simp fuel st c (.lam ps body)
          let (as', c2) ← simpL fuel st c1 args
          let (ks', c3) ← simpL fuel st c2 kwv
          pure (.call f' as' kwn ks', c3)
        else
          let (ps', body', c1) := makeArgsUnique ps body c
          do
            let (as', c2) ← simpL fuel st c1 args
            let (ks', c3) ← simpL fuel st c2 kwv
            let ren := ps.zip ps'
            let frame : SFrame :=
              ((ps'.take npos).zip as') ++ (kwn.zip ks').map (fun p => ((renGet p.1 ren).getD p.1, p.2))
            simp fuel (frame :: st) c3 body'
      | .attr (.call (.name "First") fargs _ _) m =>
        -- select_method_call_on_first
        match fargs with
        | seq :: _ =>
          let x := argName c
          let call := Expr.call (.attr (.name x) m) args kwn kwv
          let select := makeSelect seq (.lam [x] call)
          simp fuel st (c + 1) (fcall "First" [select])
        | [] => .error (.internal "IndexError")
      | .attr v m => do
        -- a method call: `v.m` is visited as an attribute (dictionary fields are resolved) but is not a value to
        -- be taken out of a First (`_method_head`)
        let (v', c1) ← simp fuel st c v
        let f' := match v' with
          | .dict ks vs =>
            (match dictLookup ks vs (.str m) with
             | some r => r
             | Option.none => .attr v' m)
          | _ => .attr v' m
        let (as', c2) ← simpL fuel st c1 args
        let (ks', c3) ← simpL fuel st c2 kwv
        pure (.call f' as' kwn ks', c3)
      | .name "Select" => callSelect fuel st c args kwn kwv
      | .name "SelectMany" => callSelectMany fuel st c args kwn kwv
      | .name "Where" => callWhere fuel st c args kwn kwv
      | _ => do
        let (f', c1) ← simp fuel st c f
        let (as', c2) ← simpL fuel st c1 args
        let (ks', c3) ← simpL fuel st c2 kwv
        pure (.call f' as' kwn ks', c3)
def simpL : Nat → SStack → Nat → List Expr → Except Err (List Expr × Nat)
  | 0, _, _, _ => .error .fuel
  | _ + 1, _, c, [] => .ok ([], c)
  | fuel + 1, st, c, e :: es => do
    let (e', c1) ← simp fuel st c e
    let (es', c2) ← simpL fuel st c1 es
    pure (e' :: es', c2)
/-- `call_Select(node, args)`; keywords of the node are dropped (the result is rebuilt with function_call) -/
def callSelect : Nat → SStack → Nat → List Expr → List String → List Expr → Except Err (Expr × Nat)
  | 0, _, _, _, _, _ => .error .fuel
  | fuel + 1, st, c, args, _, _ =>
    match args with
    | source :: transform :: _ =>
      match transform with
      | .lam _ _ => do
        let (parent, c1) ← simp fuel st c source
        match parent with
        | .call (.name "Select") pargs _ _ =>
          (match pargs with
           | src :: f :: _ =>
             (match f with
              | .lam _ _ => do
                let (conv, c2) ← convolute transform f c1
                let (sel, c3) ← simp fuel st c2 conv
                pure (makeSelect src sel, c3)
              | _ => .error (.internal "AssertionError"))
           | _ => .error (.internal "IndexError"))
        | .call (.name "SelectMany") pargs _ _ =>
          (match pargs with
           | src :: f :: _ =>
             (match f with
              | .lam fps fb => simp fuel st c1 (fcall "SelectMany" [src, .lam fps (makeSelect fb transform)])
              | _ => .error (.internal "AssertionError"))
           | _ => .error (.internal "IndexError"))
        | _ => do
          let (sel, c2) ← simp fuel st c1 transform
          pure (makeSelect parent sel, c2)
      | _ => .error (.internal "AssertionError")
    | _ => .error (.internal "IndexError")
def callSelectMany : Nat → SStack → Nat → List Expr → List String → List Expr → Except Err (Expr × Nat)
  | 0, _, _, _, _, _ => .error .fuel
  | fuel + 1, st, c, args, _, _ =>
    match args with
    | source :: selection :: _ =>
      match selection with
      | .lam _ _ => do
        let (parent, c1) ← simp fuel st c source
        match parent with
        | .call (.name "SelectMany") pargs _ _ =>
          (match pargs with
           | [seq, f] =>
             (match f with
              | .lam (p :: _) fb =>
                simp fuel st c1 (fcall "SelectMany" [seq, .lam [p] (fcall "SelectMany" [fb, selection])])
              | .lam [] _ => .error (.internal "IndexError")
              | _ => .error (.internal "AssertionError"))
           | _ => .error (.internal "AssertionError"))
        | .call (.name "Select") pargs _ _ =>
          (match pargs with
           | [seq, f] =>
             (match f with
              | .lam _ _ => do
                let (conv, c2) ← convolute selection f c1
                let (sel, c3) ← simp fuel st c2 conv
                pure (fcall "SelectMany" [seq, sel], c3)
              | _ => .error (.internal "AssertionError"))
           | _ => .error (.internal "AssertionError"))
        | _ => do
          let (sel, c2) ← simp fuel st c1 selection
          pure (fcall "SelectMany" [parent, sel], c2)
      | _ => .error (.internal "AssertionError")
    | _ => .error (.internal "IndexError")
def callWhere : Nat → SStack → Nat → List Expr → List String → List Expr → Except Err (Expr × Nat)
  | 0, _, _, _, _, _ => .error .fuel
  | fuel + 1, st, c, args, _, _ =>
    match args with
    | source :: filter :: _ =>
      match filter with
      | .lam _ _ => do
        let (parent, c1) ← simp fuel st c source
        match parent with
        | .call (.name "Where") pargs _ _ =>
          (match pargs with
           | src :: f :: _ =>
             (match f with
              | .lam _ _ =>
                let x := argName c1
                let conv := Expr.lam [x] (.op .boolAnd [.call f [.name x] [] [], .call filter [.name x] [] []])
                simp fuel st (c1 + 1) (fcall "Where" [src, conv])
              | _ => .error (.internal "AssertionError"))
           | _ => .error (.internal "IndexError"))
        | .call (.name "Select") pargs _ _ =>
          (match pargs with
           | src :: f :: _ =>
             (match f with
              | .lam _ _ => do
                let (conv, c2) ← convolute filter f c1
                let (w, c3) ← simp fuel st c2 conv
                simp fuel st c3 (makeSelect (fcall "Where" [src, w]) f)
              | _ => .error (.internal "AssertionError"))
           | _ => .error (.internal "IndexError"))
        | .call (.name "SelectMany") pargs _ _ =>
          (match pargs with
           | seq :: f :: _ =>
             (match f with
              | .lam fps fb => simp fuel st c1 (fcall "SelectMany" [seq, .lam fps (fcall "Where" [fb, filter])])
              | _ => .error (.internal "AssertionError"))
           | _ => .error (.internal "IndexError"))
        | _ => do
          let (f', c2) ← simp fuel st c1 filter
          if lambdaIsTrue f' then pure (parent, c2) else pure (fcall "Where" [parent, f'], c2)
      | _ => .error (.internal "AssertionError")
    | _ => .error (.internal "IndexError")
end

/-- `simplify_chained_calls().visit(e)` -/
def simplify (fuel : Nat) (c : Nat) (e : Expr) : Except Err (Expr × Nat) := simp fuel [[]] c e

end Fadl
