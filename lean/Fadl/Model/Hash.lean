/-
  Model of func_adl/ast/ast_hash.py : calc_ast_hash (lines 6-15) and of the part of CPython it
  leans on, `ast.dump` (3.12 rules, annotate_fields=True, include_attributes=False).

  `Tree` is the *field tree* of an AST object: class name, the fields that `ast.dump` shows (fields
  that are missing, or `None` in an optional field, are not listed — that omission is done by the
  harness codec harness/treecodec.py and is validated on every run by comparing `dump` with the real
  `ast.dump`), child lists, and leaves carrying Python's `repr` of a constant.  Source positions
  and non-field attributes (executor references, `_q_metadata`) are not part of the tree at all —
  exactly as `ast.dump` ignores them.

  After fix F11 the hash is md5 of the UTF-8 encoding of the dump (before: one byte per code point,
  ValueError above 255).  md5 is a parameter `H` of the model.
-/
import Fadl.Syntax
namespace Fadl

inductive Tree where
  | node (cls : String) (fns : List String) (fvs : List Tree)
  | list (xs : List Tree)
  | leaf (repr : String)
  deriving Repr, Inhabited

inductive Tok where
  | ident (s : String)
  | lp | rp | lb | rb | comma | eq
  | lit (s : String)
  deriving Repr, DecidableEq, Inhabited

def Tok.text : Tok → String
  | .ident s => s
  | .lp => "("
  | .rp => ")"
  | .lb => "["
  | .rb => "]"
  | .comma => ", "
  | .eq => "="
  | .lit s => s

mutual
def toks : Tree → List Tok
  | .node cls fns fvs => .ident cls :: .lp :: (fieldToks fns fvs ++ [.rp])
  | .list xs => .lb :: (elemToks xs ++ [.rb])
  | .leaf s => [.lit s]
def fieldToks : List String → List Tree → List Tok
  | n :: ns, v :: vs =>
    match ns with
    | [] => .ident n :: .eq :: toks v
    | _ :: _ => .ident n :: .eq :: (toks v ++ .comma :: fieldToks ns vs)
  | _, _ => []
def elemToks : List Tree → List Tok
  | [] => []
  | [x] => toks x
  | x :: y :: xs => toks x ++ .comma :: elemToks (y :: xs)
end

def renderToks (ts : List Tok) : String := String.join (ts.map Tok.text)

/-- `ast.dump(node)` -/
def dump (t : Tree) : String := renderToks (toks t)

/-- `calc_ast_hash`: `H` stands for `hashlib.md5(·).hexdigest()`. -/
def astHash (H : ByteArray → String) (t : Tree) : String := H (dump t).toUTF8

/-! wire format: (node "Cls" ("f1" "f2") (t1 t2)) | (list (t…)) | (leaf "repr") -/

mutual
partial def Tree.ofSExpr : SExpr → Option Tree
  | .list [.atom "node", .str cls, fns, .list fvs] => do
    pure (.node cls (← strsOfSExpr fns) (← Tree.ofSExprL fvs))
  | .list [.atom "list", .list xs] => do pure (.list (← Tree.ofSExprL xs))
  | .list [.atom "leaf", .str s] => some (.leaf s)
  | _ => none
partial def Tree.ofSExprL : List SExpr → Option (List Tree)
  | [] => some []
  | x :: xs => do
    let t ← Tree.ofSExpr x
    let ts ← Tree.ofSExprL xs
    pure (t :: ts)
end

end Fadl
