/-
  Syntax of the func_adl query language as the Lean model sees it.

  `Expr` is the closed expression grammar that the properties quantify over (a faithful image of the
  Python `ast` expression nodes that func_adl manipulates).  Encoding conventions (shared with
  harness/astcodec.py, which is the only producer of these trees from real Python objects):

  * `call f args kwn kwv` : `ast.Call`; keywords are two parallel lists (names / values); a
    `**kwargs` keyword has the name "**".
  * `op k args` : every node kind that all modelled transformers treat by `generic_visit`:
      BinOp   -> op "Add" [l, r]          (operator class name)
      UnaryOp -> op "USub" [e]
      BoolOp  -> op "And" es | op "Or" es
      Compare -> op "Cmp:Lt,Gt" (left :: comparators)
      IfExp   -> op "IfExp" [test, body, orelse]
      Slice   -> op "Slice:101" present-children   (mask lower/upper/step)
      Starred -> op "Starred" [e]
  * `comp kind elt target iter ifs isAsync` : ListComp / GeneratorExp with exactly one `for`.
  * `Const.float` carries Python's `repr`, `Const.bytes` carries Python's `repr` (`b'..'`),
    `Const.opaque` stands for a non-transportable Python object (class, module, function ...).
-/
namespace Fadl

inductive Const where
  | int (n : Int)
  | float (r : String)
  | str (s : String)
  | bytes (r : String)
  | bool (b : Bool)
  | none
  | ellipsis
  | opaque (tag : String)
  deriving Repr, DecidableEq, Inhabited

/-- Kind of an `op` node (see the header for the wire encoding as a string). -/
inductive OpKind where
  | bin (name : String)                 -- BinOp: operator class name ("Add", "Sub", …)
  | un (name : String)                  -- UnaryOp: "USub", "UAdd", "Not", "Invert"
  | boolAnd
  | boolOr
  | cmp (ops : List String)             -- Compare: operator class names, one per comparator
  | ifExp
  | slice (lo hi step : Bool)           -- Slice: which of lower/upper/step are present
  | starred
  deriving Repr, DecidableEq, Inhabited

def unaryNames : List String := ["USub", "UAdd", "Not", "Invert"]

def OpKind.toString : OpKind → String
  | .bin n => n
  | .un n => n
  | .boolAnd => "And"
  | .boolOr => "Or"
  | .cmp ops => "Cmp:" ++ ",".intercalate ops
  | .ifExp => "IfExp"
  | .slice a b c => "Slice:" ++ (if a then "1" else "0") ++ (if b then "1" else "0") ++ (if c then "1" else "0")
  | .starred => "Starred"

def OpKind.ofString (s : String) : OpKind :=
  if s = "And" then .boolAnd
  else if s = "Or" then .boolOr
  else if s = "IfExp" then .ifExp
  else if s = "Starred" then .starred
  else if s ∈ unaryNames then .un s
  else if s.startsWith "Cmp:" then .cmp ((s.drop 4).toString.splitOn ",")
  else if s.startsWith "Slice:" then
    match (s.drop 6).toString.toList with
    | [a, b, c] => .slice (a == '1') (b == '1') (c == '1')
    | _ => .bin s
  else .bin s

inductive Expr where
  | name (id : String)
  | const (c : Const)
  | attr (v : Expr) (a : String)
  | call (f : Expr) (args : List Expr) (kwn : List String) (kwv : List Expr)
  | lam (ps : List String) (body : Expr)
  | sub (v : Expr) (s : Expr)
  | tuple (es : List Expr)
  | list (es : List Expr)
  | dict (ks : List Expr) (vs : List Expr)
  | op (k : OpKind) (args : List Expr)
  | comp (kind : String) (elt : Expr) (target : Expr) (iter : Expr) (ifs : List Expr) (isAsync : Bool)
  deriving Repr, Inhabited

/-- Function-call node `Name(f)(args)` with no keywords: Python `function_call`. -/
def fcall (f : String) (args : List Expr) : Expr := .call (.name f) args [] []

/-- Method-call node `v.m(args)` with no keywords. -/
def mcall (v : Expr) (m : String) (args : List Expr) : Expr := .call (.attr v m) args [] []

/-- no name occurs twice -/
def distinctS : List String → Bool
  | [] => true
  | s :: ss => !ss.contains s && distinctS ss

/-! ### size and the clean induction principle -/

mutual
def Expr.size : Expr → Nat
  | .name _ => 1
  | .const _ => 1
  | .attr v _ => v.size + 1
  | .call f args _ kwv => f.size + Expr.sizeL args + Expr.sizeL kwv + 1
  | .lam _ b => b.size + 1
  | .sub v s => v.size + s.size + 1
  | .tuple es => Expr.sizeL es + 1
  | .list es => Expr.sizeL es + 1
  | .dict ks vs => Expr.sizeL ks + Expr.sizeL vs + 1
  | .op _ args => Expr.sizeL args + 1
  | .comp _ e t i ifs _ => e.size + t.size + i.size + Expr.sizeL ifs + 1
def Expr.sizeL : List Expr → Nat
  | [] => 0
  | e :: es => e.size + Expr.sizeL es
end

/-! ### S-expressions: the wire format between the Python harness and the Lean driver -/

inductive SExpr where
  | atom (s : String)
  | str (s : String)
  | list (xs : List SExpr)
  deriving Repr, Inhabited

namespace SExpr

def hexDigit (n : Nat) : Char :=
  if n < 10 then Char.ofNat (48 + n) else Char.ofNat (87 + n)

def toHex (n : Nat) : String :=
  let rec go (fuel n : Nat) (acc : List Char) : List Char :=
    match fuel with
    | 0 => acc
    | fuel + 1 => if n < 16 then hexDigit n :: acc else go fuel (n / 16) (hexDigit (n % 16) :: acc)
  String.ofList (go 16 n [])

/-- Canonical string escaping: printable ASCII except `"` and `\` is literal, everything else is
    `\u{hex}`.  harness/sexpr.py implements the same function. -/
def escChar (c : Char) : String :=
  if c == '"' then "\\\"" else if c == '\\' then "\\\\"
  else if 32 ≤ c.toNat ∧ c.toNat < 127 then c.toString
  else "\\u{" ++ toHex c.toNat ++ "}"

def escape (s : String) : String :=
  s.foldl (fun acc c => acc ++ escChar c) ""

mutual
def render : SExpr → String
  | .atom s => s
  | .str s => "\"" ++ escape s ++ "\""
  | .list xs => "(" ++ renderL xs ++ ")"
def renderL : List SExpr → String
  | [] => ""
  | [x] => render x
  | x :: xs => render x ++ " " ++ renderL xs
end

/-! parser (driver only; `partial`, not used in any proof) -/

def hexVal (c : Char) : Nat :=
  if '0' ≤ c ∧ c ≤ '9' then c.toNat - 48
  else if 'a' ≤ c ∧ c ≤ 'f' then c.toNat - 87
  else if 'A' ≤ c ∧ c ≤ 'F' then c.toNat - 55 else 0

partial def parseStr (cs : List Char) (acc : List Char) : Option (String × List Char) :=
  match cs with
  | [] => none
  | '"' :: rest => some (String.ofList acc.reverse, rest)
  | '\\' :: '"' :: rest => parseStr rest ('"' :: acc)
  | '\\' :: '\\' :: rest => parseStr rest ('\\' :: acc)
  | '\\' :: 'u' :: '{' :: rest =>
    let rec hex (cs : List Char) (n : Nat) : Option (Nat × List Char) :=
      match cs with
      | '}' :: rest => some (n, rest)
      | c :: rest => hex rest (n * 16 + hexVal c)
      | [] => none
    match hex rest 0 with
    | some (n, rest) => parseStr rest (Char.ofNat n :: acc)
    | none => none
  | c :: rest => parseStr rest (c :: acc)

partial def parseAtom (cs : List Char) (acc : List Char) : String × List Char :=
  match cs with
  | [] => (String.ofList acc.reverse, [])
  | c :: rest =>
    if c == ' ' || c == '(' || c == ')' || c == '\n' || c == '\t' || c == '\r' then
      (String.ofList acc.reverse, cs)
    else parseAtom rest (c :: acc)

mutual
partial def parseOne (cs : List Char) : Option (SExpr × List Char) :=
  match cs with
  | [] => none
  | ' ' :: rest => parseOne rest
  | '\n' :: rest => parseOne rest
  | '\r' :: rest => parseOne rest
  | '\t' :: rest => parseOne rest
  | '(' :: rest => parseMany rest []
  | ')' :: _ => none
  | '"' :: rest =>
    match parseStr rest [] with
    | some (s, rest) => some (.str s, rest)
    | none => none
  | _ =>
    let (a, rest) := parseAtom cs []
    some (.atom a, rest)
partial def parseMany (cs : List Char) (acc : List SExpr) : Option (SExpr × List Char) :=
  match cs with
  | [] => none
  | ' ' :: rest => parseMany rest acc
  | '\n' :: rest => parseMany rest acc
  | '\r' :: rest => parseMany rest acc
  | '\t' :: rest => parseMany rest acc
  | ')' :: rest => some (.list acc.reverse, rest)
  | _ =>
    match parseOne cs with
    | some (x, rest) => parseMany rest (x :: acc)
    | none => none
end

def parse (s : String) : Option SExpr :=
  match parseOne s.toList with
  | some (x, _) => some x
  | none => none

end SExpr

/-! ### Expr ⇄ SExpr -/

open SExpr in
def Const.toSExpr : Const → SExpr
  | .int n => .list [.atom "int", .atom (toString n)]
  | .float r => .list [.atom "float", .str r]
  | .str s => .list [.atom "str", .str s]
  | .bytes r => .list [.atom "bytes", .str r]
  | .bool b => .list [.atom "bool", .atom (if b then "true" else "false")]
  | .none => .atom "none"
  | .ellipsis => .atom "ellipsis"
  | .opaque t => .list [.atom "opaque", .str t]

def Const.ofSExpr : SExpr → Option Const
  | .list [.atom "int", .atom n] => n.toInt?.map .int
  | .list [.atom "float", .str r] => some (.float r)
  | .list [.atom "str", .str s] => some (.str s)
  | .list [.atom "bytes", .str r] => some (.bytes r)
  | .list [.atom "bool", .atom "true"] => some (.bool true)
  | .list [.atom "bool", .atom "false"] => some (.bool false)
  | .atom "none" => some .none
  | .atom "ellipsis" => some .ellipsis
  | .list [.atom "opaque", .str t] => some (.opaque t)
  | _ => none

def strsToSExpr (xs : List String) : SExpr := .list (xs.map .str)

def strsOfSExpr : SExpr → Option (List String)
  | .list xs => xs.mapM (fun x => match x with | .str s => some s | _ => none)
  | _ => none

mutual
def Expr.toSExpr : Expr → SExpr
  | .name i => .list [.atom "name", .str i]
  | .const c => .list [.atom "const", c.toSExpr]
  | .attr v a => .list [.atom "attr", v.toSExpr, .str a]
  | .call f args kwn kwv =>
    .list [.atom "call", f.toSExpr, .list (Expr.toSExprL args), strsToSExpr kwn, .list (Expr.toSExprL kwv)]
  | .lam ps b => .list [.atom "lam", strsToSExpr ps, b.toSExpr]
  | .sub v s => .list [.atom "sub", v.toSExpr, s.toSExpr]
  | .tuple es => .list [.atom "tuple", .list (Expr.toSExprL es)]
  | .list es => .list [.atom "list", .list (Expr.toSExprL es)]
  | .dict ks vs => .list [.atom "dict", .list (Expr.toSExprL ks), .list (Expr.toSExprL vs)]
  | .op k args => .list [.atom "op", .str k.toString, .list (Expr.toSExprL args)]
  | .comp kind e t i ifs a =>
    .list [.atom "comp", .str kind, e.toSExpr, t.toSExpr, i.toSExpr, .list (Expr.toSExprL ifs),
           .atom (if a then "true" else "false")]
def Expr.toSExprL : List Expr → List SExpr
  | [] => []
  | e :: es => e.toSExpr :: Expr.toSExprL es
end

mutual
partial def Expr.ofSExpr : SExpr → Option Expr
  | .list [.atom "name", .str i] => some (.name i)
  | .list [.atom "const", c] => (Const.ofSExpr c).map .const
  | .list [.atom "attr", v, .str a] => do let v ← Expr.ofSExpr v; pure (.attr v a)
  | .list [.atom "call", f, .list args, kwn, .list kwv] => do
    let f ← Expr.ofSExpr f
    let args ← Expr.ofSExprL args
    let kwn ← strsOfSExpr kwn
    let kwv ← Expr.ofSExprL kwv
    pure (.call f args kwn kwv)
  | .list [.atom "lam", ps, b] => do
    let ps ← strsOfSExpr ps
    let b ← Expr.ofSExpr b
    pure (.lam ps b)
  | .list [.atom "sub", v, s] => do
    let v ← Expr.ofSExpr v
    let s ← Expr.ofSExpr s
    pure (.sub v s)
  | .list [.atom "tuple", .list es] => do pure (.tuple (← Expr.ofSExprL es))
  | .list [.atom "list", .list es] => do pure (.list (← Expr.ofSExprL es))
  | .list [.atom "dict", .list ks, .list vs] => do
    pure (.dict (← Expr.ofSExprL ks) (← Expr.ofSExprL vs))
  | .list [.atom "op", .str k, .list args] => do pure (.op (OpKind.ofString k) (← Expr.ofSExprL args))
  | .list [.atom "comp", .str kind, e, t, i, .list ifs, .atom a] => do
    pure (.comp kind (← Expr.ofSExpr e) (← Expr.ofSExpr t) (← Expr.ofSExpr i) (← Expr.ofSExprL ifs)
      (a == "true"))
  | _ => none
partial def Expr.ofSExprL : List SExpr → Option (List Expr)
  | [] => some []
  | x :: xs => do
    let e ← Expr.ofSExpr x
    let es ← Expr.ofSExprL xs
    pure (e :: es)
end

def Expr.render (e : Expr) : String := e.toSExpr.render

/-- Structural equality used by the driver (compares canonical renderings). -/
def Expr.eqb (a b : Expr) : Bool := a.render == b.render

end Fadl
