/-
  Deferred-execution ("LINQ") reading of the query semantics.

  Same expression semantics as Fadl/Sem.lean, except for sequences: `Select` never fails itself — an
  element whose computation fails becomes a `Val.poison` element that fails when, and only when, it is
  demanded; `First` and subscripting demand one element; `Where` and `SelectMany` demand every element of
  their source (they decide about each) but not the elements of the sequences they produce; `Count`,
  `len`, `Sum`, `Max`, `Min`, `Aggregate` and Python's own comprehensions demand all elements.  Anything that
  inspects a value as a whole - comparison, dictionary lookup, a function or method of the world - demands
  it completely.  A method of the world is only ever called on a record.
  This is the meaning under which the chained-call simplifier's rewrites
  (`f(First(s))  ⇒  First(Select(s, f))`, …) are value preserving, and the one the oracles of
  C02 / C14 / C18 / C01 evaluate with.
-/
import Fadl.Sem
namespace Fadl

mutual
/-- no deferred failure anywhere inside the value -/
def Val.clean : Val → Bool
  | .poison _ => false
  | .tuple vs => Val.cleanL vs
  | .list vs => Val.cleanL vs
  | .dict ks vs => Val.cleanL ks && Val.cleanL vs
  | .obj _ _ fvs => Val.cleanL fvs
  | _ => true
def Val.cleanL : List Val → Bool
  | [] => true
  | v :: vs => v.clean && Val.cleanL vs
end

def uncleanErr : EErr := .type "deferred failure inside a value that is inspected as a whole"

def getIndexLz (vs : List Val) (i : Int) : Res :=
  let n : Int := vs.length
  let j := if i < 0 then i + n else i
  if j < 0 ∨ j ≥ n then .error .index
  else match vs[j.toNat]? with
    | some v => force v
    | Option.none => .error .index

/-- subscripting: a list element is demanded; a dictionary is searched only when the key and the dictionary's
    keys contain no deferred failure (comparing would demand it) -/
def subscriptLz (v s : Val) : Res :=
  match v, s with
  | .list vs, .slice lo hi st => (getSlice vs lo hi st).map .list
  | .list vs, s => match asInt s with
    | some i => getIndexLz vs i
    | Option.none => .error (.type "list index")
  | .dict ks vs, k => if k.clean && Val.cleanL ks then subscript (.dict ks vs) k else .error uncleanErr
  | v, s => subscript v s

def getAttrLz (v : Val) (a : String) : Res :=
  match v with
  | .dict ks _ => if Val.cleanL ks then getAttr v a else .error uncleanErr
  | _ => getAttr v a

def mkDictLz (ks vs : List Val) : Res := if Val.cleanL ks then mkDict ks vs else .error uncleanErr

/-- comparison demands both operands completely -/
def cmpOneLz (o : String) (a b : Val) : Except EErr Bool :=
  if a.clean && b.clean then cmpOne o a b else .error uncleanErr

def cmpChainLz : Val → List String → List Res → Res
  | _, [], _ => .ok (.bool true)
  | _, _ :: _, [] => .error .arity
  | l, o :: os, r :: rs => do
    let rv ← r
    let b ← cmpOneLz o l rv
    if b then
      (match os with
       | [] => .ok (.bool true)
       | _ => cmpChainLz rv os rs)
    else .ok (.bool false)

def evOpLz : OpKind → List Res → Res
  | .cmp ops, l :: rest => do let lv ← l; cmpChainLz lv ops rest
  | k, rs => evOp k rs

/-- operators that consume the whole sequence (`First` only its first element) -/
def seqOp1Lz (n : String) (vs : List Val) : Res :=
  if n = "First" then (match vs with | v :: _ => force v | [] => .error .index)
  else do
    let xs ← forceAll vs
    seqOp1 n xs

/-- `Where` decides about every element: it demands each one and the predicate on it -/
def whereLz (f : Val → Res) : List Val → Except EErr (List Val)
  | [] => .ok []
  | v :: vs => do
    let x ← force v
    let b ← f x
    let rest ← whereLz f vs
    pure (if truthy b then x :: rest else rest)

/-- `SelectMany` needs every inner sequence (not their elements) -/
def manyLz (f : Val → Res) : List Val → Except EErr (List Val)
  | [] => .ok []
  | v :: vs => do
    let x ← force v
    let r ← f x
    let inner ← asSeq r
    let rest ← manyLz f vs
    pure (inner ++ rest)

/-- the deferred-execution operators: `Select` maps lazily (a failing element is a deferred failure) -/
def seqOp2Lz (n : String) (f : Val → Res) (vs : List Val) : Res :=
  if n = "Select" then .ok (.list (vs.map (fun v => lazyElem (force v >>= f))))
  else if n = "Where" then (whereLz f vs).map .list
  else if n = "SelectMany" then (manyLz f vs).map .list
  else .error .arity

def fnCallLz (w : World) (n : String) (args : List Den) (lamsTail : List LamD)
    (kwn : List String) (kwv : List Den) : Den := fun env =>
  if n ∈ builtinOps then
    match args, lamsTail with
    | [src], _ => do
      let vs ← asSeq (← src env)
      seqOp1Lz n vs
    | [src, _], [lam] => do
      let vs ← asSeq (← src env)
      seqOp2Lz n (applyLam1 lam env) vs
    | [src, init, _], [_, lam] =>
      if n = "Aggregate" then do
        let vs ← asSeq (← src env)
        let xs ← forceAll vs
        let i ← init env
        foldM' (applyLam2 lam env) i xs
      else .error .arity
    | _, _ => .error .arity
  else do
    let vs ← evalAll args env
    let kvs ← evalAll kwv env
    if Val.cleanL vs && Val.cleanL kvs then w.func n vs kwn kvs else .error uncleanErr

/-- functions and methods of the world are strict: they receive complete values; only records have methods -/
def callSemLz (w : World) (h : Head) (args : List Den) (lams : List LamD)
    (kwn : List String) (kwv : List Den) : Den :=
  match h with
  | .fn n => fnCallLz w n args lams.tail kwn kwv
  | .meth recv m =>
    if m ∈ opNames then fnCallLz w m (recv :: args) lams kwn kwv
    else fun env => do
      let r ← recv env
      let vs ← evalAll args env
      let kvs ← evalAll kwv env
      match r with
      | .obj _ _ _ =>
        if r.clean && Val.cleanL vs && Val.cleanL kvs then w.method m r vs kwn kvs else .error uncleanErr
      | _ => .error (.type "method call on something that is not a record")
  | .lamH ps body => fun env => do
    let vs ← evalAll args env
    let kvs ← evalAll kwv env
    let env' ← bindParams ps vs kwn kvs env
    body env'
  | .other => fun _ => .error (.unsupported "callee is not a name, attribute or lambda")

def compSemLz (target : Option String) (elt iter : Den) (ifs : List Den) (isAsync : Bool) : Den := fun env =>
  match target, isAsync with
  | some x, false => do
    let vs0 ← asSeq (← iter env)
    let vs ← forceAll vs0
    let keep ← filterMB (fun v => condsHold (ifs.map (· (env.upd x v)))) vs
    let rs ← mapRes (fun v => elt (env.upd x v)) keep
    pure (.list rs)
  | _, _ => .error (.unsupported "comprehension form")

mutual
def denLz (w : World) : Expr → Den
  | .name x => fun env => match env x with
    | some v => .ok v
    | Option.none => .error (.unbound x)
  | .const c => fun _ => constVal c
  | .attr v a => fun env => do let x ← denLz w v env; getAttrLz x a
  | .call f args kwn kwv =>
    callSemLz w (denHeadLz w f) (denLLz w args) (denLamLLz w args) kwn (denLLz w kwv)
  | .lam _ _ => fun _ => .error (.unsupported "lambda as a value")
  | .sub v s => fun env => do
    let x ← denLz w v env
    let i ← denLz w s env
    subscriptLz x i
  | .tuple es => fun env => do let vs ← evalAll (denLLz w es) env; pure (.tuple vs)
  | .list es => fun env => do let vs ← evalAll (denLLz w es) env; pure (.list vs)
  | .dict ks vs => fun env => do
    let kv ← evalAll (denLLz w ks) env
    let vv ← evalAll (denLLz w vs) env
    if kv.length = vv.length then mkDictLz kv vv else .error .arity
  | .op k args => fun env => evOpLz k ((denLLz w args).map (· env))
  | .comp _ e t i ifs a => compSemLz (targetName t) (denLz w e) (denLz w i) (denLLz w ifs) a
def denLLz (w : World) : List Expr → List Den
  | [] => []
  | e :: es => denLz w e :: denLLz w es
def denLamLLz (w : World) : List Expr → List LamD
  | [] => []
  | e :: es => denLamLz w e :: denLamLLz w es
def denLamLz (w : World) : Expr → LamD
  | .lam ps b => some (ps, denLz w b)
  | _ => Option.none
def denHeadLz (w : World) : Expr → Head
  | .name n => .fn n
  | .attr v m => .meth (denLz w v) m
  | .lam ps b => .lamH ps (denLz w b)
  | _ => .other
end

/-- `evLz w env e` : the value of query `e` under deferred execution. -/
def evLz (w : World) (env : Env) (e : Expr) : Res := denLz w e env


end Fadl
