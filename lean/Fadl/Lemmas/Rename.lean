/-
  Alpha-renaming: `renameNames m e` (func_adl's `replace_args` visitor, used by make_args_unique) evaluated in
  an environment that binds the new names as the old environment bound the old ones gives the same result,
  provided no new name is captured by a binder inside `e`.
-/
import Fadl.Model.Simplify
import Fadl.Lemmas.Coincide
import Fadl.Lemmas.MonoLz
namespace Fadl
set_option linter.unusedSimpArgs false

mutual
/-- every name bound inside the expression (lambda parameters, comprehension targets) -/
def bindersOf : Expr → List String
  | .name _ => []
  | .const _ => []
  | .attr v _ => bindersOf v
  | .call f args _ kwv => bindersOf f ++ bindersOfL args ++ bindersOfL kwv
  | .lam ps b => ps ++ bindersOf b
  | .sub v s => bindersOf v ++ bindersOf s
  | .tuple es => bindersOfL es
  | .list es => bindersOfL es
  | .dict ks vs => bindersOfL ks ++ bindersOfL vs
  | .op _ args => bindersOfL args
  | .comp _ e t i ifs _ => targetNames t ++ bindersOf e ++ bindersOf t ++ bindersOf i ++ bindersOfL ifs
def bindersOfL : List Expr → List String
  | [] => []
  | e :: es => bindersOf e ++ bindersOfL es
end

mutual
def noComp : Expr → Bool
  | .name _ => true
  | .const _ => true
  | .attr v _ => noComp v
  | .call f args _ kwv => noComp f && noCompL args && noCompL kwv
  | .lam _ b => noComp b
  | .sub v s => noComp v && noComp s
  | .tuple es => noCompL es
  | .list es => noCompL es
  | .dict ks vs => noCompL ks && noCompL vs
  | .op _ args => noCompL args
  | .comp .. => false
def noCompL : List Expr → Bool
  | [] => true
  | e :: es => noComp e && noCompL es
end

/-- the name `x` is given by the renaming `m` -/
def renM (m : List (String × String)) (x : String) : String := (renGet x m).getD x

theorem renGet_self_prefix (x : String) (m : List (String × String)) : ∀ (l : List String),
    renGet x (l.map (fun p => (p, p)) ++ m) = if x ∈ l then some x else renGet x m
  | [] => by simp
  | p :: l => by
    simp only [List.map_cons, List.cons_append, renGet, renGet_self_prefix x m l]
    by_cases hx : p = x
    · subst hx; simp
    · have hx' : ¬ x = p := fun h => hx h.symm
      simp [hx, hx']

theorem renM_self_prefix (ps : List String) (m : List (String × String)) (x : String) :
    renM (ps.reverse.map (fun p => (p, p)) ++ m) x = if x ∈ ps then x else renM m x := by
  simp only [renM, renGet_self_prefix]
  by_cases hx : x ∈ ps <;> simp [hx]

mutual
/-- names used as the callee of a call -/
def headNames : Expr → List String
  | .name _ => []
  | .const _ => []
  | .attr v _ => headNames v
  | .call f args _ kwv => (match f with | .name n => [n] | _ => []) ++ headNames f ++ headNamesL args ++ headNamesL kwv
  | .lam _ b => headNames b
  | .sub v s => headNames v ++ headNames s
  | .tuple es => headNamesL es
  | .list es => headNamesL es
  | .dict ks vs => headNamesL ks ++ headNamesL vs
  | .op _ args => headNamesL args
  | .comp _ e t i ifs _ => headNames e ++ headNames t ++ headNames i ++ headNamesL ifs
def headNamesL : List Expr → List String
  | [] => []
  | e :: es => headNames e ++ headNamesL es
end

theorem freeNames_not_bound_both :
    (∀ e : Expr, ∀ bound x, x ∈ freeNames bound e → x ∉ bound) ∧
    (∀ es : List Expr, ∀ bound x, x ∈ freeNamesL bound es → x ∉ bound) := by
  apply Expr.size.mutual_induct
    (motive_1 := fun e => ∀ bound x, x ∈ freeNames bound e → x ∉ bound)
    (motive_2 := fun es => ∀ bound x, x ∈ freeNamesL bound es → x ∉ bound)
  case case1 =>
    intro y bound x hx
    simp only [freeNames] at hx
    split at hx
    · simp at hx
    · rename_i hc; simp only [List.mem_singleton] at hx; subst hx; simpa using hc
  case case2 => intro c bound x hx; simp [freeNames] at hx
  case case3 => intro v a ih bound x hx; exact ih bound x (by simpa [freeNames] using hx)
  case case4 =>
    intro f args kwn kwv ihf iha ihk bound x hx
    simp only [freeNames, List.mem_append] at hx
    rcases hx with (hx | hx) | hx
    · exact ihf bound x hx
    · exact iha bound x hx
    · exact ihk bound x hx
  case case5 =>
    intro ps b ih bound x hx
    simp only [freeNames] at hx
    have := ih (ps ++ bound) x hx
    exact fun h => this (List.mem_append_right _ h)
  case case6 =>
    intro v s ihv ihs bound x hx
    simp only [freeNames, List.mem_append] at hx
    rcases hx with hx | hx
    · exact ihv bound x hx
    · exact ihs bound x hx
  case case7 => intro es ih bound x hx; exact ih bound x (by simpa [freeNames] using hx)
  case case8 => intro es ih bound x hx; exact ih bound x (by simpa [freeNames] using hx)
  case case9 =>
    intro ks vs ihk ihv bound x hx
    simp only [freeNames, List.mem_append] at hx
    rcases hx with hx | hx
    · exact ihk bound x hx
    · exact ihv bound x hx
  case case10 => intro k args ih bound x hx; exact ih bound x (by simpa [freeNames] using hx)
  case case11 =>
    intro kind el t i ifs a ihe _ iht ihifs bound x hx
    simp only [freeNames, List.mem_append] at hx
    rcases hx with (hx | hx) | hx
    · have := ihe _ x hx; exact fun h => this (List.mem_append_right _ h)
    · exact iht bound x hx
    · have := ihifs _ x hx; exact fun h => this (List.mem_append_right _ h)
  case case12 => intro bound x hx; simp [freeNamesL] at hx
  case case13 =>
    intro e es ihe ihes bound x hx
    simp only [freeNamesL, List.mem_append] at hx
    rcases hx with hx | hx
    · exact ihe bound x hx
    · exact ihes bound x hx

theorem freeNames_not_bound {e : Expr} {bound : List String} {x : String} (h : x ∈ freeNames bound e) : x ∉ bound :=
  freeNames_not_bound_both.1 e bound x h

theorem bindPos_frame : ∀ (ps : List String) (vs : List Val) (env env2 : Env) (rest : List String),
    bindPos env ps vs = .ok (env2, rest) → ∀ y, y ∉ ps → env2 y = env y
  | ps, [], env, env2, rest, h, y, _ => by simp [bindPos] at h; rw [h.1]
  | [], _ :: _, env, env2, rest, h, y, _ => by simp [bindPos] at h
  | p :: ps, v :: vs, env, env2, rest, h, y, hy => by
    simp only [bindPos] at h
    have := bindPos_frame ps vs _ env2 rest h y (fun hh => hy (List.mem_cons_of_mem _ hh))
    rw [this]
    simp only [Env.upd]
    have : y ≠ p := fun hh => hy (by simp [hh])
    simp [this]

theorem bindPos_rest_sub : ∀ (ps : List String) (vs : List Val) (env env2 : Env) (rest : List String),
    bindPos env ps vs = .ok (env2, rest) → ∀ y ∈ rest, y ∈ ps
  | ps, [], env, env2, rest, h, y, hy => by simp [bindPos] at h; rw [← h.2] at hy; exact hy
  | [], _ :: _, env, env2, rest, h, y, _ => by simp [bindPos] at h
  | p :: ps, v :: vs, env, env2, rest, h, y, hy => by
    simp only [bindPos] at h
    exact List.mem_cons_of_mem _ (bindPos_rest_sub ps vs _ env2 rest h y hy)

theorem bindKw_frame : ∀ (ks : List String) (vs : List Val) (ps : List String) (env env2 : Env) (rest : List String),
    bindKw ps env ks vs = .ok (env2, rest) → ∀ y, y ∉ ps → env2 y = env y
  | [], [], ps, env, env2, rest, h, y, _ => by simp [bindKw] at h; rw [h.1]
  | [], _ :: _, ps, env, env2, rest, h, y, _ => by simp [bindKw] at h
  | _ :: _, [], ps, env, env2, rest, h, y, _ => by simp [bindKw] at h
  | k :: ks, v :: vs, ps, env, env2, rest, h, y, hy => by
    simp only [bindKw] at h
    by_cases hk : k ∈ ps
    · simp only [hk, if_true] at h
      have := bindKw_frame ks vs (ps.erase k) _ env2 rest h y (fun hh => hy (List.mem_of_mem_erase hh))
      rw [this]
      simp only [Env.upd]
      have : y ≠ k := fun hh => hy (hh ▸ hk)
      simp [this]
    · simp [hk] at h

theorem bindParams_frame (ps : List String) (vs : List Val) (kwn : List String) (kvs : List Val) (env env2 : Env)
    (h : bindParams ps vs kwn kvs env = .ok env2) : ∀ y, y ∉ ps → env2 y = env y := by
  intro y hy
  unfold bindParams at h
  rcases (Bool.eq_false_or_eq_true (distinctS ps)).symm with hd | hd
  · simp [hd] at h
  · simp only [hd, Bool.not_true, Bool.false_eq_true, if_false] at h
    cases h1 : bindPos env ps vs with
    | error e => simp [h1, bind, Except.bind] at h
    | ok r1 =>
      obtain ⟨env1, rest⟩ := r1
      simp only [h1, bind, Except.bind] at h
      cases h2 : bindKw rest env1 kwn kvs with
      | error e => simp [h2] at h
      | ok r2 =>
        obtain ⟨env2a, rest2⟩ := r2
        simp only [h2] at h
        by_cases hr : rest2.isEmpty
        · simp only [hr, if_true, pure, Except.pure, Except.ok.injEq] at h
          subst h
          rw [bindKw_frame kwn kvs rest env1 _ rest2 h2 y (fun hh => hy (bindPos_rest_sub ps vs env env1 rest h1 y hh)),
            bindPos_frame ps vs env env1 rest h1 y hy]
        · simp [hr] at h


/-- the environment of the renamed expression binds the new names to refinements of what the old names held -/
def EnvMap (env env' : Env) (x y : String) : Prop := ∀ v, env x = some v → ∃ v', env' y = some v' ∧ VLe v v'

theorem EnvMap.upd_same {env env' : Env} (p : String) {v v' : Val} (hv : VLe v v') : EnvMap (env.upd p v) (env'.upd p v') p p := by
  intro u hu
  simp only [Env.upd, if_true, Option.some.injEq] at hu ⊢
  subst hu; exact ⟨v', rfl, hv⟩

theorem EnvMap.upd_other {env env' : Env} {x y : String} (h : EnvMap env env' x y) (p : String) (v v' : Val)
    (hx : x ≠ p) (hy : y ≠ p) : EnvMap (env.upd p v) (env'.upd p v') x y := by
  intro u hu
  simp only [Env.upd, hx, hy, if_false] at hu ⊢
  exact h u hu

/-- **Renaming lemma**: the renamed expression, in a (well-formed) environment that binds the new names to
    (refinements of) what the old names held, refines the original. -/
theorem rename_le_both (w : World) (hw : WorldOK w) :
    (∀ e : Expr, noComp e = true → ∀ (bound : List String) (m : List (String × String)) (env env' : Env),
        EnvLe env' env' →
        (∀ x ∈ freeNames bound e, EnvMap env env' x (renM m x) ∧ (renM m x = x ∨ renM m x ∉ bindersOf e)) →
        (∀ x ∈ bound, renM m x = x ∧ EnvMap env env' x x) →
        (∀ x ∈ headNames e, renM m x = x) →
        RLe (denLz w e env) (denLz w (renameNames m e) env') ∧
        ((∀ x, e = .name x → renM m x = x) → HeadRel env env' (denHeadLz w e) (denHeadLz w (renameNames m e))) ∧
        LamRel env env' (denLamLz w e) (denLamLz w (renameNames m e))) ∧
    (∀ es : List Expr, noCompL es = true → ∀ (bound : List String) (m : List (String × String)) (env env' : Env),
        EnvLe env' env' →
        (∀ x ∈ freeNamesL bound es, EnvMap env env' x (renM m x) ∧ (renM m x = x ∨ renM m x ∉ bindersOfL es)) →
        (∀ x ∈ bound, renM m x = x ∧ EnvMap env env' x x) →
        (∀ x ∈ headNamesL es, renM m x = x) →
        All2 (DRel env env') (denLLz w es) (denLLz w (renameNamesL m es)) ∧
        All2 (LamRel env env') (denLamLLz w es) (denLamLLz w (renameNamesL m es))) := by
  have self1 : ∀ (e : Expr) (E : Env), EnvLe E E → RLe (denLz w e E) (denLz w e E) :=
    fun e E hE => denLz_mono w hw e E E hE hE
  have selfL : ∀ (e : Expr) (E : Env), EnvLe E E → LamRel E E (denLamLz w e) (denLamLz w e) :=
    fun e E hE => ((denLz_mono_both w hw).1 e E E hE hE).2.2
  apply Expr.size.mutual_induct
    (motive_1 := fun e => noComp e = true → ∀ (bound : List String) (m : List (String × String)) (env env' : Env),
        EnvLe env' env' →
        (∀ x ∈ freeNames bound e, EnvMap env env' x (renM m x) ∧ (renM m x = x ∨ renM m x ∉ bindersOf e)) →
        (∀ x ∈ bound, renM m x = x ∧ EnvMap env env' x x) →
        (∀ x ∈ headNames e, renM m x = x) →
        RLe (denLz w e env) (denLz w (renameNames m e) env') ∧
        ((∀ x, e = .name x → renM m x = x) → HeadRel env env' (denHeadLz w e) (denHeadLz w (renameNames m e))) ∧
        LamRel env env' (denLamLz w e) (denLamLz w (renameNames m e)))
    (motive_2 := fun es => noCompL es = true → ∀ (bound : List String) (m : List (String × String)) (env env' : Env),
        EnvLe env' env' →
        (∀ x ∈ freeNamesL bound es, EnvMap env env' x (renM m x) ∧ (renM m x = x ∨ renM m x ∉ bindersOfL es)) →
        (∀ x ∈ bound, renM m x = x ∧ EnvMap env env' x x) →
        (∀ x ∈ headNamesL es, renM m x = x) →
        All2 (DRel env env') (denLLz w es) (denLLz w (renameNamesL m es)) ∧
        All2 (LamRel env env') (denLamLLz w es) (denLamLLz w (renameNamesL m es)))
  case case1 =>
    intro x _ bound m env env' he' hf hb _
    have hx : EnvMap env env' x (renM m x) := by
      by_cases hc : bound.contains x
      · have := hb x (by simpa using hc); rw [this.1]; exact this.2
      · exact (hf x (by simp only [freeNames, hc]; simp)).1
    have hren : renameNames m (.name x) = .name (renM m x) := by
      simp only [renameNames, renM]
      cases renGet x m <;> rfl
    rw [hren]
    refine ⟨?_, ?_, lamRel_none_none _ _⟩
    · intro v hv
      simp only [denLz] at hv ⊢
      cases hxe : env x with
      | none => simp [hxe] at hv
      | some u =>
        simp only [hxe, Except.ok.injEq] at hv; subst hv
        obtain ⟨u', hu', huu⟩ := hx u hxe
        exact ⟨u', by simp [hu'], huu⟩
    · intro hh
      simp only [denHeadLz, HeadRel]
      exact (hh x rfl).symm
  case case2 =>
    intro c _ bound m env env' _ _ _ _
    simp only [renameNames]
    exact ⟨RLe.refl_of_ok (fun v h => constVal_wf c v h), fun _ => by simp [denHeadLz, HeadRel], lamRel_none_none _ _⟩
  case case3 =>
    intro v a ih hn bound m env env' he' hf hb hh
    simp only [noComp] at hn
    have h := (ih hn bound m env env' he' (by simpa [freeNames, bindersOf] using hf) hb (by simpa [headNames] using hh)).1
    simp only [renameNames]
    refine ⟨?_, fun _ => by simp only [denHeadLz, HeadRel, true_and]; exact ⟨h, self1 _ _ he'⟩, lamRel_none_none _ _⟩
    simp only [denLz]
    exact RLe.bind h (fun x x' hx => getAttrLz_mono a hx)
  case case4 =>
    intro f args kwn kwv ihf iha ihk hn bound m env env' he' hf hb hh
    simp only [noComp, Bool.and_eq_true] at hn
    simp only [freeNames, bindersOf, List.mem_append, not_or] at hf
    simp only [headNames, List.mem_append] at hh
    have h1 := ihf hn.1.1 bound m env env' he' (fun x hx => ⟨(hf x (Or.inl (Or.inl hx))).1, (hf x (Or.inl (Or.inl hx))).2.imp_right (fun h => h.1.1)⟩) hb
      (fun x hx => hh x (Or.inl (Or.inl (Or.inr hx))))
    have h2 := iha hn.1.2 bound m env env' he' (fun x hx => ⟨(hf x (Or.inl (Or.inr hx))).1, (hf x (Or.inl (Or.inr hx))).2.imp_right (fun h => h.1.2)⟩) hb
      (fun x hx => hh x (Or.inl (Or.inr hx)))
    have h3 := ihk hn.2 bound m env env' he' (fun x hx => ⟨(hf x (Or.inr hx)).1, (hf x (Or.inr hx)).2.imp_right (fun h => h.2)⟩) hb
      (fun x hx => hh x (Or.inr hx))
    simp only [renameNames]
    refine ⟨?_, fun _ => by simp [denHeadLz, HeadRel], lamRel_none_none _ _⟩
    simp only [denLz]
    refine callSemLz_rel w hw kwn (h1.2.1 ?_) h2.1 h2.2 h3.1
    intro x hx
    subst hx
    exact hh x (Or.inl (Or.inl (Or.inl (by simp))))
  case case5 =>
    intro ps b ih hn bound m env env' he' hf hb hh
    simp only [noComp] at hn
    simp only [freeNames, bindersOf, List.mem_append, not_or] at hf
    simp only [headNames] at hh
    simp only [renameNames]
    -- the body, with the parameters bound on both sides
    have body : ∀ (e2 e2' : Env), EnvLe e2' e2' →
        (∀ p ∈ ps, EnvMap e2 e2' p p) →
        (∀ x, x ∉ ps → e2 x = env x) → (∀ y, y ∉ ps → e2' y = env' y) →
        RLe (denLz w b e2) (denLz w (renameNames (ps.reverse.map (fun p => (p, p)) ++ m) b) e2') := by
      intro e2 e2' he2' hps h2 h2'
      refine (ih hn (ps ++ bound) _ e2 e2' he2' ?_ ?_ ?_).1
      · intro x hx
        have hxb := freeNames_not_bound hx
        have hxps : x ∉ ps := fun h => hxb (List.mem_append_left _ h)
        rw [renM_self_prefix]
        simp only [hxps, if_false]
        have := hf x hx
        have hnps : renM m x ∉ ps := by
          rcases this.2 with h | h
          · rw [h]; exact hxps
          · exact h.1
        refine ⟨?_, this.2.imp_right (fun h => h.2)⟩
        intro v hv
        rw [h2 x hxps] at hv
        rw [h2' _ hnps]
        exact this.1 v hv
      · intro x hx
        rw [renM_self_prefix]
        rcases List.mem_append.mp hx with hx | hx
        · simp only [hx, if_true, true_and]; exact hps x hx
        · by_cases hxps : x ∈ ps
          · simp only [hxps, if_true, true_and]; exact hps x hxps
          · simp only [hxps, if_false]
            refine ⟨(hb x hx).1, ?_⟩
            intro v hv
            rw [h2 x hxps] at hv
            rw [h2' x hxps]
            exact (hb x hx).2 v hv
      · intro x hx
        rw [renM_self_prefix]
        by_cases hxps : x ∈ ps
        · simp [hxps]
        · simp only [hxps, if_false]; exact hh x hx
    have hself := selfL (.lam ps (renameNames (ps.reverse.map (fun p => (p, p)) ++ m) b)) env' he'
    simp only [denLamLz] at hself
    refine ⟨RLe.error _ _, fun _ => ?_, ?_⟩
    · simp only [denHeadLz, HeadRel]
      intro vs vs' kwn kvs kvs' hv hv' hk hk'
      intro out ho
      cases hbp : bindParams ps vs kwn kvs env with
      | error e => rw [hbp] at ho; cases ho
      | ok env2 =>
        rw [hbp] at ho
        have key : ∃ env2', bindParams ps vs' kwn kvs' env' = .ok env2' ∧ EnvLe env2' env2' ∧
            (∀ p ∈ ps, EnvMap env2 env2' p p) ∧ (∀ y, y ∉ ps → env2' y = env' y) := by
          -- binding does not look at the environment: go through the empty one, where refinement applies
          obtain ⟨_, a2⟩ := bindParams_agree ps vs kwn kvs env Env.empty
          obtain ⟨e0, he0, _, hps0⟩ := a2 env2 hbp
          have hle0 : EnvLe Env.empty Env.empty := by intro x v h; simp [Env.empty] at h
          obtain ⟨e0', he0', hle⟩ := bindParams_rel ps kwn hle0 hv hk e0 he0
          obtain ⟨_, b2⟩ := bindParams_agree ps vs' kwn kvs' Env.empty env'
          obtain ⟨env2', h2', _, hps2⟩ := b2 e0' he0'
          obtain ⟨env2'', h2'', hle2⟩ := bindParams_rel ps kwn he' hv' hk' env2' h2'
          have : env2'' = env2' := by rw [h2'] at h2''; cases h2''; rfl
          subst this
          refine ⟨env2'', h2', hle2, ?_, bindParams_frame ps vs' kwn kvs' env' env2'' h2'⟩
          intro p hp u hu
          rw [hps0 p hp] at hu
          obtain ⟨u', hu', huu⟩ := hle p u hu
          exact ⟨u', by rw [← hps2 p hp]; exact hu', huu⟩
        obtain ⟨env2', hb', hle2, hps, hfr'⟩ := key
        rw [hb']
        exact body env2 env2' hle2 hps (bindParams_frame ps vs kwn kvs env env2 hbp) hfr' out ho
    · simp only [denLamLz]
      refine ⟨?_, hself.1, ?_, hself.2.2.1⟩
      · intro v v' hv hv'
        match ps with
        | [x] =>
          simp only [applyLam1]
          apply body
          · exact he'.upd x hv'
          · intro p hp; simp only [List.mem_singleton] at hp; subst hp; exact EnvMap.upd_same p hv
          · intro y hy; simp only [List.mem_singleton] at hy; simp [Env.upd, hy]
          · intro y hy; simp only [List.mem_singleton] at hy; simp [Env.upd, hy]
        | [] => exact RLe.error _ _
        | _ :: _ :: _ => exact RLe.error _ _
      · intro a a' v v' ha ha' hv hv'
        match ps with
        | [x, y] =>
          simp only [applyLam2]
          split
          · exact RLe.error _ _
          · rename_i hxy
            apply body
            · exact (he'.upd x ha').upd y hv'
            · intro p hp
              simp only [List.mem_cons, List.not_mem_nil, or_false] at hp
              by_cases hpy : p = y
              · subst hpy; exact EnvMap.upd_same p hv
              · rcases hp with rfl | rfl
                · exact (EnvMap.upd_same p ha).upd_other y v v' hpy hpy
                · exact absurd rfl hpy
            · intro z hz
              simp only [List.mem_cons, List.not_mem_nil, or_false, not_or] at hz
              simp [Env.upd, hz.1, hz.2]
            · intro z hz
              simp only [List.mem_cons, List.not_mem_nil, or_false, not_or] at hz
              simp [Env.upd, hz.1, hz.2]
        | [] => exact RLe.error _ _
        | [_] => exact RLe.error _ _
        | _ :: _ :: _ :: _ => exact RLe.error _ _
  case case6 =>
    intro v s ihv ihs hn bound m env env' he' hf hb hh
    simp only [noComp, Bool.and_eq_true] at hn
    simp only [freeNames, bindersOf, List.mem_append, not_or] at hf
    simp only [headNames, List.mem_append] at hh
    have h1 := (ihv hn.1 bound m env env' he' (fun x hx => ⟨(hf x (Or.inl hx)).1, (hf x (Or.inl hx)).2.imp_right (fun h => h.1)⟩) hb (fun x hx => hh x (Or.inl hx))).1
    have h2 := (ihs hn.2 bound m env env' he' (fun x hx => ⟨(hf x (Or.inr hx)).1, (hf x (Or.inr hx)).2.imp_right (fun h => h.2)⟩) hb (fun x hx => hh x (Or.inr hx))).1
    simp only [renameNames]
    refine ⟨?_, fun _ => by simp [denHeadLz, HeadRel], lamRel_none_none _ _⟩
    simp only [denLz]
    exact RLe.bind h1 (fun x x' hx => RLe.bind h2 (fun i i' hi => subscriptLz_mono hx hi))
  case case7 =>
    intro es ih hn bound m env env' he' hf hb hh
    simp only [noComp] at hn
    have h := (ih hn bound m env env' he' (by simpa [freeNames, bindersOf] using hf) hb (by simpa [headNames] using hh)).1
    simp only [renameNames]
    refine ⟨?_, fun _ => by simp [denHeadLz, HeadRel], lamRel_none_none _ _⟩
    simp only [denLz]
    apply RLeS.bindR (evalAll_rel h) (evalAll_rel_self h)
    intro vs vs' hv _ out ho
    cases ho
    exact ⟨.tuple vs', rfl, by simpa [VLe] using hv⟩
  case case8 =>
    intro es ih hn bound m env env' he' hf hb hh
    simp only [noComp] at hn
    have h := (ih hn bound m env env' he' (by simpa [freeNames, bindersOf] using hf) hb (by simpa [headNames] using hh)).1
    simp only [renameNames]
    refine ⟨?_, fun _ => by simp [denHeadLz, HeadRel], lamRel_none_none _ _⟩
    simp only [denLz]
    apply RLeS.bindR (evalAll_rel h) (evalAll_rel_self h)
    intro vs vs' hv _ out ho
    cases ho
    exact ⟨.list vs', rfl, by simp only [VLe]; exact hv.toL⟩
  case case9 =>
    intro ks vs ihk ihv hn bound m env env' he' hf hb hh
    simp only [noComp, Bool.and_eq_true] at hn
    simp only [freeNames, bindersOf, List.mem_append, not_or] at hf
    simp only [headNames, List.mem_append] at hh
    have h1 := (ihk hn.1 bound m env env' he' (fun x hx => ⟨(hf x (Or.inl hx)).1, (hf x (Or.inl hx)).2.imp_right (fun h => h.1)⟩) hb (fun x hx => hh x (Or.inl hx))).1
    have h2 := (ihv hn.2 bound m env env' he' (fun x hx => ⟨(hf x (Or.inr hx)).1, (hf x (Or.inr hx)).2.imp_right (fun h => h.2)⟩) hb (fun x hx => hh x (Or.inr hx))).1
    simp only [renameNames]
    refine ⟨?_, fun _ => by simp [denHeadLz, HeadRel], lamRel_none_none _ _⟩
    simp only [denLz]
    apply RLeS.bindR (evalAll_rel h1) (evalAll_rel_self h1)
    intro kv kv' hkv _
    apply RLeS.bindR (evalAll_rel h2) (evalAll_rel_self h2)
    intro vv vv' hvv _
    rw [← VLeS.length hkv, ← VLeS.length hvv]
    split
    · exact mkDictLz_mono hkv hvv
    · exact RLe.error _ _
  case case10 =>
    intro k args ih hn bound m env env' he' hf hb hh
    simp only [noComp] at hn
    have h := (ih hn bound m env env' he' (by simpa [freeNames, bindersOf] using hf) hb (by simpa [headNames] using hh)).1
    simp only [renameNames]
    refine ⟨?_, fun _ => by simp [denHeadLz, HeadRel], lamRel_none_none _ _⟩
    simp only [denLz]
    exact evOpLz_mono k (All2_map_env h)
  case case11 =>
    intro kind el t i ifs a _ _ _ _ hn
    simp [noComp] at hn
  case case12 =>
    intro _ bound m env env' _ _ _ _
    exact ⟨.nil, .nil⟩
  case case13 =>
    intro e es ihe ihes hn bound m env env' he' hf hb hh
    simp only [noCompL, Bool.and_eq_true] at hn
    simp only [freeNamesL, bindersOfL, List.mem_append, not_or] at hf
    simp only [headNamesL, List.mem_append] at hh
    have h1 := ihe hn.1 bound m env env' he' (fun x hx => ⟨(hf x (Or.inl hx)).1, (hf x (Or.inl hx)).2.imp_right (fun h => h.1)⟩) hb (fun x hx => hh x (Or.inl hx))
    have h2 := ihes hn.2 bound m env env' he' (fun x hx => ⟨(hf x (Or.inr hx)).1, (hf x (Or.inr hx)).2.imp_right (fun h => h.2)⟩) hb (fun x hx => hh x (Or.inr hx))
    simp only [renameNamesL]
    exact ⟨.cons ⟨h1.1, self1 _ _ he'⟩ h2.1, .cons h1.2.2 h2.2⟩

/-- free names relative to a list of bound names: the free names that are not in the list -/
theorem mem_freeNames_iff_both :
    (∀ e : Expr, ∀ bound x, x ∈ freeNames bound e ↔ x ∈ freeNames [] e ∧ x ∉ bound) ∧
    (∀ es : List Expr, ∀ bound x, x ∈ freeNamesL bound es ↔ x ∈ freeNamesL [] es ∧ x ∉ bound) := by
  apply Expr.size.mutual_induct
    (motive_1 := fun e => ∀ bound x, x ∈ freeNames bound e ↔ x ∈ freeNames [] e ∧ x ∉ bound)
    (motive_2 := fun es => ∀ bound x, x ∈ freeNamesL bound es ↔ x ∈ freeNamesL [] es ∧ x ∉ bound)
  case case1 =>
    intro y bound x
    have h0 : freeNames [] (.name y) = [y] := by simp [freeNames]
    rw [h0]
    simp only [freeNames, List.mem_singleton]
    by_cases hc : bound.contains y
    · simp only [hc, if_true, List.not_mem_nil, false_iff, not_and]
      intro h; subst h; simpa using hc
    · simp only [hc]
      simp only [Bool.false_eq_true, if_false, List.mem_singleton]
      constructor
      · intro h; subst h; exact ⟨rfl, by simpa using hc⟩
      · intro h; exact h.1
  case case2 => intro c bound x; simp [freeNames]
  case case3 => intro v a ih bound x; simpa [freeNames] using ih bound x
  case case4 =>
    intro f args kwn kwv ihf iha ihk bound x
    simp only [freeNames, List.mem_append, ihf bound x, iha bound x, ihk bound x]
    constructor
    · rintro ((⟨h, hb⟩ | ⟨h, hb⟩) | ⟨h, hb⟩)
      · exact ⟨Or.inl (Or.inl h), hb⟩
      · exact ⟨Or.inl (Or.inr h), hb⟩
      · exact ⟨Or.inr h, hb⟩
    · rintro ⟨(h | h) | h, hb⟩
      · exact Or.inl (Or.inl ⟨h, hb⟩)
      · exact Or.inl (Or.inr ⟨h, hb⟩)
      · exact Or.inr ⟨h, hb⟩
  case case5 =>
    intro ps b ih bound x
    simp only [freeNames]
    rw [ih (ps ++ bound) x, ih (ps ++ []) x]
    simp only [List.mem_append, List.append_nil, not_or]
    constructor
    · rintro ⟨h, h1, h2⟩; exact ⟨⟨h, h1⟩, h2⟩
    · rintro ⟨⟨h, h1⟩, h2⟩; exact ⟨h, h1, h2⟩
  case case6 =>
    intro v s ihv ihs bound x
    simp only [freeNames, List.mem_append, ihv bound x, ihs bound x]
    constructor
    · rintro (⟨h, hb⟩ | ⟨h, hb⟩)
      · exact ⟨Or.inl h, hb⟩
      · exact ⟨Or.inr h, hb⟩
    · rintro ⟨h | h, hb⟩
      · exact Or.inl ⟨h, hb⟩
      · exact Or.inr ⟨h, hb⟩
  case case7 => intro es ih bound x; simpa [freeNames] using ih bound x
  case case8 => intro es ih bound x; simpa [freeNames] using ih bound x
  case case9 =>
    intro ks vs ihk ihv bound x
    simp only [freeNames, List.mem_append, ihk bound x, ihv bound x]
    constructor
    · rintro (⟨h, hb⟩ | ⟨h, hb⟩)
      · exact ⟨Or.inl h, hb⟩
      · exact ⟨Or.inr h, hb⟩
    · rintro ⟨h | h, hb⟩
      · exact Or.inl ⟨h, hb⟩
      · exact Or.inr ⟨h, hb⟩
  case case10 => intro k args ih bound x; simpa [freeNames] using ih bound x
  case case11 =>
    intro kind el t i ifs a ihe _ iht ihifs bound x
    simp only [freeNames, List.mem_append]
    rw [ihe (targetNames t ++ bound) x, ihe (targetNames t ++ []) x, iht bound x,
      ihifs (targetNames t ++ bound) x, ihifs (targetNames t ++ []) x]
    simp only [List.mem_append, List.append_nil, not_or]
    constructor
    · rintro ((⟨h, h1, h2⟩ | ⟨h, h2⟩) | ⟨h, h1, h2⟩)
      · exact ⟨Or.inl (Or.inl ⟨h, h1⟩), h2⟩
      · exact ⟨Or.inl (Or.inr h), h2⟩
      · exact ⟨Or.inr ⟨h, h1⟩, h2⟩
    · rintro ⟨(⟨h, h1⟩ | h) | ⟨h, h1⟩, h2⟩
      · exact Or.inl (Or.inl ⟨h, h1, h2⟩)
      · exact Or.inl (Or.inr ⟨h, h2⟩)
      · exact Or.inr ⟨h, h1, h2⟩
  case case12 => intro bound x; simp [freeNamesL]
  case case13 =>
    intro e es ihe ihes bound x
    simp only [freeNamesL, List.mem_append, ihe bound x, ihes bound x]
    constructor
    · rintro (⟨h, hb⟩ | ⟨h, hb⟩)
      · exact ⟨Or.inl h, hb⟩
      · exact ⟨Or.inr h, hb⟩
    · rintro ⟨h | h, hb⟩
      · exact Or.inl ⟨h, hb⟩
      · exact Or.inr ⟨h, hb⟩

theorem mem_fv_lam {ps : List String} {b : Expr} {x : String} : x ∈ fv (.lam ps b) ↔ x ∈ fv b ∧ x ∉ ps := by
  simp only [fv, freeNames]
  rw [mem_freeNames_iff_both.1 b (ps ++ []) x]
  simp

end Fadl
