/-
  The eager reading (Fadl/Sem.lean: every operator evaluates all its elements, as Python's own lists do) and the
  deferred-execution reading (Fadl/SemLazy.lean) agree whenever the eager one succeeds: same value, and that value
  contains no deferred failure.
-/
import Fadl.Lemmas.LazyRules
import Fadl.Lemmas.DictSem
namespace Fadl
set_option linter.unusedSimpArgs false

def EnvClean (env : Env) : Prop := ∀ x v, env x = some v → v.clean = true

/-- the world's functions return complete values on complete arguments; methods exist only on records -/
structure WorldClean (w : World) : Prop where
  func : ∀ n vs kwn kvs v, Val.cleanL vs = true → Val.cleanL kvs = true → w.func n vs kwn kvs = .ok v → v.clean = true
  method : ∀ m r vs kwn kvs v, r.clean = true → Val.cleanL vs = true → Val.cleanL kvs = true →
    w.method m r vs kwn kvs = .ok v → v.clean = true ∧ ∃ c f fv, r = .obj c f fv

/-- strict result `r`, lazy result `r'` -/
def SL (r r' : Res) : Prop := ∀ v, r = .ok v → r' = .ok v ∧ v.clean = true
def SLL (r r' : Except EErr (List Val)) : Prop := ∀ vs, r = .ok vs → r' = .ok vs ∧ Val.cleanL vs = true

theorem SL.error (e : EErr) (r : Res) : SL (.error e) r := by intro v h; cases h

theorem SL.bind {r r' : Res} {f f' : Val → Res} (h : SL r r') (hf : ∀ v, v.clean = true → SL (f v) (f' v)) :
    SL (r >>= f) (r' >>= f') := by
  intro out ho
  cases r with
  | error e => exact absurd (show (Except.error e : Res) = .ok out from ho) (by simp)
  | ok v =>
    obtain ⟨hv', hc⟩ := h v rfl
    have ho2 : f v = .ok out := ho
    obtain ⟨ho', hoc⟩ := hf v hc out ho2
    subst hv'
    exact ⟨ho', hoc⟩

theorem SLL.bindR {r r' : Except EErr (List Val)} {k k' : List Val → Res} (h : SLL r r')
    (hk : ∀ vs, Val.cleanL vs = true → SL (k vs) (k' vs)) : SL (r >>= k) (r' >>= k') := by
  intro out ho
  cases r with
  | error e => exact absurd (show (Except.error e : Res) = .ok out from ho) (by simp)
  | ok vs =>
    obtain ⟨hv', hc⟩ := h vs rfl
    obtain ⟨ho', hoc⟩ := hk vs hc out ho
    subst hv'
    exact ⟨ho', hoc⟩

/-! ### clean values -/

theorem cleanL_cons {v : Val} {vs : List Val} : Val.cleanL (v :: vs) = true ↔ v.clean = true ∧ Val.cleanL vs = true := by
  simp [Val.cleanL]

theorem cleanL_append : ∀ {a b : List Val}, Val.cleanL a = true → Val.cleanL b = true → Val.cleanL (a ++ b) = true
  | [], _, _, hb => hb
  | x :: a, b, ha, hb => by
    rw [cleanL_cons] at ha
    simp only [List.cons_append, cleanL_cons]
    exact ⟨ha.1, cleanL_append ha.2 hb⟩

theorem cleanL_take : ∀ (n : Nat) {a : List Val}, Val.cleanL a = true → Val.cleanL (a.take n) = true
  | 0, _, _ => by simp [Val.cleanL]
  | n + 1, [], _ => by simp [Val.cleanL]
  | n + 1, x :: a, h => by rw [cleanL_cons] at h; simp only [List.take_succ_cons, cleanL_cons]; exact ⟨h.1, cleanL_take n h.2⟩

theorem cleanL_drop : ∀ (n : Nat) {a : List Val}, Val.cleanL a = true → Val.cleanL (a.drop n) = true
  | 0, _, h => by simpa using h
  | n + 1, [], _ => by simp [Val.cleanL]
  | n + 1, x :: a, h => by rw [cleanL_cons] at h; simp only [List.drop_succ_cons]; exact cleanL_drop n h.2

theorem cleanL_get : ∀ {a : List Val} (k : Nat) (v : Val), Val.cleanL a = true → a[k]? = some v → v.clean = true
  | [], k, v, _, h => by simp at h
  | x :: a, 0, v, hc, h => by rw [cleanL_cons] at hc; simp at h; subst h; exact hc.1
  | x :: a, k + 1, v, hc, h => by
    rw [cleanL_cons] at hc; simp only [List.getElem?_cons_succ] at h; exact cleanL_get k v hc.2 h

theorem force_clean {v : Val} (h : v.clean = true) : force v = .ok v := by
  cases v <;> simp [force, Val.clean] at *

theorem forceAll_clean : ∀ {vs : List Val}, Val.cleanL vs = true → forceAll vs = .ok vs
  | [], _ => rfl
  | v :: vs, h => by
    rw [cleanL_cons] at h
    simp [forceAll, force_clean h.1, forceAll_clean h.2, bind, Except.bind, pure, Except.pure]

theorem lookupField_clean (a : String) : ∀ (fns : List String) (fv : List Val) (x : Val), Val.cleanL fv = true →
    lookupField a fns fv = some x → x.clean = true
  | [], _, _, _, h => by simp [lookupField] at h
  | n :: ns, [], _, _, h => by simp [lookupField] at h
  | n :: ns, v :: vs, x, hc, h => by
    rw [cleanL_cons] at hc
    simp only [lookupField] at h
    split at h
    · cases h; exact hc.1
    · exact lookupField_clean a ns vs x hc.2 h

theorem lookupKey_clean (k : Val) : ∀ (ks vs : List Val) (x : Val), Val.cleanL vs = true →
    lookupKey k ks vs = some x → x.clean = true
  | [], _, _, _, h => by simp [lookupKey] at h
  | k' :: ks, [], _, _, h => by simp [lookupKey] at h
  | k' :: ks, v :: vs, x, hc, h => by
    rw [cleanL_cons] at hc
    simp only [lookupKey] at h
    split at h
    · cases h; exact hc.1
    · exact lookupKey_clean k ks vs x hc.2 h

theorem getAttr_SL {v : Val} (a : String) (hv : v.clean = true) : SL (getAttr v a) (getAttrLz v a) := by
  intro x hx
  cases v with
  | obj c fn fv =>
    simp only [getAttrLz]
    refine ⟨hx, ?_⟩
    simp only [getAttr] at hx
    cases hl : lookupField a fn fv with
    | none => simp [hl] at hx
    | some y => simp only [hl, Except.ok.injEq] at hx; subst hx; exact lookupField_clean a fn fv y (by simpa [Val.clean] using hv) hl
  | dict ks vs =>
    simp only [Val.clean, Bool.and_eq_true] at hv
    simp only [getAttrLz, hv.1, if_true]
    refine ⟨hx, ?_⟩
    simp only [getAttr] at hx
    cases hl : lookupKey (.str a) ks vs with
    | none => simp [hl] at hx
    | some y => simp only [hl, Except.ok.injEq] at hx; subst hx; exact lookupKey_clean _ ks vs y hv.2 hl
  | _ => simp [getAttr] at hx

theorem getSlice_clean {vs : List Val} (lo hi st : Option Int) (h : Val.cleanL vs = true) (out : List Val)
    (ho : getSlice vs lo hi st = .ok out) : Val.cleanL out = true := by
  unfold getSlice at ho
  split at ho
  · cases ho; exact cleanL_take _ (cleanL_drop _ h)
  · cases ho

theorem getIndex_clean {vs : List Val} (i : Int) (h : Val.cleanL vs = true) (x : Val) (hx : getIndex vs i = .ok x) : x.clean = true := by
  unfold getIndex at hx
  simp only [] at hx
  by_cases hb : (if i < 0 then i + ↑vs.length else i) < 0 ∨ (if i < 0 then i + ↑vs.length else i) ≥ ↑vs.length
  · simp [hb] at hx
  · simp only [hb, if_false] at hx
    cases hg : vs[(if i < 0 then i + ↑vs.length else i).toNat]? with
    | none => simp [hg] at hx
    | some v => simp only [hg, Except.ok.injEq] at hx; subst hx; exact cleanL_get _ _ h hg

theorem getIndexLz_of_clean {vs : List Val} (i : Int) (h : Val.cleanL vs = true) : getIndexLz vs i = getIndex vs i := by
  unfold getIndexLz getIndex
  simp only []
  by_cases hb : (if i < 0 then i + ↑vs.length else i) < 0 ∨ (if i < 0 then i + ↑vs.length else i) ≥ ↑vs.length
  · simp [hb]
  · simp only [hb, if_false]
    cases hg : vs[(if i < 0 then i + ↑vs.length else i).toNat]? with
    | none => rfl
    | some v => exact force_clean (cleanL_get _ _ h hg)

theorem subscript_SL {v s : Val} (hv : v.clean = true) (hs : s.clean = true) : SL (subscript v s) (subscriptLz v s) := by
  intro x hx
  cases v with
  | list vs =>
    simp only [Val.clean] at hv
    cases s with
    | slice lo hi st =>
      simp only [subscript, subscriptLz] at hx ⊢
      refine ⟨hx, ?_⟩
      cases hg : getSlice vs lo hi st with
      | error e => simp [hg, Except.map] at hx
      | ok r => simp only [hg, Except.map, Except.ok.injEq] at hx; subst hx; simpa [Val.clean] using getSlice_clean lo hi st hv r hg
    | int n => simp only [subscript, subscriptLz, asInt, getIndexLz_of_clean _ hv] at hx ⊢; exact ⟨hx, getIndex_clean _ hv x hx⟩
    | bool b => simp only [subscript, subscriptLz, asInt, getIndexLz_of_clean _ hv] at hx ⊢; exact ⟨hx, getIndex_clean _ hv x hx⟩
    | _ => simp [subscript, asInt] at hx
  | tuple vs =>
    simp only [Val.clean] at hv
    have e : subscriptLz (.tuple vs) s = subscript (.tuple vs) s := by cases s <;> rfl
    rw [e]
    refine ⟨hx, ?_⟩
    cases s with
    | slice lo hi st =>
      simp only [subscript] at hx
      cases hg : getSlice vs lo hi st with
      | error e => simp [hg, Except.map] at hx
      | ok r => simp only [hg, Except.map, Except.ok.injEq] at hx; subst hx; simpa [Val.clean] using getSlice_clean lo hi st hv r hg
    | int n => simp only [subscript, asInt] at hx; exact getIndex_clean _ hv x hx
    | bool b => simp only [subscript, asInt] at hx; exact getIndex_clean _ hv x hx
    | _ => simp [subscript, asInt] at hx
  | dict ks vs =>
    simp only [Val.clean, Bool.and_eq_true] at hv
    have e : subscriptLz (.dict ks vs) s = if s.clean && Val.cleanL ks then subscript (.dict ks vs) s else .error uncleanErr := by
      cases s <;> rfl
    rw [e]
    simp only [hs, hv.1, Bool.and_self, if_true]
    refine ⟨hx, ?_⟩
    simp only [subscript] at hx
    cases hl : lookupKey s ks vs with
    | none => simp [hl] at hx
    | some y => simp only [hl, Except.ok.injEq] at hx; subst hx; exact lookupKey_clean _ ks vs y hv.2 hl
  | _ => cases s <;> simp [subscript] at hx

theorem mkDict_SL {ks vs : List Val} (hk : Val.cleanL ks = true) (hv : Val.cleanL vs = true) : SL (mkDict ks vs) (mkDictLz ks vs) := by
  intro x hx
  simp only [mkDictLz, hk, if_true]
  refine ⟨hx, ?_⟩
  simp only [mkDict, Except.ok.injEq] at hx
  subst hx
  obtain ⟨e1, e2⟩ := dictBuild_clean ks vs [] [] hk hv (by simp [Val.cleanL]) (by simp [Val.cleanL])
  simp [Val.clean, e1, e2]

theorem seqRes_SL : ∀ {rs rs' : List Res}, All2 SL rs rs' → SLL (seqRes rs) (seqRes rs')
  | _, _, .nil => by intro vs h; simp [seqRes] at h; subst h; exact ⟨rfl, rfl⟩
  | _, _, .cons (a := r) (b := r') (as := rs) (bs := rs') h1 h2 => by
    intro vs h
    simp only [seqRes] at h ⊢
    cases hr : r with
    | error e => rw [hr] at h; cases h
    | ok v =>
      rw [hr] at h
      obtain ⟨hv', hc⟩ := h1 v hr
      cases hrs : seqRes rs with
      | error e => rw [hrs] at h; cases h
      | ok rest =>
        rw [hrs] at h
        obtain ⟨hrest', hrc⟩ := seqRes_SL h2 rest hrs
        have : vs = v :: rest := by cases h; rfl
        subst this
        exact ⟨by rw [hv', hrest']; rfl, by rw [cleanL_cons]; exact ⟨hc, hrc⟩⟩

theorem andChain_SL : ∀ {rs rs' : List Res}, All2 SL rs rs' → SL (andChain rs) (andChain rs')
  | _, _, .nil => SL.error _ _
  | _, _, .cons (a := r) (b := r') (as := rs) (bs := rs') h1 h2 => by
    cases h2 with
    | nil => simpa [andChain] using h1
    | cons h3 h4 =>
      rename_i r2 r2' rs2 rs2'
      have ih := andChain_SL (All2.cons h3 h4)
      simp only [andChain]
      exact SL.bind h1 (fun v hc => by
        by_cases hb : truthy v
        · simp only [hb, if_true]; exact ih
        · simp only [hb, if_false]; intro x hx; cases hx; exact ⟨rfl, hc⟩)

theorem orChain_SL : ∀ {rs rs' : List Res}, All2 SL rs rs' → SL (orChain rs) (orChain rs')
  | _, _, .nil => SL.error _ _
  | _, _, .cons (a := r) (b := r') (as := rs) (bs := rs') h1 h2 => by
    cases h2 with
    | nil => simpa [orChain] using h1
    | cons h3 h4 =>
      rename_i r2 r2' rs2 rs2'
      have ih := orChain_SL (All2.cons h3 h4)
      simp only [orChain]
      exact SL.bind h1 (fun v hc => by
        by_cases hb : truthy v
        · simp only [hb, if_true]; intro x hx; cases hx; exact ⟨rfl, hc⟩
        · simp only [hb, if_false]; exact ih)

theorem unOp_clean (n : String) (v : Val) (x : Val) (h : unOp n v = .ok x) : x.clean = true := by
  unfold unOp at h
  split at h
  · cases h; rfl
  · split at h
    · split at h
      · cases h; rfl
      · split at h
        · cases h; rfl
        · cases h
    · cases h

theorem intBin_clean (k : String) (a b : Int) (x : Val) (h : intBin k a b = .ok x) : x.clean = true := by
  unfold intBin at h
  repeat' split at h
  all_goals first | (cases h; rfl) | cases h

theorem binOp_clean (k : String) {a b : Val} (ha : a.clean = true) (hb : b.clean = true) (x : Val) (h : binOp k a b = .ok x) :
    x.clean = true := by
  unfold binOp at h
  split at h
  · exact intBin_clean _ _ _ x h
  · split at h
    · split at h
      · cases h; rfl
      · cases h; simp only [Val.clean] at ha hb ⊢; exact cleanL_append ha hb
      · cases h; simp only [Val.clean] at ha hb ⊢; exact cleanL_append ha hb
      · cases h
    · cases h

theorem cmpChain_SL : ∀ (os : List String) {rs rs' : List Res} {l : Val}, l.clean = true → All2 SL rs rs' →
    SL (cmpChain l os rs) (cmpChainLz l os rs')
  | [], _, _, _, _, _ => by intro x hx; simp [cmpChain] at hx; subst hx; exact ⟨by simp [cmpChainLz], rfl⟩
  | o :: os, _, _, l, hl, .nil => by intro x hx; simp [cmpChain] at hx
  | o :: os, _, _, l, hl, .cons (a := r) (b := r') (as := rs) (bs := rs') h1 h2 => by
    simp only [cmpChain, cmpChainLz]
    apply SL.bind h1
    intro rv hrv
    simp only [cmpOneLz, hl, hrv, Bool.and_self, if_true]
    intro x hx
    cases hc : cmpOne o l rv with
    | error e => simp [hc, bind, Except.bind] at hx
    | ok b =>
      simp only [hc, bind, Except.bind] at hx ⊢
      cases b with
      | false => simp at hx ⊢; subst hx; exact ⟨rfl, rfl⟩
      | true =>
        simp only [if_true] at hx ⊢
        cases os with
        | nil => simp at hx ⊢; subst hx; exact ⟨rfl, rfl⟩
        | cons o2 os2 => exact cmpChain_SL (o2 :: os2) hrv h2 x hx

theorem sliceOf_clean (a b c : Bool) (vs : List Val) (x : Val) (h : sliceOf a b c vs = .ok x) : x.clean = true := by
  unfold sliceOf at h
  cases h1 : pickBound a vs with
  | error e => simp [h1, bind, Except.bind] at h
  | ok p1 =>
    simp only [h1, bind, Except.bind] at h
    cases h2 : pickBound b p1.2 with
    | error e => simp [h2] at h
    | ok p2 =>
      simp only [h2] at h
      cases h3 : pickBound c p2.2 with
      | error e => simp [h3] at h
      | ok p3 => simp only [h3, pure, Except.pure, Except.ok.injEq] at h; subst h; rfl

theorem evOp_SL (k : OpKind) {rs rs' : List Res} (h : All2 SL rs rs') : SL (evOp k rs) (evOpLz k rs') := by
  cases k with
  | boolAnd => simpa [evOp, evOpLz] using andChain_SL h
  | boolOr => simpa [evOp, evOpLz] using orChain_SL h
  | starred => simp only [evOp]; exact SL.error _ _
  | cmp ops =>
    cases h with
    | nil => simp only [evOp]; exact SL.error _ _
    | cons h1 h2 =>
      simp only [evOp, evOpLz]
      exact SL.bind h1 (fun l hl => cmpChain_SL ops hl h2)
  | ifExp =>
    cases h with
    | nil => exact SL.error _ _
    | cons h1 h2 => cases h2 with
      | nil => exact SL.error _ _
      | cons h2 h3 => cases h3 with
        | nil => exact SL.error _ _
        | cons h3 h4 => cases h4 with
          | nil =>
            simp only [evOp, evOpLz]
            exact SL.bind h1 (fun tv _ => by by_cases hb : truthy tv <;> simp only [hb, if_true, if_false] <;> assumption)
          | cons _ _ => exact SL.error _ _
  | un n =>
    cases h with
    | nil => exact SL.error _ _
    | cons h1 h2 => cases h2 with
      | nil => simp only [evOp, evOpLz]; exact SL.bind h1 (fun v _ x hx => ⟨hx, unOp_clean n v x hx⟩)
      | cons _ _ => exact SL.error _ _
  | bin n =>
    cases h with
    | nil => exact SL.error _ _
    | cons h1 h2 => cases h2 with
      | nil => exact SL.error _ _
      | cons h2 h3 => cases h3 with
        | nil =>
          simp only [evOp, evOpLz]
          exact SL.bind h1 (fun a ha => SL.bind h2 (fun b hb x hx => ⟨hx, binOp_clean n ha hb x hx⟩))
        | cons _ _ => exact SL.error _ _
  | slice a b c =>
    simp only [evOp, evOpLz]
    exact SLL.bindR (seqRes_SL h) (fun vs _ x hx => ⟨hx, sliceOf_clean a b c vs x hx⟩)

/-! ### sequence operators -/

/-- strict element function `f`, lazy `f'` -/
def FnSL (f f' : Val → Res) : Prop := ∀ v, v.clean = true → SL (f v) (f' v)
def FnSL2 (f f' : Val → Val → Res) : Prop := ∀ a v, a.clean = true → v.clean = true → SL (f a v) (f' a v)

theorem sumInts_clean_any (vs : List Val) (i : Int) : sumInts vs = .ok i → True := fun _ => trivial

theorem seqOp1_SL (n : String) {vs : List Val} (h : Val.cleanL vs = true) : SL (seqOp1 n vs) (seqOp1Lz n vs) := by
  intro x hx
  unfold seqOp1Lz
  by_cases h1 : n = "First"
  · simp only [h1, if_true, seqOp1] at hx ⊢
    cases vs with
    | nil => cases hx
    | cons v rest =>
      rw [cleanL_cons] at h
      simp only [] at hx ⊢
      cases hx
      exact ⟨force_clean h.1, h.1⟩
  · simp only [h1, if_false, forceAll_clean h, bind, Except.bind]
    refine ⟨hx, ?_⟩
    unfold seqOp1 at hx
    simp only [h1, if_false] at hx
    split at hx
    · cases hx; rfl
    · split at hx
      · cases hs : sumInts vs <;> simp [hs, Except.map] at hx; subst hx; rfl
      · split at hx
        · cases hs : maxInts 0 vs <;> simp [hs, Except.map] at hx; subst hx; rfl
        · split at hx
          · cases hs : minInts 0 vs <;> simp [hs, Except.map] at hx; subst hx; rfl
          · cases hx

theorem mapRes_sel {f f' : Val → Res} (hf : FnSL f f') : ∀ {vs : List Val} (rs : List Val), Val.cleanL vs = true →
    mapRes f vs = .ok rs → vs.map (fun v => lazyElem (force v >>= f')) = rs ∧ Val.cleanL rs = true
  | [], rs, _, h => by simp [mapRes] at h; subst h; exact ⟨rfl, rfl⟩
  | v :: vs, rs, hc, h => by
    rw [cleanL_cons] at hc
    simp only [mapRes] at h
    cases hr : f v with
    | error e => simp [hr, bind, Except.bind] at h
    | ok r =>
      cases hrs : mapRes f vs with
      | error e => simp [hr, hrs, bind, Except.bind] at h
      | ok rest =>
        simp only [hr, hrs, bind, Except.bind, pure, Except.pure, Except.ok.injEq] at h
        subst h
        obtain ⟨hr', hrc⟩ := hf v hc.1 r hr
        obtain ⟨ih1, ih2⟩ := mapRes_sel hf rest hc.2 hrs
        refine ⟨?_, by rw [cleanL_cons]; exact ⟨hrc, ih2⟩⟩
        simp only [List.map, force_clean hc.1, bind, Except.bind, hr', lazyElem]
        rw [← ih1]
        simp only [bind, Except.bind, lazyElem]

theorem filterM_where {f f' : Val → Res} (hf : FnSL f f') : ∀ {vs : List Val} (rs : List Val), Val.cleanL vs = true →
    filterM' f vs = .ok rs → whereLz f' vs = .ok rs ∧ Val.cleanL rs = true
  | [], rs, _, h => by simp [filterM'] at h; subst h; exact ⟨rfl, rfl⟩
  | v :: vs, rs, hc, h => by
    rw [cleanL_cons] at hc
    simp only [filterM'] at h
    cases hr : f v with
    | error e => simp [hr, bind, Except.bind] at h
    | ok b =>
      cases hrs : filterM' f vs with
      | error e => simp [hr, hrs, bind, Except.bind] at h
      | ok rest =>
        simp only [hr, hrs, bind, Except.bind, pure, Except.pure, Except.ok.injEq] at h
        subst h
        obtain ⟨hr', _⟩ := hf v hc.1 b hr
        obtain ⟨ih1, ih2⟩ := filterM_where hf rest hc.2 hrs
        simp only [whereLz, force_clean hc.1, bind, Except.bind, hr', ih1, pure, Except.pure, true_and]
        split
        · rw [cleanL_cons]; exact ⟨hc.1, ih2⟩
        · exact ih2

theorem concat_many {f f' : Val → Res} (hf : FnSL f f') : ∀ {vs : List Val} (rs flat : List Val), Val.cleanL vs = true →
    mapRes f vs = .ok rs → concatSeqs rs = .ok flat → manyLz f' vs = .ok flat ∧ Val.cleanL flat = true
  | [], rs, flat, _, h, hc2 => by
    simp [mapRes] at h; subst h; simp [concatSeqs] at hc2; subst hc2; exact ⟨rfl, rfl⟩
  | v :: vs, rs, flat, hc, h, hc2 => by
    rw [cleanL_cons] at hc
    simp only [mapRes] at h
    cases hr : f v with
    | error e => simp [hr, bind, Except.bind] at h
    | ok r =>
      cases hrs : mapRes f vs with
      | error e => simp [hr, hrs, bind, Except.bind] at h
      | ok rest =>
        simp only [hr, hrs, bind, Except.bind, pure, Except.pure, Except.ok.injEq] at h
        subst h
        simp only [concatSeqs] at hc2
        cases hs : asSeq r with
        | error e => simp [hs, bind, Except.bind] at hc2
        | ok inner =>
          cases hcs : concatSeqs rest with
          | error e => simp [hs, hcs, bind, Except.bind] at hc2
          | ok flat2 =>
            simp only [hs, hcs, bind, Except.bind, pure, Except.pure, Except.ok.injEq] at hc2
            subst hc2
            obtain ⟨hr', hrc⟩ := hf v hc.1 r hr
            obtain ⟨ih1, ih2⟩ := concat_many hf rest flat2 hc.2 hrs hcs
            simp only [manyLz, force_clean hc.1, bind, Except.bind, hr', hs, ih1, pure, Except.pure, true_and]
            refine cleanL_append ?_ ih2
            cases r <;> simp [asSeq] at hs
            subst hs
            simpa [Val.clean] using hrc

theorem seqOp2_SL (n : String) {f f' : Val → Res} (hf : FnSL f f') {vs : List Val} (h : Val.cleanL vs = true) :
    SL (seqOp2 n f vs) (seqOp2Lz n f' vs) := by
  intro x hx
  unfold seqOp2 at hx
  unfold seqOp2Lz
  by_cases h1 : n = "Select"
  · simp only [h1, if_true] at hx ⊢
    cases hm : mapRes f vs with
    | error e => simp [hm, Except.map] at hx
    | ok rs =>
      simp only [hm, Except.map, Except.ok.injEq] at hx; subst hx
      obtain ⟨e1, e2⟩ := mapRes_sel hf rs h hm
      exact ⟨by rw [e1], by simpa [Val.clean] using e2⟩
  · simp only [h1, if_false] at hx ⊢
    by_cases h2 : n = "Where"
    · simp only [h2, if_true] at hx ⊢
      cases hm : filterM' f vs with
      | error e => simp [hm, Except.map] at hx
      | ok rs =>
        simp only [hm, Except.map, Except.ok.injEq] at hx; subst hx
        obtain ⟨e1, e2⟩ := filterM_where hf rs h hm
        exact ⟨by rw [e1]; rfl, by simpa [Val.clean] using e2⟩
    · simp only [h2, if_false] at hx ⊢
      by_cases h3 : n = "SelectMany"
      · simp only [h3, if_true] at hx ⊢
        cases hm : mapRes f vs with
        | error e => simp [hm, bind, Except.bind] at hx
        | ok rs =>
          simp only [hm, bind, Except.bind] at hx
          cases hc : concatSeqs rs with
          | error e => simp [hc] at hx
          | ok flat =>
            simp only [hc, pure, Except.pure, Except.ok.injEq] at hx; subst hx
            obtain ⟨e1, e2⟩ := concat_many hf rs flat h hm hc
            exact ⟨by rw [e1]; rfl, by simpa [Val.clean] using e2⟩
      · simp [h3] at hx

theorem foldM_SL {f f' : Val → Val → Res} (hf : FnSL2 f f') : ∀ {vs : List Val} {a : Val}, Val.cleanL vs = true → a.clean = true →
    SL (foldM' f a vs) (foldM' f' a vs)
  | [], a, _, ha => by intro x hx; simp [foldM'] at hx ⊢; subst hx; exact ⟨rfl, ha⟩
  | v :: vs, a, hc, ha => by
    rw [cleanL_cons] at hc
    simp only [foldM']
    exact SL.bind (hf a v ha hc.1) (fun acc hacc => foldM_SL hf hc.2 hacc)

theorem mapRes_SL {f f' : Val → Res} (hf : FnSL f f') : ∀ {vs : List Val}, Val.cleanL vs = true → SLL (mapRes f vs) (mapRes f' vs)
  | [], _ => by intro rs h; simp [mapRes] at h ⊢; subst h; exact ⟨rfl, rfl⟩
  | v :: vs, hc => by
    rw [cleanL_cons] at hc
    intro rs h
    simp only [mapRes] at h ⊢
    cases hr : f v with
    | error e => simp [hr, bind, Except.bind] at h
    | ok r =>
      cases hrs : mapRes f vs with
      | error e => simp [hr, hrs, bind, Except.bind] at h
      | ok rest =>
        simp only [hr, hrs, bind, Except.bind, pure, Except.pure, Except.ok.injEq] at h
        subst h
        obtain ⟨hr', hrc⟩ := hf v hc.1 r hr
        obtain ⟨ih1, ih2⟩ := mapRes_SL hf hc.2 rest hrs
        simp only [hr', ih1, bind, Except.bind, pure, Except.pure, true_and]
        rw [cleanL_cons]; exact ⟨hrc, ih2⟩

theorem condsHold_SL : ∀ {rs rs' : List Res}, All2 SL rs rs' → ∀ b, condsHold rs = .ok b → condsHold rs' = .ok b
  | _, _, .nil, b, h => h
  | _, _, .cons (a := r) (b := r') (as := rs) (bs := rs') h1 h2, b, h => by
    simp only [condsHold] at h ⊢
    cases hr : r with
    | error e => rw [hr] at h; cases h
    | ok v =>
      obtain ⟨hv', _⟩ := h1 v hr
      rw [hr] at h
      rw [hv']
      simp only [bind, Except.bind] at h ⊢
      by_cases hb : truthy v
      · simp only [hb, if_true] at h ⊢; exact condsHold_SL h2 b h
      · simp only [hb, if_false] at h ⊢; exact h

theorem filterMB_SL {p p' : Val → Except EErr Bool} (hp : ∀ v, v.clean = true → ∀ b, p v = .ok b → p' v = .ok b) :
    ∀ {vs : List Val}, Val.cleanL vs = true → SLL (filterMB p vs) (filterMB p' vs)
  | [], _ => by intro rs h; simp [filterMB] at h ⊢; subst h; exact ⟨rfl, rfl⟩
  | v :: vs, hc => by
    rw [cleanL_cons] at hc
    intro rs h
    simp only [filterMB] at h ⊢
    cases hq : p v with
    | error e => simp [hq, bind, Except.bind] at h
    | ok q =>
      cases hr : filterMB p vs with
      | error e => simp [hq, hr, bind, Except.bind] at h
      | ok rest =>
        simp only [hq, hr, bind, Except.bind, pure, Except.pure, Except.ok.injEq] at h
        subst h
        obtain ⟨ih1, ih2⟩ := filterMB_SL hp hc.2 rest hr
        simp only [hp v hc.1 q hq, ih1, bind, Except.bind, pure, Except.pure, true_and]
        cases q with
        | true => simp only [if_true]; rw [cleanL_cons]; exact ⟨hc.1, ih2⟩
        | false => simpa using ih2

/-! ### calls, comprehensions -/

def DSL (env : Env) (d d' : Den) : Prop := SL (d env) (d' env)

def LamSL (env : Env) (l l' : LamD) : Prop :=
  FnSL (applyLam1 l env) (applyLam1 l' env) ∧ FnSL2 (applyLam2 l env) (applyLam2 l' env)

def HeadSL (env : Env) : Head → Head → Prop
  | .fn n, .fn n' => n = n'
  | .meth r m, .meth r' m' => m = m' ∧ SL (r env) (r' env)
  | .lamH ps b, .lamH ps' b' =>
    ps = ps' ∧ ∀ vs kwn kvs, Val.cleanL vs = true → Val.cleanL kvs = true →
      SL (bindParams ps vs kwn kvs env >>= b) (bindParams ps vs kwn kvs env >>= b')
  | .other, _ => True
  | _, _ => False

theorem All2_DSL_map {ds ds' : List Den} {env : Env} (h : All2 (DSL env) ds ds') :
    All2 SL (ds.map (· env)) (ds'.map (· env)) := by
  induction h with
  | nil => exact .nil
  | cons h1 _ ih => exact .cons h1 ih

theorem evalAll_SL {ds ds' : List Den} {env : Env} (h : All2 (DSL env) ds ds') : SLL (evalAll ds env) (evalAll ds' env) :=
  seqRes_SL (All2_DSL_map h)

theorem src_seq_SL {src src' : Den} {env : Env} (h : DSL env src src') {k k' : List Val → Res}
    (hk : ∀ vs, Val.cleanL vs = true → SL (k vs) (k' vs)) :
    SL (do let vs ← asSeq (← src env); k vs) (do let vs ← asSeq (← src' env); k' vs) := by
  show SL (src env >>= fun s => asSeq s >>= k) (src' env >>= fun s => asSeq s >>= k')
  apply SL.bind h
  intro s hs
  cases s with
  | list vs => simp only [asSeq, bind, Except.bind]; exact hk vs (by simpa [Val.clean] using hs)
  | _ => simp only [asSeq, bind, Except.bind]; exact SL.error _ _

theorem fnCall_SL (w : World) (hw : WorldClean w) (n : String) {args args' : List Den} {lams lams' : List LamD}
    (kwn : List String) {kwv kwv' : List Den} {env : Env}
    (ha : All2 (DSL env) args args') (hl : All2 (LamSL env) lams lams') (hk : All2 (DSL env) kwv kwv') :
    SL (fnCall w n args lams kwn kwv env) (fnCallLz w n args' lams' kwn kwv' env) := by
  unfold fnCall fnCallLz
  split
  · cases ha with
    | nil => exact SL.error _ _
    | cons ha1 ha2 =>
      cases ha2 with
      | nil => exact src_seq_SL ha1 (fun vs hv => seqOp1_SL n hv)
      | cons ha2 ha3 =>
        cases ha3 with
        | nil =>
          cases hl with
          | nil => exact SL.error _ _
          | cons hl1 hl2 => cases hl2 with
            | nil => exact src_seq_SL ha1 (fun vs hv => seqOp2_SL n hl1.1 hv)
            | cons _ _ => exact SL.error _ _
        | cons ha3 ha4 =>
          cases ha4 with
          | nil =>
            cases hl with
            | nil => exact SL.error _ _
            | cons hl1 hl2 => cases hl2 with
              | nil => exact SL.error _ _
              | cons hl2 hl3 => cases hl3 with
                | nil =>
                  simp only []
                  split
                  · apply src_seq_SL ha1
                    intro vs hv
                    simp only [forceAll_clean hv, bind, Except.bind]
                    exact SL.bind ha2 (fun i hi => foldM_SL hl2.2 hv hi)
                  · exact SL.error _ _
                | cons _ _ => exact SL.error _ _
          | cons _ _ => exact SL.error _ _
  · apply SLL.bindR (evalAll_SL ha)
    intro vs hv
    apply SLL.bindR (evalAll_SL hk)
    intro kvs hkv
    simp only [hv, hkv, Bool.and_self, if_true]
    intro x hx
    exact ⟨hx, hw.func _ _ _ _ x hv hkv hx⟩

theorem callSem_SL (w : World) (hw : WorldClean w) {h h' : Head} {args args' : List Den} {lams lams' : List LamD}
    (kwn : List String) {kwv kwv' : List Den} {env : Env}
    (hh : HeadSL env h h') (ha : All2 (DSL env) args args') (hl : All2 (LamSL env) lams lams') (hk : All2 (DSL env) kwv kwv') :
    SL (callSem w h args lams kwn kwv env) (callSemLz w h' args' lams' kwn kwv' env) := by
  cases h with
  | other => exact SL.error _ _
  | fn n =>
    cases h' <;> simp only [HeadSL] at hh
    subst hh
    simp only [callSem, callSemLz]
    apply fnCall_SL w hw n kwn ha _ hk
    cases hl with
    | nil => exact .nil
    | cons _ h2 => exact h2
  | meth r m =>
    cases h' with
    | meth r' m' =>
      simp only [HeadSL] at hh
      obtain ⟨rfl, hr⟩ := hh
      simp only [callSem, callSemLz]
      split
      · exact fnCall_SL w hw m kwn (.cons hr ha) hl hk
      · apply SL.bind hr
        intro rv hrv
        apply SLL.bindR (evalAll_SL ha)
        intro vs hv
        apply SLL.bindR (evalAll_SL hk)
        intro kvs hkv
        intro x hx
        obtain ⟨hxc, c, f, fv, rfl⟩ := hw.method _ _ _ _ _ x hrv hv hkv hx
        simp only [hrv, hv, hkv, Bool.and_self, if_true]
        exact ⟨hx, hxc⟩
    | _ => simp only [HeadSL] at hh
  | lamH ps b =>
    cases h' with
    | lamH ps' b' =>
      simp only [HeadSL] at hh
      obtain ⟨rfl, hb⟩ := hh
      simp only [callSem, callSemLz]
      apply SLL.bindR (evalAll_SL ha)
      intro vs hv
      apply SLL.bindR (evalAll_SL hk)
      intro kvs hkv
      exact hb vs kwn kvs hv hkv
    | _ => simp only [HeadSL] at hh

theorem EnvClean.upd {env : Env} (h : EnvClean env) (x : String) {v : Val} (hv : v.clean = true) : EnvClean (env.upd x v) := by
  intro y u hy
  simp only [Env.upd] at hy
  split at hy
  · cases hy; exact hv
  · exact h y u hy

theorem bindPos_clean : ∀ (ps : List String) (vs : List Val) (env env1 : Env) (rest : List String), EnvClean env →
    Val.cleanL vs = true → bindPos env ps vs = .ok (env1, rest) → EnvClean env1
  | ps, [], env, env1, rest, he, _, h => by simp [bindPos] at h; rw [← h.1]; exact he
  | [], _ :: _, env, env1, rest, he, _, h => by simp [bindPos] at h
  | p :: ps, v :: vs, env, env1, rest, he, hv, h => by
    rw [cleanL_cons] at hv
    simp only [bindPos] at h
    exact bindPos_clean ps vs _ env1 rest (he.upd p hv.1) hv.2 h

theorem bindKw_clean : ∀ (ks : List String) (vs : List Val) (ps : List String) (env env2 : Env) (rest : List String), EnvClean env →
    Val.cleanL vs = true → bindKw ps env ks vs = .ok (env2, rest) → EnvClean env2
  | [], [], ps, env, env2, rest, he, _, h => by simp [bindKw] at h; rw [← h.1]; exact he
  | [], _ :: _, ps, env, env2, rest, he, _, h => by simp [bindKw] at h
  | _ :: _, [], ps, env, env2, rest, he, _, h => by simp [bindKw] at h
  | k :: ks, v :: vs, ps, env, env2, rest, he, hv, h => by
    rw [cleanL_cons] at hv
    simp only [bindKw] at h
    split at h
    · exact bindKw_clean ks vs _ _ env2 rest (he.upd k hv.1) hv.2 h
    · cases h

theorem bindParams_clean (ps : List String) (vs : List Val) (kwn : List String) (kvs : List Val) (env env1 : Env)
    (he : EnvClean env) (hv : Val.cleanL vs = true) (hk : Val.cleanL kvs = true)
    (h : bindParams ps vs kwn kvs env = .ok env1) : EnvClean env1 := by
  unfold bindParams at h
  split at h
  · cases h
  · cases h1 : bindPos env ps vs with
    | error e => simp [h1, bind, Except.bind] at h
    | ok r1 =>
      obtain ⟨e1, rest⟩ := r1
      simp only [h1, bind, Except.bind] at h
      cases h2 : bindKw rest e1 kwn kvs with
      | error e => simp [h2] at h
      | ok r2 =>
        obtain ⟨e2, rest2⟩ := r2
        simp only [h2] at h
        split at h
        · simp only [pure, Except.pure, Except.ok.injEq] at h; subst h
          exact bindKw_clean kwn kvs rest e1 _ rest2 (bindPos_clean ps vs env e1 rest he hv h1) hk h2
        · cases h

theorem compSem_SL {x : String} {e e' i i' : Den} {ifs ifs' : List Den} (a : Bool) {env : Env} (henv : EnvClean env)
    (hi : DSL env i i')
    (he : ∀ v, v.clean = true → SL (e (env.upd x v)) (e' (env.upd x v)))
    (hifs : ∀ v, v.clean = true → All2 SL (ifs.map (· (env.upd x v))) (ifs'.map (· (env.upd x v)))) :
    SL (compSem (some x) e i ifs a env) (compSemLz (some x) e' i' ifs' a env) := by
  unfold compSem compSemLz
  cases a with
  | true => exact SL.error _ _
  | false =>
    simp only []
    apply src_seq_SL hi
    intro vs hv
    simp only [forceAll_clean hv, bind, Except.bind]
    apply SLL.bindR (filterMB_SL (fun v hv' b hb => condsHold_SL (hifs v hv') b hb) hv)
    intro keep hkeep
    apply SLL.bindR (mapRes_SL (fun v hv' => he v hv') hkeep)
    intro rs hrs x' hx
    cases hx
    exact ⟨rfl, by simpa [Val.clean] using hrs⟩

theorem constVal_clean (c : Const) (v : Val) (h : constVal c = .ok v) : v.clean = true := by
  cases c <;> simp [constVal] at h <;> subst h <;> rfl

/-- **Eager ⇒ deferred**: whenever the eager reading gives a value, the deferred reading gives the same value, and
    it contains no deferred failure. -/
theorem den_SL_both (w : World) (hw : WorldClean w) :
    (∀ e : Expr, ∀ env, EnvClean env →
        SL (den w e env) (denLz w e env) ∧ HeadSL env (denHead w e) (denHeadLz w e) ∧ LamSL env (denLam w e) (denLamLz w e)) ∧
    (∀ es : List Expr, ∀ env, EnvClean env →
        All2 (DSL env) (denL w es) (denLLz w es) ∧ All2 (LamSL env) (denLamL w es) (denLamLLz w es)) := by
  have lamNone : ∀ env, LamSL env Option.none Option.none := fun _ =>
    ⟨fun _ _ => SL.error _ _, fun _ _ _ _ => SL.error _ _⟩
  apply Expr.size.mutual_induct
    (motive_1 := fun e => ∀ env, EnvClean env →
        SL (den w e env) (denLz w e env) ∧ HeadSL env (denHead w e) (denHeadLz w e) ∧ LamSL env (denLam w e) (denLamLz w e))
    (motive_2 := fun es => ∀ env, EnvClean env →
        All2 (DSL env) (denL w es) (denLLz w es) ∧ All2 (LamSL env) (denLamL w es) (denLamLLz w es))
  case case1 =>
    intro x env he
    refine ⟨?_, by simp [denHead, denHeadLz, HeadSL], lamNone _⟩
    intro v hv
    simp only [den, denLz] at hv ⊢
    cases hx : env x with
    | none => simp [hx] at hv
    | some u => simp only [hx, Except.ok.injEq] at hv; subst hv; exact ⟨rfl, he x u hx⟩
  case case2 =>
    intro c env _
    exact ⟨fun v h => ⟨h, constVal_clean c v h⟩, by simp [denHead, denHeadLz, HeadSL], lamNone _⟩
  case case3 =>
    intro v a ih env he
    have h := (ih env he).1
    refine ⟨?_, by simp only [denHead, denHeadLz, HeadSL, true_and]; exact h, lamNone _⟩
    simp only [den, denLz]
    exact SL.bind h (fun x hx => getAttr_SL a hx)
  case case4 =>
    intro f args kwn kwv ihf iha ihk env he
    refine ⟨?_, by simp [denHead, denHeadLz, HeadSL], lamNone _⟩
    simp only [den, denLz]
    exact callSem_SL w hw kwn (ihf env he).2.1 (iha env he).1 (iha env he).2 (ihk env he).1
  case case5 =>
    intro ps b ih env he
    refine ⟨SL.error _ _, ?_, ?_⟩
    · simp only [denHead, denHeadLz, HeadSL, true_and]
      intro vs kwn kvs hv hk out ho
      cases hb : bindParams ps vs kwn kvs env with
      | error e => rw [hb] at ho; cases ho
      | ok env2 =>
        rw [hb] at ho
        exact (ih env2 (bindParams_clean ps vs kwn kvs env env2 he hv hk hb)).1 out ho
    · simp only [denLam, denLamLz]
      constructor
      · intro v hv
        match ps with
        | [x] => simp only [applyLam1]; exact (ih _ (he.upd x hv)).1
        | [] => exact SL.error _ _
        | _ :: _ :: _ => exact SL.error _ _
      · intro a v ha hv
        match ps with
        | [x, y] =>
          simp only [applyLam2]
          split
          · exact SL.error _ _
          · exact (ih _ ((he.upd x ha).upd y hv)).1
        | [] => exact SL.error _ _
        | [_] => exact SL.error _ _
        | _ :: _ :: _ :: _ => exact SL.error _ _
  case case6 =>
    intro v s ihv ihs env he
    refine ⟨?_, by simp [denHead, denHeadLz, HeadSL], lamNone _⟩
    simp only [den, denLz]
    exact SL.bind (ihv env he).1 (fun x hx => SL.bind (ihs env he).1 (fun i hi => subscript_SL hx hi))
  case case7 =>
    intro es ih env he
    refine ⟨?_, by simp [denHead, denHeadLz, HeadSL], lamNone _⟩
    simp only [den, denLz]
    apply SLL.bindR (evalAll_SL (ih env he).1)
    intro vs hv out ho
    cases ho
    exact ⟨rfl, by simpa [Val.clean] using hv⟩
  case case8 =>
    intro es ih env he
    refine ⟨?_, by simp [denHead, denHeadLz, HeadSL], lamNone _⟩
    simp only [den, denLz]
    apply SLL.bindR (evalAll_SL (ih env he).1)
    intro vs hv out ho
    cases ho
    exact ⟨rfl, by simpa [Val.clean] using hv⟩
  case case9 =>
    intro ks vs ihk ihv env he
    refine ⟨?_, by simp [denHead, denHeadLz, HeadSL], lamNone _⟩
    simp only [den, denLz]
    apply SLL.bindR (evalAll_SL (ihk env he).1)
    intro kv hkv
    apply SLL.bindR (evalAll_SL (ihv env he).1)
    intro vv hvv
    split
    · exact mkDict_SL hkv hvv
    · exact SL.error _ _
  case case10 =>
    intro k args ih env he
    refine ⟨?_, by simp [denHead, denHeadLz, HeadSL], lamNone _⟩
    simp only [den, denLz]
    exact evOp_SL k (All2_DSL_map (ih env he).1)
  case case11 =>
    intro kind el t i ifs a ihe _ iht ihifs env he
    refine ⟨?_, by simp [denHead, denHeadLz, HeadSL], lamNone _⟩
    simp only [den, denLz]
    cases t with
    | name x =>
      simp only [targetName]
      apply compSem_SL a he
      · exact (iht env he).1
      · intro v hv; exact (ihe _ (he.upd x hv)).1
      · intro v hv
        exact All2_DSL_map (ihifs _ (he.upd x hv)).1
    | _ => simp only [targetName, compSem]; exact SL.error _ _
  case case12 =>
    intro env _
    exact ⟨.nil, .nil⟩
  case case13 =>
    intro e es ihe ihes env he
    exact ⟨.cons (ihe env he).1 (ihes env he).1, .cons (ihe env he).2.2 (ihes env he).2⟩

/-- **Eager ⇒ deferred.** -/
theorem den_to_denLz (w : World) (hw : WorldClean w) (e : Expr) (env : Env) (henv : EnvClean env) (v : Val)
    (h : ev w env e = .ok v) : evLz w env e = .ok v ∧ v.clean = true :=
  ((den_SL_both w hw).1 e env henv).1 v h

end Fadl
