/-
  Shape facts about the type follower used by the C08 soundness proof: `Sim e e'` says that `e'` is `e` with call nodes
  rewritten (defaults filled in, callbacks applied) and nothing else changed; literal evaluation, dictionary-key lookup,
  "is a lambda" and `_fill_in_default_arguments` do not see the difference.
-/
import Fadl.Model.TypeSpec
namespace Fadl
set_option linter.unusedSimpArgs false
set_option linter.unusedVariables false

/-! ## what the follower does to the tree: call nodes are rewritten, everything else keeps its shape -/

mutual
def Sim : Expr → Expr → Prop
  | .name x, e' => e' = .name x
  | .const c, e' => e' = .const c
  | .lam ps b, e' => e' = .lam ps b
  | .attr v a, e' => ∃ v', e' = .attr v' a ∧ Sim v v'
  | .sub v s, e' => ∃ v' s', e' = .sub v' s' ∧ Sim v v' ∧ Sim s s'
  | .tuple es, e' => ∃ es', e' = .tuple es' ∧ SimL es es'
  | .list es, e' => ∃ es', e' = .list es' ∧ SimL es es'
  | .dict ks vs, e' => ∃ ks' vs', e' = .dict ks' vs' ∧ SimL ks ks' ∧ SimL vs vs'
  | .op k es, e' => ∃ es', e' = .op k es' ∧ SimL es es'
  | .comp _ _ _ _ _ _, e' => ∃ k a b c d f, e' = .comp k a b c d f
  | .call _ _ _ _, e' => ∃ f a kn kv, e' = .call f a kn kv
def SimL : List Expr → List Expr → Prop
  | [], es' => es' = []
  | e :: es, es' => ∃ e' rest, es' = e' :: rest ∧ Sim e e' ∧ SimL es rest
end

theorem SimL_length : ∀ (es es' : List Expr), SimL es es' → es'.length = es.length
  | [], es', h => by simp [SimL] at h; simp [h]
  | e :: es, es', h => by
    simp only [SimL] at h
    obtain ⟨e', rest, rfl, _, h2⟩ := h
    simp [SimL_length es rest h2]

mutual
theorem Sim_literalEval : ∀ (e e' : Expr), Sim e e' → literalEval e' = literalEval e
  | .name x, e', h => by simp only [Sim] at h; rw [h]
  | .const c, e', h => by simp only [Sim] at h; rw [h]
  | .lam ps b, e', h => by simp only [Sim] at h; rw [h]
  | .attr v a, e', h => by
    simp only [Sim] at h; obtain ⟨v', rfl, _⟩ := h; simp [literalEval]
  | .sub v s, e', h => by
    simp only [Sim] at h; obtain ⟨v', s', rfl, _, _⟩ := h; simp [literalEval]
  | .tuple es, e', h => by
    simp only [Sim] at h; obtain ⟨es', rfl, h⟩ := h
    simp only [literalEval, SimL_literalEvalL es es' h]
  | .list es, e', h => by
    simp only [Sim] at h; obtain ⟨es', rfl, h⟩ := h
    simp only [literalEval, SimL_literalEvalL es es' h]
  | .dict ks vs, e', h => by
    simp only [Sim] at h; obtain ⟨ks', vs', rfl, h1, h2⟩ := h
    simp only [literalEval, SimL_literalEvalL ks ks' h1, SimL_literalEvalL vs vs' h2]
  | .op k es, e', h => by
    simp only [Sim] at h; obtain ⟨es', rfl, h⟩ := h
    cases k with
    | un n =>
      cases es with
      | nil => simp only [SimL] at h; subst h; rfl
      | cons a rest =>
        simp only [SimL] at h
        obtain ⟨a', rest', rfl, ha, hr⟩ := h
        cases rest with
        | nil =>
          simp only [SimL] at hr; subst hr
          simp only [literalEval, Sim_literalEval a a' ha]
        | cons b rest2 =>
          simp only [SimL] at hr
          obtain ⟨b', rest2', rfl, _, _⟩ := hr
          simp [literalEval]
    | _ => simp [literalEval]
  | .comp _ _ _ _ _ _, e', h => by
    simp only [Sim] at h; obtain ⟨k, a, b, c, d, f, rfl⟩ := h; simp [literalEval]
  | .call _ _ _ _, e', h => by
    simp only [Sim] at h; obtain ⟨f, a, kn, kv, rfl⟩ := h; simp [literalEval]
theorem SimL_literalEvalL : ∀ (es es' : List Expr), SimL es es' → literalEvalL es' = literalEvalL es
  | [], es', h => by simp only [SimL] at h; rw [h]
  | e :: es, es', h => by
    simp only [SimL] at h
    obtain ⟨e', rest, rfl, h1, h2⟩ := h
    simp only [literalEvalL, Sim_literalEval e e' h1, SimL_literalEvalL es rest h2]
end

theorem SimL_mapM_litKey : ∀ (es es' : List Expr), SimL es es' → es'.mapM litKey = es.mapM litKey
  | [], es', h => by simp only [SimL] at h; rw [h]
  | e :: es, es', h => by
    simp only [SimL] at h
    obtain ⟨e', rest, rfl, h1, h2⟩ := h
    simp only [List.mapM_cons, litKey, Sim_literalEval e e' h1]
    have := SimL_mapM_litKey es rest h2
    simp only [litKey] at this
    rw [this]

theorem Sim_const_iff {e e' : Expr} (h : Sim e e') (c : Const) : e' = .const c ↔ e = .const c := by
  cases e <;> simp only [Sim] at h
  case const c' => rw [h]
  all_goals (constructor <;> intro h' <;> first | (subst h'; simp_all) | (obtain ⟨_, h, _⟩ := h; simp_all) | simp_all)

theorem Sim_keyName {e e' : Expr} (h : Sim e e') : keyName? e' = keyName? e := by
  cases e with
  | const c => simp only [Sim] at h; subst h; rfl
  | name x => simp only [Sim] at h; subst h; rfl
  | lam ps b => simp only [Sim] at h; subst h; rfl
  | attr v a => simp only [Sim] at h; obtain ⟨_, rfl, _⟩ := h; rfl
  | sub v s => simp only [Sim] at h; obtain ⟨_, _, rfl, _⟩ := h; rfl
  | tuple l => simp only [Sim] at h; obtain ⟨_, rfl, _⟩ := h; rfl
  | list l => simp only [Sim] at h; obtain ⟨_, rfl, _⟩ := h; rfl
  | dict l1 l2 => simp only [Sim] at h; obtain ⟨_, _, rfl, _⟩ := h; rfl
  | op ok l => simp only [Sim] at h; obtain ⟨_, rfl, _⟩ := h; rfl
  | comp a b c d e f => simp only [Sim] at h; obtain ⟨_, _, _, _, _, _, rfl⟩ := h; rfl
  | call a b c d => simp only [Sim] at h; obtain ⟨_, _, _, _, rfl⟩ := h; rfl

theorem SimL_dictLitIdx (k : String) : ∀ (es es' : List Expr) (i : Nat), SimL es es' →
    dictLitIdx? k es' i = dictLitIdx? k es i
  | [], es', i, h => by simp only [SimL] at h; rw [h]
  | e :: es, es', i, h => by
    simp only [SimL] at h
    obtain ⟨e', rest, rfl, h1, h2⟩ := h
    simp only [dictLitIdx?, SimL_dictLitIdx k es rest (i + 1) h2, Sim_keyName h1]

theorem SimL_dictLitIndex (k : String) (es es' : List Expr) (i : Nat) (h : SimL es es') :
    dictLitIndex k es' i = dictLitIndex k es i := by
  simp only [dictLitIndex, SimL_dictLitIdx k es es' i h]

end Fadl
namespace Fadl
set_option linter.unusedSimpArgs false
set_option linter.unusedVariables false

/-! ## filling in defaults does not look at the arguments -/

def ERel {α β : Type} (R : α → β → Prop) : Except Err α → Except Err β → Prop
  | .ok a, .ok b => R a b
  | .error x, .error y => x = y
  | _, _ => False

theorem SimL_append : ∀ (as as' bs bs' : List Expr), SimL as as' → SimL bs bs' → SimL (as ++ bs) (as' ++ bs')
  | [], as', bs, bs', h1, h2 => by simp only [SimL] at h1; subst h1; simpa using h2
  | a :: as, as', bs, bs', h1, h2 => by
    simp only [SimL] at h1
    obtain ⟨a', rest, rfl, ha, hr⟩ := h1
    simp only [List.cons_append, SimL]
    exact ⟨a', rest ++ bs', rfl, ha, SimL_append as rest bs bs' hr h2⟩

theorem SimL_single {e e' : Expr} (h : Sim e e') : SimL [e] [e'] := by
  simp only [SimL]; exact ⟨e', [], rfl, h, rfl⟩

theorem Sim_refl_const (c : Const) : Sim (.const c) (.const c) := by simp [Sim]

def FKRel : Option (Expr × List String × List Expr) → Option (Expr × List String × List Expr) → Prop
  | Option.none, Option.none => True
  | some (e, ks, vs), some (e', ks', vs') => Sim e e' ∧ ks = ks' ∧ SimL vs vs'
  | _, _ => False

theorem SimL_findKeyword (n : String) : ∀ (kwn : List String) (kwv kwv' : List Expr), SimL kwv kwv' →
    FKRel (findKeyword n kwn kwv) (findKeyword n kwn kwv')
  | [], kwv, kwv', h => by cases kwv <;> cases kwv' <;> simp [findKeyword, FKRel]
  | k :: ks, [], kwv', h => by simp only [SimL] at h; subst h; simp [findKeyword, FKRel]
  | k :: ks, v :: vs, kwv', h => by
    simp only [SimL] at h
    obtain ⟨v', vs', rfl, hv, hr⟩ := h
    simp only [findKeyword]
    split
    · exact ⟨hv, rfl, hr⟩
    · have ih := SimL_findKeyword n ks vs vs' hr
      cases h1 : findKeyword n ks vs with
      | none =>
        cases h2 : findKeyword n ks vs' with
        | none => simp [FKRel]
        | some r => rw [h1, h2] at ih; simp [FKRel] at ih
      | some r =>
        obtain ⟨e, ks1, vs1⟩ := r
        cases h2 : findKeyword n ks vs' with
        | none => rw [h1, h2] at ih; simp [FKRel] at ih
        | some r' =>
          obtain ⟨e', ks1', vs1'⟩ := r'
          rw [h1, h2] at ih
          simp only [FKRel] at ih ⊢
          obtain ⟨a, b, c⟩ := ih
          refine ⟨a, by rw [b], ?_⟩
          simp only [SimL]
          exact ⟨v', vs1', rfl, hv, c⟩

def FLRel : (List Expr × List String × List Expr) → (List Expr × List String × List Expr) → Prop
  | (a, kn, kv), (a', kn', kv') => SimL a a' ∧ kn = kn' ∧ SimL kv kv'

theorem SimL_fillLoop : ∀ (ps : List Param) (i : Nat) (args args' : List Expr) (kwn : List String) (kwv kwv' : List Expr),
    SimL args args' → SimL kwv kwv' → ERel FLRel (fillLoop ps i args kwn kwv) (fillLoop ps i args' kwn kwv')
  | [], i, args, args', kwn, kwv, kwv', h1, h2 => by simp only [fillLoop, ERel, FLRel]; exact ⟨h1, by simp, h2⟩
  | p :: ps, i, args, args', kwn, kwv, kwv', h1, h2 => by
    simp only [fillLoop, SimL_length args args' h1]
    split
    · have hk := SimL_findKeyword p.name kwn kwv kwv' h2
      cases h3 : findKeyword p.name kwn kwv with
      | none =>
        cases h4 : findKeyword p.name kwn kwv' with
        | some r => rw [h3, h4] at hk; simp [FKRel] at hk
        | none =>
          simp only []
          cases p.dflt with
          | none => simp [ERel]
          | some c =>
            simp only []
            exact SimL_fillLoop ps (i + 1) _ _ kwn kwv kwv' (SimL_append _ _ _ _ h1 (SimL_single (Sim_refl_const c))) h2
      | some r =>
        obtain ⟨e, ks1, vs1⟩ := r
        cases h4 : findKeyword p.name kwn kwv' with
        | none => rw [h3, h4] at hk; simp [FKRel] at hk
        | some r' =>
          obtain ⟨e', ks1', vs1'⟩ := r'
          rw [h3, h4] at hk
          simp only [FKRel] at hk
          obtain ⟨a, b, c⟩ := hk
          subst b
          simp only []
          exact SimL_fillLoop ps (i + 1) _ _ ks1 vs1 vs1' (SimL_append _ _ _ _ h1 (SimL_single a)) c
    · exact SimL_fillLoop ps (i + 1) args args' kwn kwv kwv' h1 h2

/-- a filled call and the same call filled from the rewritten arguments -/
def CallSim (c c' : Expr) : Prop :=
  ∃ f f' fa fa' kn kv kv', c = .call f fa kn kv ∧ c' = .call f' fa' kn kv' ∧ SimL fa fa' ∧ SimL kv kv'

theorem Sim_fillDefaults (ps : List Param) (f f' : Expr) (args args' : List Expr) (kwn : List String) (kwv kwv' : List Expr)
    (h1 : SimL args args') (h2 : SimL kwv kwv') :
    ERel CallSim (fillDefaults ps f args kwn kwv) (fillDefaults ps f' args' kwn kwv') := by
  simp only [fillDefaults]
  have h := SimL_fillLoop (ps.filter (fun p => p.name != "known_types")) 0 args args' kwn kwv kwv' h1 h2
  cases h3 : fillLoop (ps.filter (fun p => p.name != "known_types")) 0 args kwn kwv with
  | error x =>
    cases h4 : fillLoop (ps.filter (fun p => p.name != "known_types")) 0 args' kwn kwv' with
    | error y => rw [h3, h4] at h; simp only [ERel] at h; subst h; simp [bind, Except.bind, ERel]
    | ok r => rw [h3, h4] at h; simp [ERel] at h
  | ok r =>
    obtain ⟨a, kn, kv⟩ := r
    cases h4 : fillLoop (ps.filter (fun p => p.name != "known_types")) 0 args' kwn kwv' with
    | error y => rw [h3, h4] at h; simp [ERel] at h
    | ok r' =>
      obtain ⟨a', kn', kv'⟩ := r'
      rw [h3, h4] at h
      simp only [ERel, FLRel] at h
      obtain ⟨ha, hk, hv⟩ := h
      subst hk
      simp only [bind, Except.bind, SimL_length a a' ha, SimL_length args args' h1]
      split
      · simp only [pure, Except.pure, ERel, CallSim]
        exact ⟨f, f', a, a', kn, kv, kv', rfl, rfl, ha, hv⟩
      · simp only [pure, Except.pure, ERel, CallSim]
        exact ⟨f, f', args, args', kwn, kwv, kwv', rfl, rfl, h1, h2⟩

theorem Sim_isLam {e e' : Expr} (h : Sim e e') : isLamArg e' = isLamArg e := by
  cases e <;> simp only [Sim] at h
  case lam ps b => rw [h]
  case name x => rw [h]
  case const c => rw [h]
  case attr => obtain ⟨_, rfl, _⟩ := h; rfl
  case sub => obtain ⟨_, _, rfl, _⟩ := h; rfl
  case tuple => obtain ⟨_, rfl, _⟩ := h; rfl
  case list => obtain ⟨_, rfl, _⟩ := h; rfl
  case dict => obtain ⟨_, _, rfl, _⟩ := h; rfl
  case op => obtain ⟨_, rfl, _⟩ := h; rfl
  case comp => obtain ⟨_, _, _, _, _, _, rfl⟩ := h; rfl
  case call => obtain ⟨_, _, _, _, rfl⟩ := h; rfl

theorem SimL_anyLam : ∀ (es es' : List Expr), SimL es es' → es'.any isLamArg = es.any isLamArg
  | [], es', h => by simp only [SimL] at h; rw [h]
  | e :: es, es', h => by
    simp only [SimL] at h
    obtain ⟨e', rest, rfl, h1, h2⟩ := h
    simp only [List.any_cons, Sim_isLam h1, SimL_anyLam es rest h2]

end Fadl
namespace Fadl
set_option linter.unusedSimpArgs false
set_option linter.unusedVariables false

/-! ## shape inversion for `Sim` -/

theorem Sim_dict_inv {v e' : Expr} {ks' vs' : List Expr} (h : Sim v e') (he : e' = .dict ks' vs') :
    ∃ ks vs, v = .dict ks vs ∧ SimL ks ks' ∧ SimL vs vs' := by
  subst he
  cases v <;> simp only [Sim] at h
  case dict ks vs => obtain ⟨a, b, hh, h1, h2⟩ := h; cases hh; exact ⟨ks, vs, rfl, h1, h2⟩
  all_goals (simp at h)

theorem Sim_not_dict {v e' : Expr} (h : Sim v e') (he : ∀ ks' vs', e' ≠ .dict ks' vs') : ∀ ks vs, v ≠ .dict ks vs := by
  intro ks vs hv
  subst hv
  simp only [Sim] at h
  obtain ⟨a, b, hh, _⟩ := h
  exact he a b hh

theorem Sim_tuple_inv {v e' : Expr} {es' : List Expr} (h : Sim v e') (he : e' = .tuple es') :
    ∃ es, v = .tuple es ∧ SimL es es' := by
  subst he
  cases v <;> simp only [Sim] at h
  case tuple es => obtain ⟨a, hh, h1⟩ := h; cases hh; exact ⟨es, rfl, h1⟩
  all_goals (simp at h)

theorem Sim_not_tuple {v e' : Expr} (h : Sim v e') (he : ∀ es', e' ≠ .tuple es') : ∀ es, v ≠ .tuple es := by
  intro es hv
  subst hv
  simp only [Sim] at h
  obtain ⟨a, hh, _⟩ := h
  exact he a hh

theorem Sim_const_inv {v e' : Expr} {c : Const} (h : Sim v e') (he : e' = .const c) : v = .const c := by
  subst he
  cases v <;> simp only [Sim] at h
  case const c' => cases h; rfl
  all_goals (simp at h)

theorem Sim_lam_inv {v e' : Expr} {ps : List String} {b : Expr} (h : Sim v e') (he : e' = .lam ps b) : v = .lam ps b := by
  subst he
  cases v <;> simp only [Sim] at h
  case lam ps' b' => cases h; rfl
  all_goals (simp at h)

theorem SimL_single_lam_inv {fa : List Expr} {ps : List String} {b : Expr} (h : SimL fa [.lam ps b]) : fa = [.lam ps b] := by
  cases fa with
  | nil => simp [SimL] at h
  | cons e rest =>
    simp only [SimL] at h
    obtain ⟨e', rest', heq, h1, h2⟩ := h
    simp only [List.cons.injEq] at heq
    obtain ⟨rfl, rfl⟩ := heq
    cases rest with
    | nil => rw [Sim_lam_inv h1 rfl]
    | cons a r => simp [SimL] at h2

theorem SimL_of_single_lam {fa' : List Expr} {ps : List String} {b : Expr} (h : SimL [.lam ps b] fa') : fa' = [.lam ps b] := by
  simp only [SimL, Sim] at h
  obtain ⟨e', rest, rfl, rfl, rfl⟩ := h
  rfl

theorem Sim_of_const {c : Const} {e' : Expr} (h : Sim (.const c) e') : e' = .const c := by simpa [Sim] using h

theorem SimL_getElem?_isSome {es es' : List Expr} (h : SimL es es') (i : Nat) : (es'[i]?).isSome = (es[i]?).isSome := by
  have hl := SimL_length es es' h
  by_cases hi : i < es.length
  · have hi' : i < es'.length := by omega
    simp [List.getElem?_eq_getElem hi, List.getElem?_eq_getElem hi']
  · have h1 : es.length ≤ i := by omega
    have h2 : es'.length ≤ i := by omega
    simp [List.getElem?_eq_none h1, List.getElem?_eq_none h2]

def tinfo (r : FRes) : TInfo := ⟨r.ty, r.elts⟩

end Fadl
