/-
  Coincidence: the deferred-execution value of an expression depends on the environment only through the
  expression's free names (Fadl/Scope.lean).  The basis of every substitution / renaming argument
  (C02, C05, C14).
-/
import Fadl.Scope
import Fadl.Lemmas.Agree
namespace Fadl
set_option linter.unusedSimpArgs false

theorem upd_same (env env' : Env) (x : String) (v : Val) : (env.upd x v) x = (env'.upd x v) x := by
  simp [Env.upd]

theorem upd_agree {env env' : Env} (x : String) (v : Val) {y : String} (h : env y = env' y) :
    (env.upd x v) y = (env'.upd x v) y := by
  simp only [Env.upd]; split <;> simp [h]

/-- two runs of `bindPos` from two environments -/
theorem bindPos_agree : ∀ (ps : List String) (vs : List Val) (env env' : Env),
    (∀ e, bindPos env ps vs = .error e → bindPos env' ps vs = .error e) ∧
    (∀ env2 rest, bindPos env ps vs = .ok (env2, rest) → ∃ env2', bindPos env' ps vs = .ok (env2', rest) ∧
      (∀ y, env y = env' y → env2 y = env2' y) ∧ (∀ y, y ∈ ps → y ∉ rest → env2 y = env2' y))
  | ps, [], env, env' => by
    refine ⟨by simp [bindPos], ?_⟩
    intro env2 rest h
    simp only [bindPos, Except.ok.injEq, Prod.mk.injEq] at h
    obtain ⟨rfl, rfl⟩ := h
    exact ⟨env', by simp [bindPos], fun y h => h, fun y h1 h2 => absurd h1 h2⟩
  | [], _ :: _, env, env' => by
    refine ⟨by simp [bindPos], by simp [bindPos]⟩
  | p :: ps, v :: vs, env, env' => by
    obtain ⟨ih1, ih2⟩ := bindPos_agree ps vs (env.upd p v) (env'.upd p v)
    refine ⟨by simpa [bindPos] using ih1, ?_⟩
    intro env2 rest h
    simp only [bindPos] at h
    obtain ⟨env2', h1, h2, h3⟩ := ih2 env2 rest h
    refine ⟨env2', by simpa [bindPos] using h1, fun y hy => h2 y (upd_agree p v hy), ?_⟩
    intro y hy hr
    rcases List.mem_cons.mp hy with rfl | hy
    · exact h2 _ (upd_same env env' _ v)
    · exact h3 y hy hr

theorem bindKw_agree : ∀ (ks : List String) (vs : List Val) (ps : List String) (env env' : Env),
    (∀ e, bindKw ps env ks vs = .error e → bindKw ps env' ks vs = .error e) ∧
    (∀ env2 rest, bindKw ps env ks vs = .ok (env2, rest) → ∃ env2', bindKw ps env' ks vs = .ok (env2', rest) ∧
      (∀ y, env y = env' y → env2 y = env2' y) ∧ (∀ y, y ∈ ps → y ∉ rest → env2 y = env2' y))
  | [], [], ps, env, env' => by
    refine ⟨by simp [bindKw], ?_⟩
    intro env2 rest h
    simp only [bindKw, Except.ok.injEq, Prod.mk.injEq] at h
    obtain ⟨rfl, rfl⟩ := h
    exact ⟨env', by simp [bindKw], fun y h => h, fun y h1 h2 => absurd h1 h2⟩
  | [], _ :: _, ps, env, env' => by simp [bindKw]
  | _ :: _, [], ps, env, env' => by simp [bindKw]
  | k :: ks, v :: vs, ps, env, env' => by
    by_cases hk : k ∈ ps
    · obtain ⟨ih1, ih2⟩ := bindKw_agree ks vs (ps.erase k) (env.upd k v) (env'.upd k v)
      refine ⟨by simpa [bindKw, hk] using ih1, ?_⟩
      intro env2 rest h
      simp only [bindKw, hk, if_true] at h
      obtain ⟨env2', h1, h2, h3⟩ := ih2 env2 rest h
      refine ⟨env2', by simpa [bindKw, hk] using h1, fun y hy => h2 y (upd_agree k v hy), ?_⟩
      intro y hy hr
      by_cases hyk : y = k
      · subst hyk; exact h2 _ (upd_same env env' _ v)
      · exact h3 y ((List.mem_erase_of_ne hyk).mpr hy) hr
    · simp [bindKw, hk]

/-- binding the parameters of a called lambda in two environments: same outcome, and the resulting
    environments agree on every parameter and wherever the originals agreed -/
theorem bindParams_agree (ps : List String) (vs : List Val) (kwn : List String) (kvs : List Val) (env env' : Env) :
    (∀ e, bindParams ps vs kwn kvs env = .error e → bindParams ps vs kwn kvs env' = .error e) ∧
    (∀ env2, bindParams ps vs kwn kvs env = .ok env2 → ∃ env2', bindParams ps vs kwn kvs env' = .ok env2' ∧
      (∀ y, env y = env' y → env2 y = env2' y) ∧ (∀ y ∈ ps, env2 y = env2' y)) := by
  unfold bindParams
  rcases (Bool.eq_false_or_eq_true (distinctS ps)).symm with hd | hd
  · simp [hd]
  · simp only [hd, Bool.not_true, Bool.false_eq_true, if_false]
    obtain ⟨p1, p2⟩ := bindPos_agree ps vs env env'
    cases h1 : bindPos env ps vs with
    | error e => simp [p1 e h1, bind, Except.bind]
    | ok r1 =>
      obtain ⟨env1, rest⟩ := r1
      obtain ⟨env1', h1', a1, b1⟩ := p2 env1 rest h1
      simp only [h1', bind, Except.bind]
      obtain ⟨q1, q2⟩ := bindKw_agree kwn kvs rest env1 env1'
      cases h2 : bindKw rest env1 kwn kvs with
      | error e => simp [q1 e h2]
      | ok r2 =>
        obtain ⟨env2, rest2⟩ := r2
        obtain ⟨env2', h2', a2, b2⟩ := q2 env2 rest2 h2
        simp only [h2']
        by_cases hr : rest2.isEmpty
        · simp only [hr, if_true, pure, Except.pure]
          refine ⟨by simp, ?_⟩
          intro e2 he
          cases he
          refine ⟨env2', rfl, fun y hy => a2 y (a1 y hy), ?_⟩
          intro y hy
          by_cases hyr : y ∈ rest
          · exact b2 y hyr (by simp [List.isEmpty_iff.mp hr])
          · exact a2 y (b1 y hy hyr)
        · simp [hr]

theorem mem_freeNamesL_cons {bound : List String} {e : Expr} {es : List Expr} {x : String} :
    x ∈ freeNamesL bound (e :: es) ↔ x ∈ freeNames bound e ∨ x ∈ freeNamesL bound es := by
  simp [freeNamesL]

/-- **Coincidence** (with the list of names already known to agree carried along). -/
theorem denLz_coincide_both (w : World) :
    (∀ e : Expr, ∀ (bound : List String) (env env' : Env),
        (∀ x ∈ freeNames bound e, env x = env' x) → (∀ x ∈ bound, env x = env' x) →
        denLz w e env = denLz w e env' ∧ HeadAgree env env' (denHeadLz w e) (denHeadLz w e) ∧
        LamAgree env env' (denLamLz w e) (denLamLz w e)) ∧
    (∀ es : List Expr, ∀ (bound : List String) (env env' : Env),
        (∀ x ∈ freeNamesL bound es, env x = env' x) → (∀ x ∈ bound, env x = env' x) →
        All2 (DAgree env env') (denLLz w es) (denLLz w es) ∧
        All2 (LamAgree env env') (denLamLLz w es) (denLamLLz w es)) := by
  have lamNone : ∀ env env', LamAgree env env' Option.none Option.none := by
    intro env env'; exact ⟨fun _ => rfl, fun _ _ => rfl⟩
  apply Expr.size.mutual_induct
    (motive_1 := fun e => ∀ (bound : List String) (env env' : Env),
        (∀ x ∈ freeNames bound e, env x = env' x) → (∀ x ∈ bound, env x = env' x) →
        denLz w e env = denLz w e env' ∧ HeadAgree env env' (denHeadLz w e) (denHeadLz w e) ∧
        LamAgree env env' (denLamLz w e) (denLamLz w e))
    (motive_2 := fun es => ∀ (bound : List String) (env env' : Env),
        (∀ x ∈ freeNamesL bound es, env x = env' x) → (∀ x ∈ bound, env x = env' x) →
        All2 (DAgree env env') (denLLz w es) (denLLz w es) ∧
        All2 (LamAgree env env') (denLamLLz w es) (denLamLLz w es))
  case case1 =>
    intro x bound env env' hf hb
    have hx : env x = env' x := by
      by_cases hc : bound.contains x
      · exact hb x (by simpa using hc)
      · exact hf x (by simp only [freeNames, hc]; simp)
    refine ⟨by simp [denLz, hx], by simp [denHeadLz, HeadAgree], lamNone _ _⟩
  case case2 =>
    intro c bound env env' _ _
    exact ⟨rfl, by simp [denHeadLz, HeadAgree], lamNone _ _⟩
  case case3 =>
    intro v a ih bound env env' hf hb
    have h := (ih bound env env' (by simpa [freeNames] using hf) hb).1
    refine ⟨by simp [denLz, h], by simp [denHeadLz, HeadAgree, h], lamNone _ _⟩
  case case4 =>
    intro f args kwn kwv ihf iha ihk bound env env' hf hb
    simp only [freeNames, List.mem_append] at hf
    have h1 := ihf bound env env' (fun x hx => hf x (Or.inl (Or.inl hx))) hb
    have h2 := iha bound env env' (fun x hx => hf x (Or.inl (Or.inr hx))) hb
    have h3 := ihk bound env env' (fun x hx => hf x (Or.inr hx)) hb
    refine ⟨?_, by simp [denHeadLz, HeadAgree], lamNone _ _⟩
    simp only [denLz]
    exact callSemLz_agree w kwn h1.2.1 h2.1 h2.2 h3.1
  case case5 =>
    intro ps b ih bound env env' hf hb
    simp only [freeNames] at hf
    refine ⟨rfl, ?_, ?_⟩
    · -- called: parameters bound by bindParams
      simp only [denHeadLz, HeadAgree]
      intro vs kwn kvs
      obtain ⟨e1, e2⟩ := bindParams_agree ps vs kwn kvs env env'
      cases hbp : bindParams ps vs kwn kvs env with
      | error e => simp [e1 e hbp, bind, Except.bind]
      | ok env2 =>
        obtain ⟨env2', h', a, bb⟩ := e2 env2 hbp
        simp only [h', bind, Except.bind]
        refine (ih (ps ++ bound) env2 env2' (fun x hx => a x (hf x hx)) ?_).1
        intro x hx
        rcases List.mem_append.mp hx with hx | hx
        · exact bb x hx
        · exact a x (hb x hx)
    · -- operator argument
      simp only [denLamLz]
      constructor
      · intro v
        match ps with
        | [x] =>
          simp only [applyLam1]
          refine (ih ([x] ++ bound) _ _ (fun y hy => upd_agree x v (hf y hy)) ?_).1
          intro y hy
          rcases List.mem_append.mp hy with hy | hy
          · simp only [List.mem_singleton] at hy; subst hy; exact upd_same _ _ _ _
          · exact upd_agree x v (hb y hy)
        | [] => rfl
        | _ :: _ :: _ => rfl
      · intro a v
        match ps with
        | [x, y] =>
          simp only [applyLam2]
          split
          · rfl
          · refine (ih ([x, y] ++ bound) _ _ (fun z hz => upd_agree y v (upd_agree x a (hf z hz))) ?_).1
            intro z hz
            rcases List.mem_append.mp hz with hz | hz
            · simp only [List.mem_cons, List.not_mem_nil, or_false] at hz
              by_cases hzy : z = y
              · subst hzy; exact upd_same _ _ _ _
              · rcases hz with rfl | rfl
                · exact upd_agree y v (upd_same _ _ _ _)
                · exact absurd rfl hzy
            · exact upd_agree y v (upd_agree x a (hb z hz))
        | [] => rfl
        | [_] => rfl
        | _ :: _ :: _ :: _ => rfl
  case case6 =>
    intro v s ihv ihs bound env env' hf hb
    simp only [freeNames, List.mem_append] at hf
    have h1 := (ihv bound env env' (fun x hx => hf x (Or.inl hx)) hb).1
    have h2 := (ihs bound env env' (fun x hx => hf x (Or.inr hx)) hb).1
    refine ⟨by simp [denLz, h1, h2], by simp [denHeadLz, HeadAgree], lamNone _ _⟩
  case case7 =>
    intro es ih bound env env' hf hb
    have h := (ih bound env env' (by simpa [freeNames] using hf) hb).1
    refine ⟨by simp [denLz, evalAll_agree h], by simp [denHeadLz, HeadAgree], lamNone _ _⟩
  case case8 =>
    intro es ih bound env env' hf hb
    have h := (ih bound env env' (by simpa [freeNames] using hf) hb).1
    refine ⟨by simp [denLz, evalAll_agree h], by simp [denHeadLz, HeadAgree], lamNone _ _⟩
  case case9 =>
    intro ks vs ihk ihv bound env env' hf hb
    simp only [freeNames, List.mem_append] at hf
    have h1 := (ihk bound env env' (fun x hx => hf x (Or.inl hx)) hb).1
    have h2 := (ihv bound env env' (fun x hx => hf x (Or.inr hx)) hb).1
    refine ⟨by simp [denLz, evalAll_agree h1, evalAll_agree h2], by simp [denHeadLz, HeadAgree], lamNone _ _⟩
  case case10 =>
    intro k args ih bound env env' hf hb
    have h := (ih bound env env' (by simpa [freeNames] using hf) hb).1
    refine ⟨by simp [denLz, map_env_agree h], by simp [denHeadLz, HeadAgree], lamNone _ _⟩
  case case11 =>
    intro kind el t i ifs a ihe _ iht ihifs bound env env' hf hb
    simp only [freeNames, List.mem_append] at hf
    refine ⟨?_, by simp [denHeadLz, HeadAgree], lamNone _ _⟩
    simp only [denLz]
    cases t with
    | name x =>
      simp only [targetName]
      have hbound : ∀ v, ∀ y ∈ targetNames (.name x) ++ bound, (env.upd x v) y = (env'.upd x v) y := by
        intro v y hy
        simp only [targetNames, List.singleton_append, List.mem_cons] at hy
        rcases hy with rfl | hy
        · exact upd_same _ _ _ _
        · exact upd_agree x v (hb y hy)
      apply compSemLz_agree
      · exact (iht bound env env' (fun y hy => hf y (Or.inl (Or.inr hy))) hb).1
      · intro v
        exact (ihe _ _ _ (fun y hy => upd_agree x v (hf y (Or.inl (Or.inl hy)))) (hbound v)).1
      · intro v
        exact (ihifs _ _ _ (fun y hy => upd_agree x v (hf y (Or.inr hy))) (hbound v)).1
    | _ => simp [targetName, compSemLz]
  case case12 =>
    intro bound env env' _ _
    exact ⟨.nil, .nil⟩
  case case13 =>
    intro e es ihe ihes bound env env' hf hb
    have h1 := ihe bound env env' (fun x hx => hf x (mem_freeNamesL_cons.mpr (Or.inl hx))) hb
    have h2 := ihes bound env env' (fun x hx => hf x (mem_freeNamesL_cons.mpr (Or.inr hx))) hb
    exact ⟨.cons h1.1 h2.1, .cons h1.2.2 h2.2⟩

/-- **Coincidence**: environments that agree on the free names of `e` give it the same value. -/
theorem denLz_coincide (w : World) (e : Expr) (env env' : Env) (h : ∀ x ∈ fv e, env x = env' x) :
    denLz w e env = denLz w e env' :=
  ((denLz_coincide_both w).1 e [] env env' h (by simp)).1

/-- a name that is not free can be rebound at will -/
theorem denLz_upd_fresh (w : World) (e : Expr) (env : Env) (x : String) (v : Val) (h : x ∉ fv e) :
    denLz w e (env.upd x v) = denLz w e env := by
  apply denLz_coincide
  intro y hy
  simp only [Env.upd]
  split
  · rename_i hyx; subst hyx; exact absurd hy h
  · rfl

end Fadl
