/-
  The value of a dictionary display (`mkDict`: entries inserted left to right, a later entry overriding an earlier
  equal key): monotonicity, cleanness, and what a lookup finds - the value of the LAST equal key.
-/
import Fadl.Lemmas.Refine
namespace Fadl
set_option linter.unusedSimpArgs false

/-! ### monotonicity -/

theorem dictInsert_mono (k : Val) {v v' : Val} (hv : VLe v v') :
    ∀ (ak av av' : List Val), VLeS av av' →
      (dictInsert k v ak av).1 = (dictInsert k v' ak av').1 ∧ VLeS (dictInsert k v ak av).2 (dictInsert k v' ak av').2
  | [], av, av', _ => by simp [dictInsert, VLeS, hv]
  | k' :: ks, [], [], _ => by simp [dictInsert, VLeS, hv]
  | k' :: ks, [], _ :: _, h => by simp [VLeS] at h
  | k' :: ks, _ :: _, [], h => by simp [VLeS] at h
  | k' :: ks, a :: as, b :: bs, h => by
    simp only [VLeS] at h
    simp only [dictInsert]
    by_cases hp : pyEq k k' = true
    · simp only [hp, if_true, VLeS]; exact ⟨trivial, hv, h.2⟩
    · simp only [hp]
      obtain ⟨e1, e2⟩ := dictInsert_mono k hv ks as bs h.2
      simp only [Bool.false_eq_true, if_false, VLeS, e1, true_and]
      exact ⟨h.1, e2⟩

theorem dictBuild_mono : ∀ (ks vs vs' ak av av' : List Val), VLeS vs vs' → VLeS av av' →
      (dictBuild ks vs ak av).1 = (dictBuild ks vs' ak av').1 ∧ VLeS (dictBuild ks vs ak av).2 (dictBuild ks vs' ak av').2
  | [], vs, vs', ak, av, av', _, ha => by simp [dictBuild, ha]
  | k :: ks, [], [], ak, av, av', _, ha => by simp [dictBuild, ha]
  | k :: ks, [], _ :: _, _, _, _, h, _ => by simp [VLeS] at h
  | k :: ks, _ :: _, [], _, _, _, h, _ => by simp [VLeS] at h
  | k :: ks, v :: vs, v' :: vs', ak, av, av', h, ha => by
    simp only [VLeS] at h
    simp only [dictBuild]
    obtain ⟨e1, e2⟩ := dictInsert_mono k h.1 ak av av' ha
    rw [e1]
    exact dictBuild_mono ks vs vs' _ _ _ h.2 e2

theorem dictInsert_keys_self (k v : Val) (hk : VLe k k) :
    ∀ (ak av : List Val), VLeS ak ak → VLeS (dictInsert k v ak av).1 (dictInsert k v ak av).1
  | [], av, _ => by simp [dictInsert, VLeS, hk]
  | k' :: ks, [], _ => by simp [dictInsert, VLeS, hk]
  | k' :: ks, a :: as, h => by
    simp only [VLeS] at h
    simp only [dictInsert]
    by_cases hp : pyEq k k' = true
    · simp only [hp, if_true, VLeS]; exact h
    · simp only [hp, Bool.false_eq_true, if_false, VLeS]
      exact ⟨h.1, dictInsert_keys_self k v hk ks as h.2⟩

theorem dictBuild_keys_self : ∀ (ks vs ak av : List Val), VLeS ks ks → VLeS ak ak →
      VLeS (dictBuild ks vs ak av).1 (dictBuild ks vs ak av).1
  | [], vs, ak, av, _, ha => by simp [dictBuild, ha]
  | k :: ks, [], ak, av, _, ha => by simp [dictBuild, ha]
  | k :: ks, v :: vs, ak, av, h, ha => by
    simp only [VLeS] at h
    simp only [dictBuild]
    exact dictBuild_keys_self ks vs _ _ h.2 (dictInsert_keys_self k v h.1 ak av ha)

/-! ### cleanness -/

theorem dictInsert_clean (k v : Val) (hk : k.clean = true) (hv : v.clean = true) :
    ∀ (ak av : List Val), Val.cleanL ak = true → Val.cleanL av = true →
      Val.cleanL (dictInsert k v ak av).1 = true ∧ Val.cleanL (dictInsert k v ak av).2 = true
  | [], av, _, _ => by simp [dictInsert, Val.cleanL, hk, hv]
  | k' :: ks, [], _, _ => by simp [dictInsert, Val.cleanL, hk, hv]
  | k' :: ks, a :: as, h1, h2 => by
    simp only [Val.cleanL, Bool.and_eq_true] at h1 h2
    simp only [dictInsert]
    by_cases hp : pyEq k k' = true
    · simp only [hp, if_true, Val.cleanL, Bool.and_eq_true]; exact ⟨⟨h1.1, h1.2⟩, hv, h2.2⟩
    · obtain ⟨e1, e2⟩ := dictInsert_clean k v hk hv ks as h1.2 h2.2
      simp only [hp, Bool.false_eq_true, if_false, Val.cleanL, Bool.and_eq_true]
      exact ⟨⟨h1.1, e1⟩, h2.1, e2⟩

theorem dictBuild_clean : ∀ (ks vs ak av : List Val), Val.cleanL ks = true → Val.cleanL vs = true →
      Val.cleanL ak = true → Val.cleanL av = true →
      Val.cleanL (dictBuild ks vs ak av).1 = true ∧ Val.cleanL (dictBuild ks vs ak av).2 = true
  | [], vs, ak, av, _, _, h3, h4 => by simp [dictBuild, h3, h4]
  | k :: ks, [], ak, av, _, _, h3, h4 => by simp [dictBuild, h3, h4]
  | k :: ks, v :: vs, ak, av, h1, h2, h3, h4 => by
    simp only [Val.cleanL, Bool.and_eq_true] at h1 h2
    simp only [dictBuild]
    obtain ⟨e1, e2⟩ := dictInsert_clean k v h1.1 h2.1 ak av h3 h4
    exact dictBuild_clean ks vs _ _ h1.2 h2.2 e1 e2

theorem dictInsert_clean_keys (k v : Val) (hk : k.clean = true) :
    ∀ (ak av : List Val), Val.cleanL ak = true → Val.cleanL (dictInsert k v ak av).1 = true
  | [], av, _ => by simp [dictInsert, Val.cleanL, hk]
  | k' :: ks, [], _ => by simp [dictInsert, Val.cleanL, hk]
  | k' :: ks, a :: as, h1 => by
    simp only [Val.cleanL, Bool.and_eq_true] at h1
    simp only [dictInsert]
    by_cases hp : pyEq k k' = true
    · simp only [hp, if_true, Val.cleanL, Bool.and_eq_true]; exact h1
    · simp only [hp, Bool.false_eq_true, if_false, Val.cleanL, Bool.and_eq_true]
      exact ⟨h1.1, dictInsert_clean_keys k v hk ks as h1.2⟩

theorem dictBuild_clean_keys : ∀ (ks vs ak av : List Val), Val.cleanL ks = true → Val.cleanL ak = true →
      Val.cleanL (dictBuild ks vs ak av).1 = true
  | [], vs, ak, av, _, h3 => by simp [dictBuild, h3]
  | k :: ks, [], ak, av, _, h3 => by simp [dictBuild, h3]
  | k :: ks, v :: vs, ak, av, h1, h3 => by
    simp only [Val.cleanL, Bool.and_eq_true] at h1
    simp only [dictBuild]
    exact dictBuild_clean_keys ks vs _ _ h1.2 (dictInsert_clean_keys k v h1.1 ak av h3)

/-! ### lookup: the last equal key wins -/

/-- the values a constant key evaluates to -/
def scalarV : Val → Bool
  | .int _ => true
  | .bool _ => true
  | .str _ => true
  | .none => true
  | .float _ => true
  | _ => false

theorem pyEq_symm_scalar {a b : Val} (ha : scalarV a = true) (hb : scalarV b = true) (h : pyEq a b = true) :
    pyEq b a = true := by
  cases a <;> simp [scalarV] at ha <;> cases b <;> simp [scalarV] at hb <;>
    simp_all [pyEq, asInt, Val.beq] <;> (try omega) <;> (try (split at h <;> split <;> simp_all)) <;> (try exact h.symm)

theorem pyEq_trans_scalar {a b c : Val} (ha : scalarV a = true) (hb : scalarV b = true) (hc : scalarV c = true)
    (h1 : pyEq a b = true) (h2 : pyEq b c = true) : pyEq a c = true := by
  cases a <;> simp [scalarV] at ha <;> cases b <;> simp [scalarV] at hb <;> cases c <;> simp [scalarV] at hc <;>
    simp_all [pyEq, asInt, Val.beq] <;> (try omega) <;> (try (split at h1 <;> split at h2 <;> simp_all))

/-- the value of the last entry whose key equals `q` -/
def lastMatchV (q : Val) : List Val → List Val → Option Val
  | k :: ks, v :: vs =>
    match lastMatchV q ks vs with
    | some r => some r
    | Option.none => if pyEq q k then some v else Option.none
  | _, _ => Option.none

theorem lookupKey_dictInsert (q k v : Val) (hq : scalarV q = true) (hk : scalarV k = true) :
    ∀ (ak av : List Val), (∀ x ∈ ak, scalarV x = true) →
      lookupKey q (dictInsert k v ak av).1 (dictInsert k v ak av).2 =
        if pyEq q k then some v else lookupKey q ak av
  | [], av, _ => by simp [dictInsert, lookupKey]
  | k' :: ks, [], _ => by simp [dictInsert, lookupKey]
  | k' :: ks, a :: as, hs => by
    have hk' : scalarV k' = true := hs k' (by simp)
    simp only [dictInsert]
    by_cases hp : pyEq k k' = true
    · simp only [hp, if_true, lookupKey]
      by_cases hqk : pyEq q k = true
      · have : pyEq q k' = true := pyEq_trans_scalar hq hk hk' hqk hp
        simp [hqk, this]
      · have : ¬ pyEq q k' = true := fun h =>
          hqk (pyEq_trans_scalar hq hk' hk h (pyEq_symm_scalar hk hk' hp))
        simp [hqk, this]
    · simp only [hp, Bool.false_eq_true, if_false, lookupKey]
      rw [lookupKey_dictInsert q k v hq hk ks as (fun x hx => hs x (by simp [hx]))]
      by_cases hqk : pyEq q k = true
      · have : ¬ pyEq q k' = true := fun h =>
          hp (pyEq_trans_scalar hk hq hk' (pyEq_symm_scalar hq hk hqk) h)
        simp [hqk, this]
      · simp [hqk]

theorem dictInsert_scalar (k v : Val) (hk : scalarV k = true) :
    ∀ (ak av : List Val), (∀ x ∈ ak, scalarV x = true) → ∀ x ∈ (dictInsert k v ak av).1, scalarV x = true
  | [], av, _ => by simp [dictInsert, hk]
  | k' :: ks, [], _ => by simp [dictInsert, hk]
  | k' :: ks, a :: as, hs => by
    simp only [dictInsert]
    by_cases hp : pyEq k k' = true
    · simp only [hp, if_true]; exact hs
    · simp only [hp, Bool.false_eq_true, if_false]
      intro x hx
      simp only [List.mem_cons] at hx
      rcases hx with rfl | hx
      · exact hs _ (by simp)
      · exact dictInsert_scalar k v hk ks as (fun y hy => hs y (by simp [hy])) x hx

theorem lookupKey_dictBuild (q : Val) (hq : scalarV q = true) :
    ∀ (ks vs ak av : List Val), (∀ x ∈ ks, scalarV x = true) → (∀ x ∈ ak, scalarV x = true) →
      lookupKey q (dictBuild ks vs ak av).1 (dictBuild ks vs ak av).2 =
        match lastMatchV q ks vs with
        | some r => some r
        | Option.none => lookupKey q ak av
  | [], vs, ak, av, _, _ => by simp [dictBuild, lastMatchV]
  | k :: ks, [], ak, av, _, _ => by simp [dictBuild, lastMatchV]
  | k :: ks, v :: vs, ak, av, h1, h2 => by
    have hk : scalarV k = true := h1 k (by simp)
    simp only [dictBuild, lastMatchV]
    rw [lookupKey_dictBuild q hq ks vs _ _ (fun x hx => h1 x (by simp [hx])) (dictInsert_scalar k v hk ak av h2)]
    rw [lookupKey_dictInsert q k v hq hk ak av h2]
    cases lastMatchV q ks vs with
    | some r => rfl
    | none =>
      by_cases hqk : pyEq q k = true
      · simp [hqk]
      · simp [hqk]

/-- **lookup in the value of a dictionary display = the value of the last entry with an equal key** -/
theorem lookupKey_mkDict (q : Val) (hq : scalarV q = true) (ks vs : List Val) (hs : ∀ x ∈ ks, scalarV x = true) :
    lookupKey q (dictBuild ks vs [] []).1 (dictBuild ks vs [] []).2 = lastMatchV q ks vs := by
  rw [lookupKey_dictBuild q hq ks vs [] [] hs (by simp)]
  cases lastMatchV q ks vs <;> simp [lookupKey]

end Fadl
