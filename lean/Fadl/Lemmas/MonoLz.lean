/-
  Monotonicity of the deferred-execution semantics: refining the environment refines the result.  With the same
  environment on both sides: every value an expression evaluates to is well formed (deferred failures only as
  sequence elements) - in particular it is never itself a deferred failure.
-/
import Fadl.Lemmas.RefineCall
namespace Fadl
set_option linter.unusedSimpArgs false

theorem EnvLe.upd {env env' : Env} (h : EnvLe env env') (x : String) {v v' : Val} (hv : VLe v v') :
    EnvLe (env.upd x v) (env'.upd x v') := by
  intro y u hy
  simp only [Env.upd] at hy ⊢
  split
  · rename_i hyx; simp only [hyx, if_true, Option.some.injEq] at hy; subst hy; exact ⟨v', rfl, hv⟩
  · rename_i hyx; simp only [hyx, if_false] at hy; exact h y u hy

theorem bindPos_rel : ∀ (ps : List String) (vs vs' : List Val) (env env' : Env), EnvLe env env' → VLeS vs vs' →
    ∀ env2 rest, bindPos env ps vs = .ok (env2, rest) → ∃ env2', bindPos env' ps vs' = .ok (env2', rest) ∧ EnvLe env2 env2'
  | ps, [], vs', env, env', he, hv => by
    rw [VLeS_nil_left] at hv; subst hv
    intro env2 rest h
    simp only [bindPos, Except.ok.injEq, Prod.mk.injEq] at h
    obtain ⟨rfl, rfl⟩ := h
    exact ⟨env', by simp [bindPos], he⟩
  | [], v :: vs, vs', env, env', he, hv => by intro env2 rest h; simp [bindPos] at h
  | p :: ps, v :: vs, vs', env, env', he, hv => by
    rw [VLeS_cons_left] at hv
    obtain ⟨b, bs, rfl, h1, h2⟩ := hv
    intro env2 rest h
    simp only [bindPos] at h ⊢
    exact bindPos_rel ps vs bs _ _ (he.upd p h1) h2 env2 rest h

theorem bindKw_rel : ∀ (ks : List String) (vs vs' : List Val) (ps : List String) (env env' : Env), EnvLe env env' → VLeS vs vs' →
    ∀ env2 rest, bindKw ps env ks vs = .ok (env2, rest) → ∃ env2', bindKw ps env' ks vs' = .ok (env2', rest) ∧ EnvLe env2 env2'
  | [], [], vs', ps, env, env', he, hv => by
    rw [VLeS_nil_left] at hv; subst hv
    intro env2 rest h
    simp only [bindKw, Except.ok.injEq, Prod.mk.injEq] at h
    obtain ⟨rfl, rfl⟩ := h
    exact ⟨env', by simp [bindKw], he⟩
  | [], v :: vs, vs', ps, env, env', he, hv => by intro env2 rest h; simp [bindKw] at h
  | k :: ks, [], vs', ps, env, env', he, hv => by intro env2 rest h; simp [bindKw] at h
  | k :: ks, v :: vs, vs', ps, env, env', he, hv => by
    rw [VLeS_cons_left] at hv
    obtain ⟨b, bs, rfl, h1, h2⟩ := hv
    intro env2 rest h
    simp only [bindKw] at h ⊢
    by_cases hk : k ∈ ps
    · simp only [hk, if_true] at h ⊢
      exact bindKw_rel ks vs bs _ _ _ (he.upd k h1) h2 env2 rest h
    · simp [hk] at h

theorem bindParams_rel (ps : List String) {vs vs' : List Val} (kwn : List String) {kvs kvs' : List Val} {env env' : Env}
    (he : EnvLe env env') (hv : VLeS vs vs') (hk : VLeS kvs kvs') :
    ∀ env2, bindParams ps vs kwn kvs env = .ok env2 → ∃ env2', bindParams ps vs' kwn kvs' env' = .ok env2' ∧ EnvLe env2 env2' := by
  intro env2 h
  unfold bindParams at h ⊢
  rcases (Bool.eq_false_or_eq_true (distinctS ps)).symm with hd | hd
  · simp [hd] at h
  · simp only [hd, Bool.not_true, Bool.false_eq_true, if_false] at h ⊢
    cases h1 : bindPos env ps vs with
    | error e => simp [h1, bind, Except.bind] at h
    | ok r1 =>
      obtain ⟨env1, rest⟩ := r1
      obtain ⟨env1', h1', he1⟩ := bindPos_rel ps vs vs' env env' he hv env1 rest h1
      simp only [h1, h1', bind, Except.bind] at h ⊢
      cases h2 : bindKw rest env1 kwn kvs with
      | error e => simp [h2] at h
      | ok r2 =>
        obtain ⟨env2a, rest2⟩ := r2
        obtain ⟨env2', h2', he2⟩ := bindKw_rel kwn kvs kvs' rest env1 env1' he1 hk env2a rest2 h2
        simp only [h2, h2'] at h ⊢
        by_cases hr : rest2.isEmpty
        · simp only [hr, if_true, pure, Except.pure, Except.ok.injEq] at h ⊢
          subst h
          exact ⟨env2', rfl, he2⟩
        · simp [hr] at h

theorem constVal_wf (c : Const) (v : Val) (h : constVal c = .ok v) : VLe v v := by
  cases c <;> simp [constVal] at h <;> subst h <;> simp [VLe]

theorem lamRel_none (env env' : Env) (l' : LamD) (hl' : FnLe (applyLam1 l' env') (applyLam1 l' env'))
    (hl2' : FnLe2 (applyLam2 l' env') (applyLam2 l' env')) : LamRel env env' Option.none l' :=
  ⟨fun _ _ _ _ => RLe.error _ _, hl', fun _ _ _ _ _ _ _ _ => RLe.error _ _, hl2'⟩

theorem lamRel_none_none (env env' : Env) : LamRel env env' Option.none Option.none :=
  lamRel_none env env' _ (fun _ _ _ _ => RLe.error _ _) (fun _ _ _ _ _ _ _ _ => RLe.error _ _)

/-- **Monotonicity** (with the right-hand environment well formed). -/
theorem denLz_mono_both (w : World) (hw : WorldOK w) :
    (∀ e : Expr, ∀ (env env' : Env), EnvLe env env' → EnvLe env' env' →
        RLe (denLz w e env) (denLz w e env') ∧ HeadRel env env' (denHeadLz w e) (denHeadLz w e) ∧
        LamRel env env' (denLamLz w e) (denLamLz w e)) ∧
    (∀ es : List Expr, ∀ (env env' : Env), EnvLe env env' → EnvLe env' env' →
        All2 (DRel env env') (denLLz w es) (denLLz w es) ∧ All2 (LamRel env env') (denLamLLz w es) (denLamLLz w es)) := by
  apply Expr.size.mutual_induct
    (motive_1 := fun e => ∀ (env env' : Env), EnvLe env env' → EnvLe env' env' →
        RLe (denLz w e env) (denLz w e env') ∧ HeadRel env env' (denHeadLz w e) (denHeadLz w e) ∧
        LamRel env env' (denLamLz w e) (denLamLz w e))
    (motive_2 := fun es => ∀ (env env' : Env), EnvLe env env' → EnvLe env' env' →
        All2 (DRel env env') (denLLz w es) (denLLz w es) ∧ All2 (LamRel env env') (denLamLLz w es) (denLamLLz w es))
  case case1 =>
    intro x env env' he _
    refine ⟨?_, by simp [denHeadLz, HeadRel], lamRel_none_none _ _⟩
    intro v hv
    simp only [denLz] at hv ⊢
    cases hx : env x with
    | none => simp [hx] at hv
    | some u =>
      simp only [hx, Except.ok.injEq] at hv; subst hv
      obtain ⟨u', hu', huu⟩ := he x u hx
      exact ⟨u', by simp [hu'], huu⟩
  case case2 =>
    intro c env env' _ _
    exact ⟨RLe.refl_of_ok (fun v h => constVal_wf c v h), by simp [denHeadLz, HeadRel], lamRel_none_none _ _⟩
  case case3 =>
    intro v a ih env env' he he'
    have h := (ih env env' he he').1
    have h' := (ih env' env' he' he').1
    refine ⟨?_, by simp only [denHeadLz, HeadRel, true_and]; exact ⟨h, h'⟩, lamRel_none_none _ _⟩
    simp only [denLz]
    exact RLe.bind h (fun x x' hx => getAttrLz_mono a hx)
  case case4 =>
    intro f args kwn kwv ihf iha ihk env env' he he'
    refine ⟨?_, by simp [denHeadLz, HeadRel], lamRel_none_none _ _⟩
    simp only [denLz]
    exact callSemLz_rel w hw kwn (ihf env env' he he').2.1 (iha env env' he he').1 (iha env env' he he').2 (ihk env env' he he').1
  case case5 =>
    intro ps b ih env env' he he'
    have lam1 : ∀ (E E' : Env), EnvLe E E' → EnvLe E' E' → FnLe (applyLam1 (some (ps, denLz w b)) E) (applyLam1 (some (ps, denLz w b)) E') := by
      intro E E' hE hE' v v' hv hv'
      match ps with
      | [x] => simp only [applyLam1]; exact (ih _ _ (hE.upd x hv) (hE'.upd x hv')).1
      | [] => exact RLe.error _ _
      | _ :: _ :: _ => exact RLe.error _ _
    have lam2 : ∀ (E E' : Env), EnvLe E E' → EnvLe E' E' → FnLe2 (applyLam2 (some (ps, denLz w b)) E) (applyLam2 (some (ps, denLz w b)) E') := by
      intro E E' hE hE' a a' v v' ha ha' hv hv'
      match ps with
      | [x, y] =>
        simp only [applyLam2]
        split
        · exact RLe.error _ _
        · exact (ih _ _ ((hE.upd x ha).upd y hv) ((hE'.upd x ha').upd y hv')).1
      | [] => exact RLe.error _ _
      | [_] => exact RLe.error _ _
      | _ :: _ :: _ :: _ => exact RLe.error _ _
    refine ⟨RLe.error _ _, ?_, ?_⟩
    · simp only [denHeadLz, HeadRel]
      intro vs vs' kwn kvs kvs' hv hv' hk hk'
      intro out ho
      cases hb : bindParams ps vs kwn kvs env with
      | error e => rw [hb] at ho; cases ho
      | ok env2 =>
        obtain ⟨env2', hb', he2⟩ := bindParams_rel ps kwn he hv hk env2 hb
        obtain ⟨env2'', hb'', he2'⟩ := bindParams_rel ps kwn he' hv' hk' env2' hb'
        have : env2'' = env2' := by rw [hb'] at hb''; cases hb''; rfl
        subst this
        rw [hb] at ho
        rw [hb']
        exact (ih env2 env2'' he2 he2').1 out ho
    · simp only [denLamLz]
      exact ⟨lam1 env env' he he', lam1 env' env' he' he', lam2 env env' he he', lam2 env' env' he' he'⟩
  case case6 =>
    intro v s ihv ihs env env' he he'
    refine ⟨?_, by simp [denHeadLz, HeadRel], lamRel_none_none _ _⟩
    simp only [denLz]
    exact RLe.bind (ihv env env' he he').1 (fun x x' hx => RLe.bind (ihs env env' he he').1 (fun i i' hi => subscriptLz_mono hx hi))
  case case7 =>
    intro es ih env env' he he'
    refine ⟨?_, by simp [denHeadLz, HeadRel], lamRel_none_none _ _⟩
    simp only [denLz]
    apply RLeS.bindR (evalAll_rel (ih env env' he he').1) (evalAll_rel_self (ih env env' he he').1)
    intro vs vs' hv _ out ho
    cases ho
    exact ⟨.tuple vs', rfl, by simpa [VLe] using hv⟩
  case case8 =>
    intro es ih env env' he he'
    refine ⟨?_, by simp [denHeadLz, HeadRel], lamRel_none_none _ _⟩
    simp only [denLz]
    apply RLeS.bindR (evalAll_rel (ih env env' he he').1) (evalAll_rel_self (ih env env' he he').1)
    intro vs vs' hv _ out ho
    cases ho
    exact ⟨.list vs', rfl, by simp only [VLe]; exact hv.toL⟩
  case case9 =>
    intro ks vs ihk ihv env env' he he'
    refine ⟨?_, by simp [denHeadLz, HeadRel], lamRel_none_none _ _⟩
    simp only [denLz]
    apply RLeS.bindR (evalAll_rel (ihk env env' he he').1) (evalAll_rel_self (ihk env env' he he').1)
    intro kv kv' hkv _
    apply RLeS.bindR (evalAll_rel (ihv env env' he he').1) (evalAll_rel_self (ihv env env' he he').1)
    intro vv vv' hvv _
    rw [← VLeS.length hkv, ← VLeS.length hvv]
    split
    · exact mkDictLz_mono hkv hvv
    · exact RLe.error _ _
  case case10 =>
    intro k args ih env env' he he'
    refine ⟨?_, by simp [denHeadLz, HeadRel], lamRel_none_none _ _⟩
    simp only [denLz]
    exact evOpLz_mono k (All2_map_env (ih env env' he he').1)
  case case11 =>
    intro kind el t i ifs a ihe _ iht ihifs env env' he he'
    refine ⟨?_, by simp [denHeadLz, HeadRel], lamRel_none_none _ _⟩
    simp only [denLz]
    cases t with
    | name x =>
      simp only [targetName]
      apply compSemLz_rel
      · exact ⟨(iht env env' he he').1, (iht env' env' he' he').1⟩
      · intro v v' hv hv'; exact (ihe _ _ (he.upd x hv) (he'.upd x hv')).1
      · intro v v' hv hv'; exact (ihe _ _ (he'.upd x hv) (he'.upd x hv')).1
      · intro v v' hv hv'; exact All2_map_env (ihifs _ _ (he.upd x hv) (he'.upd x hv')).1
      · intro v v' hv hv'; exact All2_map_env (ihifs _ _ (he'.upd x hv) (he'.upd x hv')).1
    | _ => simp only [targetName, compSemLz]; exact RLe.error _ _
  case case12 =>
    intro env env' _ _
    exact ⟨.nil, .nil⟩
  case case13 =>
    intro e es ihe ihes env env' he he'
    exact ⟨.cons ⟨(ihe env env' he he').1, (ihe env' env' he' he').1⟩ (ihes env env' he he').1,
      .cons (ihe env env' he he').2.2 (ihes env env' he he').2⟩

/-- **Monotonicity**: a more defined environment gives a more defined result. -/
theorem denLz_mono (w : World) (hw : WorldOK w) (e : Expr) (env env' : Env) (h : EnvLe env env') (h' : EnvLe env' env') :
    RLe (denLz w e env) (denLz w e env') := ((denLz_mono_both w hw).1 e env env' h h').1

/-- every value of an expression is well formed; in particular it is not a deferred failure -/
theorem denLz_wf (w : World) (hw : WorldOK w) (e : Expr) (env : Env) (henv : EnvLe env env) (v : Val)
    (h : denLz w e env = .ok v) : VLe v v := by
  obtain ⟨v', hv', hvv⟩ := denLz_mono w hw e env env henv henv v h
  exact hvv.lrefl

theorem denLz_noPoison (w : World) (hw : WorldOK w) (e : Expr) (env : Env) (henv : EnvLe env env) (er : EErr) :
    denLz w e env ≠ .ok (.poison er) := by
  intro h
  exact VLe_poison_left (denLz_wf w hw e env henv _ h)

theorem denLz_self (w : World) (hw : WorldOK w) (e : Expr) (env : Env) (henv : EnvLe env env) :
    RLe (denLz w e env) (denLz w e env) := denLz_mono w hw e env env henv henv

end Fadl
