/-
  Infrastructure for the soundness of the simplifier: the argument stack as a substitution, the relation
  between the environment of the original expression and that of the simplified one.
-/
import Fadl.Model.SimplifyCk
import Fadl.Props.C02Rules
namespace Fadl
set_option linter.unusedSimpArgs false

theorem disjoint_iff {a b : List String} : disjoint a b = true ↔ ∀ x ∈ a, x ∉ b := by
  simp [disjoint, List.all_eq_true]

theorem contains_false_iff {x : String} {l : List String} : (!l.contains x) = true ↔ x ∉ l := by simp

/-! ### lookups -/

theorem frameLookup_none_iff (x : String) : ∀ (f : SFrame), frameLookup x f = Option.none ↔ x ∉ f.map (·.1)
  | [] => by simp [frameLookup]
  | (k, v) :: rest => by
    simp only [frameLookup, List.map_cons, List.mem_cons, not_or]
    cases h : frameLookup x rest with
    | some r =>
      have : ¬ x ∉ rest.map (·.1) := fun hh => by
        have := (frameLookup_none_iff x rest).mpr hh; rw [h] at this; cases this
      simp only [reduceCtorEq, false_iff, not_and]
      intro _; exact this
    | none =>
      have := (frameLookup_none_iff x rest).mp h
      by_cases hk : k = x
      · simp [hk]
      · have hk' : ¬ x = k := fun hh => hk hh.symm
        simp [hk, hk', this]

theorem frameLookup_some_mem (x : String) (a : Expr) : ∀ (f : SFrame), frameLookup x f = some a → (x, a) ∈ f
  | [], h => by simp [frameLookup] at h
  | (k, v) :: rest, h => by
    simp only [frameLookup] at h
    cases hr : frameLookup x rest with
    | some r => rw [hr] at h; simp only [Option.some.injEq] at h; subst h; exact List.mem_cons_of_mem _ (frameLookup_some_mem x r rest hr)
    | none =>
      rw [hr] at h
      by_cases hk : k = x
      · simp only [hk, if_true, Option.some.injEq] at h; subst h; subst hk; simp
      · simp [hk] at h

theorem stackLookup_none_iff (x : String) : ∀ (st : SStack), stackLookup x st = Option.none ↔ x ∉ stackKeys st
  | [] => by simp [stackLookup, stackKeys]
  | f :: fs => by
    simp only [stackLookup, stackKeys, List.flatMap_cons, List.mem_append, not_or]
    cases h : frameLookup x f with
    | some r =>
      have : ¬ x ∉ f.map (·.1) := fun hh => by
        have := (frameLookup_none_iff x f).mpr hh; rw [h] at this; cases this
      simp only [reduceCtorEq, false_iff, not_and]
      intro hh; exact absurd hh this
    | none =>
      have h1 := (frameLookup_none_iff x f).mp h
      have h2 := stackLookup_none_iff x fs
      simp only [stackKeys] at h2
      simp [h1, h2]

theorem stackLookup_some_mem (x : String) (a : Expr) : ∀ (st : SStack), stackLookup x st = some a →
    x ∈ stackKeys st ∧ a ∈ stackVals st
  | [], h => by simp [stackLookup] at h
  | f :: fs, h => by
    simp only [stackLookup] at h
    simp only [stackKeys, stackVals, List.flatMap_cons, List.mem_append]
    cases hf : frameLookup x f with
    | some r =>
      rw [hf] at h; simp only [Option.some.injEq] at h; subst h
      have := frameLookup_some_mem x r f hf
      exact ⟨Or.inl (List.mem_map.mpr ⟨_, this, rfl⟩), Or.inl (List.mem_map.mpr ⟨_, this, rfl⟩)⟩
    | none =>
      rw [hf] at h
      have := stackLookup_some_mem x a fs h
      exact ⟨Or.inr this.1, Or.inr this.2⟩

theorem stackLookup_cons_skip (x : String) (f : SFrame) (st : SStack) (h : x ∉ f.map (·.1)) :
    stackLookup x (f :: st) = stackLookup x st := by
  simp only [stackLookup, (frameLookup_none_iff x f).mpr h]

/-! ### the relation between the two environments -/

/-- `envM` is the environment of the original expression (it binds the stack's keys to the values of the
    arguments that were substituted for them), `env` the one of the simplified expression. -/
structure EnvRel (w : World) (st : SStack) (envM env : Env) : Prop where
  wf : EnvLe env env
  off : ∀ x, x ∉ stackKeys st → envM x = env x
  keys : ∀ k a, stackLookup k st = some a → ∀ v, envM k = some v → ∃ v', denLz w a env = .ok v' ∧ VLe v v'

theorem EnvRel.wfM {w : World} {st : SStack} {envM env : Env} (h : EnvRel w st envM env) : EnvLe envM envM := by
  intro x v hx
  by_cases hk : x ∈ stackKeys st
  · cases hl : stackLookup x st with
    | none => exact absurd hk ((stackLookup_none_iff x st).mp hl)
    | some a =>
      obtain ⟨v', _, hvv⟩ := h.keys x a hl v hx
      exact ⟨v, hx, hvv.lrefl⟩
  · rw [h.off x hk] at hx
    obtain ⟨v', hv', hvv⟩ := h.wf x v hx
    rw [hx] at hv'; cases hv'
    exact ⟨v, by rw [h.off x hk]; exact hx, hvv⟩

/-- an expression that mentions no key has the same value in both environments -/
theorem EnvRel.coincide {w : World} {st : SStack} {envM env : Env} (h : EnvRel w st envM env) (e : Expr)
    (hk : keyFree st e = true) : denLz w e envM = denLz w e env := by
  apply denLz_coincide
  intro x hx
  apply h.off
  intro hxk
  exact (disjoint_iff.mp hk) x hxk hx

theorem EnvRel.coincide_lam {w : World} {st : SStack} {envM env : Env} (h : EnvRel w st envM env) (e : Expr)
    (hk : keyFree st e = true) : LamAgree envM env (denLamLz w e) (denLamLz w e) := by
  refine ((denLz_coincide_both w).1 e [] envM env ?_ (by simp)).2.2
  intro x hx
  apply h.off
  intro hxk
  exact (disjoint_iff.mp hk) x hxk hx

/-- going under a binder whose (fresh) name is bound to the same well-formed value on both sides -/
theorem EnvRel.upd {w : World} {st : SStack} {envM env : Env} (h : EnvRel w st envM env) (x : String) (u : Val)
    (hu : VLe u u) (hxk : x ∉ stackKeys st) (hxv : ∀ a ∈ stackVals st, x ∉ fv a) :
    EnvRel w st (envM.upd x u) (env.upd x u) := by
  refine ⟨h.wf.upd x hu, ?_, ?_⟩
  · intro y hy
    simp only [Env.upd]
    split
    · rfl
    · exact h.off y hy
  · intro k a hl v hv
    have hkx : k ≠ x := by
      intro hh; subst hh
      exact hxk (stackLookup_some_mem k a st hl).1
    simp only [Env.upd, hkx, if_false] at hv
    obtain ⟨v', hv', hvv⟩ := h.keys k a hl v hv
    refine ⟨v', ?_, hvv⟩
    rw [denLz_upd_fresh w a env x u (hxv a (stackLookup_some_mem k a st hl).2)]
    exact hv'

/-! ### the renaming used by make_args_unique -/

theorem contains_eq_false_iff' {x : String} {l : List String} : l.contains x = false ↔ x ∉ l := by simp

theorem distinctS_cons {s : String} {ss : List String} : distinctS (s :: ss) = true ↔ s ∉ ss ∧ distinctS ss = true := by
  simp [distinctS]

theorem distinctS_index : ∀ {ps : List String}, distinctS ps = true → ∀ (i j : Nat) (p : String), ps[i]? = some p → ps[j]? = some p → i = j
  | [], _, i, j, p, h, _ => by simp at h
  | q :: ps, hd, i, j, p, hi, hj => by
    rw [distinctS_cons] at hd
    cases i with
    | zero =>
      cases j with
      | zero => rfl
      | succ j =>
        simp at hi; subst hi
        simp only [List.getElem?_cons_succ] at hj
        exact absurd (List.mem_of_getElem? hj) hd.1
    | succ i =>
      cases j with
      | zero =>
        simp at hj; subst hj
        simp only [List.getElem?_cons_succ] at hi
        exact absurd (List.mem_of_getElem? hi) hd.1
      | succ j =>
        simp only [List.getElem?_cons_succ] at hi hj
        rw [distinctS_index hd.2 i j p hi hj]

theorem renGet_of_mem_functional (p n : String) : ∀ (l : List (String × String)), (p, n) ∈ l →
    (∀ n', (p, n') ∈ l → n' = n) → renGet p l = some n
  | [], h, _ => by simp at h
  | (k, v) :: rest, h, hf => by
    simp only [renGet]
    by_cases hk : k = p
    · subst hk
      simp only [if_true]
      rw [hf v (by simp)]
    · simp only [hk, if_false]
      have hm : (p, n) ∈ rest := by
        rcases List.mem_cons.mp h with h | h
        · cases h; exact absurd rfl hk
        · exact h
      exact renGet_of_mem_functional p n rest hm (fun n' hn' => hf n' (List.mem_cons_of_mem _ hn'))

theorem renGet_none_of_not_mem (p : String) : ∀ (l : List (String × String)), p ∉ l.map (·.1) → renGet p l = Option.none
  | [], _ => rfl
  | (k, v) :: rest, h => by
    simp only [List.map_cons, List.mem_cons, not_or] at h
    simp only [renGet]
    have : ¬ k = p := fun hh => h.1 hh.symm
    simp only [this, if_false]
    exact renGet_none_of_not_mem p rest h.2

/-- the renaming `(ps.zip ns).reverse` maps the i-th parameter to the i-th new name, everything else to itself -/
theorem renM_zip (ps ns : List String) (hd : distinctS ps = true) :
    (∀ (i : Nat) (p n : String), ps[i]? = some p → ns[i]? = some n → renM ((ps.zip ns).reverse) p = n) ∧
    (∀ y, y ∉ ps → renM ((ps.zip ns).reverse) y = y) := by
  constructor
  · intro i p n hp hn
    have hmem : (p, n) ∈ (ps.zip ns).reverse := by
      rw [List.mem_reverse, List.mem_iff_getElem?]
      exact ⟨i, by simp [List.getElem?_zip_eq_some, hp, hn]⟩
    have hfun : ∀ n', (p, n') ∈ (ps.zip ns).reverse → n' = n := by
      intro n' hn'
      rw [List.mem_reverse, List.mem_iff_getElem?] at hn'
      obtain ⟨j, hj⟩ := hn'
      rw [List.getElem?_zip_eq_some] at hj
      have := distinctS_index hd i j p hp hj.1
      subst this
      have h2 := hj.2
      simp only at h2
      rw [hn] at h2; cases h2; rfl
    simp only [renM, renGet_of_mem_functional p n _ hmem hfun, Option.getD_some]
  · intro y hy
    have : y ∉ ((ps.zip ns).reverse).map (·.1) := by
      intro hh
      rw [List.mem_map] at hh
      obtain ⟨⟨a, b⟩, hab, rfl⟩ := hh
      rw [List.mem_reverse] at hab
      exact hy (List.of_mem_zip hab).1
    simp only [renM, renGet_none_of_not_mem y _ this, Option.getD_none]

/-- what the guard of `makeArgsUniqueCk` establishes -/
structure FreshFor (ns ps : List String) (b : Expr) (st : SStack) : Prop where
  binders : ∀ n ∈ ns, n ∉ bindersOf b
  free : ∀ n ∈ ns, n ∉ fv b
  heads : ∀ p ∈ ps, p ∉ headNames b
  keys : ∀ n ∈ ns, n ∉ stackKeys st
  vals : ∀ a ∈ stackVals st, ∀ n ∈ ns, n ∉ fv a
  nc : noComp b = true
  dn : distinctS ns = true
  np : ∀ n ∈ ns, n ∉ ps
  dp : distinctS ps = true
  len : ns.length = ps.length

theorem freshNames_length' (c n : Nat) : (freshNames c n).length = n := by
  induction n generalizing c with
  | zero => rfl
  | succ n ih => simp [freshNames, ih]

theorem makeArgsUniqueCk_ok {ps : List String} {b : Expr} {c : Nat} {st : SStack} {ns : List String} {b' : Expr} {c1 : Nat}
    (h : makeArgsUniqueCk ps b c st = .ok (ns, b', c1)) :
    b' = renameNames ((ps.zip ns).reverse) b ∧ c1 = c + ps.length ∧ ns = freshNames c ps.length ∧ FreshFor ns ps b st := by
  unfold makeArgsUniqueCk at h
  simp only [makeArgsUnique] at h
  by_cases hg : (freshFor (freshNames c ps.length) ps b st && distinctS ps) = true
  · simp only [hg, if_true] at h
    simp only [Except.ok.injEq, Prod.mk.injEq] at h
    obtain ⟨rfl, rfl, rfl⟩ := h
    simp only [freshFor, Bool.and_eq_true] at hg
    obtain ⟨⟨⟨⟨⟨⟨⟨⟨g1, g2⟩, g3⟩, g4⟩, g5⟩, g6⟩, g7⟩, g8⟩, g9⟩ := hg
    refine ⟨rfl, rfl, rfl, ?_⟩
    exact {
      binders := disjoint_iff.mp g1
      free := disjoint_iff.mp g2
      heads := disjoint_iff.mp g3
      keys := disjoint_iff.mp g4
      vals := fun a ha n hn => disjoint_iff.mp (List.all_eq_true.mp g5 a ha) n hn
      nc := g6
      dn := g7
      np := disjoint_iff.mp g8
      dp := g9
      len := freshNames_length' _ _ }
  · simp [hg] at h

/-- the body of a lambda and its renamed copy, in environments that bind the old / new parameters alike -/
theorem rename_params (w : World) (hw : WorldOK w) {ns ps : List String} {b : Expr} {st : SStack} (hf : FreshFor ns ps b st)
    (env1 env2 : Env) (he2 : EnvLe env2 env2)
    (hmap : ∀ (i : Nat) (p n : String), ps[i]? = some p → ns[i]? = some n → EnvMap env1 env2 p n)
    (hother : ∀ y ∈ fv b, y ∉ ps → EnvMap env1 env2 y y) :
    RLe (denLz w b env1) (denLz w (renameNames ((ps.zip ns).reverse) b) env2) := by
  obtain ⟨hz1, hz2⟩ := renM_zip ps ns hf.dp
  refine ((rename_le_both w hw).1 b hf.nc [] _ env1 env2 he2 ?_ (by simp) ?_).1
  · intro y hy
    by_cases hyp : y ∈ ps
    · obtain ⟨i, hi⟩ := List.mem_iff_getElem?.mp hyp
      have hlt : i < ns.length := by
        have := (List.getElem?_eq_some_iff.mp hi).1; rw [hf.len]; exact this
      have hn : ns[i]? = some ns[i] := List.getElem?_eq_getElem hlt
      rw [hz1 i y _ hi hn]
      exact ⟨hmap i y _ hi hn, Or.inr (hf.binders _ (List.getElem_mem hlt))⟩
    · rw [hz2 y hyp]
      exact ⟨hother y hy hyp, Or.inl rfl⟩
  · intro h hh
    exact hz2 h (fun hp => hf.heads h hp hh)

theorem fnle_of_rename1 (w : World) (hw : WorldOK w) {x n : String} {b : Expr} {st : SStack} (hf : FreshFor [n] [x] b st)
    (E : Env) (hE : EnvLe E E) :
    FnLe (applyLam1 (some ([x], denLz w b)) E) (applyLam1 (some ([n], denLz w (renameNames (([x].zip [n]).reverse) b))) E) := by
  intro u u' hu hu'
  simp only [applyLam1]
  apply rename_params w hw hf _ _ (hE.upd n hu')
  · intro i p m hp hm
    cases i with
    | zero =>
      simp at hp hm; subst hp hm
      intro v hv
      simp only [Env.upd, if_true, Option.some.injEq] at hv ⊢
      subst hv; exact ⟨u', rfl, hu⟩
    | succ i => simp at hp
  · intro y hy hyp
    simp only [List.mem_singleton] at hyp
    have hyn : y ≠ n := fun hh => hf.free n (by simp) (hh ▸ hy)
    intro v hv
    simp only [Env.upd, hyp, hyn, if_false] at hv ⊢
    obtain ⟨v', hv', hvv⟩ := hE y v hv
    exact ⟨v', hv', hvv⟩

theorem fnle2_of_rename2 (w : World) (hw : WorldOK w) {x y n m : String} {b : Expr} {st : SStack}
    (hf : FreshFor [n, m] [x, y] b st) (E : Env) (hE : EnvLe E E) :
    FnLe2 (applyLam2 (some ([x, y], denLz w b)) E)
      (applyLam2 (some ([n, m], denLz w (renameNames (([x, y].zip [n, m]).reverse) b))) E) := by
  intro a a' u u' ha ha' hu hu'
  have hxy : x ≠ y := by
    have := hf.dp; simp [distinctS] at this; exact fun h => this (h ▸ rfl)
  have hnm : n ≠ m := by
    have := hf.dn; simp [distinctS] at this; exact fun h => this (h ▸ rfl)
  simp only [applyLam2, hxy, hnm, if_false]
  apply rename_params w hw hf _ _ ((hE.upd n ha').upd m hu')
  · intro i p q hp hq
    cases i with
    | zero =>
      simp at hp hq; subst hp hq
      intro v hv
      simp only [Env.upd, hxy, hnm, if_false, if_true, Option.some.injEq] at hv ⊢
      subst hv; exact ⟨a', rfl, ha⟩
    | succ i =>
      cases i with
      | zero =>
        simp at hp hq; subst hp hq
        intro v hv
        simp only [Env.upd, if_true, Option.some.injEq] at hv ⊢
        subst hv; exact ⟨u', rfl, hu⟩
      | succ i => simp at hp
  · intro z hz hzp
    simp only [List.mem_cons, List.not_mem_nil, or_false, not_or] at hzp
    have hzn : z ≠ n := fun hh => hf.free n (by simp) (hh ▸ hz)
    have hzm : z ≠ m := fun hh => hf.free m (by simp) (hh ▸ hz)
    intro v hv
    simp only [Env.upd, hzp.1, hzp.2, hzn, hzm, if_false] at hv ⊢
    obtain ⟨v', hv', hvv⟩ := hE z v hv
    exact ⟨v', hv', hvv⟩

theorem FnLe.trans {f g h : Val → Res} (h1 : FnLe f g) (h2 : FnLe g h) : FnLe f h := by
  intro v v' hv hv'
  exact RLe.trans (h1 v v (hv.lrefl) (hv.lrefl)) (h2 v v' hv hv')

theorem FnLe2.trans {f g h : Val → Val → Res} (h1 : FnLe2 f g) (h2 : FnLe2 g h) : FnLe2 f h := by
  intro a a' v v' ha ha' hv hv'
  exact RLe.trans (h1 a a v v ha.lrefl ha.lrefl hv.lrefl hv.lrefl) (h2 a a' v v' ha ha' hv hv')

end Fadl
