/-
  Invariants of the stream state machine (Model/Stream.lean), proved for every reachable state.
  Used by Props/C11, C12, C16.
-/
import Fadl.Model.Stream
import Fadl.Lemmas.Basic
namespace Fadl

/-! ### PyVal.beq is equality -/

theorem PyVal.beq_eq_both :
    (∀ a b : PyVal, PyVal.beq a b = true → a = b) ∧
    (∀ as bs : List PyVal, PyVal.beqL as bs = true → as = bs) := by
  apply PyVal.beq.mutual_induct
    (motive_1 := fun a b => PyVal.beq a b = true → a = b)
    (motive_2 := fun as bs => PyVal.beqL as bs = true → as = bs)
  all_goals intros
  all_goals simp_all [PyVal.beq, PyVal.beqL]

theorem PyVal.beq_eq {a b : PyVal} (h : PyVal.beq a b = true) : a = b := PyVal.beq_eq_both.1 a b h

/-! ### association lists -/

theorem qmdGet_set_same (k : String) (v : PyVal) (d : QMd) : qmdGet k (qmdSet k v d) = some v := by
  induction d with
  | nil => simp [qmdSet, qmdGet]
  | cons p d ih =>
    obtain ⟨k', v'⟩ := p
    simp only [qmdSet]
    split
    · simp [qmdGet]
    · rename_i h; simp [qmdGet, h, ih]

theorem qmdGet_set_other (k k' : String) (v : PyVal) (d : QMd) (h : k ≠ k') :
    qmdGet k (qmdSet k' v d) = qmdGet k d := by
  induction d with
  | nil => simp [qmdSet, qmdGet, Ne.symm h]
  | cons p d ih =>
    obtain ⟨k2, v2⟩ := p
    simp only [qmdSet]
    split
    · rename_i h2; subst h2; simp [qmdGet, Ne.symm h]
    · simp [qmdGet, ih]

/-- `{**a, **b}`: a key of `b` (last occurrence wins) else the key of `a`. -/
def qmdGetLast (k : String) : QMd → Option PyVal
  | [] => Option.none
  | (k', v) :: rest => match qmdGetLast k rest with
    | some x => some x
    | Option.none => if k' = k then some v else Option.none

theorem qmdGet_merge (k : String) (a b : QMd) :
    qmdGet k (qmdMerge a b) = (qmdGetLast k b).orElse (fun _ => qmdGet k a) := by
  induction b generalizing a with
  | nil => simp [qmdMerge, qmdGetLast]
  | cons p b ih =>
    obtain ⟨k', v'⟩ := p
    simp only [qmdMerge, ih, qmdGetLast]
    cases hl : qmdGetLast k b with
    | some x => simp
    | none =>
      simp only [Option.orElse_none]
      by_cases hk : k' = k
      · subst hk; simp [qmdGet_set_same]
      · simp [hk, qmdGet_set_other k k' v' a (Ne.symm hk)]

def keysDistinct : QMd → Bool
  | [] => true
  | (k, _) :: rest => rest.all (fun p => p.1 != k) && keysDistinct rest

theorem qmdGetLast_eq_get_of_distinct (k : String) (d : QMd) (h : keysDistinct d = true) :
    qmdGetLast k d = qmdGet k d := by
  induction d with
  | nil => rfl
  | cons p d ih =>
    obtain ⟨k', v'⟩ := p
    simp only [keysDistinct, Bool.and_eq_true, List.all_eq_true, bne_iff_ne, ne_eq] at h
    simp only [qmdGetLast, qmdGet, ih h.2]
    by_cases hk : k' = k
    · subst hk
      have : qmdGet k' d = Option.none := by
        clear ih
        induction d with
        | nil => rfl
        | cons q d ihd =>
          obtain ⟨k2, v2⟩ := q
          have h1 := h.1 (k2, v2) (List.mem_cons_self)
          simp only [qmdGet]
          simp only [keysDistinct, Bool.and_eq_true, List.all_eq_true, bne_iff_ne, ne_eq] at h
          rw [if_neg h1]
          exact ihd ⟨fun p hp => h.1 p (List.mem_cons_of_mem _ hp), h.2.2⟩
      simp [this]
    · simp [hk]
      cases qmdGet k d <;> rfl

theorem qmdSet_keysDistinct (k : String) (v : PyVal) (d : QMd) (h : keysDistinct d = true) :
    keysDistinct (qmdSet k v d) = true := by
  induction d with
  | nil => simp [qmdSet, keysDistinct]
  | cons p d ih =>
    obtain ⟨k', v'⟩ := p
    simp only [keysDistinct, Bool.and_eq_true, List.all_eq_true, bne_iff_ne, ne_eq] at h
    simp only [qmdSet]
    split
    · rename_i hk; subst hk
      simp only [keysDistinct, Bool.and_eq_true, List.all_eq_true, bne_iff_ne, ne_eq]
      exact h
    · rename_i hk
      simp only [keysDistinct, Bool.and_eq_true, List.all_eq_true, bne_iff_ne, ne_eq]
      refine ⟨?_, ih h.2⟩
      intro q hq
      -- members of qmdSet k v d are (k, v) or members of d
      have : ∀ (dd : QMd) (q : String × PyVal), q ∈ qmdSet k v dd → q.1 = k ∨ q ∈ dd := by
        intro dd
        induction dd with
        | nil => intro q hq; simp [qmdSet] at hq; left; rw [hq]
        | cons r dd ihdd =>
          obtain ⟨k3, v3⟩ := r
          intro q hq
          simp only [qmdSet] at hq
          split at hq
          · rename_i h3; subst h3
            cases hq with
            | head => left; rfl
            | tail _ hq => right; exact List.mem_cons_of_mem _ hq
          · cases hq with
            | head => right; exact List.mem_cons_self
            | tail _ hq =>
              rcases ihdd q hq with h4 | h4
              · left; exact h4
              · right; exact List.mem_cons_of_mem _ h4
      rcases this d q hq with h5 | h5
      · rw [h5]; exact fun e => hk e.symm
      · exact h.1 q h5

/-! ### reading an extended heap -/

theorem getElem?_append_lt {α : Type} (h t : List α) (r : Nat) (hr : r < h.length) : (h ++ t)[r]? = h[r]? := by
  simp [List.getElem?_append_left hr]

theorem abs_append (h t : Heap) : ∀ r, r < h.length → abs (h ++ t) r = abs h r := by
  intro r
  induction r using Nat.strongRecOn with
  | _ r ih =>
    intro hr
    rw [abs, abs, getElem?_append_lt h t r hr]
    cases h[r]? with
    | none => rfl
    | some c =>
      simp only []
      cases c.src with
      | none => rfl
      | some s =>
        simp only []
        split
        · rename_i hs; rw [ih s hs (Nat.lt_trans hs hr)]
        · rfl

theorem lookupQMD_append (h t : Heap) (k : String) : ∀ r, r < h.length → lookupQMD (h ++ t) r k = lookupQMD h r k := by
  intro r
  induction r using Nat.strongRecOn with
  | _ r ih =>
    intro hr
    rw [lookupQMD, lookupQMD, getElem?_append_lt h t r hr]
    cases h[r]? with
    | none => rfl
    | some c =>
      simp only []
      cases c.qmd.bind (qmdGet k) with
      | some v => rfl
      | none =>
        simp only []
        cases c.src with
        | none => rfl
        | some s =>
          simp only []
          split
          · rename_i hs; rw [ih s hs (Nat.lt_trans hs hr)]
          · rfl

theorem executorOf_append (h t : Heap) : ∀ r, r < h.length → executorOf (h ++ t) r = executorOf h r := by
  intro r
  induction r using Nat.strongRecOn with
  | _ r ih =>
    intro hr
    rw [executorOf, executorOf, getElem?_append_lt h t r hr]
    cases h[r]? with
    | none => rfl
    | some c =>
      simp only []
      cases c.exe with
      | some d => rfl
      | none =>
        simp only []
        cases c.src with
        | none => rfl
        | some s =>
          simp only []
          split
          · rename_i hs; rw [ih s hs (Nat.lt_trans hs hr)]
          · rfl

theorem getElem?_append_new {α : Type} (h : List α) (c : α) : (h ++ [c])[h.length]? = some c := by
  simp

/-! ### the specification of lookups -/

/-- value most recently set for `k` on a derivation path (most recent dictionary first) -/
def lastWrite (k : String) : List QMd → Option PyVal
  | [] => Option.none
  | md :: rest => match qmdGet k md with
    | some v => some v
    | Option.none => lastWrite k rest

/-- what `qmdToAdd` computes, key by key -/
theorem qmdToAdd_spec (h : Heap) (root : Nat) (k : String) :
    ∀ (md acc : QMd), keysDistinct md = true →
      qmdGet k (qmdToAdd h root acc md) =
        match qmdGet k md with
        | Option.none => qmdGet k acc
        | some v =>
          (match lookupQMD h root k with
           | Option.none => some v
           | some .none => some v
           | some found => if pyValNe found v then some v else qmdGet k acc) := by
  intro md
  induction md with
  | nil => intro acc _; simp [qmdToAdd, qmdGet]
  | cons p md ih =>
    obtain ⟨k', v'⟩ := p
    intro acc hd
    simp only [keysDistinct, Bool.and_eq_true, List.all_eq_true, bne_iff_ne, ne_eq] at hd
    have hnot : ∀ kk, kk = k' → qmdGet kk md = Option.none := by
      intro kk hkk; subst hkk
      have h1 := hd.1
      clear ih
      induction md with
      | nil => rfl
      | cons q md ihd =>
        obtain ⟨k2, v2⟩ := q
        have := h1 (k2, v2) (List.mem_cons_self)
        simp only [qmdGet]
        rw [if_neg this]
        simp only [keysDistinct, Bool.and_eq_true, List.all_eq_true, bne_iff_ne, ne_eq] at hd
        exact ihd ⟨fun p hp => h1 p (List.mem_cons_of_mem _ hp), hd.2.2⟩ (fun p hp => h1 p (List.mem_cons_of_mem _ hp))
    by_cases hk : k' = k
    · subst hk
      simp only [qmdGet, if_true]
      simp only [qmdToAdd]
      cases hl : lookupQMD h root k' with
      | none => simp only []; rw [ih _ hd.2, hnot k' rfl]; simp [qmdGet_set_same]
      | some found =>
        cases found with
        | none => simp only []; rw [ih _ hd.2, hnot k' rfl]; simp [qmdGet_set_same]
        | _ =>
          simp only []
          split
          · rw [ih _ hd.2, hnot k' rfl]; simp [qmdGet_set_same]
          · rw [ih _ hd.2, hnot k' rfl]
    · simp only [qmdGet, hk, if_false]
      simp only [qmdToAdd]
      cases hl : lookupQMD h root k' with
      | none => simp only []; rw [ih _ hd.2]; simp only [qmdGet_set_other k k' v' acc (Ne.symm hk)]
      | some found =>
        cases found with
        | none => simp only []; rw [ih _ hd.2]; simp only [qmdGet_set_other k k' v' acc (Ne.symm hk)]
        | _ =>
          simp only []
          split
          · rw [ih _ hd.2]; simp only [qmdGet_set_other k k' v' acc (Ne.symm hk)]
          · rw [ih _ hd.2]

theorem qmdToAdd_keysDistinct (h : Heap) (root : Nat) :
    ∀ (md acc : QMd), keysDistinct acc = true → keysDistinct (qmdToAdd h root acc md) = true := by
  intro md
  induction md with
  | nil => intro acc ha; simpa [qmdToAdd] using ha
  | cons p md ih =>
    obtain ⟨k', v'⟩ := p
    intro acc ha
    simp only [qmdToAdd]
    cases lookupQMD h root k' with
    | none => exact ih _ (qmdSet_keysDistinct _ _ _ ha)
    | some found =>
      cases found with
      | none => exact ih _ (qmdSet_keysDistinct _ _ _ ha)
      | _ =>
        simp only []
        split
        · exact ih _ (qmdSet_keysDistinct _ _ _ ha)
        · exact ih _ ha

/-! ### well-formed operations and the invariant -/

def Op.wf : Op → Bool
  | .qmeta _ md => keysDistinct md
  | _ => true

structure Inv (st : St) : Prop where
  back : ∀ (i : Nat) (c : Cell), st.heap[i]? = some c → ∀ s, c.src = some s → s < i
  roots : ∀ s ∈ st.streams, s.root < st.heap.length
  tm : ∀ s ∈ st.streams, abs st.heap s.root = s.tm
  exe : ∀ s ∈ st.streams, executorOf st.heap s.root = .ok s.ds
  look : ∀ s ∈ st.streams, ∀ k, lookupQMD st.heap s.root k = lastWrite k s.path

theorem Inv.init : Inv St.init := by
  constructor <;> intros <;> simp_all [St.init]

/-- old streams keep all their observations when cells are appended -/
theorem inv_extend (st : St) (hinv : Inv st) (cells : Heap) (news : List Stream)
    (hback : ∀ (i : Nat) (c : Cell), (st.heap ++ cells)[i]? = some c → ∀ s, c.src = some s → s < i)
    (hnew : ∀ s ∈ news, s.root < (st.heap ++ cells).length ∧ abs (st.heap ++ cells) s.root = s.tm ∧
        executorOf (st.heap ++ cells) s.root = .ok s.ds ∧
        ∀ k, lookupQMD (st.heap ++ cells) s.root k = lastWrite k s.path) :
    Inv { st with heap := st.heap ++ cells, streams := st.streams ++ news } := by
  constructor
  · exact hback
  · intro s hs
    simp only [List.mem_append] at hs
    rcases hs with hs | hs
    · have := hinv.roots s hs; simp only [List.length_append]; omega
    · exact (hnew s hs).1
  · intro s hs
    simp only [List.mem_append] at hs
    rcases hs with hs | hs
    · rw [abs_append _ _ _ (hinv.roots s hs)]; exact hinv.tm s hs
    · exact (hnew s hs).2.1
  · intro s hs
    simp only [List.mem_append] at hs
    rcases hs with hs | hs
    · rw [executorOf_append _ _ _ (hinv.roots s hs)]; exact hinv.exe s hs
    · exact (hnew s hs).2.2.1
  · intro s hs k
    simp only [List.mem_append] at hs
    rcases hs with hs | hs
    · rw [lookupQMD_append _ _ _ _ (hinv.roots s hs)]; exact hinv.look s hs k
    · exact (hnew s hs).2.2.2 k

theorem back_append_one (st : St) (hinv : Inv st) (c : Cell) (hc : ∀ s, c.src = some s → s < st.heap.length) :
    ∀ (i : Nat) (c' : Cell), (st.heap ++ [c])[i]? = some c' → ∀ s, c'.src = some s → s < i := by
  intro i c' hi s hs
  by_cases hlt : i < st.heap.length
  · rw [getElem?_append_lt _ _ _ hlt] at hi
    exact hinv.back i c' hi s hs
  · have hge : st.heap.length ≤ i := Nat.le_of_not_lt hlt
    by_cases heq : i = st.heap.length
    · subst heq
      simp at hi
      subst hi
      exact hc s hs
    · have : (st.heap ++ [c])[i]? = Option.none := by
        apply List.getElem?_eq_none
        simp; omega
      rw [this] at hi; cases hi

theorem mem_of_getElem? {α : Type} {l : List α} {i : Nat} {a : α} (h : l[i]? = some a) : a ∈ l :=
  List.mem_of_getElem? h

theorem inv_step (st : St) (hinv : Inv st) (op : Op) (hwf : op.wf = true) : Inv (step st op) := by
  cases op with
  | dataset ty dargs =>
    simp only [step]
    apply inv_extend st hinv
    · exact back_append_one st hinv _ (by intro s hs; cases hs)
    · intro s hs
      simp only [List.mem_singleton] at hs
      subst hs
      refine ⟨by simp, ?_, ?_, ?_⟩
      · rw [abs]; simp
      · rw [executorOf]; simp
      · intro k; rw [lookupQMD]; simp [lastWrite, Option.bind]
  | derive s op args ty =>
    simp only [step]
    cases hs : st.streams[s]? with
    | none => simpa using hinv
    | some str =>
      simp only []
      have hmem := mem_of_getElem? hs
      have hroot := hinv.roots str hmem
      apply inv_extend st hinv
      · exact back_append_one st hinv _ (by intro s' hs'; simp at hs'; omega)
      · intro s' hs'
        simp only [List.mem_singleton] at hs'
        subst hs'
        refine ⟨by simp, ?_, ?_, ?_⟩
        · rw [abs]; simp [hroot, abs_append _ _ _ hroot, hinv.tm str hmem]
        · rw [executorOf]; simp [hroot, executorOf_append _ _ _ hroot, hinv.exe str hmem]
        · intro k; rw [lookupQMD]; simp [hroot, Option.bind, lookupQMD_append _ _ _ _ hroot, hinv.look str hmem k]
  | terminal s op args =>
    simp only [step]
    cases hs : st.streams[s]? with
    | none => simpa using hinv
    | some str =>
      simp only []
      have hmem := mem_of_getElem? hs
      have hroot := hinv.roots str hmem
      apply inv_extend st hinv
      · exact back_append_one st hinv _ (by intro s' hs'; simp at hs'; omega)
      · intro s' hs'
        simp only [List.mem_singleton] at hs'
        subst hs'
        refine ⟨by simp, ?_, ?_, ?_⟩
        · rw [abs]; simp [hroot, abs_append _ _ _ hroot, hinv.tm str hmem]
        · rw [executorOf]; simp [hroot, executorOf_append _ _ _ hroot, hinv.exe str hmem]
        · intro k; rw [lookupQMD]; simp [hroot, Option.bind, lookupQMD_append _ _ _ _ hroot, hinv.look str hmem k]
  | value s override title =>
    simp only [step]
    cases hs : st.streams[s]? with
    | none => simpa using hinv
    | some str =>
      simp only []
      cases getExecutor st.heap str.root override with
      | error e => simpa using hinv
      | ok e => exact ⟨hinv.back, hinv.roots, hinv.tm, hinv.exe, hinv.look⟩
  | qmeta s md =>
    simp only [Op.wf] at hwf
    simp only [step]
    cases hs : st.streams[s]? with
    | none => simpa using hinv
    | some str =>
      simp only []
      have hmem := mem_of_getElem? hs
      have hroot := hinv.roots str hmem
      -- what a lookup of `k` must give on the new stream
      have hspec : ∀ k, qmdGet k (qmdToAdd st.heap str.root [] md) = Option.none →
          lookupQMD st.heap str.root k = lastWrite k (md :: str.path) := by
        intro k hk
        have h1 := qmdToAdd_spec st.heap str.root k md [] hwf
        rw [hk] at h1
        simp only [lastWrite]
        cases hmdk : qmdGet k md with
        | none => simp only []; exact hinv.look str hmem k
        | some v =>
          rw [hmdk] at h1
          simp only [] at h1 ⊢
          cases hl : lookupQMD st.heap str.root k with
          | none => rw [hl] at h1; simp at h1
          | some found =>
            rw [hl] at h1
            cases found
            case none => simp at h1
            all_goals (
              simp only [] at h1
              split at h1
              · simp at h1
              · rename_i hne
                simp only [pyValNe, Bool.not_eq_true'] at hne
                simp only [Bool.not_eq_false] at hne
                rw [PyVal.beq_eq hne])
      split
      · -- nothing to add: same root
        rename_i hempty
        have hnil : qmdToAdd st.heap str.root [] md = [] := by
          cases hq : qmdToAdd st.heap str.root [] md with
          | nil => rfl
          | cons _ _ => rw [hq] at hempty; simp at hempty
        have := inv_extend st hinv [] [{ str with path := md :: str.path }]
          (by simpa using hinv.back)
          (by
            intro s' hs'
            simp only [List.mem_singleton] at hs'
            subst hs'
            simp only [List.append_nil]
            refine ⟨hroot, hinv.tm str hmem, hinv.exe str hmem, ?_⟩
            intro k
            exact hspec k (by rw [hnil]; rfl))
        simpa using this
      · rename_i hne
        cases hc : st.heap[str.root]? with
        | none => simpa using hinv
        | some c =>
          simp only []
          have hcsrc : ∀ s', c.src = some s' → s' < str.root := hinv.back str.root c hc
          apply inv_extend st hinv
          · exact back_append_one st hinv _ (by intro s' hs'; have := hcsrc s' hs'; omega)
          · intro s' hs'
            simp only [List.mem_singleton] at hs'
            subst hs'
            have htm := hinv.tm str hmem
            have hexe := hinv.exe str hmem
            rw [abs, hc] at htm
            rw [executorOf, hc] at hexe
            refine ⟨by simp, ?_, ?_, ?_⟩
            · rw [abs]
              simp only [getElem?_append_new]
              cases hsrc : c.src with
              | none => simpa [hsrc] using htm
              | some s0 =>
                have hlt := hcsrc s0 hsrc
                simp only [hsrc] at htm ⊢
                rw [if_pos hlt] at htm
                rw [if_pos (by omega), abs_append _ _ _ (by omega)]
                exact htm
            · rw [executorOf]
              simp only [getElem?_append_new]
              cases hexe0 : c.exe with
              | some d => simpa [hexe0] using hexe
              | none =>
                simp only [hexe0] at hexe ⊢
                cases hsrc : c.src with
                | none => simpa [hsrc] using hexe
                | some s0 =>
                  have hlt := hcsrc s0 hsrc
                  simp only [hsrc] at hexe ⊢
                  rw [if_pos hlt] at hexe
                  rw [if_pos (by omega), executorOf_append _ _ _ (by omega)]
                  exact hexe
            · intro k
              have hadd_d := qmdToAdd_keysDistinct st.heap str.root md [] rfl
              rw [lookupQMD]
              simp only [getElem?_append_new, Option.bind_some]
              rw [qmdGet_merge, qmdGetLast_eq_get_of_distinct k _ hadd_d]
              cases hk : qmdGet k (qmdToAdd st.heap str.root [] md) with
              | some v =>
                simp only [Option.orElse_some]
                -- the added value is the one in md
                have h1 := qmdToAdd_spec st.heap str.root k md [] hwf
                rw [hk] at h1
                simp only [lastWrite]
                cases hmdk : qmdGet k md with
                | none => rw [hmdk] at h1; simp [qmdGet] at h1
                | some v' =>
                  rw [hmdk] at h1
                  simp only [] at h1 ⊢
                  cases hl : lookupQMD st.heap str.root k with
                  | none => rw [hl] at h1; simpa using h1
                  | some found =>
                    rw [hl] at h1
                    cases found with
                    | none => simpa using h1
                    | _ =>
                      simp only [] at h1
                      split at h1
                      · simpa using h1
                      · simp [qmdGet] at h1
              | none =>
                simp only [Option.orElse_none]
                have hold := hspec k hk
                rw [lookupQMD, hc] at hold
                cases hq : c.qmd with
                | none =>
                  simp only [hq, Option.getD_none, qmdGet, Option.bind_none] at hold ⊢
                  cases hsrc : c.src with
                  | none => simpa [hsrc] using hold
                  | some s0 =>
                    have hlt := hcsrc s0 hsrc
                    simp only [hsrc] at hold ⊢
                    rw [if_pos hlt] at hold
                    rw [if_pos (by omega), lookupQMD_append _ _ _ _ (by omega)]
                    exact hold
                | some q =>
                  simp only [hq, Option.getD_some, Option.bind_some] at hold ⊢
                  cases hg : qmdGet k q with
                  | some v => simpa [hg] using hold
                  | none =>
                    simp only [hg] at hold ⊢
                    cases hsrc : c.src with
                    | none => simpa [hsrc] using hold
                    | some s0 =>
                      have hlt := hcsrc s0 hsrc
                      simp only [hsrc] at hold ⊢
                      rw [if_pos hlt] at hold
                      rw [if_pos (by omega), lookupQMD_append _ _ _ _ (by omega)]
                      exact hold

theorem inv_run (ops : List Op) (hwf : ∀ op ∈ ops, op.wf = true) : Inv (run ops) := by
  unfold run
  suffices h : ∀ (st : St), Inv st → Inv (ops.foldl step st) from h _ Inv.init
  induction ops with
  | nil => intro st h; exact h
  | cons op ops ih =>
    intro st h
    simp only [List.foldl]
    exact ih (fun o ho => hwf o (List.mem_cons_of_mem _ ho)) _ (inv_step st h op (hwf op (List.mem_cons_self)))

end Fadl
