/-
  Transfer principle for the deferred-execution semantics: the value of a compound expression in an
  environment is determined by the values of its parts in that environment (and, for lambda bodies and
  comprehension parts, in its one-variable extensions).  Stated two-sided - two expressions' parts in two
  environments - so that the same lemmas give coincidence on free names, alpha-renaming and substitution.
-/
import Fadl.SemLazy
import Fadl.Lemmas.Mono
namespace Fadl
set_option linter.unusedSimpArgs false

def DAgree (env env' : Env) (d d' : Den) : Prop := d env = d' env'

def LamAgree (env env' : Env) (l l' : LamD) : Prop :=
  (∀ v, applyLam1 l env v = applyLam1 l' env' v) ∧ (∀ a v, applyLam2 l env a v = applyLam2 l' env' a v)

def HeadAgree (env env' : Env) : Head → Head → Prop
  | .fn n, .fn n' => n = n'
  | .meth r m, .meth r' m' => m = m' ∧ r env = r' env'
  | .lamH ps b, .lamH ps' b' =>
    ∀ vs kwn kvs, (bindParams ps vs kwn kvs env >>= b) = (bindParams ps' vs kwn kvs env' >>= b')
  | .other, .other => True
  | _, _ => False

theorem seqRes_agree {ds ds' : List Den} {env env' : Env} (h : All2 (DAgree env env') ds ds') :
    seqRes (ds.map (· env)) = seqRes (ds'.map (· env')) := by
  induction h with
  | nil => rfl
  | cons h1 _ ih =>
    simp only [List.map, seqRes]
    rw [show _ = _ from h1, ih]

theorem evalAll_agree {ds ds' : List Den} {env env' : Env} (h : All2 (DAgree env env') ds ds') :
    evalAll ds env = evalAll ds' env' := seqRes_agree h

theorem map_env_agree {ds ds' : List Den} {env env' : Env} (h : All2 (DAgree env env') ds ds') :
    ds.map (· env) = ds'.map (· env') := by
  induction h with
  | nil => rfl
  | cons h1 _ ih => simp only [List.map]; rw [show _ = _ from h1, ih]

theorem fnCallLz_agree (w : World) (n : String) {args args' : List Den} {lams lams' : List LamD}
    (kwn : List String) {kwv kwv' : List Den} {env env' : Env}
    (ha : All2 (DAgree env env') args args') (hl : All2 (LamAgree env env') lams lams')
    (hk : All2 (DAgree env env') kwv kwv') :
    fnCallLz w n args lams kwn kwv env = fnCallLz w n args' lams' kwn kwv' env' := by
  unfold fnCallLz
  split
  · cases ha with
    | nil => rfl
    | cons ha1 ha2 =>
      cases ha2 with
      | nil => simp only []; rw [show _ = _ from ha1]
      | cons ha2 ha3 =>
        cases ha3 with
        | nil =>
          cases hl with
          | nil => rfl
          | cons hl1 hl2 => cases hl2 with
            | nil =>
              simp only []
              rw [show _ = _ from ha1]
              have : applyLam1 _ env = applyLam1 _ env' := funext hl1.1
              rw [this]
            | cons _ _ => rfl
        | cons ha3 ha4 =>
          cases ha4 with
          | nil =>
            cases hl with
            | nil => rfl
            | cons hl1 hl2 => cases hl2 with
              | nil => rfl
              | cons hl2 hl3 => cases hl3 with
                | nil =>
                  simp only []
                  split
                  · rw [show _ = _ from ha1, show _ = _ from ha2]
                    have : applyLam2 _ env = applyLam2 _ env' := funext (fun a => funext (hl2.2 a))
                    rw [this]
                  · rfl
                | cons _ _ => rfl
          | cons _ _ => rfl
  · rw [evalAll_agree ha, evalAll_agree hk]

theorem callSemLz_agree (w : World) {h h' : Head} {args args' : List Den} {lams lams' : List LamD}
    (kwn : List String) {kwv kwv' : List Den} {env env' : Env}
    (hh : HeadAgree env env' h h') (ha : All2 (DAgree env env') args args')
    (hl : All2 (LamAgree env env') lams lams') (hk : All2 (DAgree env env') kwv kwv') :
    callSemLz w h args lams kwn kwv env = callSemLz w h' args' lams' kwn kwv' env' := by
  cases h with
  | other =>
    cases h' <;> simp only [HeadAgree] at hh
    rfl
  | fn n =>
    cases h' <;> simp only [HeadAgree] at hh
    subst hh
    simp only [callSemLz]
    apply fnCallLz_agree w n kwn ha _ hk
    cases hl with
    | nil => exact .nil
    | cons _ h2 => exact h2
  | meth r m =>
    cases h' with
    | meth r' m' =>
      simp only [HeadAgree] at hh
      obtain ⟨rfl, hr⟩ := hh
      simp only [callSemLz]
      split
      · exact fnCallLz_agree w m kwn (.cons hr ha) hl hk
      · simp only []
        rw [hr, evalAll_agree ha, evalAll_agree hk]
    | _ => simp only [HeadAgree] at hh
  | lamH ps b =>
    cases h' with
    | lamH ps' b' =>
      simp only [HeadAgree] at hh
      simp only [callSemLz, evalAll_agree ha, evalAll_agree hk]
      cases evalAll args' env' with
      | error e => rfl
      | ok vs =>
        cases evalAll kwv' env' with
        | error e => rfl
        | ok kvs => exact hh vs kwn kvs
    | _ => simp only [HeadAgree] at hh

theorem compSemLz_agree {x x' : String} {e e' i i' : Den} {ifs ifs' : List Den} (a : Bool) {env env' : Env}
    (hi : i env = i' env')
    (he : ∀ v, e (env.upd x v) = e' (env'.upd x' v))
    (hifs : ∀ v, All2 (DAgree (env.upd x v) (env'.upd x' v)) ifs ifs') :
    compSemLz (some x) e i ifs a env = compSemLz (some x') e' i' ifs' a env' := by
  unfold compSemLz
  cases a with
  | true => rfl
  | false =>
    simp only []
    rw [hi]
    have h1 : (fun v => condsHold (ifs.map (· (env.upd x v)))) = (fun v => condsHold (ifs'.map (· (env'.upd x' v)))) := by
      funext v; rw [map_env_agree (hifs v)]
    have h2 : (fun v => e (env.upd x v)) = (fun v => e' (env'.upd x' v)) := funext he
    rw [h1, h2]

end Fadl
