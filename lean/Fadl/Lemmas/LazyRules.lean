/-
  The rewrite rules of the chained-call simplifier at the level of values: for every sequence and every pair of
  element functions, fusing two deferred operators gives the same sequence (same elements, same deferred
  failures in the same places).  Used by Props/C02.lean for the expression-level rule theorems.
-/
import Fadl.SemLazy
namespace Fadl
set_option linter.unusedSimpArgs false

/-- the function never returns a deferred failure as a value (true of every denotation, `denLz_noPoison`) -/
def NoPoison (f : Val → Res) : Prop := ∀ x e, f x ≠ .ok (.poison e)

def selL (f : Val → Res) (vs : List Val) : List Val := vs.map (fun v => lazyElem (force v >>= f))
def whrL (f : Val → Res) (vs : List Val) : List Val := vs.flatMap (whereElem f)
def manyL (f : Val → Res) (vs : List Val) : List Val := vs.flatMap (manyElem f)

theorem seqOp2Lz_select (f : Val → Res) (vs : List Val) : seqOp2Lz "Select" f vs = .ok (.list (selL f vs)) := by
  simp [seqOp2Lz, selL]
theorem seqOp2Lz_where (f : Val → Res) (vs : List Val) : seqOp2Lz "Where" f vs = .ok (.list (whrL f vs)) := by
  simp [seqOp2Lz, whrL]
theorem seqOp2Lz_many (f : Val → Res) (vs : List Val) : seqOp2Lz "SelectMany" f vs = .ok (.list (manyL f vs)) := by
  simp [seqOp2Lz, manyL]

theorem flatMap_congr' {α β : Type} {f g : α → List β} : ∀ {l : List α}, (∀ a ∈ l, f a = g a) → l.flatMap f = l.flatMap g
  | [], _ => rfl
  | a :: l, h => by
    simp only [List.flatMap_cons]
    rw [h a (by simp), flatMap_congr' (fun b hb => h b (by simp [hb]))]

theorem force_ok_ne_poison {v x : Val} (h : force v = .ok x) : ∀ e, x ≠ .poison e := by
  intro e hx; subst hx
  cases v <;> simp [force] at h

theorem force_of_ne_poison {x : Val} (h : ∀ e, x ≠ .poison e) : force x = .ok x := by
  cases x <;> simp [force] at *

theorem force_ok_idem {v x : Val} (h : force v = .ok x) : force x = .ok x :=
  force_of_ne_poison (force_ok_ne_poison h)

theorem force_lazyElem {r : Res} (h : ∀ e, r ≠ .ok (.poison e)) : force (lazyElem r) = r := by
  cases r with
  | error e => simp [lazyElem, force]
  | ok v =>
    simp only [lazyElem]
    exact force_of_ne_poison (fun e hv => h e (by rw [hv]))

theorem bind_noPoison {r : Res} {f : Val → Res} (hf : NoPoison f) : ∀ e, (r >>= f) ≠ .ok (.poison e) := by
  intro e
  cases r with
  | error e' => simp [bind, Except.bind]
  | ok v => simpa [bind, Except.bind] using hf v e

/-- Select ∘ Select -/
theorem sel_sel (f g : Val → Res) (hf : NoPoison f) (vs : List Val) :
    selL g (selL f vs) = selL (fun x => f x >>= g) vs := by
  simp only [selL, List.map_map]
  apply List.map_congr_left
  intro v _
  simp only [Function.comp]
  rw [force_lazyElem (bind_noPoison hf)]
  cases force v <;> simp [bind, Except.bind]

/-- First ∘ Select: only the first element is demanded -/
theorem first_sel (f : Val → Res) (hf : NoPoison f) (vs : List Val) :
    seqOp1Lz "First" (selL f vs) = seqOp1Lz "First" vs >>= f := by
  cases vs with
  | nil => simp [seqOp1Lz, selL, bind, Except.bind]
  | cons v rest =>
    simp only [seqOp1Lz, selL, List.map, if_true]
    exact force_lazyElem (bind_noPoison hf)

/-- Where ∘ Where: one `Where` with the conjunction (`f(x) and g(x)`) -/
theorem whr_whr (f g : Val → Res) (vs : List Val) :
    whrL g (whrL f vs) = whrL (fun x => do let b ← f x; if truthy b then g x else pure b) vs := by
  simp only [whrL, List.flatMap_assoc]
  apply flatMap_congr'
  intro v _
  simp only [whereElem]
  cases hv : force v with
  | error e => simp [List.flatMap, whereElem, force]
  | ok x =>
    simp only []
    cases hfx : f x with
    | error e => simp [List.flatMap, whereElem, force, bind, Except.bind]
    | ok b =>
      by_cases hb : truthy b
      · simp [hb, List.flatMap, whereElem, force_ok_idem hv, bind, Except.bind]
      · simp [hb, List.flatMap, bind, Except.bind, pure, Except.pure]

/-- Where ∘ Select = Select ∘ Where(composition) -/
theorem whr_sel (f g : Val → Res) (hf : NoPoison f) (vs : List Val) :
    whrL g (selL f vs) = selL f (whrL (fun x => f x >>= g) vs) := by
  simp only [whrL, selL, List.flatMap_map, List.map_flatMap]
  apply flatMap_congr'
  intro v _
  simp only [whereElem]
  rw [force_lazyElem (bind_noPoison hf)]
  cases hv : force v with
  | error e => simp [bind, Except.bind, lazyElem, force]
  | ok x =>
    simp only [bind, Except.bind]
    cases hfx : f x with
    | error e => simp [lazyElem, force, bind, Except.bind]
    | ok y =>
      simp only []
      cases hgy : g y with
      | error e => simp [lazyElem, force, bind, Except.bind]
      | ok b =>
        by_cases hb : truthy b
        · simp [hb, lazyElem, force_ok_idem hv, bind, Except.bind, hfx]
        · simp [hb]

/-- SelectMany ∘ Select -/
theorem many_sel (f g : Val → Res) (hf : NoPoison f) (vs : List Val) :
    manyL g (selL f vs) = manyL (fun x => f x >>= g) vs := by
  simp only [manyL, selL, List.flatMap_map]
  apply flatMap_congr'
  intro v _
  simp only [manyElem]
  rw [force_lazyElem (bind_noPoison hf)]
  cases force v <;> simp [bind, Except.bind]

/-- the function `x ↦ Op(f(x), g)` applied inside a SelectMany -/
def innerOp (op : String) (f g : Val → Res) : Val → Res := fun x => do
  let l ← f x
  let inner ← asSeq l
  seqOp2Lz op g inner

/-- Select ∘ SelectMany: the Select moves inside -/
theorem sel_many (f g : Val → Res) (vs : List Val) :
    selL g (manyL f vs) = manyL (innerOp "Select" f g) vs := by
  simp only [manyL, selL, List.map_flatMap]
  apply flatMap_congr'
  intro v _
  simp only [manyElem, innerOp]
  cases hv : force v with
  | error e => simp [bind, Except.bind, lazyElem, force]
  | ok x =>
    simp only [bind, Except.bind]
    cases hfx : f x with
    | error e => simp [innerOp, hfx, lazyElem, force, bind, Except.bind]
    | ok l =>
      cases l <;> simp [innerOp, hfx, asSeq, lazyElem, force, bind, Except.bind, seqOp2Lz_select, selL]

/-- Where ∘ SelectMany: the Where moves inside -/
theorem whr_many (f g : Val → Res) (vs : List Val) :
    whrL g (manyL f vs) = manyL (innerOp "Where" f g) vs := by
  simp only [manyL, whrL, List.flatMap_assoc]
  apply flatMap_congr'
  intro v _
  simp only [manyElem, innerOp]
  cases hv : force v with
  | error e => simp [bind, Except.bind, whereElem, force]
  | ok x =>
    simp only [bind, Except.bind]
    cases hfx : f x with
    | error e => simp [innerOp, hfx, whereElem, force, bind, Except.bind]
    | ok l =>
      cases l <;> simp [innerOp, hfx, asSeq, whereElem, force, bind, Except.bind, seqOp2Lz_where, whrL]

/-- SelectMany ∘ SelectMany: the second one moves inside -/
theorem many_many (f g : Val → Res) (vs : List Val) :
    manyL g (manyL f vs) = manyL (innerOp "SelectMany" f g) vs := by
  simp only [manyL, List.flatMap_assoc]
  apply flatMap_congr'
  intro v _
  simp only [manyElem, innerOp]
  cases hv : force v with
  | error e => simp [bind, Except.bind, manyElem, force]
  | ok x =>
    simp only [bind, Except.bind]
    cases hfx : f x with
    | error e => simp [innerOp, hfx, manyElem, force, bind, Except.bind]
    | ok l =>
      cases l <;> simp [innerOp, hfx, asSeq, manyElem, force, bind, Except.bind, seqOp2Lz_many, manyL]

/-- Select with the identity is the sequence itself, provided no element is a deferred failure of a kind that
    forcing would change - it never is: `lazyElem (force v) = v` -/
theorem sel_id (vs : List Val) : selL (fun x => .ok x) vs = vs := by
  simp only [selL]
  conv => rhs; rw [← List.map_id vs]
  apply List.map_congr_left
  intro v _
  cases v <;> simp [force, lazyElem, bind, Except.bind]

/-- Where with the constant True keeps every element -/
theorem whr_true (vs : List Val) : whrL (fun _ => .ok (.bool true)) vs = vs := by
  induction vs with
  | nil => rfl
  | cons v vs ih =>
    simp only [whrL, List.flatMap_cons] at *
    rw [ih]
    cases v <;> simp [whereElem, force, truthy]

end Fadl
