/-
  The rewrite rules of the chained-call simplifier at the level of values: for every sequence and every pair of
  element functions, fusing two deferred operators gives the same sequence (same elements, same deferred
  failures in the same places).  Used by Props/C02.lean for the expression-level rule theorems.
-/
import Fadl.SemLazy
import Fadl.Lemmas.Mono
namespace Fadl
set_option linter.unusedSimpArgs false

/-- the function never returns a deferred failure as a value (true of every denotation, `denLz_noPoison`) -/
def NoPoison (f : Val → Res) : Prop := ∀ x e, f x ≠ .ok (.poison e)

/-- … on the elements of a given sequence (what the rules need) -/
def NoPoisonOn (f : Val → Res) (vs : List Val) : Prop := ∀ v ∈ vs, ∀ x, force v = .ok x → ∀ e, f x ≠ .ok (.poison e)

theorem NoPoison.on {f : Val → Res} (h : NoPoison f) (vs : List Val) : NoPoisonOn f vs := fun _ _ x _ e => h x e

theorem NoPoisonOn.tail {f : Val → Res} {v : Val} {vs : List Val} (h : NoPoisonOn f (v :: vs)) : NoPoisonOn f vs :=
  fun u hu x hx e => h u (List.mem_cons_of_mem _ hu) x hx e

def selL (f : Val → Res) (vs : List Val) : List Val := vs.map (fun v => lazyElem (force v >>= f))

theorem seqOp2Lz_select (f : Val → Res) (vs : List Val) : seqOp2Lz "Select" f vs = .ok (.list (selL f vs)) := by
  simp [seqOp2Lz, selL]
theorem seqOp2Lz_where (f : Val → Res) (vs : List Val) : seqOp2Lz "Where" f vs = (whereLz f vs).map .list := by
  simp [seqOp2Lz]
theorem seqOp2Lz_many (f : Val → Res) (vs : List Val) : seqOp2Lz "SelectMany" f vs = (manyLz f vs).map .list := by
  simp [seqOp2Lz]

theorem force_ok_ne_poison {v x : Val} (h : force v = .ok x) : ∀ e, x ≠ .poison e := by
  intro e hx; subst hx
  cases v <;> simp [force] at h

theorem force_of_ne_poison {x : Val} (h : ∀ e, x ≠ .poison e) : force x = .ok x := by
  cases x <;> simp [force] at *

theorem force_ok_idem {v x : Val} (h : force v = .ok x) : force x = .ok x :=
  force_of_ne_poison (force_ok_ne_poison h)

theorem force_ok_eq {v x : Val} (h : force v = .ok x) : v = x := by
  cases v <;> simp [force] at h <;> exact h

theorem force_lazyElem {r : Res} (h : ∀ e, r ≠ .ok (.poison e)) : force (lazyElem r) = r := by
  cases r with
  | error e => simp [lazyElem, force]
  | ok v =>
    simp only [lazyElem]
    exact force_of_ne_poison (fun e hv => h e (by rw [hv]))

theorem bind_noPoison {v : Val} {vs : List Val} {f : Val → Res} (hf : NoPoisonOn f (v :: vs)) :
    ∀ e, (force v >>= f) ≠ .ok (.poison e) := by
  intro e
  cases hv : force v with
  | error e' => simp [bind, Except.bind]
  | ok x => simpa [bind, Except.bind] using hf v (by simp) x hv e

/-- Select ∘ Select -/
theorem sel_sel (f g : Val → Res) : ∀ (vs : List Val), NoPoisonOn f vs →
    selL g (selL f vs) = selL (fun x => f x >>= g) vs
  | [], _ => rfl
  | v :: vs, hf => by
    have ih := sel_sel f g vs hf.tail
    simp only [selL, List.map] at ih ⊢
    rw [ih, force_lazyElem (bind_noPoison hf)]
    cases force v <;> simp [bind, Except.bind]

/-- First ∘ Select: only the first element is demanded -/
theorem first_sel (f : Val → Res) (vs : List Val) (hf : NoPoisonOn f vs) :
    seqOp1Lz "First" (selL f vs) = seqOp1Lz "First" vs >>= f := by
  cases vs with
  | nil => simp [seqOp1Lz, selL, bind, Except.bind]
  | cons v rest =>
    simp only [seqOp1Lz, selL, List.map, if_true]
    exact force_lazyElem (bind_noPoison hf)

/-- Where ∘ Select = Select ∘ Where(composition) -/
theorem whr_sel (f g : Val → Res) : ∀ (vs : List Val), NoPoisonOn f vs →
    whereLz g (selL f vs) = (whereLz (fun x => f x >>= g) vs).map (selL f)
  | [], _ => rfl
  | v :: vs, hf => by
    have ih := whr_sel f g vs hf.tail
    simp only [selL, List.map, whereLz]
    rw [force_lazyElem (bind_noPoison hf)]
    simp only [selL] at ih
    rw [ih]
    generalize whereLz (fun x => f x >>= g) vs = W
    cases hv : force v with
    | error e => simp [bind, Except.bind, Except.map]
    | ok x =>
      simp only [bind, Except.bind]
      cases hfx : f x with
      | error e => simp [Except.map]
      | ok y =>
        simp only []
        cases hgy : g y with
        | error e => simp [Except.map]
        | ok b =>
          simp only []
          cases W with
          | error e => simp [Except.map]
          | ok rest =>
            by_cases hb : truthy b
            · simp [hb, Except.map, pure, Except.pure, selL, force_ok_idem hv, hfx, lazyElem, bind, Except.bind]
            · simp [hb, Except.map, pure, Except.pure]

/-- SelectMany ∘ Select -/
theorem many_sel (f g : Val → Res) : ∀ (vs : List Val), NoPoisonOn f vs →
    manyLz g (selL f vs) = manyLz (fun x => f x >>= g) vs
  | [], _ => rfl
  | v :: vs, hf => by
    simp only [selL, List.map, manyLz] at *
    rw [force_lazyElem (bind_noPoison hf)]
    have ih := many_sel f g vs hf.tail
    simp only [selL] at ih
    rw [ih]
    generalize manyLz (fun x => f x >>= g) vs = W
    cases force v with
    | error e => simp [bind, Except.bind]
    | ok x =>
      simp only [bind, Except.bind]
      cases f x <;> rfl

theorem asSeq_list' (vs : List Val) : asSeq (.list vs) = .ok vs := rfl

theorem selL_append (g : Val → Res) (a b : List Val) : selL g (a ++ b) = selL g a ++ selL g b := by
  simp [selL]

/-- the function `x ↦ Op(f(x), g)` applied inside a SelectMany -/
def innerOp (op : String) (f g : Val → Res) : Val → Res := fun x => do
  let l ← f x
  let inner ← asSeq l
  seqOp2Lz op g inner

/-- Select ∘ SelectMany: the Select moves inside -/
theorem sel_many (f g : Val → Res) : ∀ (vs : List Val),
    (manyLz f vs).map (selL g) = manyLz (innerOp "Select" f g) vs
  | [] => rfl
  | v :: vs => by
    simp only [manyLz]
    rw [← sel_many f g vs]
    cases hv : force v with
    | error e => simp [bind, Except.bind, Except.map]
    | ok x =>
      simp only [bind, Except.bind, innerOp]
      cases hfx : f x with
      | error e => simp [Except.map]
      | ok l =>
        simp only []
        cases hl : asSeq l with
        | error e => simp [Except.map]
        | ok inner =>
          simp only [seqOp2Lz_select, asSeq_list']
          cases manyLz f vs with
          | error e => simp [Except.map]
          | ok rest => simp [Except.map, pure, Except.pure, selL_append]

theorem whereLz_append (g : Val → Res) : ∀ (a b : List Val),
    whereLz g (a ++ b) = (do let x ← whereLz g a; let y ← whereLz g b; pure (x ++ y))
  | [], b => by cases h : whereLz g b <;> simp [whereLz, bind, Except.bind, pure, Except.pure, h]
  | v :: a, b => by
    simp only [List.cons_append, whereLz, whereLz_append g a b]
    cases force v with
    | error e => simp [bind, Except.bind]
    | ok x =>
      simp only [bind, Except.bind]
      cases g x with
      | error e => rfl
      | ok bb =>
        simp only []
        cases whereLz g a with
        | error e => rfl
        | ok ra =>
          simp only []
          cases whereLz g b with
          | error e => rfl
          | ok rb => by_cases hb : truthy bb <;> simp [hb, pure, Except.pure]

theorem manyLz_append (g : Val → Res) : ∀ (a b : List Val),
    manyLz g (a ++ b) = (do let x ← manyLz g a; let y ← manyLz g b; pure (x ++ y))
  | [], b => by cases h : manyLz g b <;> simp [manyLz, bind, Except.bind, pure, Except.pure, h]
  | v :: a, b => by
    simp only [List.cons_append, manyLz, manyLz_append g a b]
    cases force v with
    | error e => simp [bind, Except.bind]
    | ok x =>
      simp only [bind, Except.bind]
      cases g x with
      | error e => rfl
      | ok r =>
        simp only []
        cases asSeq r with
        | error e => rfl
        | ok inner =>
          simp only []
          cases manyLz g a with
          | error e => rfl
          | ok ra =>
            simp only []
            cases manyLz g b with
            | error e => rfl
            | ok rb => simp [pure, Except.pure, List.append_assoc]

/-- Where ∘ SelectMany: the Where moves inside (whenever the original succeeds, with the same elements) -/
theorem whr_many (f g : Val → Res) : ∀ (vs : List Val),
    ELe (manyLz f vs >>= whereLz g) (manyLz (innerOp "Where" f g) vs)
  | [] => by intro v h; simpa [manyLz, whereLz, bind, Except.bind] using h
  | v :: vs => by
    intro out h
    simp only [manyLz, bind, Except.bind] at h ⊢
    cases hv : force v with
    | error e => simp [hv] at h
    | ok x =>
      simp only [hv] at h ⊢
      cases hfx : f x with
      | error e => simp [hfx] at h
      | ok l =>
        simp only [hfx] at h
        cases hl : asSeq l with
        | error e => simp [hl] at h
        | ok inner =>
          simp only [hl] at h
          cases hrest : manyLz f vs with
          | error e => simp [hrest] at h
          | ok rest =>
            simp only [hrest, pure, Except.pure] at h
            rw [whereLz_append] at h
            simp only [bind, Except.bind] at h
            cases hwi : whereLz g inner with
            | error e => simp [hwi] at h
            | ok wi =>
              simp only [hwi] at h
              cases hwr : whereLz g rest with
              | error e => simp [hwr] at h
              | ok wr =>
                simp only [hwr, pure, Except.pure, Except.ok.injEq] at h
                have ih := whr_many f g vs wr (by simp [hrest, hwr, bind, Except.bind])
                simp only [innerOp, hfx, hl, bind, Except.bind, seqOp2Lz_where, hwi, Except.map, asSeq_list', ih, pure, Except.pure]
                rw [h]

/-- SelectMany ∘ SelectMany: the second one moves inside -/
theorem many_many (f g : Val → Res) : ∀ (vs : List Val),
    ELe (manyLz f vs >>= manyLz g) (manyLz (innerOp "SelectMany" f g) vs)
  | [] => by intro v h; simpa [manyLz, bind, Except.bind] using h
  | v :: vs => by
    intro out h
    simp only [manyLz, bind, Except.bind] at h ⊢
    cases hv : force v with
    | error e => simp [hv] at h
    | ok x =>
      simp only [hv] at h ⊢
      cases hfx : f x with
      | error e => simp [hfx] at h
      | ok l =>
        simp only [hfx] at h
        cases hl : asSeq l with
        | error e => simp [hl] at h
        | ok inner =>
          simp only [hl] at h
          cases hrest : manyLz f vs with
          | error e => simp [hrest] at h
          | ok rest =>
            simp only [hrest, pure, Except.pure] at h
            rw [manyLz_append] at h
            simp only [bind, Except.bind] at h
            cases hwi : manyLz g inner with
            | error e => simp [hwi] at h
            | ok wi =>
              simp only [hwi] at h
              cases hwr : manyLz g rest with
              | error e => simp [hwr] at h
              | ok wr =>
                simp only [hwr, pure, Except.pure, Except.ok.injEq] at h
                have ih := many_many f g vs wr (by simp [hrest, hwr, bind, Except.bind])
                simp only [innerOp, hfx, hl, bind, Except.bind, seqOp2Lz_many, hwi, Except.map, asSeq_list', ih, pure, Except.pure]
                rw [h]

/-- `f(x) and g(x)` -/
def andF (f g : Val → Res) : Val → Res := fun x => do
  let b ← f x
  if truthy b then g x else .ok b

/-- Where ∘ Where: one `Where` with the conjunction (`f(x) and g(x)`) -/
theorem whr_whr (f g : Val → Res) : ∀ (vs : List Val),
    ELe (whereLz f vs >>= whereLz g) (whereLz (andF f g) vs)
  | [] => by intro v h; simpa [whereLz, bind, Except.bind] using h
  | v :: vs => by
    intro out h
    simp only [whereLz, bind, Except.bind] at h ⊢
    cases hv : force v with
    | error e => simp [hv] at h
    | ok x =>
      simp only [hv] at h ⊢
      cases hfx : f x with
      | error e => simp [hfx] at h
      | ok b =>
        simp only [hfx] at h
        cases hrest : whereLz f vs with
        | error e => simp [hrest] at h
        | ok rest =>
          simp only [hrest, pure, Except.pure] at h
          by_cases hb : truthy b
          · simp only [hb, if_true, whereLz, force_ok_idem hv, bind, Except.bind] at h
            cases hgx : g x with
            | error e => simp [hgx] at h
            | ok b2 =>
              simp only [hgx] at h
              cases hwr : whereLz g rest with
              | error e => simp [hwr] at h
              | ok wr =>
                simp only [hwr, pure, Except.pure, Except.ok.injEq] at h
                have ih := whr_whr f g vs wr (by simp [hrest, hwr, bind, Except.bind])
                have hA : andF f g x = .ok b2 := by simp [andF, hfx, hb, hgx, bind, Except.bind]
                simp only [hA, ih, pure, Except.pure]
                rw [h]
          · simp only [hb, if_false] at h
            have ih := whr_whr f g vs out (by simpa [hrest, bind, Except.bind] using h)
            have hA : andF f g x = .ok b := by simp [andF, hfx, hb, bind, Except.bind]
            simp [hA, ih, hb, pure, Except.pure]

/-- Select with the identity is the sequence itself -/
theorem sel_id (vs : List Val) : selL (fun x => .ok x) vs = vs := by
  simp only [selL]
  conv => rhs; rw [← List.map_id vs]
  apply List.map_congr_left
  intro v _
  cases v <;> simp [force, lazyElem, bind, Except.bind]

/-- Where with the constant True keeps every element (having demanded each) -/
theorem whr_true : ∀ (vs : List Val), ELe (whereLz (fun _ => .ok (.bool true)) vs) (.ok vs)
  | [] => by intro v h; simpa [whereLz] using h
  | v :: vs => by
    intro out h
    simp only [whereLz, bind, Except.bind] at h
    cases hv : force v with
    | error e => simp [hv] at h
    | ok x =>
      simp only [hv] at h
      cases hr : whereLz (fun _ => .ok (.bool true)) vs with
      | error e => simp [hr] at h
      | ok rest =>
        simp only [hr, truthy, if_true, pure, Except.pure, Except.ok.injEq] at h
        have ih := whr_true vs rest hr
        simp only [Except.ok.injEq] at ih
        rw [← h, force_ok_eq hv, ih]

end Fadl
