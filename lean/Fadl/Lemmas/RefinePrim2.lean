/-
  Monotonicity (part 2): operators on results, sequence operators, folds.
-/
import Fadl.Lemmas.RefinePrim
import Fadl.Lemmas.DictSem
namespace Fadl
set_option linter.unusedSimpArgs false

theorem mkDictLz_mono {ks ks' vs vs' : List Val} (hk : VLeS ks ks') (hv : VLeS vs vs') :
    RLe (mkDictLz ks vs) (mkDictLz ks' vs') := by
  intro out ho
  unfold mkDictLz at ho ⊢
  by_cases hc : Val.cleanL ks
  · have e : ks' = ks := VLeS.eq_of_clean hc hk
    subst e
    simp only [hc, if_true, mkDict, Except.ok.injEq] at ho ⊢
    subst ho
    obtain ⟨e1, e2⟩ := dictBuild_mono ks' vs vs' [] [] [] hv (by simp [VLeS])
    refine ⟨_, rfl, ?_⟩
    simp only [VLe]
    rw [← e1]
    exact ⟨dictBuild_keys_self ks' vs [] [] hk (by simp [VLeS]), e2⟩
  · simp [hc] at ho

theorem seqRes_mono : ∀ {rs rs' : List Res}, All2 RLe rs rs' → RLeS (seqRes rs) (seqRes rs')
  | _, _, .nil => by intro vs h; simp [seqRes] at h; subst h; exact ⟨[], rfl, by simp [VLeS]⟩
  | _, _, .cons (a := r) (b := r') (as := rs) (bs := rs') h1 h2 => by
    intro vs h
    simp only [seqRes] at h ⊢
    cases hr : r with
    | error e => rw [hr] at h; cases h
    | ok v =>
      rw [hr] at h
      obtain ⟨v', hv', hvv⟩ := h1 v hr
      cases hrs : seqRes rs with
      | error e => rw [hrs] at h; cases h
      | ok rest =>
        rw [hrs] at h
        obtain ⟨rest', hrest', hrr⟩ := seqRes_mono h2 rest hrs
        have : vs = v :: rest := by cases h; rfl
        subst this
        exact ⟨v' :: rest', by rw [hv', hrest']; rfl, by simp only [VLeS]; exact ⟨hvv, hrr⟩⟩

theorem RLe_of_eq_ok {r r' : Res} {v v' : Val} (h : r = .ok v) (h' : r' = .ok v') (hv : VLe v v') : RLe r r' := by
  intro x hx; rw [h] at hx; cases hx; exact ⟨v', h', hv⟩

theorem andChain_mono : ∀ {rs rs' : List Res}, All2 RLe rs rs' → RLe (andChain rs) (andChain rs')
  | _, _, .nil => RLe.error _ _
  | _, _, .cons (a := r) (b := r') (as := rs) (bs := rs') h1 h2 => by
    cases h2 with
    | nil => simpa [andChain] using h1
    | cons h3 h4 =>
      rename_i r2 r2' rs2 rs2'
      have ih := andChain_mono (All2.cons h3 h4)
      intro out ho
      simp only [andChain] at ho ⊢
      cases hr : r with
      | error e => rw [hr] at ho; cases ho
      | ok v =>
        rw [hr] at ho
        obtain ⟨v', hv', hvv⟩ := h1 v hr
        rw [hv']
        have ht := truthy_mono hvv
        by_cases hb : truthy v
        · have ho' : andChain (r2 :: rs2) = .ok out := by simpa [bind, Except.bind, hb] using ho
          obtain ⟨o', ho2, hoo⟩ := ih out ho'
          exact ⟨o', by simpa [bind, Except.bind, ← ht, hb] using ho2, hoo⟩
        · have ho' : v = out := by simpa [bind, Except.bind, hb] using ho
          subst ho'
          exact ⟨v', by simp [bind, Except.bind, ← ht, hb], hvv⟩

theorem orChain_mono : ∀ {rs rs' : List Res}, All2 RLe rs rs' → RLe (orChain rs) (orChain rs')
  | _, _, .nil => RLe.error _ _
  | _, _, .cons (a := r) (b := r') (as := rs) (bs := rs') h1 h2 => by
    cases h2 with
    | nil => simpa [orChain] using h1
    | cons h3 h4 =>
      rename_i r2 r2' rs2 rs2'
      have ih := orChain_mono (All2.cons h3 h4)
      intro out ho
      simp only [orChain] at ho ⊢
      cases hr : r with
      | error e => rw [hr] at ho; cases ho
      | ok v =>
        rw [hr] at ho
        obtain ⟨v', hv', hvv⟩ := h1 v hr
        rw [hv']
        have ht := truthy_mono hvv
        by_cases hb : truthy v
        · have ho' : v = out := by simpa [bind, Except.bind, hb] using ho
          subst ho'
          exact ⟨v', by simp [bind, Except.bind, ← ht, hb], hvv⟩
        · have ho' : orChain (r2 :: rs2) = .ok out := by simpa [bind, Except.bind, hb] using ho
          obtain ⟨o', ho2, hoo⟩ := ih out ho'
          exact ⟨o', by simpa [bind, Except.bind, ← ht, hb] using ho2, hoo⟩

theorem unOp_mono (n : String) {v v' : Val} (h : VLe v v') : RLe (unOp n v) (unOp n v') := by
  intro out ho
  unfold unOp at ho ⊢
  rw [← truthy_mono h, ← asInt_mono h]
  refine ⟨out, ho, ?_⟩
  split at ho
  · cases ho; simp [VLe]
  · split at ho
    · split at ho
      · cases ho; simp [VLe]
      · split at ho
        · cases ho; simp [VLe]
        · cases ho
    · cases ho

theorem intBin_wf (k : String) (a b : Int) (out : Val) (h : intBin k a b = .ok out) : VLe out out := by
  unfold intBin at h
  repeat' split at h
  all_goals first | (cases h; simp [VLe]) | cases h

theorem binOp_mono (k : String) {a a' b b' : Val} (ha : VLe a a') (hb : VLe b b') : RLe (binOp k a b) (binOp k a' b') := by
  intro out ho
  unfold binOp at ho ⊢
  rw [← asInt_mono ha, ← asInt_mono hb]
  cases hx : asInt a with
  | some x =>
    cases hy : asInt b with
    | some y =>
      simp only [hx, hy] at ho ⊢
      exact ⟨out, ho, intBin_wf k x y out ho⟩
    | none =>
      simp only [hx, hy] at ho ⊢
      by_cases hk : k = "Add"
      · simp only [hk, if_true] at ho ⊢
        -- a has an integer value, so it is not a str / list / tuple
        cases a <;> simp [asInt] at hx <;> simp at ho
      · simp [hk] at ho
  | none =>
    simp only [hx] at ho ⊢
    by_cases hk : k = "Add"
    · simp only [hk, if_true] at ho ⊢
      cases a with
      | str s =>
        rw [VLe_str_left.mp ha]
        cases b with
        | str t => rw [VLe_str_left.mp hb]; simp only [] at ho ⊢; cases ho; exact ⟨_, rfl, by simp [VLe]⟩
        | _ => simp at ho
      | list s =>
        obtain ⟨s', rfl, hs⟩ := VLe_list_left.mp ha
        cases b with
        | list t =>
          obtain ⟨t', rfl, ht⟩ := VLe_list_left.mp hb
          simp only [] at ho ⊢; cases ho
          exact ⟨_, rfl, by simp only [VLe]; exact VLeL.append hs ht⟩
        | _ => simp at ho
      | tuple s =>
        obtain ⟨s', rfl, hs⟩ := VLe_tuple_left.mp ha
        cases b with
        | tuple t =>
          obtain ⟨t', rfl, ht⟩ := VLe_tuple_left.mp hb
          simp only [] at ho ⊢; cases ho
          exact ⟨_, rfl, by simp only [VLe]; exact VLeS.append hs ht⟩
        | _ => simp at ho
      | _ => simp at ho
    · simp [hk] at ho

theorem cmpOneLz_mono (o : String) {a a' b b' : Val} (ha : VLe a a') (hb : VLe b b') (r : Bool)
    (h : cmpOneLz o a b = .ok r) : cmpOneLz o a' b' = .ok r := by
  unfold cmpOneLz at h ⊢
  by_cases hc : (a.clean && b.clean) = true
  · have hc' := hc
    simp only [Bool.and_eq_true] at hc'
    rw [VLe.eq_of_clean hc'.1 ha, VLe.eq_of_clean hc'.2 hb]
    exact h
  · simp [hc] at h

theorem cmpChainLz_mono : ∀ (os : List String) {rs rs' : List Res} {l l' : Val}, VLe l l' → All2 RLe rs rs' →
    RLe (cmpChainLz l os rs) (cmpChainLz l' os rs')
  | [], _, _, _, _, _, _ => by intro out ho; simp [cmpChainLz] at ho ⊢; subst ho; simp [VLe]
  | o :: os, _, _, l, l', hl, .nil => by intro out ho; simp [cmpChainLz] at ho
  | o :: os, _, _, l, l', hl, .cons (a := r) (b := r') (as := rs) (bs := rs') h1 h2 => by
    intro out ho
    simp only [cmpChainLz] at ho ⊢
    cases hr : r with
    | error e => rw [hr] at ho; cases ho
    | ok rv =>
      rw [hr] at ho
      obtain ⟨rv', hrv', hvv⟩ := h1 rv hr
      rw [hrv']
      cases hc : cmpOneLz o l rv with
      | error e => simp [bind, Except.bind, hc] at ho
      | ok b =>
        have hc' := cmpOneLz_mono o hl hvv b hc
        simp only [bind, Except.bind, hc] at ho
        simp only [bind, Except.bind, hc']
        cases b with
        | false => simp at ho ⊢; subst ho; simp [VLe]
        | true =>
          simp only [if_true] at ho ⊢
          cases os with
          | nil => simp at ho ⊢; subst ho; simp [VLe]
          | cons o2 os2 => exact cmpChainLz_mono (o2 :: os2) hvv h2 out ho

theorem optInt_mono {v v' : Val} (h : VLe v v') : optInt v = optInt v' := by
  cases v with
  | poison e => exact absurd h VLe_poison_left
  | int n => rw [VLe_int_left.mp h]
  | bool n => rw [VLe_bool_left.mp h]
  | str n => rw [VLe_str_left.mp h]
  | none => rw [VLe_none_left.mp h]
  | float n => rw [VLe_float_left.mp h]
  | slice a b c => rw [VLe_slice_left.mp h]
  | tuple vs => obtain ⟨vs', rfl, h⟩ := VLe_tuple_left.mp h; rfl
  | list vs => obtain ⟨vs', rfl, h⟩ := VLe_list_left.mp h; rfl
  | dict ks vs => obtain ⟨ks', vs', rfl, h, _⟩ := VLe_dict_left.mp h; rfl
  | obj c fn fv => obtain ⟨fv', rfl, h⟩ := VLe_obj_left.mp h; rfl

theorem pickBound_mono (p : Bool) {vs vs' : List Val} (h : VLeS vs vs') (i : Option Int) (rest : List Val)
    (hp : pickBound p vs = .ok (i, rest)) : ∃ rest', pickBound p vs' = .ok (i, rest') ∧ VLeS rest rest' := by
  unfold pickBound at hp ⊢
  cases p with
  | false => simp only [Bool.false_eq_true, if_false, pure, Except.pure, Except.ok.injEq, Prod.mk.injEq] at hp ⊢
             obtain ⟨rfl, rfl⟩ := hp; exact ⟨vs', ⟨rfl, rfl⟩, h⟩
  | true =>
    simp only [if_true] at hp ⊢
    cases vs with
    | nil => simp at hp
    | cons v rest0 =>
      rw [VLeS_cons_left] at h
      obtain ⟨v', rest0', rfl, h1, h2⟩ := h
      simp only [] at hp ⊢
      rw [← optInt_mono h1]
      cases ho : optInt v with
      | error e => simp [ho, bind, Except.bind] at hp
      | ok j =>
        simp only [ho, bind, Except.bind, pure, Except.pure, Except.ok.injEq, Prod.mk.injEq] at hp ⊢
        obtain ⟨rfl, rfl⟩ := hp
        exact ⟨rest0', ⟨rfl, rfl⟩, h2⟩

theorem sliceOf_mono (a b c : Bool) {vs vs' : List Val} (h : VLeS vs vs') : RLe (sliceOf a b c vs) (sliceOf a b c vs') := by
  intro out ho
  unfold sliceOf at ho ⊢
  cases h1 : pickBound a vs with
  | error e => simp [h1, bind, Except.bind] at ho
  | ok p1 =>
    obtain ⟨lo, r1⟩ := p1
    obtain ⟨r1', e1, hr1⟩ := pickBound_mono a h lo r1 h1
    simp only [h1, e1, bind, Except.bind] at ho ⊢
    cases h2 : pickBound b r1 with
    | error e => simp [h2] at ho
    | ok p2 =>
      obtain ⟨hi, r2⟩ := p2
      obtain ⟨r2', e2, hr2⟩ := pickBound_mono b hr1 hi r2 h2
      simp only [h2, e2] at ho ⊢
      cases h3 : pickBound c r2 with
      | error e => simp [h3] at ho
      | ok p3 =>
        obtain ⟨st, r3⟩ := p3
        obtain ⟨r3', e3, _⟩ := pickBound_mono c hr2 st r3 h3
        simp only [h3, e3, pure, Except.pure, Except.ok.injEq] at ho ⊢
        subst ho
        exact ⟨_, rfl, by simp [VLe]⟩

theorem All2_RLe_cases {rs rs' : List Res} (h : All2 RLe rs rs') : rs.length = rs'.length := by
  induction h with
  | nil => rfl
  | cons _ _ ih => simp [ih]

theorem evOp_mono (k : OpKind) {rs rs' : List Res} (h : All2 RLe rs rs') (hk : ∀ ops, k ≠ .cmp ops) :
    RLe (evOp k rs) (evOp k rs') := by
  cases k with
  | boolAnd => simpa [evOp] using andChain_mono h
  | boolOr => simpa [evOp] using orChain_mono h
  | cmp ops => exact absurd rfl (hk ops)
  | starred => intro o ho; simp [evOp] at ho
  | ifExp =>
    cases h with
    | nil => exact RLe.error _ _
    | cons h1 h2 => cases h2 with
      | nil => exact RLe.error _ _
      | cons h2 h3 => cases h3 with
        | nil => exact RLe.error _ _
        | cons h3 h4 => cases h4 with
          | nil =>
            simp only [evOp]
            intro out ho
            rename_i t t' a a' b b'
            cases ht : t with
            | error e => rw [ht] at ho; cases ho
            | ok tv =>
              rw [ht] at ho
              obtain ⟨tv', htv', hvv⟩ := h1 tv ht
              rw [htv']
              simp only [bind, Except.bind, ← truthy_mono hvv] at ho ⊢
              by_cases hb : truthy tv
              · simp only [hb, if_true] at ho ⊢; exact h2 out ho
              · simp only [hb, if_false] at ho ⊢; exact h3 out ho
          | cons _ _ => exact RLe.error _ _
  | un n =>
    cases h with
    | nil => exact RLe.error _ _
    | cons h1 h2 => cases h2 with
      | nil => simp only [evOp]; exact RLe.bind h1 (fun v v' hv => unOp_mono n hv)
      | cons _ _ => exact RLe.error _ _
  | bin n =>
    cases h with
    | nil => exact RLe.error _ _
    | cons h1 h2 => cases h2 with
      | nil => exact RLe.error _ _
      | cons h2 h3 => cases h3 with
        | nil => simp only [evOp]; exact RLe.bind h1 (fun a a' ha => RLe.bind h2 (fun b b' hb => binOp_mono n ha hb))
        | cons _ _ => exact RLe.error _ _
  | slice a b c =>
    simp only [evOp]
    intro out ho
    cases hs : seqRes rs with
    | error e => simp [hs, bind, Except.bind] at ho
    | ok vs =>
      obtain ⟨vs', hvs', hvv⟩ := seqRes_mono h vs hs
      simp only [hs, hvs', bind, Except.bind] at ho ⊢
      exact sliceOf_mono a b c hvv out ho

theorem evOpLz_mono (k : OpKind) {rs rs' : List Res} (h : All2 RLe rs rs') : RLe (evOpLz k rs) (evOpLz k rs') := by
  cases k with
  | cmp ops =>
    cases h with
    | nil => simp only [evOpLz, evOp]; exact RLe.error _ _
    | cons h1 h2 =>
      simp only [evOpLz]
      exact RLe.bind h1 (fun l l' hl => cmpChainLz_mono ops hl h2)
  | boolAnd => simp only [evOpLz]; exact evOp_mono _ h (by intro ops hh; cases hh)
  | boolOr => simp only [evOpLz]; exact evOp_mono _ h (by intro ops hh; cases hh)
  | ifExp => simp only [evOpLz]; exact evOp_mono _ h (by intro ops hh; cases hh)
  | un n => simp only [evOpLz]; exact evOp_mono _ h (by intro ops hh; cases hh)
  | bin n => simp only [evOpLz]; exact evOp_mono _ h (by intro ops hh; cases hh)
  | slice a b c => simp only [evOpLz]; exact evOp_mono _ h (by intro ops hh; cases hh)
  | starred => simp only [evOpLz]; exact evOp_mono _ h (by intro ops hh; cases hh)

end Fadl
