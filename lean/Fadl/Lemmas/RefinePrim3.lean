/-
  Monotonicity (part 3): the sequence operators, folds, comprehensions.
-/
import Fadl.Lemmas.RefinePrim2
namespace Fadl
set_option linter.unusedSimpArgs false

/-- a function of elements that respects refinement -/
def FnLe (f f' : Val → Res) : Prop := ∀ v v', VLe v v' → VLe v' v' → RLe (f v) (f' v')
def FnLe2 (f f' : Val → Val → Res) : Prop :=
  ∀ a a' v v', VLe a a' → VLe a' a' → VLe v v' → VLe v' v' → RLe (f a v) (f' a' v')

theorem VLeL.wf_tail {b : Val} {bs : List Val} (h : VLeL (b :: bs) (b :: bs)) : VLeL bs bs := by
  rw [VLeL_cons] at h; exact h.2
theorem VLeL.wf_head {b : Val} {bs : List Val} (h : VLeL (b :: bs) (b :: bs)) (hb : ∀ e, b ≠ .poison e) : VLe b b := by
  rw [VLeL_cons] at h; exact VLeE.of_ne_poison h.1 hb
theorem VLeS.wf_tail {b : Val} {bs : List Val} (h : VLeS (b :: bs) (b :: bs)) : VLeS bs bs := by
  simp only [VLeS] at h; exact h.2
theorem VLeS.wf_head {b : Val} {bs : List Val} (h : VLeS (b :: bs) (b :: bs)) : VLe b b := by
  simp only [VLeS] at h; exact h.1

theorem forceAll_mono : ∀ {vs vs' : List Val}, VLeL vs vs' → RLeS (forceAll vs) (forceAll vs')
  | [], vs', h => by rw [VLeL_nil_left] at h; subst h; intro o ho; exact ⟨o, ho, by simp [forceAll] at ho; subst ho; simp [VLeS]⟩
  | v :: vs, vs', h => by
    rw [VLeL_cons_left] at h
    obtain ⟨b, bs, rfl, h1, h2⟩ := h
    intro out ho
    simp only [forceAll] at ho ⊢
    cases hf : force v with
    | error e => rw [hf] at ho; cases ho
    | ok x =>
      rw [hf] at ho
      have hnp : ∀ e, v ≠ .poison e := by intro e he; subst he; simp [force] at hf
      have hvb := VLeE.of_ne_poison h1 hnp
      have hfx := hvb.force
      rw [hfx.1] at hf; cases hf
      rw [hfx.2]
      cases hr : forceAll vs with
      | error e => rw [hr] at ho; cases ho
      | ok rest =>
        rw [hr] at ho
        obtain ⟨rest', hr', hrr⟩ := forceAll_mono h2 rest hr
        rw [hr']
        have : out = v :: rest := by cases ho; rfl
        subst this
        exact ⟨b :: rest', rfl, by simp only [VLeS]; exact ⟨hvb, hrr⟩⟩

theorem sumInts_mono : ∀ {vs vs' : List Val}, VLeS vs vs' → sumInts vs = sumInts vs'
  | [], vs', h => by rw [VLeS_nil_left] at h; subst h; rfl
  | v :: vs, vs', h => by
    rw [VLeS_cons_left] at h
    obtain ⟨b, bs, rfl, h1, h2⟩ := h
    cases v with
    | int n => rw [VLe_int_left.mp h1]; simp only [sumInts, sumInts_mono h2]
    | poison e => exact absurd h1 VLe_poison_left
    | bool n => rw [VLe_bool_left.mp h1]; simp [sumInts]
    | str n => rw [VLe_str_left.mp h1]; simp [sumInts]
    | none => rw [VLe_none_left.mp h1]; simp [sumInts]
    | float n => rw [VLe_float_left.mp h1]; simp [sumInts]
    | slice a b c => rw [VLe_slice_left.mp h1]; simp [sumInts]
    | tuple vs => obtain ⟨vs', rfl, _⟩ := VLe_tuple_left.mp h1; rfl
    | list vs => obtain ⟨vs', rfl, _⟩ := VLe_list_left.mp h1; rfl
    | dict ks vs => obtain ⟨ks', vs', rfl, _, _⟩ := VLe_dict_left.mp h1; rfl
    | obj c fn fv => obtain ⟨fv', rfl, _⟩ := VLe_obj_left.mp h1; rfl

theorem maxInts_mono : ∀ {vs vs' : List Val} (acc : Int), VLeS vs vs' → maxInts acc vs = maxInts acc vs'
  | [], vs', _, h => by rw [VLeS_nil_left] at h; subst h; rfl
  | v :: vs, vs', acc, h => by
    rw [VLeS_cons_left] at h
    obtain ⟨b, bs, rfl, h1, h2⟩ := h
    cases v with
    | int n => rw [VLe_int_left.mp h1]; simp only [maxInts, maxInts_mono _ h2]
    | poison e => exact absurd h1 VLe_poison_left
    | bool n => rw [VLe_bool_left.mp h1]; simp [maxInts]
    | str n => rw [VLe_str_left.mp h1]; simp [maxInts]
    | none => rw [VLe_none_left.mp h1]; simp [maxInts]
    | float n => rw [VLe_float_left.mp h1]; simp [maxInts]
    | slice a b c => rw [VLe_slice_left.mp h1]; simp [maxInts]
    | tuple vs => obtain ⟨vs', rfl, _⟩ := VLe_tuple_left.mp h1; rfl
    | list vs => obtain ⟨vs', rfl, _⟩ := VLe_list_left.mp h1; rfl
    | dict ks vs => obtain ⟨ks', vs', rfl, _, _⟩ := VLe_dict_left.mp h1; rfl
    | obj c fn fv => obtain ⟨fv', rfl, _⟩ := VLe_obj_left.mp h1; rfl

theorem minInts_mono : ∀ {vs vs' : List Val} (acc : Int), VLeS vs vs' → minInts acc vs = minInts acc vs'
  | [], vs', _, h => by rw [VLeS_nil_left] at h; subst h; rfl
  | v :: vs, vs', acc, h => by
    rw [VLeS_cons_left] at h
    obtain ⟨b, bs, rfl, h1, h2⟩ := h
    cases v with
    | int n => rw [VLe_int_left.mp h1]; simp only [minInts, minInts_mono _ h2]
    | poison e => exact absurd h1 VLe_poison_left
    | bool n => rw [VLe_bool_left.mp h1]; simp [minInts]
    | str n => rw [VLe_str_left.mp h1]; simp [minInts]
    | none => rw [VLe_none_left.mp h1]; simp [minInts]
    | float n => rw [VLe_float_left.mp h1]; simp [minInts]
    | slice a b c => rw [VLe_slice_left.mp h1]; simp [minInts]
    | tuple vs => obtain ⟨vs', rfl, _⟩ := VLe_tuple_left.mp h1; rfl
    | list vs => obtain ⟨vs', rfl, _⟩ := VLe_list_left.mp h1; rfl
    | dict ks vs => obtain ⟨ks', vs', rfl, _, _⟩ := VLe_dict_left.mp h1; rfl
    | obj c fn fv => obtain ⟨fv', rfl, _⟩ := VLe_obj_left.mp h1; rfl

theorem map_int_wf {r : Except EErr Int} {out : Val} (h : r.map Val.int = .ok out) : VLe out out := by
  cases r with
  | error e => cases h
  | ok i => cases h; simp [VLe]

/-- the eager whole-sequence operators on an already demanded sequence -/
theorem seqOp1_mono (n : String) {vs vs' : List Val} (h : VLeS vs vs') : RLe (seqOp1 n vs) (seqOp1 n vs') := by
  intro out ho
  unfold seqOp1 at ho ⊢
  rw [← VLeS.length h, ← sumInts_mono h, ← maxInts_mono 0 h, ← minInts_mono 0 h]
  by_cases h1 : n = "First"
  · simp only [h1, if_true] at ho ⊢
    cases vs with
    | nil => cases ho
    | cons v rest =>
      rw [VLeS_cons_left] at h
      obtain ⟨b, bs, rfl, hv, _⟩ := h
      cases ho
      exact ⟨b, rfl, hv⟩
  · simp only [h1, if_false] at ho ⊢
    refine ⟨out, ho, ?_⟩
    split at ho
    · cases ho; simp [VLe]
    · split at ho
      · exact map_int_wf ho
      · split at ho
        · exact map_int_wf ho
        · split at ho
          · exact map_int_wf ho
          · cases ho

theorem seqOp1Lz_mono (n : String) {vs vs' : List Val} (h : VLeL vs vs') : RLe (seqOp1Lz n vs) (seqOp1Lz n vs') := by
  intro out ho
  unfold seqOp1Lz at ho ⊢
  by_cases h1 : n = "First"
  · simp only [h1, if_true] at ho ⊢
    cases vs with
    | nil => cases ho
    | cons v rest =>
      rw [VLeL_cons_left] at h
      obtain ⟨b, bs, rfl, hv, _⟩ := h
      simp only [] at ho ⊢
      have hnp : ∀ e, v ≠ .poison e := by intro e he; subst he; simp [force] at ho
      have hvb := VLeE.of_ne_poison hv hnp
      rw [hvb.force.1] at ho; cases ho
      exact ⟨b, hvb.force.2, hvb⟩
  · simp only [h1, if_false] at ho ⊢
    cases hf : forceAll vs with
    | error e => simp [hf, bind, Except.bind] at ho
    | ok xs =>
      obtain ⟨xs', hf', hxx⟩ := forceAll_mono h xs hf
      simp only [hf, hf', bind, Except.bind] at ho ⊢
      exact seqOp1_mono n hxx out ho

theorem selL_mono {f f' : Val → Res} (hf : FnLe f f') : ∀ {vs vs' : List Val}, VLeL vs vs' → VLeL vs' vs' →
    VLeL (vs.map (fun v => lazyElem (force v >>= f))) (vs'.map (fun v => lazyElem (force v >>= f')))
  | [], vs', h, _ => by rw [VLeL_nil_left] at h; subst h; simp [VLeL]
  | v :: vs, vs', h, hw' => by
    rw [VLeL_cons_left] at h
    obtain ⟨b, bs, rfl, h1, h2⟩ := h
    simp only [List.map]
    rw [VLeL_cons]
    refine ⟨?_, selL_mono hf h2 hw'.wf_tail⟩
    cases v with
    | poison e => simp [force, lazyElem, bind, Except.bind, VLeE]
    | _ =>
      all_goals (
        have hvb : VLe _ b := VLeE.of_ne_poison h1 (by intro e he; cases he)
        rw [hvb.force.1, hvb.force.2]
        simp only [bind, Except.bind]
        cases hfv : f _ with
        | error e => simp [lazyElem, VLeE]
        | ok y =>
          obtain ⟨y', hy', hyy⟩ := hf _ b hvb (hw'.wf_head hvb.not_poison_right) y hfv
          rw [hy']
          simp only [lazyElem]
          exact VLeE_of_VLe hyy)

theorem whereLz_mono {f f' : Val → Res} (hf : FnLe f f') : ∀ {vs vs' : List Val}, VLeL vs vs' → VLeL vs' vs' →
    RLeL (whereLz f vs) (whereLz f' vs')
  | [], vs', h, _ => by rw [VLeL_nil_left] at h; subst h; intro o ho; simp [whereLz] at ho; subst ho; exact ⟨[], rfl, by simp [VLeL]⟩
  | v :: vs, vs', h, hw' => by
    rw [VLeL_cons_left] at h
    obtain ⟨b, bs, rfl, h1, h2⟩ := h
    intro out ho
    simp only [whereLz] at ho ⊢
    cases hfv : force v with
    | error e => rw [hfv] at ho; cases ho
    | ok x =>
      have hnp : ∀ e, v ≠ .poison e := by intro e he; subst he; simp [force] at hfv
      have hvb := VLeE.of_ne_poison h1 hnp
      rw [hvb.force.1] at hfv; cases hfv
      rw [hvb.force.1] at ho
      rw [hvb.force.2]
      cases hp : f v with
      | error e => simp [hp, bind, Except.bind] at ho
      | ok p =>
        obtain ⟨p', hp', hpp⟩ := hf v b hvb (hw'.wf_head hvb.not_poison_right) p hp
        cases hr : whereLz f vs with
        | error e => simp [hp, hr, bind, Except.bind] at ho
        | ok rest =>
          obtain ⟨rest', hr', hrr⟩ := whereLz_mono hf h2 hw'.wf_tail rest hr
          simp only [hp, hp', hr, hr', bind, Except.bind, pure, Except.pure, Except.ok.injEq, ← truthy_mono hpp] at ho ⊢
          subst ho
          by_cases hb : truthy p
          · simp only [hb, if_true]
            exact ⟨_, rfl, by rw [VLeL_cons]; exact ⟨VLeE_of_VLe hvb, hrr⟩⟩
          · simp only [hb, if_false]
            exact ⟨_, rfl, hrr⟩

theorem asSeq_mono {r r' : Val} (h : VLe r r') (inner : List Val) (hi : asSeq r = .ok inner) :
    ∃ inner', asSeq r' = .ok inner' ∧ VLeL inner inner' := by
  cases r with
  | list vs =>
    obtain ⟨vs', rfl, hv⟩ := VLe_list_left.mp h
    simp only [asSeq, Except.ok.injEq] at hi; subst hi
    exact ⟨vs', rfl, hv⟩
  | _ => simp [asSeq] at hi

theorem manyLz_mono {f f' : Val → Res} (hf : FnLe f f') : ∀ {vs vs' : List Val}, VLeL vs vs' → VLeL vs' vs' →
    RLeL (manyLz f vs) (manyLz f' vs')
  | [], vs', h, _ => by rw [VLeL_nil_left] at h; subst h; intro o ho; simp [manyLz] at ho; subst ho; exact ⟨[], rfl, by simp [VLeL]⟩
  | v :: vs, vs', h, hw' => by
    rw [VLeL_cons_left] at h
    obtain ⟨b, bs, rfl, h1, h2⟩ := h
    intro out ho
    simp only [manyLz] at ho ⊢
    cases hfv : force v with
    | error e => rw [hfv] at ho; cases ho
    | ok x =>
      have hnp : ∀ e, v ≠ .poison e := by intro e he; subst he; simp [force] at hfv
      have hvb := VLeE.of_ne_poison h1 hnp
      rw [hvb.force.1] at hfv; cases hfv
      rw [hvb.force.1] at ho
      rw [hvb.force.2]
      cases hp : f v with
      | error e => simp [hp, bind, Except.bind] at ho
      | ok p =>
        obtain ⟨p', hp', hpp⟩ := hf v b hvb (hw'.wf_head hvb.not_poison_right) p hp
        cases hs : asSeq p with
        | error e => simp [hp, hs, bind, Except.bind] at ho
        | ok inner =>
          obtain ⟨inner', hs', hii⟩ := asSeq_mono hpp inner hs
          cases hr : manyLz f vs with
          | error e => simp [hp, hs, hr, bind, Except.bind] at ho
          | ok rest =>
            obtain ⟨rest', hr', hrr⟩ := manyLz_mono hf h2 hw'.wf_tail rest hr
            simp only [hp, hp', hs, hs', hr, hr', bind, Except.bind, pure, Except.pure, Except.ok.injEq] at ho ⊢
            subst ho
            exact ⟨_, rfl, VLeL.append hii hrr⟩

theorem seqOp2Lz_mono (n : String) {f f' : Val → Res} (hf : FnLe f f') {vs vs' : List Val} (h : VLeL vs vs')
    (hw' : VLeL vs' vs') :
    RLe (seqOp2Lz n f vs) (seqOp2Lz n f' vs') := by
  intro out ho
  unfold seqOp2Lz at ho ⊢
  by_cases h1 : n = "Select"
  · simp only [h1, if_true, Except.ok.injEq] at ho ⊢
    subst ho
    exact ⟨_, rfl, by simp only [VLe]; exact selL_mono hf h hw'⟩
  · simp only [h1, if_false] at ho ⊢
    by_cases h2 : n = "Where"
    · simp only [h2, if_true] at ho ⊢
      cases hw : whereLz f vs with
      | error e => simp [hw, Except.map] at ho
      | ok r =>
        obtain ⟨r', hr', hrr⟩ := whereLz_mono hf h hw' r hw
        simp only [hw, hr', Except.map, Except.ok.injEq] at ho ⊢
        subst ho
        exact ⟨_, rfl, by simpa [VLe] using hrr⟩
    · simp only [h2, if_false] at ho ⊢
      by_cases h3 : n = "SelectMany"
      · simp only [h3, if_true] at ho ⊢
        cases hw : manyLz f vs with
        | error e => simp [hw, Except.map] at ho
        | ok r =>
          obtain ⟨r', hr', hrr⟩ := manyLz_mono hf h hw' r hw
          simp only [hw, hr', Except.map, Except.ok.injEq] at ho ⊢
          subst ho
          exact ⟨_, rfl, by simpa [VLe] using hrr⟩
      · simp [h3] at ho

theorem foldM'_mono {f f' : Val → Val → Res} (hf : FnLe2 f f') (hf' : FnLe2 f' f') : ∀ {vs vs' : List Val} {a a' : Val},
    VLeS vs vs' → VLeS vs' vs' → VLe a a' → VLe a' a' → RLe (foldM' f a vs) (foldM' f' a' vs')
  | [], vs', a, a', h, _, ha, _ => by rw [VLeS_nil_left] at h; subst h; intro o ho; simp [foldM'] at ho; subst ho; exact ⟨a', rfl, ha⟩
  | v :: vs, vs', a, a', h, hw', ha, ha' => by
    rw [VLeS_cons_left] at h
    obtain ⟨b, bs, rfl, h1, h2⟩ := h
    simp only [foldM']
    exact RLe.bind2 (hf a a' v b ha ha' h1 hw'.wf_head) (hf' a' a' b b ha' ha' hw'.wf_head hw'.wf_head)
      (fun x x' hx hx' => foldM'_mono hf hf' h2 hw'.wf_tail hx hx')

theorem mapRes_mono {f f' : Val → Res} (hf : FnLe f f') : ∀ {vs vs' : List Val}, VLeS vs vs' → VLeS vs' vs' →
    RLeS (mapRes f vs) (mapRes f' vs')
  | [], vs', h, _ => by rw [VLeS_nil_left] at h; subst h; intro o ho; simp [mapRes] at ho; subst ho; exact ⟨[], rfl, by simp [VLeS]⟩
  | v :: vs, vs', h, hw' => by
    rw [VLeS_cons_left] at h
    obtain ⟨b, bs, rfl, h1, h2⟩ := h
    intro out ho
    simp only [mapRes] at ho ⊢
    cases hp : f v with
    | error e => simp [hp, bind, Except.bind] at ho
    | ok p =>
      obtain ⟨p', hp', hpp⟩ := hf v b h1 hw'.wf_head p hp
      cases hr : mapRes f vs with
      | error e => simp [hp, hr, bind, Except.bind] at ho
      | ok rest =>
        obtain ⟨rest', hr', hrr⟩ := mapRes_mono hf h2 hw'.wf_tail rest hr
        simp only [hp, hp', hr, hr', bind, Except.bind, pure, Except.pure, Except.ok.injEq] at ho ⊢
        subst ho
        exact ⟨_, rfl, by simp only [VLeS]; exact ⟨hpp, hrr⟩⟩

theorem condsHold_mono : ∀ {rs rs' : List Res}, All2 RLe rs rs' → ∀ b, condsHold rs = .ok b → condsHold rs' = .ok b
  | _, _, .nil, b, h => h
  | _, _, .cons (a := r) (b := r') (as := rs) (bs := rs') h1 h2, b, h => by
    simp only [condsHold] at h ⊢
    cases hr : r with
    | error e => rw [hr] at h; cases h
    | ok v =>
      obtain ⟨v', hv', hvv⟩ := h1 v hr
      rw [hr] at h
      rw [hv']
      simp only [bind, Except.bind, ← truthy_mono hvv] at h ⊢
      by_cases hb : truthy v
      · simp only [hb, if_true] at h ⊢; exact condsHold_mono h2 b h
      · simp only [hb, if_false] at h ⊢; exact h

theorem filterMB_mono {p p' : Val → Except EErr Bool} (hp : ∀ v v', VLe v v' → VLe v' v' → ∀ b, p v = .ok b → p' v' = .ok b) :
    ∀ {vs vs' : List Val}, VLeS vs vs' → VLeS vs' vs' → RLeS (filterMB p vs) (filterMB p' vs')
  | [], vs', h, _ => by rw [VLeS_nil_left] at h; subst h; intro o ho; simp [filterMB] at ho; subst ho; exact ⟨[], rfl, by simp [VLeS]⟩
  | v :: vs, vs', h, hw' => by
    rw [VLeS_cons_left] at h
    obtain ⟨b, bs, rfl, h1, h2⟩ := h
    intro out ho
    simp only [filterMB] at ho ⊢
    cases hq : p v with
    | error e => simp [hq, bind, Except.bind] at ho
    | ok q =>
      have hq' := hp v b h1 hw'.wf_head q hq
      cases hr : filterMB p vs with
      | error e => simp [hq, hr, bind, Except.bind] at ho
      | ok rest =>
        obtain ⟨rest', hr', hrr⟩ := filterMB_mono hp h2 hw'.wf_tail rest hr
        simp only [hq, hq', hr, hr', bind, Except.bind, pure, Except.pure, Except.ok.injEq] at ho ⊢
        subst ho
        cases q with
        | true => exact ⟨_, rfl, by simp only [if_true, VLeS]; exact ⟨h1, hrr⟩⟩
        | false => exact ⟨_, rfl, by simpa using hrr⟩

end Fadl
