/-
  Transfer principle for refinement: the result of a compound expression in one environment is refined by
  that of another compound expression in another environment whenever the parts are - and the right-hand
  parts are themselves monotone (so that right-hand values are well formed).  Instantiated with the same
  expression it gives monotonicity (MonoLz.lean); with an expression and its simplified form, soundness of the
  simplifier (Props/C02Sound.lean).
-/
import Fadl.Lemmas.RefinePrim3
namespace Fadl
set_option linter.unusedSimpArgs false

/-- the left result is refined by the right one, and the right one is well formed -/
def DRel (env env' : Env) (d d' : Den) : Prop := RLe (d env) (d' env') ∧ RLe (d' env') (d' env')

def LamRel (env env' : Env) (l l' : LamD) : Prop :=
  FnLe (applyLam1 l env) (applyLam1 l' env') ∧ FnLe (applyLam1 l' env') (applyLam1 l' env') ∧
  FnLe2 (applyLam2 l env) (applyLam2 l' env') ∧ FnLe2 (applyLam2 l' env') (applyLam2 l' env')

def HeadRel (env env' : Env) : Head → Head → Prop
  | .fn n, .fn n' => n = n'
  | .meth r m, .meth r' m' => m = m' ∧ DRel env env' r r'
  | .lamH ps b, .lamH ps' b' =>
    ∀ vs vs' kwn kvs kvs', VLeS vs vs' → VLeS vs' vs' → VLeS kvs kvs' → VLeS kvs' kvs' →
      RLe (bindParams ps vs kwn kvs env >>= b) (bindParams ps' vs' kwn kvs' env' >>= b')
  | .other, _ => True
  | _, _ => False

/-- the world's functions and methods return well-formed values -/
structure WorldOK (w : World) : Prop where
  func : ∀ n vs kwn kvs v, Val.cleanL vs = true → Val.cleanL kvs = true → w.func n vs kwn kvs = .ok v → VLe v v
  method : ∀ m r vs kwn kvs v, r.clean = true → Val.cleanL vs = true → Val.cleanL kvs = true →
    w.method m r vs kwn kvs = .ok v → VLe v v

theorem RLeS.bindR {r r' : Except EErr (List Val)} {k k' : List Val → Res} (h : RLeS r r') (h' : RLeS r' r')
    (hk : ∀ vs vs', VLeS vs vs' → VLeS vs' vs' → RLe (k vs) (k' vs')) : RLe (r >>= k) (r' >>= k') := by
  intro out ho
  cases r with
  | error e => exact absurd (show (Except.error e : Res) = .ok out from ho) (by simp)
  | ok vs =>
    obtain ⟨vs', hv', hvv⟩ := h vs rfl
    obtain ⟨vs'', hv'', hvv'⟩ := h' vs' hv'
    have : vs'' = vs' := by rw [hv'] at hv''; cases hv''; rfl
    subst this
    obtain ⟨o', ho', hoo⟩ := hk vs vs'' hvv hvv' out ho
    subst hv'
    exact ⟨o', ho', hoo⟩

theorem RLeL.bindR {r r' : Except EErr (List Val)} {k k' : List Val → Res} (h : RLeL r r') (h' : RLeL r' r')
    (hk : ∀ vs vs', VLeL vs vs' → VLeL vs' vs' → RLe (k vs) (k' vs')) : RLe (r >>= k) (r' >>= k') := by
  intro out ho
  cases r with
  | error e => exact absurd (show (Except.error e : Res) = .ok out from ho) (by simp)
  | ok vs =>
    obtain ⟨vs', hv', hvv⟩ := h vs rfl
    obtain ⟨vs'', hv'', hvv'⟩ := h' vs' hv'
    have : vs'' = vs' := by rw [hv'] at hv''; cases hv''; rfl
    subst this
    obtain ⟨o', ho', hoo⟩ := hk vs vs'' hvv hvv' out ho
    subst hv'
    exact ⟨o', ho', hoo⟩

theorem asSeq_rel {s s' : Val} (h : VLe s s') : RLeL (asSeq s) (asSeq s') := by
  intro vs hv
  exact asSeq_mono h vs hv

theorem All2_map_env {ds ds' : List Den} {env env' : Env} (h : All2 (DRel env env') ds ds') :
    All2 RLe (ds.map (· env)) (ds'.map (· env')) := by
  induction h with
  | nil => exact .nil
  | cons h1 _ ih => exact .cons h1.1 ih

theorem All2_map_env_self {ds ds' : List Den} {env env' : Env} (h : All2 (DRel env env') ds ds') :
    All2 RLe (ds'.map (· env')) (ds'.map (· env')) := by
  induction h with
  | nil => exact .nil
  | cons h1 _ ih => exact .cons h1.2 ih

theorem evalAll_rel {ds ds' : List Den} {env env' : Env} (h : All2 (DRel env env') ds ds') :
    RLeS (evalAll ds env) (evalAll ds' env') := seqRes_mono (All2_map_env h)

theorem evalAll_rel_self {ds ds' : List Den} {env env' : Env} (h : All2 (DRel env env') ds ds') :
    RLeS (evalAll ds' env') (evalAll ds' env') := seqRes_mono (All2_map_env_self h)

theorem src_seq_rel {src src' : Den} {env env' : Env} (h : DRel env env' src src') {k k' : List Val → Res}
    (hk : ∀ vs vs', VLeL vs vs' → VLeL vs' vs' → RLe (k vs) (k' vs')) :
    RLe (do let vs ← asSeq (← src env); k vs) (do let vs ← asSeq (← src' env'); k' vs) := by
  show RLe (src env >>= fun s => asSeq s >>= k) (src' env' >>= fun s => asSeq s >>= k')
  exact RLe.bind2 h.1 h.2 (fun s s' hs hs' => RLeL.bindR (asSeq_rel hs) (asSeq_rel hs') hk)

theorem fnCallLz_rel (w : World) (hw : WorldOK w) (n : String) {args args' : List Den} {lams lams' : List LamD}
    (kwn : List String) {kwv kwv' : List Den} {env env' : Env}
    (ha : All2 (DRel env env') args args') (hl : All2 (LamRel env env') lams lams')
    (hk : All2 (DRel env env') kwv kwv') :
    RLe (fnCallLz w n args lams kwn kwv env) (fnCallLz w n args' lams' kwn kwv' env') := by
  unfold fnCallLz
  split
  · cases ha with
    | nil => exact RLe.error _ _
    | cons ha1 ha2 =>
      cases ha2 with
      | nil => exact src_seq_rel ha1 (fun vs vs' hv _ => seqOp1Lz_mono n hv)
      | cons ha2 ha3 =>
        cases ha3 with
        | nil =>
          cases hl with
          | nil => exact RLe.error _ _
          | cons hl1 hl2 => cases hl2 with
            | nil => exact src_seq_rel ha1 (fun vs vs' hv hv' => seqOp2Lz_mono n hl1.1 hv hv')
            | cons _ _ => exact RLe.error _ _
        | cons ha3 ha4 =>
          cases ha4 with
          | nil =>
            cases hl with
            | nil => exact RLe.error _ _
            | cons hl1 hl2 => cases hl2 with
              | nil => exact RLe.error _ _
              | cons hl2 hl3 => cases hl3 with
                | nil =>
                  simp only []
                  split
                  · apply src_seq_rel ha1
                    intro vs vs' hv hv'
                    apply RLeS.bindR (forceAll_mono hv) (forceAll_mono hv')
                    intro xs xs' hx hx'
                    exact RLe.bind2 ha2.1 ha2.2 (fun i i' hi hi' => foldM'_mono hl2.2.2.1 hl2.2.2.2 hx hx' hi hi')
                  · exact RLe.error _ _
                | cons _ _ => exact RLe.error _ _
          | cons _ _ => exact RLe.error _ _
  · apply RLeS.bindR (evalAll_rel ha) (evalAll_rel_self ha)
    intro vs vs' hv _
    apply RLeS.bindR (evalAll_rel hk) (evalAll_rel_self hk)
    intro kvs kvs' hkv _
    by_cases hc : (Val.cleanL vs && Val.cleanL kvs) = true
    · have hc' := hc
      simp only [Bool.and_eq_true] at hc'
      rw [VLeS.eq_of_clean hc'.1 hv, VLeS.eq_of_clean hc'.2 hkv]
      simp only [hc, if_true]
      exact RLe.refl_of_ok (fun v h => hw.func _ _ _ _ v hc'.1 hc'.2 h)
    · simp only [hc]; exact RLe.error _ _

theorem callSemLz_rel (w : World) (hw : WorldOK w) {h h' : Head} {args args' : List Den} {lams lams' : List LamD}
    (kwn : List String) {kwv kwv' : List Den} {env env' : Env}
    (hh : HeadRel env env' h h') (ha : All2 (DRel env env') args args')
    (hl : All2 (LamRel env env') lams lams') (hk : All2 (DRel env env') kwv kwv') :
    RLe (callSemLz w h args lams kwn kwv env) (callSemLz w h' args' lams' kwn kwv' env') := by
  cases h with
  | other => exact RLe.error _ _
  | fn n =>
    cases h' <;> simp only [HeadRel] at hh
    subst hh
    simp only [callSemLz]
    apply fnCallLz_rel w hw n kwn ha _ hk
    cases hl with
    | nil => exact .nil
    | cons _ h2 => exact h2
  | meth r m =>
    cases h' with
    | meth r' m' =>
      simp only [HeadRel] at hh
      obtain ⟨rfl, hr⟩ := hh
      simp only [callSemLz]
      split
      · exact fnCallLz_rel w hw m kwn (.cons hr ha) hl hk
      · apply RLe.bind hr.1
        intro rv rv' hrv
        apply RLeS.bindR (evalAll_rel ha) (evalAll_rel_self ha)
        intro vs vs' hv _
        apply RLeS.bindR (evalAll_rel hk) (evalAll_rel_self hk)
        intro kvs kvs' hkv _
        cases rv with
        | obj c fn fv =>
          obtain ⟨fv', rfl, hf⟩ := VLe_obj_left.mp hrv
          simp only []
          by_cases hc : ((Val.obj c fn fv).clean && Val.cleanL vs && Val.cleanL kvs) = true
          · have hc' := hc
            simp only [Bool.and_eq_true] at hc'
            have e1 := VLe.eq_of_clean hc'.1.1 hrv
            rw [VLeS.eq_of_clean hc'.1.2 hv, VLeS.eq_of_clean hc'.2 hkv]
            cases e1
            simp only [hc, if_true]
            exact RLe.refl_of_ok (fun v h => hw.method _ _ _ _ _ v hc'.1.1 hc'.1.2 hc'.2 h)
          · simp only [hc]; exact RLe.error _ _
        | _ => exact RLe.error _ _
    | _ => simp only [HeadRel] at hh
  | lamH ps b =>
    cases h' with
    | lamH ps' b' =>
      simp only [HeadRel] at hh
      simp only [callSemLz]
      apply RLeS.bindR (evalAll_rel ha) (evalAll_rel_self ha)
      intro vs vs' hv hv'
      apply RLeS.bindR (evalAll_rel hk) (evalAll_rel_self hk)
      intro kvs kvs' hkv hkv'
      exact hh vs vs' kwn kvs kvs' hv hv' hkv hkv'
    | _ => simp only [HeadRel] at hh

theorem compSemLz_rel {x x' : String} {e e' i i' : Den} {ifs ifs' : List Den} (a : Bool) {env env' : Env}
    (hi : DRel env env' i i')
    (he : ∀ v v', VLe v v' → VLe v' v' → RLe (e (env.upd x v)) (e' (env'.upd x' v')))
    (he' : ∀ v v', VLe v v' → VLe v' v' → RLe (e' (env'.upd x' v)) (e' (env'.upd x' v')))
    (hifs : ∀ v v', VLe v v' → VLe v' v' → All2 RLe (ifs.map (· (env.upd x v))) (ifs'.map (· (env'.upd x' v'))))
    (hifs' : ∀ v v', VLe v v' → VLe v' v' → All2 RLe (ifs'.map (· (env'.upd x' v))) (ifs'.map (· (env'.upd x' v')))) :
    RLe (compSemLz (some x) e i ifs a env) (compSemLz (some x') e' i' ifs' a env') := by
  unfold compSemLz
  cases a with
  | true => exact RLe.error _ _
  | false =>
    simp only []
    apply src_seq_rel hi
    intro vs0 vs0' hv0 hv0'
    apply RLeS.bindR (forceAll_mono hv0) (forceAll_mono hv0')
    intro vs vs' hv hv'
    apply RLeS.bindR (filterMB_mono (fun v v' hvv hvv' b hb => condsHold_mono (hifs v v' hvv hvv') b hb) hv hv')
      (filterMB_mono (fun v v' hvv hvv' b hb => condsHold_mono (hifs' v v' hvv hvv') b hb) hv' hv')
    intro keep keep' hkeep hkeep'
    apply RLeS.bindR (mapRes_mono (fun v v' hvv hvv' => he v v' hvv hvv') hkeep hkeep')
      (mapRes_mono (fun v v' hvv hvv' => he' v v' hvv hvv') hkeep' hkeep')
    intro rs rs' hrs _
    intro out ho
    cases ho
    exact ⟨.list rs', rfl, by simp only [VLe]; exact hrs.toL⟩

end Fadl
