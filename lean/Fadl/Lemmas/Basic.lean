/- Small general lemmas: `Except` bind inversion, membership-style induction on `Expr`. -/
import Fadl.Syntax
namespace Fadl

theorem bind_ok_iff' {ε α β : Type} (r : Except ε α) (f : α → Except ε β) (v : β) :
    (r >>= f) = .ok v ↔ ∃ a, r = .ok a ∧ f a = .ok v := by
  cases r with
  | error e => simp [bind, Except.bind]
  | ok a => simp [bind, Except.bind]

theorem map_ok_iff' {ε α β : Type} (r : Except ε α) (g : α → β) (v : β) :
    (g <$> r) = .ok v ↔ ∃ a, r = .ok a ∧ g a = v := by
  cases r with
  | error e => simp [Functor.map, Except.map]
  | ok a => simp [Functor.map, Except.map]

/-- Induction on `Expr` where list children come with `∀ e ∈ es, P e`. -/
theorem Expr.induct_mem (P : Expr → Prop)
    (name : ∀ i, P (.name i)) (const : ∀ c, P (.const c))
    (attr : ∀ v a, P v → P (.attr v a))
    (call : ∀ f args kwn kwv, P f → (∀ e ∈ args, P e) → (∀ e ∈ kwv, P e) → P (.call f args kwn kwv))
    (lam : ∀ ps b, P b → P (.lam ps b))
    (sub : ∀ v s, P v → P s → P (.sub v s))
    (tuple : ∀ es, (∀ e ∈ es, P e) → P (.tuple es))
    (list : ∀ es, (∀ e ∈ es, P e) → P (.list es))
    (dict : ∀ ks vs, (∀ e ∈ ks, P e) → (∀ e ∈ vs, P e) → P (.dict ks vs))
    (op : ∀ k args, (∀ e ∈ args, P e) → P (.op k args))
    (comp : ∀ kind e t i ifs a, P e → P t → P i → (∀ x ∈ ifs, P x) → P (.comp kind e t i ifs a)) :
    ∀ e, P e := by
  apply Expr.size.induct (motive_1 := P) (motive_2 := fun es => ∀ e ∈ es, P e)
  · exact name
  · exact const
  · exact attr
  · exact call
  · exact lam
  · exact sub
  · exact tuple
  · exact list
  · exact dict
  · exact op
  · exact comp
  · intro e h; cases h
  · intro e es he hes x hx
    cases hx with
    | head => exact he
    | tail _ h => exact hes x h

end Fadl
