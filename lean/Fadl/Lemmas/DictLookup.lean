/-
  `dictLookupLast` (the simplifier's lookup in a dictionary literal: the LAST entry with an equal constant key).
-/
import Fadl.Model.Simplify
namespace Fadl

theorem dictLookupLast_mem (k : Const) : ∀ (ks vs : List Expr) (r : Expr), dictLookupLast k ks vs = some r → r ∈ vs
  | [], vs, r, h => by simp [dictLookupLast] at h
  | .const c :: ks, [], r, h => by simp [dictLookupLast] at h
  | .const c :: ks, v :: vs, r, h => by
    simp only [dictLookupLast] at h
    cases hl : dictLookupLast k ks vs with
    | some r' =>
      simp only [hl, Option.some.injEq] at h; subst h
      exact List.mem_cons_of_mem _ (dictLookupLast_mem k ks vs r' hl)
    | none =>
      simp only [hl] at h
      split at h
      · cases h; exact List.mem_cons_self
      · cases h
  | .name _ :: _, _, _, h => by simp [dictLookupLast] at h
  | .attr _ _ :: _, _, _, h => by simp [dictLookupLast] at h
  | .call _ _ _ _ :: _, _, _, h => by simp [dictLookupLast] at h
  | .lam _ _ :: _, _, _, h => by simp [dictLookupLast] at h
  | .sub _ _ :: _, _, _, h => by simp [dictLookupLast] at h
  | .tuple _ :: _, _, _, h => by simp [dictLookupLast] at h
  | .list _ :: _, _, _, h => by simp [dictLookupLast] at h
  | .dict _ _ :: _, _, _, h => by simp [dictLookupLast] at h
  | .op _ _ :: _, _, _, h => by simp [dictLookupLast] at h
  | .comp _ _ _ _ _ _ :: _, _, _, h => by simp [dictLookupLast] at h

theorem dictLookup_mem {ks vs : List Expr} {k : Const} {r : Expr} (h : dictLookup ks vs k = some r) : r ∈ vs := by
  unfold dictLookup at h
  split at h
  · exact dictLookupLast_mem k ks vs r h
  · cases h

end Fadl
