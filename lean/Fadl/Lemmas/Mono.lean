/-
  Refinement order on results / denotations and monotonicity ("congruence") of every semantic
  combinator of Fadl/Sem.lean with respect to it.

  `ELe r r'`  :=  whenever `r` succeeds with `v`, so does `r'`.
  This is the direction every "whenever the original evaluates without error…" property needs.
-/
import Fadl.Sem
namespace Fadl

inductive All2 {α β : Type} (R : α → β → Prop) : List α → List β → Prop
  | nil : All2 R [] []
  | cons {a b as bs} : R a b → All2 R as bs → All2 R (a :: as) (b :: bs)

theorem All2.refl {α : Type} {R : α → α → Prop} (h : ∀ a, R a a) : ∀ l, All2 R l l
  | [] => .nil
  | a :: l => .cons (h a) (All2.refl h l)

def ELe {α : Type} (r r' : Except EErr α) : Prop := ∀ v, r = .ok v → r' = .ok v

def Den.le (d d' : Den) : Prop := ∀ env, ELe (d env) (d' env)

def LamD.le : LamD → LamD → Prop
  | Option.none, Option.none => True
  | some (ps, b), some (ps', b') => ps = ps' ∧ Den.le b b'
  | _, _ => False

def Head.le : Head → Head → Prop
  | .fn n, .fn n' => n = n'
  | .meth r m, .meth r' m' => Den.le r r' ∧ m = m'
  | .lamH ps b, .lamH ps' b' => ps = ps' ∧ Den.le b b'
  | .other, _ => True
  | _, _ => False

theorem ELe.refl {α : Type} (r : Except EErr α) : ELe r r := fun _ h => h
theorem ELe.trans {α : Type} {a b c : Except EErr α} (h1 : ELe a b) (h2 : ELe b c) : ELe a c :=
  fun v h => h2 v (h1 v h)
theorem Den.le_refl (d : Den) : Den.le d d := fun _ => ELe.refl _
theorem Den.le_trans {a b c : Den} (h1 : Den.le a b) (h2 : Den.le b c) : Den.le a c :=
  fun env => ELe.trans (h1 env) (h2 env)
theorem LamD.le_refl (l : LamD) : LamD.le l l := by
  cases l with
  | none => trivial
  | some p => exact ⟨rfl, Den.le_refl _⟩
theorem Head.le_refl (h : Head) : Head.le h h := by
  cases h <;> simp [Head.le, Den.le_refl]

theorem ELe.error {α : Type} (e : EErr) (r : Except EErr α) : ELe (.error e) r := by
  intro v h; cases h

/-! ### bind -/

theorem bind_ok_iff {α β : Type} (r : Except EErr α) (f : α → Except EErr β) (v : β) :
    (r >>= f) = .ok v ↔ ∃ a, r = .ok a ∧ f a = .ok v := by
  cases r with
  | error e => simp [bind, Except.bind]
  | ok a => simp [bind, Except.bind]

theorem ELe.bind {α β : Type} {r r' : Except EErr α} {f f' : α → Except EErr β}
    (h : ELe r r') (hf : ∀ a, ELe (f a) (f' a)) : ELe (r >>= f) (r' >>= f') := by
  intro v hv
  rw [bind_ok_iff] at hv ⊢
  obtain ⟨a, ha, hfa⟩ := hv
  exact ⟨a, h a ha, hf a _ hfa⟩

theorem ELe.map {α β : Type} {r r' : Except EErr α} (g : α → β) (h : ELe r r') :
    ELe (r.map g) (r'.map g) := by
  intro v hv
  cases r with
  | error e => simp [Except.map] at hv
  | ok a => rw [h a rfl]; exact hv

/-! ### list combinators -/

theorem seqRes_le : ∀ {rs rs' : List Res}, All2 ELe rs rs' → ELe (seqRes rs) (seqRes rs')
  | [], [], _ => ELe.refl _
  | r :: rs, r' :: rs', h => by
    cases h with
    | cons h1 h2 =>
      simp only [seqRes]
      exact ELe.bind h1 (fun a => ELe.bind (seqRes_le h2) (fun _ => ELe.refl _))

theorem All2.apply_env {ds ds' : List Den} (h : All2 Den.le ds ds') (env : Env) :
    All2 ELe (ds.map (· env)) (ds'.map (· env)) := by
  induction h with
  | nil => exact .nil
  | cons h1 _ ih => exact .cons (h1 env) ih

theorem evalAll_le {ds ds' : List Den} (h : All2 Den.le ds ds') (env : Env) :
    ELe (evalAll ds env) (evalAll ds' env) := by
  unfold evalAll
  apply seqRes_le
  induction h with
  | nil => exact .nil
  | cons h1 _ ih => exact .cons (h1 env) ih

theorem mapRes_le {f f' : Val → Res} (h : ∀ v, ELe (f v) (f' v)) :
    ∀ vs, ELe (mapRes f vs) (mapRes f' vs)
  | [] => ELe.refl _
  | v :: vs => by
    simp only [mapRes]
    exact ELe.bind (h v) (fun _ => ELe.bind (mapRes_le h vs) (fun _ => ELe.refl _))

theorem filterM'_le {f f' : Val → Res} (h : ∀ v, ELe (f v) (f' v)) :
    ∀ vs, ELe (filterM' f vs) (filterM' f' vs)
  | [] => ELe.refl _
  | v :: vs => by
    simp only [filterM']
    exact ELe.bind (h v) (fun _ => ELe.bind (filterM'_le h vs) (fun _ => ELe.refl _))

theorem filterMB_le {f f' : Val → Except EErr Bool} (h : ∀ v, ELe (f v) (f' v)) :
    ∀ vs, ELe (filterMB f vs) (filterMB f' vs)
  | [] => ELe.refl _
  | v :: vs => by
    simp only [filterMB]
    exact ELe.bind (h v) (fun _ => ELe.bind (filterMB_le h vs) (fun _ => ELe.refl _))

theorem condsHold_le : ∀ {rs rs' : List Res}, All2 ELe rs rs' → ELe (condsHold rs) (condsHold rs')
  | [], [], _ => ELe.refl _
  | r :: rs, r' :: rs', h => by
    cases h with
    | cons h1 h2 =>
      simp only [condsHold]
      apply ELe.bind h1
      intro v
      split
      · exact condsHold_le h2
      · exact ELe.refl _

theorem foldM'_le {f f' : Val → Val → Res} (h : ∀ a v, ELe (f a v) (f' a v)) :
    ∀ vs acc, ELe (foldM' f acc vs) (foldM' f' acc vs)
  | [], _ => ELe.refl _
  | v :: vs, acc => by
    simp only [foldM']
    exact ELe.bind (h acc v) (fun a => foldM'_le h vs a)

/-! ### operators on results -/

theorem andChain_le : ∀ {rs rs' : List Res}, All2 ELe rs rs' → ELe (andChain rs) (andChain rs')
  | [], [], _ => ELe.refl _
  | [r], [r'], h => by cases h with | cons h1 _ => simpa [andChain] using h1
  | r :: r2 :: rs, r' :: r2' :: rs', h => by
    cases h with
    | cons h1 h2 =>
      simp only [andChain]
      apply ELe.bind h1
      intro v
      split
      · exact andChain_le h2
      · exact ELe.refl _
  | [_], _ :: _ :: _, h => by cases h with | cons _ h2 => cases h2
  | _ :: _ :: _, [_], h => by cases h with | cons _ h2 => cases h2

theorem orChain_le : ∀ {rs rs' : List Res}, All2 ELe rs rs' → ELe (orChain rs) (orChain rs')
  | [], [], _ => ELe.refl _
  | [r], [r'], h => by cases h with | cons h1 _ => simpa [orChain] using h1
  | r :: r2 :: rs, r' :: r2' :: rs', h => by
    cases h with
    | cons h1 h2 =>
      simp only [orChain]
      apply ELe.bind h1
      intro v
      split
      · exact ELe.refl _
      · exact orChain_le h2
  | [_], _ :: _ :: _, h => by cases h with | cons _ h2 => cases h2
  | _ :: _ :: _, [_], h => by cases h with | cons _ h2 => cases h2

theorem cmpChain_le : ∀ (os : List String) {rs rs' : List Res} (l : Val), All2 ELe rs rs' →
    ELe (cmpChain l os rs) (cmpChain l os rs')
  | [], _, _, _, _ => by simp [cmpChain]; exact ELe.refl _
  | _ :: _, [], [], _, _ => ELe.refl _
  | o :: os, r :: rs, r' :: rs', l, h => by
    cases h with
    | cons h1 h2 =>
      simp only [cmpChain]
      apply ELe.bind h1
      intro rv
      apply ELe.bind (ELe.refl _)
      intro b
      split
      · split
        · exact ELe.refl _
        · exact cmpChain_le os rv h2
      · exact ELe.refl _

theorem evOp_le (k : OpKind) {rs rs' : List Res} (h : All2 ELe rs rs') :
    ELe (evOp k rs) (evOp k rs') := by
  cases k with
  | boolAnd => exact andChain_le h
  | boolOr => exact orChain_le h
  | starred => exact ELe.refl _
  | slice a b c => exact ELe.bind (seqRes_le h) (fun _ => ELe.refl _)
  | cmp ops =>
    cases h with
    | nil => exact ELe.refl _
    | cons h1 h2 => exact ELe.bind h1 (fun lv => cmpChain_le _ lv h2)
  | ifExp =>
    cases h with
    | nil => exact ELe.refl _
    | cons h1 h2 => cases h2 with
      | nil => exact ELe.refl _
      | cons h2 h3 => cases h3 with
        | nil => exact ELe.refl _
        | cons h3 h4 => cases h4 with
          | nil =>
            apply ELe.bind h1
            intro tv
            split
            · exact h2
            · exact h3
          | cons _ _ => exact ELe.refl _
  | un n =>
    cases h with
    | nil => exact ELe.refl _
    | cons h1 h2 => cases h2 with
      | nil => exact ELe.bind h1 (fun _ => ELe.refl _)
      | cons _ _ => exact ELe.refl _
  | bin n =>
    cases h with
    | nil => exact ELe.refl _
    | cons h1 h2 => cases h2 with
      | nil => exact ELe.refl _
      | cons h2 h3 => cases h3 with
        | nil => exact ELe.bind h1 (fun _ => ELe.bind h2 (fun _ => ELe.refl _))
        | cons _ _ => exact ELe.refl _

/-! ### lambdas, operators, calls -/

theorem applyLam1_le {l l' : LamD} (h : LamD.le l l') (env : Env) (v : Val) :
    ELe (applyLam1 l env v) (applyLam1 l' env v) := by
  cases l with
  | none => cases l' with
    | none => exact ELe.refl _
    | some p => cases h
  | some p => cases l' with
    | none => cases h
    | some p' =>
      obtain ⟨ps, b⟩ := p
      obtain ⟨ps', b'⟩ := p'
      obtain ⟨h1, h2⟩ := h
      subst h1
      cases ps with
      | nil => exact ELe.refl _
      | cons x rest => cases rest with
        | nil => exact h2 _
        | cons _ _ => exact ELe.refl _

theorem applyLam2_le {l l' : LamD} (h : LamD.le l l') (env : Env) (a v : Val) :
    ELe (applyLam2 l env a v) (applyLam2 l' env a v) := by
  cases l with
  | none => cases l' with
    | none => exact ELe.refl _
    | some p => cases h
  | some p => cases l' with
    | none => cases h
    | some p' =>
      obtain ⟨ps, b⟩ := p
      obtain ⟨ps', b'⟩ := p'
      obtain ⟨h1, h2⟩ := h
      subst h1
      cases ps with
      | nil => exact ELe.refl _
      | cons x rest => cases rest with
        | nil => exact ELe.refl _
        | cons y rest2 => cases rest2 with
          | nil =>
            simp only [applyLam2]
            split
            · exact ELe.refl _
            · exact h2 _
          | cons _ _ => exact ELe.refl _

theorem seqOp2_le (n : String) {f f' : Val → Res} (h : ∀ v, ELe (f v) (f' v)) (vs : List Val) :
    ELe (seqOp2 n f vs) (seqOp2 n f' vs) := by
  unfold seqOp2
  split
  · exact ELe.map _ (mapRes_le h vs)
  split
  · exact ELe.map _ (filterM'_le h vs)
  split
  · exact ELe.bind (mapRes_le h vs) (fun _ => ELe.refl _)
  · exact ELe.refl _

theorem fnCall_le (w : World) (n : String) {args args' : List Den} {lams lams' : List LamD}
    (kwn : List String) {kwv kwv' : List Den}
    (ha : All2 Den.le args args') (hl : All2 LamD.le lams lams')
    (hk : All2 Den.le kwv kwv') :
    Den.le (fnCall w n args lams kwn kwv) (fnCall w n args' lams' kwn kwv') := by
  intro env
  unfold fnCall
  split
  · -- builtin
    cases ha with
    | nil => exact ELe.refl _
    | cons ha1 ha2 =>
      cases ha2 with
      | nil =>
        exact ELe.bind (ha1 env) (fun _ => ELe.bind (ELe.refl _) (fun _ => ELe.refl _))
      | cons ha2 ha3 =>
        cases ha3 with
        | nil =>
          cases hl with
          | nil => exact ELe.refl _
          | cons hl1 hl2 => cases hl2 with
            | nil =>
              exact ELe.bind (ha1 env) (fun _ => ELe.bind (ELe.refl _)
                (fun vs => seqOp2_le n (applyLam1_le hl1 env) vs))
            | cons _ _ => exact ELe.refl _
        | cons ha3 ha4 =>
          cases ha4 with
          | nil =>
            cases hl with
            | nil => exact ELe.refl _
            | cons hl1 hl2 => cases hl2 with
              | nil => exact ELe.refl _
              | cons hl2 hl3 => cases hl3 with
                | nil =>
                  simp only []
                  split
                  · exact ELe.bind (ha1 env) (fun _ => ELe.bind (ELe.refl _)
                      (fun vs => ELe.bind (ha2 env) (fun i => foldM'_le (applyLam2_le hl2 env) vs i)))
                  · exact ELe.refl _
                | cons _ _ => exact ELe.refl _
          | cons _ _ => exact ELe.refl _
  · exact ELe.bind (evalAll_le ha env) (fun _ => ELe.bind (evalAll_le hk env) (fun _ => ELe.refl _))

theorem callSem_le (w : World) {h h' : Head} {args args' : List Den} {lams lams' : List LamD}
    (kwn : List String) {kwv kwv' : List Den}
    (hh : Head.le h h') (ha : All2 Den.le args args') (hl : All2 LamD.le lams lams')
    (hk : All2 Den.le kwv kwv') :
    Den.le (callSem w h args lams kwn kwv) (callSem w h' args' lams' kwn kwv') := by
  cases h with
  | other => intro env; exact ELe.error _ _
  | fn n =>
    cases h' <;> simp only [Head.le] at hh
    subst hh
    simp only [callSem]
    apply fnCall_le w n kwn ha _ hk
    cases hl with
    | nil => exact .nil
    | cons _ h2 => exact h2
  | meth r m =>
    cases h' <;> simp only [Head.le] at hh
    obtain ⟨hr, rfl⟩ := hh
    simp only [callSem]
    split
    · exact fnCall_le w m kwn (.cons hr ha) hl hk
    · intro env
      exact ELe.bind (hr env) (fun _ => ELe.bind (evalAll_le ha env)
        (fun _ => ELe.bind (evalAll_le hk env) (fun _ => ELe.refl _)))
  | lamH ps b =>
    cases h' <;> simp only [Head.le] at hh
    obtain ⟨rfl, hb⟩ := hh
    simp only [callSem]
    intro env
    exact ELe.bind (evalAll_le ha env) (fun _ => ELe.bind (evalAll_le hk env)
      (fun _ => ELe.bind (ELe.refl _) (fun env' => hb env')))

theorem compSem_le (t : Option String) {e e' i i' : Den} {ifs ifs' : List Den} (a : Bool)
    (he : Den.le e e') (hi : Den.le i i') (hifs : All2 Den.le ifs ifs') :
    Den.le (compSem t e i ifs a) (compSem t e' i' ifs' a) := by
  intro env
  unfold compSem
  split
  · rename_i x
    apply ELe.bind (hi env)
    intro _
    apply ELe.bind (ELe.refl _)
    intro vs
    apply ELe.bind
    · apply filterMB_le
      intro v
      apply condsHold_le
      exact hifs.apply_env _
    · intro keep
      exact ELe.bind (mapRes_le (fun v => he _) keep) (fun _ => ELe.refl _)
  · exact ELe.refl _

end Fadl
