/-
  Monotonicity of the value-level operations of the deferred-execution semantics for the refinement order.
-/
import Fadl.Lemmas.Refine
namespace Fadl
set_option linter.unusedSimpArgs false

theorem isEmpty_of_length {α : Type} {a b : List α} (h : a.length = b.length) : a.isEmpty = b.isEmpty := by
  cases a <;> cases b <;> simp_all

theorem truthy_mono {v v' : Val} (h : VLe v v') : truthy v = truthy v' := by
  cases v with
  | poison e => exact absurd h VLe_poison_left
  | int n => rw [VLe_int_left.mp h]
  | bool n => rw [VLe_bool_left.mp h]
  | str n => rw [VLe_str_left.mp h]
  | none => rw [VLe_none_left.mp h]
  | float n => rw [VLe_float_left.mp h]
  | slice a b c => rw [VLe_slice_left.mp h]
  | tuple vs => obtain ⟨vs', rfl, h⟩ := VLe_tuple_left.mp h; simp [truthy, isEmpty_of_length (VLeS.length h)]
  | list vs => obtain ⟨vs', rfl, h⟩ := VLe_list_left.mp h; simp [truthy, isEmpty_of_length (VLeL.length h)]
  | dict ks vs => obtain ⟨ks', vs', rfl, h, _⟩ := VLe_dict_left.mp h; simp [truthy, isEmpty_of_length (VLeS.length h)]
  | obj c fn fv => obtain ⟨fv', rfl, h⟩ := VLe_obj_left.mp h; rfl

theorem asInt_mono {v v' : Val} (h : VLe v v') : asInt v = asInt v' := by
  cases v with
  | poison e => exact absurd h VLe_poison_left
  | int n => rw [VLe_int_left.mp h]
  | bool n => rw [VLe_bool_left.mp h]
  | str n => rw [VLe_str_left.mp h]
  | none => rw [VLe_none_left.mp h]
  | float n => rw [VLe_float_left.mp h]
  | slice a b c => rw [VLe_slice_left.mp h]
  | tuple vs => obtain ⟨vs', rfl, h⟩ := VLe_tuple_left.mp h; rfl
  | list vs => obtain ⟨vs', rfl, h⟩ := VLe_list_left.mp h; rfl
  | dict ks vs => obtain ⟨ks', vs', rfl, h, _⟩ := VLe_dict_left.mp h; rfl
  | obj c fn fv => obtain ⟨fv', rfl, h⟩ := VLe_obj_left.mp h; rfl

theorem lookupField_mono (a : String) : ∀ (fns : List String) (fv fv' : List Val), VLeS fv fv' →
    (∀ x, lookupField a fns fv = some x → ∃ x', lookupField a fns fv' = some x' ∧ VLe x x') ∧
    (lookupField a fns fv = Option.none → lookupField a fns fv' = Option.none)
  | [], fv, fv', _ => by simp [lookupField]
  | n :: ns, [], fv', h => by rw [VLeS_nil_left] at h; subst h; simp [lookupField]
  | n :: ns, v :: vs, fv', h => by
    rw [VLeS_cons_left] at h
    obtain ⟨b, bs, rfl, h1, h2⟩ := h
    simp only [lookupField]
    by_cases hn : n = a
    · simp [hn]; exact h1
    · simp only [hn, if_false]; exact lookupField_mono a ns vs bs h2

theorem lookupKey_mono (k : Val) : ∀ (ks : List Val) (vs vs' : List Val), VLeS vs vs' →
    (∀ x, lookupKey k ks vs = some x → ∃ x', lookupKey k ks vs' = some x' ∧ VLe x x') ∧
    (lookupKey k ks vs = Option.none → lookupKey k ks vs' = Option.none)
  | [], vs, vs', _ => by simp [lookupKey]
  | k' :: ks, [], vs', h => by rw [VLeS_nil_left] at h; subst h; simp [lookupKey]
  | k' :: ks, v :: vs, vs', h => by
    rw [VLeS_cons_left] at h
    obtain ⟨b, bs, rfl, h1, h2⟩ := h
    simp only [lookupKey]
    by_cases hk : pyEq k k'
    · simp [hk]; exact h1
    · simp only [hk, if_false]; exact lookupKey_mono k ks vs bs h2

theorem getAttr_obj_mono (c : String) (fn : List String) (fv fv' : List Val) (a : String) (h : VLeS fv fv') :
    RLe (getAttr (.obj c fn fv) a) (getAttr (.obj c fn fv') a) := by
  intro x hx
  simp only [getAttr] at hx ⊢
  cases hl : lookupField a fn fv with
  | none => simp [hl] at hx
  | some y =>
    simp only [hl, Except.ok.injEq] at hx; subst hx
    obtain ⟨x', hx', hxx⟩ := (lookupField_mono a fn fv fv' h).1 y hl
    exact ⟨x', by simp [hx'], hxx⟩

theorem getAttrLz_mono {v v' : Val} (a : String) (h : VLe v v') : RLe (getAttrLz v a) (getAttrLz v' a) := by
  cases v with
  | obj c fn fv =>
    obtain ⟨fv', rfl, hf⟩ := VLe_obj_left.mp h
    simp only [getAttrLz]
    exact getAttr_obj_mono _ _ _ _ a hf
  | dict ks vs =>
    obtain ⟨ks', vs', rfl, hk, hv⟩ := VLe_dict_left.mp h
    intro x hx
    simp only [getAttrLz] at hx ⊢
    by_cases hc : Val.cleanL ks
    · have hk : ks' = ks := VLeS.eq_of_clean hc hk
      subst hk
      simp only [hc, if_true, getAttr] at hx ⊢
      cases hl : lookupKey (.str a) ks' vs with
      | none => simp [hl] at hx
      | some y =>
        simp only [hl, Except.ok.injEq] at hx; subst hx
        obtain ⟨x', hx', hxx⟩ := (lookupKey_mono (.str a) ks' vs vs' hv).1 y hl
        exact ⟨x', by simp [hx'], hxx⟩
    · simp [hc] at hx
  | poison e => exact absurd h VLe_poison_left
  | int n => intro x hx; simp [getAttrLz, getAttr] at hx
  | bool n => intro x hx; simp [getAttrLz, getAttr] at hx
  | str n => intro x hx; simp [getAttrLz, getAttr] at hx
  | none => intro x hx; simp [getAttrLz, getAttr] at hx
  | float n => intro x hx; simp [getAttrLz, getAttr] at hx
  | slice a b c => intro x hx; simp [getAttrLz, getAttr] at hx
  | tuple vs => intro x hx; simp [getAttrLz, getAttr] at hx
  | list vs => intro x hx; simp [getAttrLz, getAttr] at hx

/-! ### take / drop / append / indexing -/

theorem VLeL.take : ∀ (n : Nat) {as bs : List Val}, VLeL as bs → VLeL (as.take n) (bs.take n)
  | 0, _, _, _ => by simp [VLeL]
  | n + 1, [], bs, h => by rw [VLeL_nil_left] at h; subst h; simp [VLeL]
  | n + 1, a :: as, bs, h => by
    rw [VLeL_cons_left] at h
    obtain ⟨b, bs', rfl, h1, h2⟩ := h
    simp only [List.take_succ_cons]
    rw [VLeL_cons]; exact ⟨h1, VLeL.take n h2⟩

theorem VLeL.drop : ∀ (n : Nat) {as bs : List Val}, VLeL as bs → VLeL (as.drop n) (bs.drop n)
  | 0, _, _, h => by simpa using h
  | n + 1, [], bs, h => by rw [VLeL_nil_left] at h; subst h; simp [VLeL]
  | n + 1, a :: as, bs, h => by
    rw [VLeL_cons_left] at h
    obtain ⟨b, bs', rfl, h1, h2⟩ := h
    simp only [List.drop_succ_cons]
    exact VLeL.drop n h2

theorem VLeS.take : ∀ (n : Nat) {as bs : List Val}, VLeS as bs → VLeS (as.take n) (bs.take n)
  | 0, _, _, _ => by simp [VLeS]
  | n + 1, [], bs, h => by rw [VLeS_nil_left] at h; subst h; simp [VLeS]
  | n + 1, a :: as, bs, h => by
    rw [VLeS_cons_left] at h
    obtain ⟨b, bs', rfl, h1, h2⟩ := h
    simp only [List.take_succ_cons, VLeS]
    exact ⟨h1, VLeS.take n h2⟩

theorem VLeS.drop : ∀ (n : Nat) {as bs : List Val}, VLeS as bs → VLeS (as.drop n) (bs.drop n)
  | 0, _, _, h => by simpa using h
  | n + 1, [], bs, h => by rw [VLeS_nil_left] at h; subst h; simp [VLeS]
  | n + 1, a :: as, bs, h => by
    rw [VLeS_cons_left] at h
    obtain ⟨b, bs', rfl, h1, h2⟩ := h
    simp only [List.drop_succ_cons]
    exact VLeS.drop n h2

theorem VLeL.append : ∀ {as bs cs ds : List Val}, VLeL as bs → VLeL cs ds → VLeL (as ++ cs) (bs ++ ds)
  | [], bs, _, _, h1, h2 => by rw [VLeL_nil_left] at h1; subst h1; simpa using h2
  | a :: as, bs, _, _, h1, h2 => by
    rw [VLeL_cons_left] at h1
    obtain ⟨b, bs', rfl, h11, h12⟩ := h1
    simp only [List.cons_append]
    rw [VLeL_cons]; exact ⟨h11, VLeL.append h12 h2⟩

theorem VLeS.append : ∀ {as bs cs ds : List Val}, VLeS as bs → VLeS cs ds → VLeS (as ++ cs) (bs ++ ds)
  | [], bs, _, _, h1, h2 => by rw [VLeS_nil_left] at h1; subst h1; simpa using h2
  | a :: as, bs, _, _, h1, h2 => by
    rw [VLeS_cons_left] at h1
    obtain ⟨b, bs', rfl, h11, h12⟩ := h1
    simp only [List.cons_append, VLeS]
    exact ⟨h11, VLeS.append h12 h2⟩

theorem VLeL.get : ∀ {as bs : List Val} (k : Nat) (a : Val), VLeL as bs → as[k]? = some a → ∃ b, bs[k]? = some b ∧ VLeE a b
  | [], _, k, a, _, hk => by simp at hk
  | x :: as, bs, k, a, h, hk => by
    rw [VLeL_cons_left] at h
    obtain ⟨b, bs', rfl, h1, h2⟩ := h
    cases k with
    | zero => simp at hk; subst hk; exact ⟨b, by simp, h1⟩
    | succ k => simp only [List.getElem?_cons_succ] at hk ⊢; exact VLeL.get k a h2 hk

theorem VLeS.get : ∀ {as bs : List Val} (k : Nat) (a : Val), VLeS as bs → as[k]? = some a → ∃ b, bs[k]? = some b ∧ VLe a b
  | [], _, k, a, _, hk => by simp at hk
  | x :: as, bs, k, a, h, hk => by
    rw [VLeS_cons_left] at h
    obtain ⟨b, bs', rfl, h1, h2⟩ := h
    cases k with
    | zero => simp at hk; subst hk; exact ⟨b, by simp, h1⟩
    | succ k => simp only [List.getElem?_cons_succ] at hk ⊢; exact VLeS.get k a h2 hk

theorem getSlice_monoL {vs vs' : List Val} (lo hi st : Option Int) (h : VLeL vs vs') :
    RLeL (getSlice vs lo hi st) (getSlice vs' lo hi st) := by
  intro out ho
  unfold getSlice at ho ⊢
  rw [← VLeL.length h]
  split at ho
  · simp only [Except.ok.injEq] at ho; subst ho
    rename_i hs
    simp only [hs, if_true]
    exact ⟨_, rfl, VLeL.take _ (VLeL.drop _ h)⟩
  · cases ho

theorem getSlice_monoS {vs vs' : List Val} (lo hi st : Option Int) (h : VLeS vs vs') :
    RLeS (getSlice vs lo hi st) (getSlice vs' lo hi st) := by
  intro out ho
  unfold getSlice at ho ⊢
  rw [← VLeS.length h]
  split at ho
  · simp only [Except.ok.injEq] at ho; subst ho
    rename_i hs
    simp only [hs, if_true]
    exact ⟨_, rfl, VLeS.take _ (VLeS.drop _ h)⟩
  · cases ho

theorem getIndex_mono {vs vs' : List Val} (i : Int) (h : VLeS vs vs') : RLe (getIndex vs i) (getIndex vs' i) := by
  intro out ho
  unfold getIndex at ho ⊢
  rw [← VLeS.length h]
  simp only [] at ho ⊢
  by_cases hb : (if i < 0 then i + ↑vs.length else i) < 0 ∨ (if i < 0 then i + ↑vs.length else i) ≥ ↑vs.length
  · simp [hb] at ho
  · simp only [hb, if_false] at ho ⊢
    cases hg : vs[(if i < 0 then i + ↑vs.length else i).toNat]? with
    | none => simp [hg] at ho
    | some a =>
      simp only [hg, Except.ok.injEq] at ho; subst ho
      obtain ⟨b, hb', hab⟩ := VLeS.get _ a h hg
      exact ⟨b, by simp [hb'], hab⟩

theorem getIndexLz_mono {vs vs' : List Val} (i : Int) (h : VLeL vs vs') : RLe (getIndexLz vs i) (getIndexLz vs' i) := by
  intro out ho
  unfold getIndexLz at ho ⊢
  rw [← VLeL.length h]
  simp only [] at ho ⊢
  by_cases hb : (if i < 0 then i + ↑vs.length else i) < 0 ∨ (if i < 0 then i + ↑vs.length else i) ≥ ↑vs.length
  · simp [hb] at ho
  · simp only [hb, if_false] at ho ⊢
    cases hg : vs[(if i < 0 then i + ↑vs.length else i).toNat]? with
    | none => simp [hg] at ho
    | some a =>
      simp only [hg] at ho
      obtain ⟨b, hb', hab⟩ := VLeL.get _ a h hg
      have hnp : ∀ e, a ≠ .poison e := by intro e he; subst he; simp [force] at ho
      have hab' := VLeE.of_ne_poison hab hnp
      have hfa := hab'.force
      rw [hfa.1] at ho
      simp only [Except.ok.injEq] at ho; subst ho
      exact ⟨b, by simp [hb', hfa.2], hab'⟩

theorem subscript_tuple_mono {vs vs' : List Val} {s s' : Val} (h : VLeS vs vs') (hs : VLe s s') :
    RLe (subscript (.tuple vs) s) (subscript (.tuple vs') s') := by
  cases s with
  | slice lo hi st =>
    rw [VLe_slice_left.mp hs]
    intro out ho
    simp only [subscript] at ho ⊢
    cases hg : getSlice vs lo hi st with
    | error e => simp [hg, Except.map] at ho
    | ok r =>
      simp only [hg, Except.map, Except.ok.injEq] at ho; subst ho
      obtain ⟨r', hr', hrr⟩ := getSlice_monoS lo hi st h r hg
      exact ⟨.tuple r', by simp [hr', Except.map], by simpa [VLe] using hrr⟩
  | poison e => exact absurd hs VLe_poison_left
  | int n => rw [VLe_int_left.mp hs]; simp only [subscript, asInt]; exact getIndex_mono _ h
  | bool b => rw [VLe_bool_left.mp hs]; simp only [subscript, asInt]; exact getIndex_mono _ h
  | str _ => intro o ho; simp [subscript, asInt] at ho
  | none => intro o ho; simp [subscript, asInt] at ho
  | float _ => intro o ho; simp [subscript, asInt] at ho
  | tuple _ => intro o ho; simp [subscript, asInt] at ho
  | list _ => intro o ho; simp [subscript, asInt] at ho
  | dict _ _ => intro o ho; simp [subscript, asInt] at ho
  | obj _ _ _ => intro o ho; simp [subscript, asInt] at ho

theorem subscriptLz_tuple (a : List Val) (x : Val) : subscriptLz (.tuple a) x = subscript (.tuple a) x := by
  cases x <;> rfl

theorem subscriptLz_mono {v v' s s' : Val} (h : VLe v v') (hs : VLe s s') : RLe (subscriptLz v s) (subscriptLz v' s') := by
  cases v with
  | poison e => exact absurd h VLe_poison_left
  | list vs =>
    obtain ⟨vs', rfl, h⟩ := VLe_list_left.mp h
    cases s with
    | slice lo hi st =>
      rw [VLe_slice_left.mp hs]
      intro out ho
      simp only [subscriptLz] at ho ⊢
      cases hg : getSlice vs lo hi st with
      | error e => simp [hg, Except.map] at ho
      | ok r =>
        simp only [hg, Except.map, Except.ok.injEq] at ho; subst ho
        obtain ⟨r', hr', hrr⟩ := getSlice_monoL lo hi st h r hg
        exact ⟨.list r', by simp [hr', Except.map], by simpa [VLe] using hrr⟩
    | poison e => exact absurd hs VLe_poison_left
    | int n => rw [VLe_int_left.mp hs]; simp only [subscriptLz, asInt]; exact getIndexLz_mono _ h
    | bool b => rw [VLe_bool_left.mp hs]; simp only [subscriptLz, asInt]; exact getIndexLz_mono _ h
    | str _ => intro o ho; simp [subscriptLz, asInt] at ho
    | none => intro o ho; simp [subscriptLz, asInt] at ho
    | float _ => intro o ho; simp [subscriptLz, asInt] at ho
    | tuple _ => intro o ho; simp [subscriptLz, asInt] at ho
    | list _ => intro o ho; simp [subscriptLz, asInt] at ho
    | dict _ _ => intro o ho; simp [subscriptLz, asInt] at ho
    | obj _ _ _ => intro o ho; simp [subscriptLz, asInt] at ho
  | dict ks vs =>
    obtain ⟨ks', vs', rfl, hk, hv⟩ := VLe_dict_left.mp h
    intro out ho
    have hunf : ∀ (k : Val) (a b : List Val), subscriptLz (.dict a b) k =
        if k.clean && Val.cleanL a then subscript (.dict a b) k else .error uncleanErr := by
      intro k a b; cases k <;> rfl
    rw [hunf] at ho ⊢
    by_cases hc : (s.clean && Val.cleanL ks) = true
    · have hc' := hc
      simp only [Bool.and_eq_true] at hc'
      have e1 : s' = s := VLe.eq_of_clean hc'.1 hs
      have e2 : ks' = ks := VLeS.eq_of_clean hc'.2 hk
      subst e1 e2
      simp only [hc, if_true, subscript] at ho ⊢
      cases hl : lookupKey s' ks' vs with
      | none => simp [hl] at ho
      | some y =>
        simp only [hl, Except.ok.injEq] at ho; subst ho
        obtain ⟨x', hx', hxx⟩ := (lookupKey_mono s' ks' vs vs' hv).1 y hl
        exact ⟨x', by simp [hx'], hxx⟩
    · simp [hc] at ho
  | tuple vs =>
    obtain ⟨vs', rfl, h⟩ := VLe_tuple_left.mp h
    rw [subscriptLz_tuple, subscriptLz_tuple]
    exact subscript_tuple_mono h hs
  | int _ => intro o ho; cases s <;> simp [subscriptLz, subscript] at ho
  | bool _ => intro o ho; cases s <;> simp [subscriptLz, subscript] at ho
  | str _ => intro o ho; cases s <;> simp [subscriptLz, subscript] at ho
  | none => intro o ho; cases s <;> simp [subscriptLz, subscript] at ho
  | float _ => intro o ho; cases s <;> simp [subscriptLz, subscript] at ho
  | slice _ _ _ => intro o ho; cases s <;> simp [subscriptLz, subscript] at ho
  | obj _ _ _ => intro o ho; cases s <;> simp [subscriptLz, subscript] at ho

end Fadl
