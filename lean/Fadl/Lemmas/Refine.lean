/-
  Refinement of values under deferred execution.

  `VLe v v'`: `v'` is `v` with some deferred failures (poison elements of sequences) replaced by values.
  A value in value position is never a deferred failure, so `VLe v v` ("`v` is well formed") says that deferred
  failures occur only as elements of sequences.  `RLe r r'`: whenever `r` succeeds, `r'` succeeds with a
  refinement of its value.  Every operation of Fadl/SemLazy.lean is monotone for this order (this file and
  MonoLz.lean); the simplifier's rewrites are refinements (Props/C02Sound.lean).
-/
import Fadl.SemLazy
import Fadl.Lemmas.Mono
namespace Fadl
set_option linter.unusedSimpArgs false

mutual
/-- value positions: the left value is not a deferred failure -/
def VLe : Val → Val → Prop
  | .poison _, _ => False
  | .tuple vs, .tuple vs' => VLeS vs vs'
  | .list vs, .list vs' => VLeL vs vs'
  | .dict ks vs, .dict ks' vs' => VLeS ks ks' ∧ VLeS vs vs'
  | .obj c fn fv, .obj c' fn' fv' => c = c' ∧ fn = fn' ∧ VLeS fv fv'
  | .int a, b => b = .int a
  | .bool a, b => b = .bool a
  | .str a, b => b = .str a
  | .none, b => b = .none
  | .float a, b => b = .float a
  | .slice a b c, v => v = .slice a b c
  | .tuple _, _ => False
  | .list _, _ => False
  | .dict _ _, _ => False
  | .obj _ _ _, _ => False
/-- components (tuple components, dictionary keys and values, record fields) -/
def VLeS : List Val → List Val → Prop
  | [], [] => True
  | a :: as, b :: bs => VLe a b ∧ VLeS as bs
  | _, _ => False
/-- elements of a sequence: a deferred failure is refined by anything -/
def VLeL : List Val → List Val → Prop
  | [], [] => True
  | .poison _ :: as, _ :: bs => VLeL as bs
  | a :: as, b :: bs => VLe a b ∧ VLeL as bs
  | _, _ => False
end

/-- element position -/
def VLeE (a b : Val) : Prop := match a with
  | .poison _ => True
  | _ => VLe a b

theorem VLeL_cons (a b : Val) (as bs : List Val) : VLeL (a :: as) (b :: bs) ↔ VLeE a b ∧ VLeL as bs := by
  cases a <;> simp only [VLeL, VLeE, true_and]

theorem VLeL_nil_left (bs : List Val) : VLeL [] bs ↔ bs = [] := by cases bs <;> simp [VLeL]
theorem VLeL_cons_left (a : Val) (as bs : List Val) : VLeL (a :: as) bs ↔ ∃ b bs', bs = b :: bs' ∧ VLeE a b ∧ VLeL as bs' := by
  cases bs with
  | nil => cases a <;> simp [VLeL]
  | cons b bs =>
    rw [VLeL_cons]
    constructor
    · intro h; exact ⟨b, bs, rfl, h.1, h.2⟩
    · rintro ⟨b', bs', h, h1, h2⟩; cases h; exact ⟨h1, h2⟩
theorem VLeS_nil_left (bs : List Val) : VLeS [] bs ↔ bs = [] := by cases bs <;> simp [VLeS]
theorem VLeS_cons_left (a : Val) (as bs : List Val) : VLeS (a :: as) bs ↔ ∃ b bs', bs = b :: bs' ∧ VLe a b ∧ VLeS as bs' := by
  cases bs with
  | nil => simp [VLeS]
  | cons b bs =>
    simp only [VLeS]
    constructor
    · intro h; exact ⟨b, bs, rfl, h.1, h.2⟩
    · rintro ⟨b', bs', h, h1, h2⟩; cases h; exact ⟨h1, h2⟩

theorem VLe_int_left {n : Int} {v : Val} : VLe (.int n) v ↔ v = .int n := by simp [VLe]
theorem VLe_bool_left {n : Bool} {v : Val} : VLe (.bool n) v ↔ v = .bool n := by simp [VLe]
theorem VLe_str_left {n : String} {v : Val} : VLe (.str n) v ↔ v = .str n := by simp [VLe]
theorem VLe_none_left {v : Val} : VLe .none v ↔ v = .none := by simp [VLe]
theorem VLe_float_left {n : String} {v : Val} : VLe (.float n) v ↔ v = .float n := by simp [VLe]
theorem VLe_slice_left {a b c : Option Int} {v : Val} : VLe (.slice a b c) v ↔ v = .slice a b c := by simp [VLe]
theorem VLe_poison_left {e : EErr} {v : Val} : ¬ VLe (.poison e) v := by simp [VLe]
theorem VLe_tuple_left {vs : List Val} {v : Val} : VLe (.tuple vs) v ↔ ∃ vs', v = .tuple vs' ∧ VLeS vs vs' := by
  cases v <;> simp [VLe]
theorem VLe_list_left {vs : List Val} {v : Val} : VLe (.list vs) v ↔ ∃ vs', v = .list vs' ∧ VLeL vs vs' := by
  cases v <;> simp [VLe]
theorem VLe_dict_left {ks vs : List Val} {v : Val} :
    VLe (.dict ks vs) v ↔ ∃ ks' vs', v = .dict ks' vs' ∧ VLeS ks ks' ∧ VLeS vs vs' := by
  cases v <;> simp [VLe]
  constructor
  · rintro ⟨h1, h2⟩; exact ⟨_, _, ⟨rfl, rfl⟩, h1, h2⟩
  · rintro ⟨_, _, ⟨rfl, rfl⟩, h1, h2⟩; exact ⟨h1, h2⟩
theorem VLe_obj_left {c : String} {fn : List String} {fv : List Val} {v : Val} :
    VLe (.obj c fn fv) v ↔ ∃ fv', v = .obj c fn fv' ∧ VLeS fv fv' := by
  cases v <;> simp [VLe]
  constructor
  · rintro ⟨rfl, rfl, h⟩; exact ⟨_, ⟨rfl, rfl, rfl⟩, h⟩
  · rintro ⟨_, ⟨rfl, rfl, rfl⟩, h⟩; exact ⟨rfl, rfl, h⟩

def RLe (r r' : Res) : Prop := ∀ v, r = .ok v → ∃ v', r' = .ok v' ∧ VLe v v'
def RLeS (r r' : Except EErr (List Val)) : Prop := ∀ vs, r = .ok vs → ∃ vs', r' = .ok vs' ∧ VLeS vs vs'
def RLeL (r r' : Except EErr (List Val)) : Prop := ∀ vs, r = .ok vs → ∃ vs', r' = .ok vs' ∧ VLeL vs vs'
def EnvLe (env env' : Env) : Prop := ∀ x v, env x = some v → ∃ v', env' x = some v' ∧ VLe v v'

theorem RLe.error (e : EErr) (r : Res) : RLe (.error e) r := by intro v h; cases h

theorem VLe.not_poison_right {v v' : Val} (h : VLe v v') : ∀ e, v' ≠ .poison e := by
  intro e he; subst he
  cases v <;> simp [VLe] at h

theorem VLe.not_poison_left {v v' : Val} (h : VLe v v') : ∀ e, v ≠ .poison e := by
  intro e he; subst he; simp [VLe] at h

theorem VLe.force {v v' : Val} (h : VLe v v') : force v = .ok v ∧ force v' = .ok v' := by
  constructor
  · cases v <;> simp [Fadl.force, VLe] at *
  · have := h.not_poison_right
    cases v' <;> simp [Fadl.force] at *

theorem VLeE_of_VLe {a b : Val} (h : VLe a b) : VLeE a b := by
  cases a <;> simp [VLeE, VLe] at * <;> exact h

theorem VLeS.length : ∀ {as bs : List Val}, VLeS as bs → as.length = bs.length
  | [], [], _ => rfl
  | [], _ :: _, h => by simp [VLeS] at h
  | _ :: _, [], h => by simp [VLeS] at h
  | a :: as, b :: bs, h => by simp only [VLeS] at h; simp [VLeS.length h.2]

theorem VLeL.length : ∀ {as bs : List Val}, VLeL as bs → as.length = bs.length
  | [], [], _ => rfl
  | [], _ :: _, h => by simp [VLeL] at h
  | _ :: _, [], h => by cases ‹Val› <;> simp [VLeL] at h
  | a :: as, b :: bs, h => by rw [VLeL_cons] at h; simp [VLeL.length h.2]

theorem VLeS.toL : ∀ {as bs : List Val}, VLeS as bs → VLeL as bs
  | [], [], _ => by simp [VLeL]
  | [], _ :: _, h => by simp [VLeS] at h
  | _ :: _, [], h => by simp [VLeS] at h
  | a :: as, b :: bs, h => by
    simp only [VLeS] at h
    rw [VLeL_cons]
    exact ⟨VLeE_of_VLe h.1, VLeS.toL h.2⟩

/-! ### left-reflexivity, transitivity, clean values are maximal -/

mutual
theorem VLe.lrefl : ∀ {v v' : Val}, VLe v v' → VLe v v
  | .int _, _, _ => by simp [VLe]
  | .bool _, _, _ => by simp [VLe]
  | .str _, _, _ => by simp [VLe]
  | .none, _, _ => by simp [VLe]
  | .float _, _, _ => by simp [VLe]
  | .slice _ _ _, _, _ => by simp [VLe]
  | .poison _, _, h => by simp [VLe] at h
  | .tuple vs, v', h => by cases v' <;> simp [VLe] at h ⊢; exact VLeS.lrefl h
  | .list vs, v', h => by cases v' <;> simp [VLe] at h ⊢; exact VLeL.lrefl h
  | .dict ks vs, v', h => by cases v' <;> simp [VLe] at h ⊢; exact ⟨VLeS.lrefl h.1, VLeS.lrefl h.2⟩
  | .obj _ _ fv, v', h => by cases v' <;> simp [VLe] at h ⊢; exact VLeS.lrefl h.2.2
theorem VLeS.lrefl : ∀ {vs vs' : List Val}, VLeS vs vs' → VLeS vs vs
  | [], _, _ => by simp [VLeS]
  | a :: as, vs', h => by
    rw [VLeS_cons_left] at h
    obtain ⟨b, bs', rfl, h1, h2⟩ := h
    simp only [VLeS]
    exact ⟨VLe.lrefl h1, VLeS.lrefl h2⟩
theorem VLeL.lrefl : ∀ {vs vs' : List Val}, VLeL vs vs' → VLeL vs vs
  | [], _, _ => by simp [VLeL]
  | a :: as, vs', h => by
    rw [VLeL_cons_left] at h
    obtain ⟨b, bs', rfl, h1, h2⟩ := h
    rw [VLeL_cons]
    refine ⟨?_, VLeL.lrefl h2⟩
    match a, h1 with
    | .poison _, _ => simp [VLeE]
    | .int _, h1 => simp only [VLeE] at h1 ⊢; exact VLe.lrefl h1
    | .bool _, h1 => simp only [VLeE] at h1 ⊢; exact VLe.lrefl h1
    | .str _, h1 => simp only [VLeE] at h1 ⊢; exact VLe.lrefl h1
    | .none, h1 => simp only [VLeE] at h1 ⊢; exact VLe.lrefl h1
    | .float _, h1 => simp only [VLeE] at h1 ⊢; exact VLe.lrefl h1
    | .slice _ _ _, h1 => simp only [VLeE] at h1 ⊢; exact VLe.lrefl h1
    | .tuple _, h1 => simp only [VLeE] at h1 ⊢; exact VLe.lrefl h1
    | .list _, h1 => simp only [VLeE] at h1 ⊢; exact VLe.lrefl h1
    | .dict _ _, h1 => simp only [VLeE] at h1 ⊢; exact VLe.lrefl h1
    | .obj _ _ _, h1 => simp only [VLeE] at h1 ⊢; exact VLe.lrefl h1
end

theorem VLeE.of_ne_poison {a b : Val} (h : VLeE a b) (hb : ∀ e, a ≠ .poison e) : VLe a b := by
  cases a <;> simp [VLeE] at h ⊢ <;> first | exact h | exact absurd rfl (hb _)

mutual
theorem VLe.trans : ∀ {a b c : Val}, VLe a b → VLe b c → VLe a c
  | .int _, b, c, h1, h2 => by simp [VLe] at h1; subst h1; simpa [VLe] using h2
  | .bool _, b, c, h1, h2 => by simp [VLe] at h1; subst h1; simpa [VLe] using h2
  | .str _, b, c, h1, h2 => by simp [VLe] at h1; subst h1; simpa [VLe] using h2
  | .none, b, c, h1, h2 => by simp [VLe] at h1; subst h1; simpa [VLe] using h2
  | .float _, b, c, h1, h2 => by simp [VLe] at h1; subst h1; simpa [VLe] using h2
  | .slice _ _ _, b, c, h1, h2 => by simp [VLe] at h1; subst h1; simpa [VLe] using h2
  | .poison _, _, _, h, _ => by simp [VLe] at h
  | .tuple vs, b, c, h1, h2 => by
    cases b <;> simp [VLe] at h1
    cases c <;> simp [VLe] at h2
    simp only [VLe]; exact VLeS.trans h1 h2
  | .list vs, b, c, h1, h2 => by
    cases b <;> simp [VLe] at h1
    cases c <;> simp [VLe] at h2
    simp only [VLe]; exact VLeL.trans h1 h2
  | .dict ks vs, b, c, h1, h2 => by
    cases b <;> simp [VLe] at h1
    cases c <;> simp [VLe] at h2
    simp only [VLe]; exact ⟨VLeS.trans h1.1 h2.1, VLeS.trans h1.2 h2.2⟩
  | .obj _ _ fv, b, c, h1, h2 => by
    cases b <;> simp [VLe] at h1
    cases c <;> simp [VLe] at h2
    simp only [VLe]
    obtain ⟨rfl, rfl, h1⟩ := h1
    obtain ⟨rfl, rfl, h2⟩ := h2
    exact ⟨rfl, rfl, VLeS.trans h1 h2⟩
theorem VLeS.trans : ∀ {as bs cs : List Val}, VLeS as bs → VLeS bs cs → VLeS as cs
  | [], bs, cs, h1, h2 => by rw [VLeS_nil_left] at h1; subst h1; exact h2
  | a :: as, bs, cs, h1, h2 => by
    rw [VLeS_cons_left] at h1
    obtain ⟨b, bs', rfl, h11, h12⟩ := h1
    rw [VLeS_cons_left] at h2
    obtain ⟨c, cs', rfl, h21, h22⟩ := h2
    simp only [VLeS]
    exact ⟨VLe.trans h11 h21, VLeS.trans h12 h22⟩
theorem VLeL.trans : ∀ {as bs cs : List Val}, VLeL as bs → VLeL bs cs → VLeL as cs
  | [], bs, cs, h1, h2 => by rw [VLeL_nil_left] at h1; subst h1; exact h2
  | a :: as, bs, cs, h1, h2 => by
    rw [VLeL_cons_left] at h1
    obtain ⟨b, bs', rfl, h11, h12⟩ := h1
    rw [VLeL_cons_left] at h2
    obtain ⟨c, cs', rfl, h21, h22⟩ := h2
    rw [VLeL_cons]
    refine ⟨?_, VLeL.trans h12 h22⟩
    match a, h11 with
    | .poison _, _ => simp [VLeE]
    | .int n, h11 => simp only [VLeE] at h11 ⊢; exact VLe.trans h11 (VLeE.of_ne_poison h21 (VLe.not_poison_right h11))
    | .bool n, h11 => simp only [VLeE] at h11 ⊢; exact VLe.trans h11 (VLeE.of_ne_poison h21 (VLe.not_poison_right h11))
    | .str n, h11 => simp only [VLeE] at h11 ⊢; exact VLe.trans h11 (VLeE.of_ne_poison h21 (VLe.not_poison_right h11))
    | .none, h11 => simp only [VLeE] at h11 ⊢; exact VLe.trans h11 (VLeE.of_ne_poison h21 (VLe.not_poison_right h11))
    | .float n, h11 => simp only [VLeE] at h11 ⊢; exact VLe.trans h11 (VLeE.of_ne_poison h21 (VLe.not_poison_right h11))
    | .slice _ _ _, h11 => simp only [VLeE] at h11 ⊢; exact VLe.trans h11 (VLeE.of_ne_poison h21 (VLe.not_poison_right h11))
    | .tuple _, h11 => simp only [VLeE] at h11 ⊢; exact VLe.trans h11 (VLeE.of_ne_poison h21 (VLe.not_poison_right h11))
    | .list _, h11 => simp only [VLeE] at h11 ⊢; exact VLe.trans h11 (VLeE.of_ne_poison h21 (VLe.not_poison_right h11))
    | .dict _ _, h11 => simp only [VLeE] at h11 ⊢; exact VLe.trans h11 (VLeE.of_ne_poison h21 (VLe.not_poison_right h11))
    | .obj _ _ _, h11 => simp only [VLeE] at h11 ⊢; exact VLe.trans h11 (VLeE.of_ne_poison h21 (VLe.not_poison_right h11))
end

mutual
theorem VLe.eq_of_clean : ∀ {v v' : Val}, v.clean = true → VLe v v' → v' = v
  | .int _, _, _, h => by simpa [VLe] using h
  | .bool _, _, _, h => by simpa [VLe] using h
  | .str _, _, _, h => by simpa [VLe] using h
  | .none, _, _, h => by simpa [VLe] using h
  | .float _, _, _, h => by simpa [VLe] using h
  | .slice _ _ _, _, _, h => by simpa [VLe] using h
  | .poison _, _, hc, _ => by simp [Val.clean] at hc
  | .tuple vs, v', hc, h => by
    cases v' <;> simp [VLe] at h; simp only [Val.clean] at hc; rw [VLeS.eq_of_clean hc h]
  | .list vs, v', hc, h => by
    cases v' <;> simp [VLe] at h; simp only [Val.clean] at hc; rw [VLeL.eq_of_clean hc h]
  | .dict ks vs, v', hc, h => by
    cases v' <;> simp [VLe] at h
    simp only [Val.clean, Bool.and_eq_true] at hc
    rw [VLeS.eq_of_clean hc.1 h.1, VLeS.eq_of_clean hc.2 h.2]
  | .obj _ _ fv, v', hc, h => by
    cases v' <;> simp [VLe] at h
    simp only [Val.clean] at hc
    obtain ⟨rfl, rfl, h⟩ := h
    rw [VLeS.eq_of_clean hc h]
theorem VLeS.eq_of_clean : ∀ {vs vs' : List Val}, Val.cleanL vs = true → VLeS vs vs' → vs' = vs
  | [], _, _, h => by rwa [VLeS_nil_left] at h
  | a :: as, vs', hc, h => by
    rw [VLeS_cons_left] at h
    obtain ⟨b, bs', rfl, h1, h2⟩ := h
    simp only [Val.cleanL, Bool.and_eq_true] at hc
    rw [VLe.eq_of_clean hc.1 h1, VLeS.eq_of_clean hc.2 h2]
theorem VLeL.eq_of_clean : ∀ {vs vs' : List Val}, Val.cleanL vs = true → VLeL vs vs' → vs' = vs
  | [], _, _, h => by rwa [VLeL_nil_left] at h
  | a :: as, vs', hc, h => by
    rw [VLeL_cons_left] at h
    obtain ⟨b, bs', rfl, h1, h2⟩ := h
    simp only [Val.cleanL, Bool.and_eq_true] at hc
    have hnp : ∀ e, a ≠ .poison e := by intro e he; subst he; simp [Val.clean] at hc
    rw [VLe.eq_of_clean hc.1 (VLeE.of_ne_poison h1 hnp), VLeL.eq_of_clean hc.2 h2]
end

theorem RLe.refl_of_ok {r : Res} (h : ∀ v, r = .ok v → VLe v v) : RLe r r := fun v hv => ⟨v, hv, h v hv⟩

theorem RLe.trans {a b c : Res} (h1 : RLe a b) (h2 : RLe b c) : RLe a c := by
  intro v hv
  obtain ⟨v', hv', h⟩ := h1 v hv
  obtain ⟨v'', hv'', h'⟩ := h2 v' hv'
  exact ⟨v'', hv'', h.trans h'⟩

theorem RLe.bind {r r' : Res} {f f' : Val → Res} (h : RLe r r') (hf : ∀ v v', VLe v v' → RLe (f v) (f' v')) :
    RLe (r >>= f) (r' >>= f') := by
  intro out ho
  cases r with
  | error e => exact absurd (show (Except.error e : Res) = .ok out from ho) (by simp)
  | ok v =>
    obtain ⟨v', hv', hvv⟩ := h v rfl
    have ho2 : f v = .ok out := ho
    obtain ⟨o', ho', hoo⟩ := hf v v' hvv out ho2
    refine ⟨o', ?_, hoo⟩
    subst hv'
    exact ho'

/-- `bind` when the continuation is only known to respect refinement between well-formed right-hand values -/
theorem RLe.bind2 {r r' : Res} {f f' : Val → Res} (h : RLe r r') (h' : RLe r' r')
    (hf : ∀ v v', VLe v v' → VLe v' v' → RLe (f v) (f' v')) : RLe (r >>= f) (r' >>= f') := by
  intro out ho
  cases r with
  | error e => exact absurd (show (Except.error e : Res) = .ok out from ho) (by simp)
  | ok v =>
    obtain ⟨v', hv', hvv⟩ := h v rfl
    obtain ⟨v'', hv'', hvv'⟩ := h' v' hv'
    have : v'' = v' := by rw [hv'] at hv''; cases hv''; rfl
    subst this
    have ho2 : f v = .ok out := ho
    obtain ⟨o', ho', hoo⟩ := hf v v'' hvv hvv' out ho2
    refine ⟨o', ?_, hoo⟩
    subst hv'
    exact ho'

theorem RLe.wf_of_self {r : Res} (h : RLe r r) {v : Val} (hv : r = .ok v) : VLe v v := by
  obtain ⟨v', hv', hvv⟩ := h v hv
  rw [hv] at hv'; cases hv'; exact hvv

theorem ELe.toRLe {r r' : Res} (h : ELe r r') (hwf : ∀ v, r = .ok v → VLe v v) : RLe r r' :=
  fun v hv => ⟨v, h v hv, hwf v hv⟩

end Fadl
