/-
  Binding the parameters of a called lambda: `bindParams` as an overlay of an association list, and the
  correspondence between that list and the frame the simplifier pushes.
-/
import Fadl.Lemmas.SimpSem
namespace Fadl
set_option linter.unusedSimpArgs false

/-- last binding of a key wins (the order of `dict.update`, of `Env.upd` in sequence, and of `frameLookup`) -/
def assocLast {α : Type} (y : String) : List (String × α) → Option α
  | [] => Option.none
  | (k, v) :: rest => match assocLast y rest with
    | some r => some r
    | Option.none => if k = y then some v else Option.none

theorem frameLookup_eq_assocLast (x : String) (f : SFrame) : frameLookup x f = assocLast x f := by
  induction f with
  | nil => rfl
  | cons p rest ih => obtain ⟨k, v⟩ := p; simp only [frameLookup, assocLast, ih]; cases assocLast x rest <;> rfl

theorem assocLast_none_iff {α : Type} (y : String) : ∀ (l : List (String × α)), assocLast y l = Option.none ↔ y ∉ l.map (·.1)
  | [] => by simp [assocLast]
  | (k, v) :: rest => by
    simp only [assocLast, List.map_cons, List.mem_cons, not_or]
    cases h : assocLast y rest with
    | some r =>
      have : ¬ y ∉ rest.map (·.1) := fun hh => by
        have := (assocLast_none_iff y rest).mpr hh; rw [h] at this; cases this
      simp only [reduceCtorEq, false_iff, not_and]
      intro _; exact this
    | none =>
      have := (assocLast_none_iff y rest).mp h
      by_cases hk : k = y
      · simp [hk]
      · have hk' : ¬ y = k := fun hh => hk hh.symm
        simp [hk, hk', this]

def overlay (l : List (String × Val)) (env : Env) : Env := l.foldl (fun e p => e.upd p.1 p.2) env

theorem overlay_lookup : ∀ (l : List (String × Val)) (env : Env) (y : String),
    overlay l env y = match assocLast y l with | some v => some v | Option.none => env y
  | [], env, y => rfl
  | (k, v) :: rest, env, y => by
    simp only [overlay, List.foldl]
    have := overlay_lookup rest (env.upd k v) y
    simp only [overlay] at this
    rw [this]
    simp only [assocLast]
    cases assocLast y rest with
    | some r => rfl
    | none =>
      simp only [Env.upd]
      by_cases hk : k = y
      · subst hk; simp
      · have : ¬ y = k := fun h => hk h.symm
        simp [hk, this]

theorem overlay_append (a b : List (String × Val)) (env : Env) : overlay (a ++ b) env = overlay b (overlay a env) := by
  simp [overlay, List.foldl_append]

/-! ### `bindPos`, `bindKw`, `bindParams` -/

theorem bindPos_char : ∀ (ps : List String) (vs : List Val) (env env1 : Env) (rest : List String),
    bindPos env ps vs = .ok (env1, rest) →
    vs.length ≤ ps.length ∧ rest = ps.drop vs.length ∧ env1 = overlay ((ps.take vs.length).zip vs) env
  | ps, [], env, env1, rest, h => by
    simp only [bindPos, Except.ok.injEq, Prod.mk.injEq] at h
    obtain ⟨rfl, rfl⟩ := h
    simp [overlay]
  | [], _ :: _, env, env1, rest, h => by simp [bindPos] at h
  | p :: ps, v :: vs, env, env1, rest, h => by
    simp only [bindPos] at h
    obtain ⟨h1, h2, h3⟩ := bindPos_char ps vs _ env1 rest h
    refine ⟨by simp; omega, by simpa using h2, ?_⟩
    simp only [List.length_cons, List.take_succ_cons, List.zip_cons_cons, overlay, List.foldl]
    exact h3

theorem bindKw_char : ∀ (ks : List String) (vs : List Val) (ps : List String) (env env2 : Env) (rest2 : List String),
    bindKw ps env ks vs = .ok (env2, rest2) →
    ks.length = vs.length ∧ env2 = overlay (ks.zip vs) env ∧ (∀ k ∈ ks, k ∈ ps) ∧ (∀ p ∈ ps, p ∈ ks ∨ p ∈ rest2) ∧
    (distinctS ps = true → distinctS ks = true)
  | [], [], ps, env, env2, rest2, h => by
    simp only [bindKw, Except.ok.injEq, Prod.mk.injEq] at h
    obtain ⟨rfl, rfl⟩ := h
    simp [overlay, distinctS]
  | [], _ :: _, ps, env, env2, rest2, h => by simp [bindKw] at h
  | _ :: _, [], ps, env, env2, rest2, h => by simp [bindKw] at h
  | k :: ks, v :: vs, ps, env, env2, rest2, h => by
    simp only [bindKw] at h
    by_cases hk : k ∈ ps
    · simp only [hk, if_true] at h
      obtain ⟨h1, h2, h3, h4, h5⟩ := bindKw_char ks vs (ps.erase k) _ env2 rest2 h
      refine ⟨by simp [h1], ?_, ?_, ?_, ?_⟩
      · simp only [List.zip_cons_cons, overlay, List.foldl]; exact h2
      · intro k' hk'
        rcases List.mem_cons.mp hk' with rfl | hk'
        · exact hk
        · exact List.mem_of_mem_erase (h3 k' hk')
      · intro p hp
        by_cases hpk : p = k
        · left; simp [hpk]
        · rcases h4 p ((List.mem_erase_of_ne hpk).mpr hp) with h | h
          · left; exact List.mem_cons_of_mem _ h
          · right; exact h
      · intro hd
        rw [distinctS_cons]
        have hnd : ps.Nodup := by
          clear h h1 h2 h3 h4 h5 hk
          induction ps with
          | nil => exact List.nodup_nil
          | cons a as ih => rw [distinctS_cons] at hd; exact List.nodup_cons.mpr ⟨hd.1, ih hd.2⟩
        have herase : distinctS (ps.erase k) = true := by
          have : (ps.erase k).Nodup := hnd.erase k
          clear h h1 h2 h3 h4 h5
          generalize ps.erase k = l at this
          induction l with
          | nil => rfl
          | cons a as ih => rw [distinctS_cons]; rw [List.nodup_cons] at this; exact ⟨this.1, ih this.2⟩
        refine ⟨?_, h5 herase⟩
        intro hkk
        have := h3 k hkk
        exact (List.Nodup.mem_erase_iff hnd).mp this |>.1 rfl
    · simp [hk] at h

/-- what a successful binding of the parameters of a called lambda means -/
theorem bindParams_char (ps : List String) (vs : List Val) (kwn : List String) (kvs : List Val) (env env1 : Env)
    (h : bindParams ps vs kwn kvs env = .ok env1) :
    distinctS ps = true ∧ vs.length ≤ ps.length ∧ kwn.length = kvs.length ∧
    env1 = overlay (((ps.take vs.length).zip vs) ++ (kwn.zip kvs)) env ∧
    (∀ k ∈ kwn, k ∈ ps.drop vs.length) ∧ (∀ p ∈ ps.drop vs.length, p ∈ kwn) ∧ distinctS kwn = true := by
  unfold bindParams at h
  rcases (Bool.eq_false_or_eq_true (distinctS ps)).symm with hd | hd
  · simp [hd] at h
  · simp only [hd, Bool.not_true, Bool.false_eq_true, if_false] at h
    cases h1 : bindPos env ps vs with
    | error e => simp [h1, bind, Except.bind] at h
    | ok r1 =>
      obtain ⟨e1, rest⟩ := r1
      simp only [h1, bind, Except.bind] at h
      obtain ⟨hlen, hrest, he1⟩ := bindPos_char ps vs env e1 rest h1
      cases h2 : bindKw rest e1 kwn kvs with
      | error e => simp [h2] at h
      | ok r2 =>
        obtain ⟨e2, rest2⟩ := r2
        simp only [h2] at h
        by_cases hr : rest2.isEmpty
        · simp only [hr, if_true, pure, Except.pure, Except.ok.injEq] at h
          subst h
          have hdrest : distinctS rest = true := by
            rw [hrest]
            clear h1 h2 he1 hrest hr hlen
            generalize vs.length = n
            induction n generalizing ps with
            | zero => simpa using hd
            | succ n ih =>
              cases ps with
              | nil => rfl
              | cons a as => rw [distinctS_cons] at hd; simpa using ih as hd.2
          obtain ⟨k1, k2, k3, k4, k5⟩ := bindKw_char kwn kvs rest e1 e2 rest2 h2
          have hr2 : rest2 = [] := List.isEmpty_iff.mp hr
          refine ⟨hd, hlen, k1, ?_, ?_, ?_, k5 hdrest⟩
          · rw [overlay_append, ← he1]; exact k2
          · intro k hk; rw [← hrest]; exact k3 k hk
          · intro p hp
            rw [← hrest] at hp
            rcases k4 p hp with h | h
            · exact h
            · rw [hr2] at h; cases h
        · simp [hr] at h

/-! ### association lists with renamed keys, and with two payloads -/

theorem assocLast_mapKeys {α : Type} (f : String → String) (y : String) : ∀ (l : List (String × α)),
    (∀ k ∈ l.map (·.1), f k = f y → k = y) →
    assocLast (f y) (l.map (fun p => (f p.1, p.2))) = assocLast y l
  | [], _ => rfl
  | (k, v) :: rest, h => by
    simp only [List.map_cons, assocLast]
    rw [assocLast_mapKeys f y rest (fun k' hk' => h k' (List.mem_cons_of_mem _ hk'))]
    cases assocLast y rest with
    | some r => rfl
    | none =>
      simp only []
      by_cases hk : k = y
      · subst hk; simp
      · have : ¬ f k = f y := fun hh => hk (h k (by simp) hh)
        simp [hk, this]

/-- both payloads of a key are found at the same entry -/
theorem assocLast_pair {α β : Type} (k : String) : ∀ (T : List (String × α × β)) (v : α) (a : β),
    assocLast k (T.map (fun t => (t.1, t.2.1))) = some v → assocLast k (T.map (fun t => (t.1, t.2.2))) = some a →
    (k, v, a) ∈ T
  | [], v, a, h, _ => by simp [assocLast] at h
  | (k0, v0, a0) :: rest, v, a, h1, h2 => by
    simp only [List.map_cons, assocLast] at h1 h2
    cases hr1 : assocLast k (rest.map (fun t => (t.1, t.2.1))) with
    | some r1 =>
      cases hr2 : assocLast k (rest.map (fun t => (t.1, t.2.2))) with
      | some r2 =>
        rw [hr1] at h1; rw [hr2] at h2
        simp only [Option.some.injEq] at h1 h2; subst h1 h2
        exact List.mem_cons_of_mem _ (assocLast_pair k rest _ _ hr1 hr2)
      | none =>
        exfalso
        have := (assocLast_none_iff k _).mp hr2
        have h' : k ∈ (rest.map (fun t => (t.1, t.2.1))).map (·.1) := by
          apply Decidable.byContradiction
          intro hc
          have := (assocLast_none_iff k _).mpr hc
          rw [hr1] at this; cases this
        simp only [List.map_map] at this h'
        exact this h'
    | none =>
      cases hr2 : assocLast k (rest.map (fun t => (t.1, t.2.2))) with
      | some r2 =>
        exfalso
        have := (assocLast_none_iff k _).mp hr1
        have h' : k ∈ (rest.map (fun t => (t.1, t.2.2))).map (·.1) := by
          apply Decidable.byContradiction
          intro hc
          have := (assocLast_none_iff k _).mpr hc
          rw [hr2] at this; cases this
        simp only [List.map_map] at this h'
        exact this h'
      | none =>
        rw [hr1] at h1; rw [hr2] at h2
        by_cases hk : k0 = k
        · simp only [hk, if_true, Option.some.injEq] at h1 h2
          subst h1 h2 hk
          simp
        · simp [hk] at h1

theorem overlay_wf : ∀ (l : List (String × Val)) (env : Env), EnvLe env env → (∀ p ∈ l, VLe p.2 p.2) → EnvLe (overlay l env) (overlay l env)
  | [], env, h, _ => h
  | (k, v) :: rest, env, h, hl => by
    simp only [overlay, List.foldl]
    exact overlay_wf rest (env.upd k v) (h.upd k (hl (k, v) (by simp))) (fun p hp => hl p (List.mem_cons_of_mem _ hp))

theorem overlay_not_key (l : List (String × Val)) (env : Env) (y : String) (h : y ∉ l.map (·.1)) : overlay l env y = env y := by
  rw [overlay_lookup, (assocLast_none_iff y l).mpr h]

theorem renGet_zip_fwd (ps ns : List String) (hd : distinctS ps = true) (i : Nat) (p n : String)
    (hp : ps[i]? = some p) (hn : ns[i]? = some n) : renGet p (ps.zip ns) = some n := by
  have hmem : (p, n) ∈ ps.zip ns := by
    rw [List.mem_iff_getElem?]
    exact ⟨i, by simp [List.getElem?_zip_eq_some, hp, hn]⟩
  have hfun : ∀ n', (p, n') ∈ ps.zip ns → n' = n := by
    intro n' hn'
    rw [List.mem_iff_getElem?] at hn'
    obtain ⟨j, hj⟩ := hn'
    rw [List.getElem?_zip_eq_some] at hj
    have := distinctS_index hd i j p hp hj.1
    subst this
    have h2 := hj.2
    simp only at h2
    rw [hn] at h2; cases h2; rfl
  exact renGet_of_mem_functional p n _ hmem hfun

end Fadl
