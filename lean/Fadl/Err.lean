/-
  Error kinds shared by all models.  The models reproduce the exceptions the Python code raises,
  classified the way the harness classifies real exceptions (harness/impl.py: `classify_exc`).
-/
namespace Fadl

inductive Err where
  | valueError (tag : String)      -- Python `ValueError`: the designed refusals
  | indexError                      -- `FuncADLIndexError`
  | internal (pyExc : String)       -- AttributeError / KeyError / TypeError / AssertionError / IndexError ...
  | malformed                       -- the code would build a node Python cannot unparse / compile
  | fuel                            -- model ran out of fuel (never a Python behaviour)
  | unsupported (what : String)     -- input outside the modelled fragment (case is skipped)
  deriving Repr, DecidableEq, Inhabited

def Err.render : Err → String
  | .valueError _ => "ValueError"
  | .indexError => "FuncADLIndexError"
  | .internal e => "internal:" ++ e
  | .malformed => "malformed"
  | .fuel => "fuel"
  | .unsupported w => "unsupported:" ++ w

end Fadl
