/-
  Free names of an expression (relative to a list of names that are already bound).
  Binders: lambda parameters (over the body) and comprehension targets (over element and
  conditions, not over the iterable).
-/
import Fadl.Model.Called
namespace Fadl

mutual
def freeNames (bound : List String) : Expr → List String
  | .name x => if bound.contains x then [] else [x]
  | .const _ => []
  | .attr v _ => freeNames bound v
  | .call f args _ kwv => freeNames bound f ++ freeNamesL bound args ++ freeNamesL bound kwv
  | .lam ps b => freeNames (ps ++ bound) b
  | .sub v s => freeNames bound v ++ freeNames bound s
  | .tuple es => freeNamesL bound es
  | .list es => freeNamesL bound es
  | .dict ks vs => freeNamesL bound ks ++ freeNamesL bound vs
  | .op _ args => freeNamesL bound args
  | .comp _ e t i ifs _ =>
    freeNames (targetNames t ++ bound) e ++ freeNames bound i ++ freeNamesL (targetNames t ++ bound) ifs
def freeNamesL (bound : List String) : List Expr → List String
  | [] => []
  | e :: es => freeNames bound e ++ freeNamesL bound es
end

/-- free names of a closed-context expression -/
def fv (e : Expr) : List String := freeNames [] e

end Fadl
