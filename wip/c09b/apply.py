p='/verif/lean/Fadl.lean'
s=open(p).read()
if "Fadl.Model.StreamQuery" not in s:
    s=s.replace("import Fadl.Model.ElabSpec\n","import Fadl.Model.ElabSpec\nimport Fadl.Model.StreamQuery\n")
    open(p,'w').write(s)
p='/verif/lean/Driver.lean'
s=open(p).read()
if '"streamOpQuery"' not in s:
    old='''  | "untypedHyp", [m, ty, lam] =>'''
    new='''  | "streamOpQuery", [m, op, src, ty, lam] =>
    -- the query of the stream a typed operator returns (Model/StreamQuery.lean): MetaData wrappers on the source, then the operator
    match parseModel m, parseExpr src, (SExpr.parse ty).bind parseTy, parseExpr lam with
    | some m, some src, some ty, some lam => (match streamOpQuery m op src ty lam with
      | .ok (q, t, log) => "ok\\t" ++ (SExpr.list [q.toSExpr, renderTy t, strsToSExpr log]).render
      | .error err => "err\\t" ++ err.render)
    | _, _, _, _ => bad
  | "untypedHyp", [m, ty, lam] =>'''
    assert old in s
    s=s.replace(old,new,1)
    open(p,'w').write(s)
p='/verif/harness/typed.py'
s=open(p).read()
if "streamOpQuery" not in s:
    old='''            elab_reqs.append(("streamOpElab", [model, '(cls "Evt" ())', lam_enc]))
'''
    new='''            elab_reqs.append(("streamOpElab", [model, '(cls "Evt" ())', lam_enc]))
            query_reqs.append(("streamOpQuery", [model, op, enc(ds.query_ast), '(cls "Evt" ())', lam_enc]))
            query_want.append(("ok", f"({enc(got[1].query_ast)} {ty_sexpr(got[1].item_type, ns)} ({' '.join(q(t[0]) for t in log)}))") if got[0] == "ok" else None)
'''
    assert old in s
    s=s.replace(old,new)
    s=s.replace("        reqs, keep, spec_reqs, eff_reqs, elab_reqs = [], [], [], [], []\n","        reqs, keep, spec_reqs, eff_reqs, elab_reqs, query_reqs, query_want = [], [], [], [], [], [], []\n")
    old2='''        # ---- the declared callback sites `effOf`'''
    new2='''        # ---- the whole query of the returned stream (Model/StreamQuery.lean): the MetaData wrappers sit on the source, one per
        # attached dictionary, later ones outside, and the operator is applied to that (C09: placement)
        qres = ctx.driver.batch(query_reqs)
        for (case, _), want_q, (st, payload) in zip(keep, query_want, qres):
            if want_q is None:
                continue
            ctx.dist["spec:whole-query-compared"] += 1
            if (st, payload) != want_q:
                ctx.disagree("streamOpQuery", {k: v for k, v in case.items() if k != "class_model"}, want_q[1][:500], (st, payload[:500]))
        # ---- the declared callback sites `effOf`'''
    assert old2 in s
    s=s.replace(old2,new2,1)
    open(p,'w').write(s)
p='/verif/harness/props/c09.py'
s=open(p).read()
if "extract_streamOpQuery" not in s:
    s=s.replace('THEOREMS = [','THEOREMS = ["extract_streamOpQuery", "extractMD_wrapMd", ',1)
    s=s.replace('LEANCHECKER_MODULES = [','LEANCHECKER_MODULES = ["Fadl.Props.C09Placement", ',1)
    s=s.replace("Direction proved: follower accepts => effects are the declared ones","Placement (Props/C09Placement.lean, Model/StreamQuery.lean): extract_streamOpQuery - the query the operator returns is the operator applied to the source wrapped in one MetaData call per attached dictionary (later ones outside) and to the elaborated lambda, and extract_metadata (the function backends call, C15) finds exactly those dictionaries first, last attached first, then what the source carried, then what sits inside the lambda; the whole query AST of the returned stream is compared with streamOpQuery on every accepted generated lambda (unit streamOpQuery). Direction proved: follower accepts => effects are the declared ones")
    open(p,'w').write(s)
print("applied")
