import Fadl.Props.FollowSpec
import Fadl.Props.C13
import Fadl.Model.MetaData
namespace Fadl
set_option linter.unusedSimpArgs false
set_option linter.unusedVariables false

/-- `s.MetaData(d)` for each dictionary a callback attached, in order: a later one wraps the earlier ones -/
def wrapMd (src : Expr) (mds : List PyVal) : Expr := mds.foldl mdCall src

/-- the query of the stream that `Select` / `SelectMany` / `Where` return for a stream whose query is `src` -/
def streamOpQuery (M : Model) (op : String) (src : Expr) (itemTy : Ty) (lam : Expr) : Except Err (Expr × Ty × List String) := do
  let (l, t, st) ← streamOp M op itemTy lam
  pure (fcall op [wrapMd src st.md, l], t, st.log)

theorem wrapMd_append (src : Expr) (a b : List PyVal) : wrapMd src (a ++ b) = wrapMd (wrapMd src a) b := by
  simp [wrapMd, List.foldl_append]

/-- what `extract_metadata` finds on a source that callbacks wrapped: their dictionaries, last attached first, then what
    the source itself carries -/
theorem extractMD_wrapMd : ∀ (mds : List PyVal) (src : Expr) (acc : List PyVal), (∀ d ∈ mds, WFVal d = true) →
    extractMD acc (wrapMd src mds) = extractMD (acc ++ mds.reverse) src
  | [], src, acc, _ => by simp [wrapMd]
  | d :: ds, src, acc, hw => by
    have hd : WFVal d = true := hw d List.mem_cons_self
    have h1 : wrapMd src (d :: ds) = wrapMd (mdCall src d) ds := rfl
    rw [h1, extractMD_wrapMd ds (mdCall src d) acc (fun x hx => hw x (List.mem_cons_of_mem _ hx))]
    simp only [mdCall, fcall, extractMD, isNameOf, beq_self_eq_true, if_true, asAst_exact d hd, bind, Except.bind]
    simp [List.reverse_cons, List.append_assoc]

/-- **C09 (the MetaData reaches the backend)**: for the query `Select` / `SelectMany` / `Where` return, `extract_metadata`
    finds first the dictionaries the callbacks of this lambda attached (last attached first), then whatever the source
    carries, then what sits inside the emitted lambda; and the query it returns is the operator applied to the stripped
    source. -/
theorem extract_streamOpQuery (M : Model) (op : String) (src : Expr) (itemTy : Ty) (x : String) (body : Expr)
    (q : Expr) (t : Ty) (log : List String)
    (h : streamOpQuery M op src itemTy (.lam [x] body) = .ok (q, t, log))
    (hw : ∀ d ∈ (streamOpEff M itemTy x body).md, WFVal d = true) (hop : isNameOf "MetaData" (.name op) = false) :
    q = fcall op [wrapMd src (streamOpEff M itemTy x body).md, streamOpElab M itemTy x body] ∧
    log = (streamOpEff M itemTy x body).log ∧
    extractMetadata q = (do
      let (src', acc) ← extractMD ((streamOpEff M itemTy x body).md.reverse) src
      let (l', acc) ← extractMD acc (streamOpElab M itemTy x body)
      pure (fcall op [src', l'], acc)) := by
  simp only [streamOpQuery] at h
  replace h := bindE_ok h
  obtain ⟨⟨l, t', st⟩, hs, h⟩ := h
  simp only [pure, Except.pure, Except.ok.injEq, Prod.mk.injEq] at h
  obtain ⟨rfl, rfl, rfl⟩ := h
  have h1 := streamOp_emits_elab M op itemTy x body l t' st hs
  have h3 := streamOp_effects_are_declared M op itemTy x body l t' st hs
  subst h1; subst h3
  refine ⟨rfl, rfl, ?_⟩
  simp only [extractMetadata, fcall, extractMD, hop, Bool.false_eq_true, if_false, extractMDL, bind, Except.bind,
    pure, Except.pure]
  rw [extractMD_wrapMd _ src [] hw]
  simp only [List.nil_append]
  cases extractMD (streamOpEff M itemTy x body).md.reverse src with
  | error e => rfl
  | ok r =>
    obtain ⟨s', a⟩ := r
    simp only []
    cases extractMD a (streamOpElab M itemTy x body) with
    | error e => rfl
    | ok r2 => rfl

end Fadl
