import Fadl.Model.SimplifyCk
namespace Fadl

mutual
def simpF : Nat → SStack → Nat → Expr → Except Err (Expr × Nat)
  | 0, _, _, _ => .error .fuel
  | fuel + 1, st, c, e =>
    match e with
    | .name x => .ok ((stackLookup x st).getD (.name x), c)
    | .const k => .ok (.const k, c)
    | .lam ps b => do
      let (ps', b', c1) := makeArgsUnique ps b c
      let (b'', c2) ← simpF fuel st c1 b'
      pure (.lam ps' b'', c2)
    | .attr v a =>
      match firstArg? v with
      | some (some first) =>
        let x := argName c
        let select := makeSelect first (.lam [x] (.attr (.name x) a))
        simpF fuel st (c + 1) (fcall "First" [select])
      | some Option.none => .error (.internal "IndexError")
      | Option.none => do
        let (v', c1) ← simpF fuel st c v
        match v' with
        | .dict ks vs =>
          match dictLookup ks vs (.str a) with
          | some r => pure (r, c1)
          | Option.none => pure (.attr v' a, c1)
        | _ =>
          match firstArg? v' with
          | some (some first) =>
            let x := argName c1
            let select := makeSelect first (.lam [x] (.attr (.name x) a))
            simpF fuel st (c1 + 1) (fcall "First" [select])
          | some Option.none => .error (.internal "IndexError")
          | Option.none => pure (.attr v' a, c1)
    | .sub v s => do
      let (v', c1) ← simpF fuel st c v
      let (s', c2) ← simpF fuel st c1 s
      let generic : Except Err (Expr × Nat) :=
        match firstArg? v' with
        | some (some first) =>
          let x := argName c2
          let select := makeSelect first (.lam [x] (.sub (.name x) s'))
          simpF fuel st (c2 + 1) (fcall "First" [select])
        | some Option.none => .error (.internal "IndexError")
        | Option.none => .ok (.sub v' s', c2)
      match s' with
      | .const (.int n) =>
        (match v' with
         | .tuple es =>
           if n ≥ 0 then
             (match es[n.toNat]? with
              | some el => pure (el, c2)
              | Option.none => .error .indexError)
           else generic
         | .list es =>
           if n ≥ 0 then
             (match es[n.toNat]? with
              | some el => pure (el, c2)
              | Option.none => .error .indexError)
           else generic
         | .dict ks vs =>
           (match dictLookup ks vs (.int n) with
            | some r => pure (r, c2)
            | Option.none => pure (.sub v' s', c2))
         | _ => generic)
      | .const (.str k) =>
        (match v' with
         | .dict ks vs =>
           (match dictLookup ks vs (.str k) with
            | some r => pure (r, c2)
            | Option.none => pure (.sub v' s', c2))
         | _ => generic)
      | _ => generic
    | .tuple es => do let (es', c1) ← simpLF fuel st c es; pure (.tuple es', c1)
    | .list es => do let (es', c1) ← simpLF fuel st c es; pure (.list es', c1)
    | .dict ks vs => do
      let (ks', c1) ← simpLF fuel st c ks
      let (vs', c2) ← simpLF fuel st c1 vs
      pure (.dict ks' vs', c2)
    | .op k args => do let (as', c1) ← simpLF fuel st c args; pure (.op k as', c1)
    | .comp kind el t i ifs a => do
      let (el', c1) ← simpF fuel st c el
      let (t', c2) ← simpF fuel st c1 t
      let (i', c3) ← simpF fuel st c2 i
      let (ifs', c4) ← simpLF fuel st c3 ifs
      pure (.comp kind el' t' i' ifs' a, c4)
    | .call f args kwn kwv =>
      let generic (head : Except Err (Expr × Nat)) : Except Err (Expr × Nat) := do
        let (f', c1) ← head
        let (as', c2) ← simpLF fuel st c1 args
        let (ks', c3) ← simpLF fuel st c2 kwv
        pure (.call f' as' kwn ks', c3)
      match f with
      | .lam ps body =>
        let npos := args.length
        if !distinctS ps || npos > ps.length || !distinctS kwn || !sameSet kwn (ps.drop npos) then generic (simpF fuel st c f)
        else do
          let (ps', body', c1) := makeArgsUnique ps body c
          let (as', c2) ← simpLF fuel st c1 args
          let (ks', c3) ← simpLF fuel st c2 kwv
          let ren := ps.zip ps'
          let frame : SFrame :=
            ((ps'.take npos).zip as') ++ (kwn.zip ks').map (fun p => ((renGet p.1 ren).getD p.1, p.2))
          simpF fuel (frame :: st) c3 body'
      | .attr v m =>
        match firstArg? v with
        | some (some seq) =>
          let x := argName c
          let call := Expr.call (.attr (.name x) m) args kwn kwv
          let select := makeSelect seq (.lam [x] call)
          simpF fuel st (c + 1) (fcall "First" [select])
        | some Option.none => .error (.internal "IndexError")
        | Option.none =>
          -- a method head: visited as an attribute (dictionary fields are resolved), never taken out of a First
          let head : Except Err (Expr × Nat) := do
            let (v', c1) ← simpF fuel st c v
            match v' with
            | .dict ks vs =>
              match dictLookup ks vs (.str m) with
              | some r => pure (r, c1)
              | Option.none => pure (.attr v' m, c1)
            | _ => pure (.attr v' m, c1)
          generic head
      | .name n =>
        if n = "Select" then callSelectF fuel st c args kwn kwv
        else if n = "SelectMany" then callSelectManyF fuel st c args kwn kwv
        else if n = "Where" then callWhereF fuel st c args kwn kwv
        else generic (simpF fuel st c f)
      | _ => generic (simpF fuel st c f)
def simpLF : Nat → SStack → Nat → List Expr → Except Err (List Expr × Nat)
  | 0, _, _, _ => .error .fuel
  | _ + 1, _, c, [] => .ok ([], c)
  | fuel + 1, st, c, e :: es => do
    let (e', c1) ← simpF fuel st c e
    let (es', c2) ← simpLF fuel st c1 es
    pure (e' :: es', c2)
def callSelectF : Nat → SStack → Nat → List Expr → List String → List Expr → Except Err (Expr × Nat)
  | 0, _, _, _, _, _ => .error .fuel
  | fuel + 1, st, c, args, _, _ =>
    match args with
    | source :: transform :: _ =>
      if !isLam transform then .error (.internal "AssertionError") else do
        let (parent, c1) ← simpF fuel st c source
        let dflt : Except Err (Expr × Nat) := do
          let (sel, c2) ← simpF fuel st c1 transform
          pure (makeSelect parent sel, c2)
        match opCall? parent with
        | some (n, pargs) =>
          if n = "Select" then
            (match pargs with
             | src :: f :: _ =>
               if !isLam f then .error (.internal "AssertionError") else do
                 let (conv, c2) ← convolute transform f c1
                 let (sel, c3) ← simpF fuel st c2 conv
                 pure (makeSelect src sel, c3)
             | _ => .error (.internal "IndexError"))
          else if n = "SelectMany" then
            (match pargs with
             | src :: f :: _ =>
               (match f with
                | .lam fps fb =>
                  simpF fuel st c1 (fcall "SelectMany" [src, .lam fps (makeSelect fb transform)])
                | _ => .error (.internal "AssertionError"))
             | _ => .error (.internal "IndexError"))
          else dflt
        | Option.none => dflt
    | _ => .error (.internal "IndexError")
def callSelectManyF : Nat → SStack → Nat → List Expr → List String → List Expr → Except Err (Expr × Nat)
  | 0, _, _, _, _, _ => .error .fuel
  | fuel + 1, st, c, args, _, _ =>
    match args with
    | source :: selection :: _ =>
      if !isLam selection then .error (.internal "AssertionError") else do
        let (parent, c1) ← simpF fuel st c source
        let dflt : Except Err (Expr × Nat) := do
          let (sel, c2) ← simpF fuel st c1 selection
          pure (fcall "SelectMany" [parent, sel], c2)
        match opCall? parent with
        | some (n, pargs) =>
          if n = "SelectMany" then
            (match pargs with
             | [seq, f] =>
               (match f with
                | .lam (p :: _) fb =>
                  simpF fuel st c1 (fcall "SelectMany" [seq, .lam [p] (fcall "SelectMany" [fb, selection])])
                | .lam [] _ => .error (.internal "IndexError")
                | _ => .error (.internal "AssertionError"))
             | _ => .error (.internal "AssertionError"))
          else if n = "Select" then
            (match pargs with
             | [seq, f] =>
               if !isLam f then .error (.internal "AssertionError") else do
                 let (conv, c2) ← convolute selection f c1
                 let (sel, c3) ← simpF fuel st c2 conv
                 pure (fcall "SelectMany" [seq, sel], c3)
             | _ => .error (.internal "AssertionError"))
          else dflt
        | Option.none => dflt
    | _ => .error (.internal "IndexError")
def callWhereF : Nat → SStack → Nat → List Expr → List String → List Expr → Except Err (Expr × Nat)
  | 0, _, _, _, _, _ => .error .fuel
  | fuel + 1, st, c, args, _, _ =>
    match args with
    | source :: filter :: _ =>
      if !isLam filter then .error (.internal "AssertionError") else do
        let (parent, c1) ← simpF fuel st c source
        let dflt : Except Err (Expr × Nat) := do
          let (f', c2) ← simpF fuel st c1 filter
          if lambdaIsTrue f' then pure (parent, c2) else pure (fcall "Where" [parent, f'], c2)
        match opCall? parent with
        | some (n, pargs) =>
          if n = "Where" then
            (match pargs with
             | src :: f :: _ =>
               if !isLam f then .error (.internal "AssertionError") else
                 let x := argName c1
                 let conv := Expr.lam [x] (.op .boolAnd [.call f [.name x] [] [], .call filter [.name x] [] []])
                 simpF fuel st (c1 + 1) (fcall "Where" [src, conv])
             | _ => .error (.internal "IndexError"))
          else if n = "Select" then
            (match pargs with
             | src :: f :: _ =>
               if !isLam f then .error (.internal "AssertionError") else do
                 let (conv, c2) ← convolute filter f c1
                 let (w, c3) ← simpF fuel st c2 conv
                 simpF fuel st c3 (makeSelect (fcall "Where" [src, w]) f)
             | _ => .error (.internal "IndexError"))
          else if n = "SelectMany" then
            (match pargs with
             | seq :: f :: _ =>
               (match f with
                | .lam fps fb =>
                  simpF fuel st c1 (fcall "SelectMany" [seq, .lam fps (fcall "Where" [fb, filter])])
                | _ => .error (.internal "AssertionError"))
             | _ => .error (.internal "IndexError"))
          else dflt
        | Option.none => dflt
    | _ => .error (.internal "IndexError")
end

end Fadl
