import Fadl.Props.C03Scan
namespace Fadl
set_option linter.unusedSimpArgs false
set_option linter.unusedVariables false

/-! ### a logical line of operator calls: which candidates the scan records -/

def isLambdaTok (t : Token) : Bool := t.kind == .name && t.text == "lambda"

/-- the tokens between the end of one lambda and the next `lambda` keyword: no `lambda`, no NEWLINE -/
def QuietGap (ts : List Token) : Prop := ∀ t ∈ ts, isLambdaTok t = false ∧ t.kind ≠ .newline

/-- last NAME token of a list (what `find_identifier` remembers as `last_identifier`) -/
def lastName : List Token → Option Token → Option Token
  | [], acc => acc
  | t :: ts, acc => lastName ts (if t.kind = .name then some t else acc)

theorem findIdentifier_gap : ∀ (gap : List Token) (lam : Token) (rest : List Token) (last : Option Token),
    QuietGap gap → isLambdaTok lam = true →
    findIdentifier ["lambda"] false (gap ++ lam :: rest) last = some (lastName gap last, lam, rest)
  | [], lam, rest, last, _, hl => by
    simp only [isLambdaTok, Bool.and_eq_true, beq_iff_eq] at hl
    simp [findIdentifier, hl.1, hl.2, lastName]
  | t :: gap, lam, rest, last, hq, hl => by
    have ht := hq t List.mem_cons_self
    have hq' : QuietGap gap := fun u hu => hq u (List.mem_cons_of_mem _ hu)
    simp only [List.cons_append, findIdentifier, lastName]
    by_cases hn : t.kind = .name
    · have hnl : t.text ≠ "lambda" := by
        have := ht.1; simp only [isLambdaTok, hn, beq_self_eq_true, Bool.true_and, beq_eq_false_iff_ne, ne_eq] at this; exact this
      simp only [hn, if_true, List.contains_cons, List.contains_nil, Bool.or_false, beq_iff_eq, hnl, if_false]
      exact findIdentifier_gap gap lam rest (some t) hq' hl
    · simp only [hn, if_false, ht.2, false_and]
      exact findIdentifier_gap gap lam rest last hq' hl

/-- one operator call on the line: the gap before its `lambda` keyword, the keyword, the body handed to the parser, the
    token that ends it -/
structure CallSeg where
  gap : List Token
  lam : Token
  body : List Token
  stop : Token

def CallSeg.ok (s : CallSeg) : Prop :=
  QuietGap s.gap ∧ isLambdaTok s.lam = true ∧ NoTopStop s.body (0, 0, 0) ∧ depthAfter s.body (0, 0, 0) = (0, 0, 0) ∧
  s.stop.kind = .op ∧ (s.stop.text = "," ∨ s.stop.text = ")") ∧
  sawNewline (s.body.filter (fun t => t.kind != .comment)) = false

/-- the tokens of the segments laid end to end, then the tail of the line -/
def segsTokens : List CallSeg → List Token → List Token
  | [], tail => tail
  | s :: ss, tail => s.gap ++ s.lam :: (s.body ++ s.stop :: segsTokens ss tail)

/-- the candidates of the later segments, keyed by the NAME token before each `lambda` -/
def segsCands : List CallSeg → List (Option String × List Token)
  | [] => []
  | s :: ss => ((lastName s.gap Option.none).map (·.text), s.body.filter (fun t => t.kind != .comment)) :: segsCands ss

/-- **C03 (a line of calls)**: a logical line made of operator calls `… Name ( lambda body stop` laid end to end — each body
    free of top-level `,` / `)` and of newlines, each gap free of `lambda` and NEWLINE — followed by a tail that holds no
    further `lambda` before its NEWLINE: the scan records exactly one candidate per call, keyed by the NAME token that
    precedes its `lambda`, with exactly its own body tokens. -/
theorem scanLine_calls : ∀ (ss : List CallSeg) (fuel : Nat) (key : Option Token) (body : List Token) (stop : Token) (tail : List Token),
    (∀ s ∈ ss, s.ok) → ss.length < fuel →
    NoTopStop body (0, 0, 0) → depthAfter body (0, 0, 0) = (0, 0, 0) → stop.kind = .op → (stop.text = "," ∨ stop.text = ")") →
    sawNewline (body.filter (fun t => t.kind != .comment)) = false →
    findIdentifier ["lambda"] false tail Option.none = Option.none →
    scanLine fuel key (body ++ stop :: segsTokens ss tail) =
      (key.map (·.text), body.filter (fun t => t.kind != .comment)) :: segsCands ss
  | [], fuel, key, body, stop, tail, _, hf, hn, hd, hk, ht, hnl, htail => by
    cases fuel with
    | zero => simp at hf
    | succ fuel =>
      rw [segsTokens, scanLine_step fuel key body stop tail hn hd hk ht hnl, htail]
      rfl
  | s :: ss, fuel, key, body, stop, tail, hok, hf, hn, hd, hk, ht, hnl, htail => by
    cases fuel with
    | zero => simp at hf
    | succ fuel =>
      obtain ⟨hq, hl, sn, sd, sk, st, snl⟩ := hok s List.mem_cons_self
      rw [segsTokens, scanLine_step fuel key body stop _ hn hd hk ht hnl, findIdentifier_gap s.gap s.lam _ Option.none hq hl]
      simp only [segsCands]
      rw [scanLine_calls ss fuel (lastName s.gap Option.none) s.body s.stop tail
        (fun u hu => hok u (List.mem_cons_of_mem _ hu)) (by simp only [List.length_cons] at hf; omega) sn sd sk st snl htail]

end Fadl

namespace Fadl
set_option linter.unusedSimpArgs false
set_option linter.unusedVariables false

theorem zipIdx_fst_idx {α : Type} : ∀ (l : List α) (n : Nat) (p : α × Nat), p ∈ l.zipIdx n → n ≤ p.2
  | [], _, _, h => by simp at h
  | a :: l, n, p, h => by
    simp only [List.zipIdx_cons, List.mem_cons] at h
    rcases h with rfl | h
    · exact Nat.le_refl _
    · have := zipIdx_fst_idx l (n + 1) p h; omega

theorem zipIdx_pairwise {α : Type} : ∀ (l : List α) (n : Nat), (l.zipIdx n).Pairwise (fun p q => p.2 ≠ q.2)
  | [], _ => by simp
  | a :: l, n => by
    simp only [List.zipIdx_cons, List.pairwise_cons]
    refine ⟨?_, zipIdx_pairwise l (n + 1)⟩
    intro q hq
    have := zipIdx_fst_idx l (n + 1) q hq
    simp only [ne_eq]; omega

/-- **a unique match is picked**: exactly one candidate under the caller's name has the callable's parameter names ⇒ it is
    the one recorded -/
theorem pick_unique_ok (caller : String) (argNames : List String) (cands : List Cand) (i : Nat) (ci : Cand)
    (hi : cands[i]? = some ci) (hk : ci.key = some caller) (hp : ci.params = argNames)
    (huniq : ∀ j cj, cands[j]? = some cj → cj.key = some caller → cj.params = argNames → j = i) :
    pickLambda (some caller) argNames cands = .ok i := by
  unfold pickLambda
  simp only []
  have hmem : (i, ci) ∈ List.filter (fun p => p.2.params == argNames)
      (toSearch (some caller) (cands.zipIdx.map (fun p => (p.2, p.1)))) := by
    rw [List.mem_filter]
    refine ⟨?_, by simpa using hp⟩
    unfold toSearch
    rw [List.mem_filter]
    refine ⟨?_, by simp [hk]⟩
    rw [List.mem_map]
    refine ⟨(ci, i), ?_, rfl⟩
    rw [List.mem_zipIdx_iff_getElem?]
    simpa using hi
  have hall : ∀ p ∈ List.filter (fun p => p.2.params == argNames)
      (toSearch (some caller) (cands.zipIdx.map (fun p => (p.2, p.1)))), p.1 = i := by
    intro p hpm
    rw [List.mem_filter] at hpm
    obtain ⟨hs, hpp⟩ := hpm
    unfold toSearch at hs
    rw [List.mem_filter] at hs
    obtain ⟨hidx, hkey⟩ := hs
    rw [List.mem_map] at hidx
    obtain ⟨q, hq, hqp⟩ := hidx
    rw [List.mem_zipIdx_iff_getElem?] at hq
    subst hqp
    exact huniq q.2 q.1 (by simpa using hq) (by simpa using hkey) (by simpa using hpp)
  have hpw : (List.filter (fun p => p.2.params == argNames)
      (toSearch (some caller) (cands.zipIdx.map (fun p => (p.2, p.1))))).Pairwise (fun p q => p.1 ≠ q.1) := by
    apply List.Pairwise.filter
    unfold toSearch
    apply List.Pairwise.filter
    rw [List.pairwise_map]
    exact zipIdx_pairwise cands 0
  split
  · rename_i hempty
    have : (i, ci) ∈ toSearch (some caller) (cands.zipIdx.map (fun p => (p.2, p.1))) := (List.mem_filter.mp hmem).1
    rw [List.isEmpty_iff.mp hempty] at this; cases this
  · split
    · rename_i hg; rw [hg] at hmem; cases hmem
    · rename_i p hg
      rw [hg] at hmem
      simp only [List.mem_singleton] at hmem
      rw [← hmem]
    · rename_i a b rest hg
      exfalso
      rw [hg] at hall hpw
      have ha := hall a List.mem_cons_self
      have hb := hall b (List.mem_cons_of_mem _ List.mem_cons_self)
      simp only [List.pairwise_cons] at hpw
      exact hpw.1 b List.mem_cons_self (ha.trans hb.symm)

end Fadl
