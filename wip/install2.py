"""install FollowSpec, FuelMono, C18Fuel (run when no check is running)"""
import re
L='/verif/lean/'
open(L+'Fadl/Props/FollowSpec.lean','w').write(open('/verif/wip/spec/FollowSpec.lean').read())
fm=open('/verif/wip/mono/FuelMono.lean').read()
fm='''/-
  The follower model's fuel is irrelevant once it is enough: a result obtained with some fuel is obtained, unchanged, with
  any larger fuel (`follow_fuel_irrelevant`; `follow_fuelMono` through all five mutually recursive functions).  So the
  theorems about `follow M fuel …` do not depend on how the fuel was chosen; that `followFuel` is always enough is
  checked by the correspondence runs only.
-/
'''+fm
open(L+'Fadl/Props/FuelMono.lean','w').write(fm)
sm=open('/verif/wip/mono/SimpMono.lean').read()
sm='''/-
  C18 / C02 — the simplifier model's fuel is irrelevant once it is enough: a result obtained with some fuel is obtained,
  unchanged, with any larger fuel (`simp_fuel_irrelevant`, `simplify_fuel_irrelevant`; `simp_fuelMono` through the visitor
  and call_Select / call_SelectMany / call_Where).  Termination itself (that some fuel is enough for every well-formed
  query) is not proved; the correspondence runs report a fuel failure of the model as a disagreement.
-/
'''+sm
open(L+'Fadl/Props/C18Fuel.lean','w').write(sm)
fp=open(L+'FadlProofs.lean').read().rstrip()
for m in ["Fadl.Props.FollowSpec","Fadl.Props.FuelMono","Fadl.Props.C18Fuel"]:
    if m not in fp:
        fp+="\nimport "+m
open(L+'FadlProofs.lean','w').write(fp+"\n")
def add(pid, names, mods):
    p=f'/verif/harness/props/{pid}.py'
    s=open(p).read()
    for n in names:
        if f'"{n}"' not in s:
            s=s.replace('THEOREMS = [', f'THEOREMS = ["{n}", ',1)
    for m in mods:
        if f'"{m}"' not in s:
            s=s.replace('LEANCHECKER_MODULES = [', f'LEANCHECKER_MODULES = ["{m}", ',1)
    open(p,'w').write(s)
add('c07',["follow_fuel_irrelevant","streamOp_spec_error","streamOp_spec_ok","follow_spec"],["Fadl.Props.FollowSpec","Fadl.Props.FuelMono"])
add('c08',["follow_fuel_irrelevant","streamOp_spec_error","streamOp_spec_ok","follow_spec"],["Fadl.Props.FollowSpec","Fadl.Props.FuelMono"])
add('c09',["streamOp_spec_ok","follow_spec"],["Fadl.Props.FollowSpec"])
add('c10',["follow_fuel_irrelevant"],["Fadl.Props.FuelMono"])
add('c18',["simplify_fuel_irrelevant","simp_fuel_irrelevant","simp_fuelMono"],["Fadl.Props.C18Fuel"])
add('c02',["simplify_fuel_irrelevant"],["Fadl.Props.C18Fuel"])
print("installed")
