namespace Fadl
set_option linter.unusedSimpArgs false
set_option linter.unusedVariables false

/-- the declared parameters a call must carry positionally (`known_types` is the library's own) -/
def declParams (ps : List Param) : List Param := ps.filter (fun p => p.name != "known_types")

theorem fillLoop_full : ∀ (ps : List Param) (i : Nat) (args : List Expr) (kwn : List String) (kwv : List Expr)
    (a : List Expr) (kn : List String) (kv : List Expr),
    fillLoop ps i args kwn kwv = .ok (a, kn, kv) → i ≤ args.length → i + ps.length ≤ a.length ∧ args <+: a
  | [], i, args, kwn, kwv, a, kn, kv, h, hi => by
    simp only [fillLoop, Except.ok.injEq, Prod.mk.injEq] at h
    obtain ⟨rfl, _, _⟩ := h
    exact ⟨by simpa using hi, List.prefix_refl _⟩
  | p :: ps, i, args, kwn, kwv, a, kn, kv, h, hi => by
    simp only [fillLoop] at h
    split at h
    · rename_i hle
      have hlen : args.length = i := by omega
      split at h
      · rename_i e kn' kv' hfk
        obtain ⟨h1, h2⟩ := fillLoop_full ps (i + 1) (args ++ [e]) kn' kv' a kn kv h (by simp; omega)
        exact ⟨by simp only [List.length_cons]; omega, (List.prefix_append args [e]).trans h2⟩
      · split at h
        · rename_i c hd
          obtain ⟨h1, h2⟩ := fillLoop_full ps (i + 1) (args ++ [.const c]) kwn kwv a kn kv h (by simp; omega)
          exact ⟨by simp only [List.length_cons]; omega, (List.prefix_append args [.const c]).trans h2⟩
        · cases h
    · rename_i hgt
      obtain ⟨h1, h2⟩ := fillLoop_full ps (i + 1) args kwn kwv a kn kv h (by omega)
      exact ⟨by simp only [List.length_cons]; omega, h2⟩

/-- **C07 (one call)**: what `_fill_in_default_arguments` returns carries every declared parameter positionally, after
    the positional arguments the user wrote -/
theorem fillDefaults_full (ps : List Param) (f : Expr) (args : List Expr) (kwn : List String) (kwv : List Expr) (c : Expr)
    (h : fillDefaults ps f args kwn kwv = .ok c) :
    ∃ a kn kv, c = .call f a kn kv ∧ (declParams ps).length ≤ a.length ∧ args <+: a := by
  simp only [fillDefaults] at h
  replace h := bindE_ok h
  obtain ⟨⟨a, kn, kv⟩, hl, h⟩ := h
  obtain ⟨h1, h2⟩ := fillLoop_full _ 0 args kwn kwv a kn kv hl (Nat.zero_le _)
  simp only [] at h
  split at h
  · simp only [pure, Except.pure, Except.ok.injEq] at h; subst h
    exact ⟨a, kn, kv, rfl, by simpa [declParams] using h1, h2⟩
  · rename_i heq
    simp only [pure, Except.pure, Except.ok.injEq] at h; subst h
    simp only [ne_eq, Decidable.not_not] at heq
    exact ⟨args, kwn, kwv, rfl, by rw [← heq]; simpa [declParams] using h1, List.prefix_refl _⟩

/-- the call emitted for a deciding candidate names the method on the elaborated receiver and carries every declared
    parameter of that candidate's method positionally -/
def NodeFull (recv : Expr) (m : String) (c : CandElab) : Prop :=
  ∃ a kn kv, c.node = .call (.attr recv m) a kn kv ∧ (declParams c.mi.params).length ≤ a.length

theorem candElab_full (M : Model) : ∀ (fuel : Nat) (G : Gamma) (recv : Expr) (m : String) (args : List Expr)
    (kwn : List String) (kwv : List Expr) (cands : List Ty) (last : Option CandElab),
    (∀ c, last = some c → NodeFull recv m c) →
    ∀ c, candElab M fuel G recv m args kwn kwv cands last = some c → NodeFull recv m c
  | 0, _, _, _, _, _, _, _, _, _, c, h => by simp [candElab] at h
  | fuel + 1, G, recv, m, args, kwn, kwv, [], last, hl, c, h => by
    simp only [candElab] at h; exact hl c h
  | fuel + 1, G, recv, m, args, kwn, kwv, cand :: rest, last, hl, c, h => by
    simp only [candElab] at h
    split at h
    · exact candElab_full M fuel G recv m args kwn kwv rest last hl c h
    · rename_i defining mi hfm
      split at h
      · exact hl c h
      · rename_i filled hfd
        obtain ⟨a, kn, kv, rfl, hlen, _⟩ := fillDefaults_full mi.params (.attr recv m) args kwn kwv filled hfd
        have hstatic : ∀ b, NodeFull recv m ⟨.call (.attr recv m) a kn kv, cand, mi, b⟩ := fun b => ⟨a, kn, kv, rfl, hlen⟩
        have hfol : ∀ n, onStreamElab M fuel G cand m (.call (.attr recv m) a kn kv) = some n →
            NodeFull recv m ⟨n, cand, mi, true⟩ := by
          intro n hn
          cases fuel with
          | zero => simp [onStreamElab] at hn
          | succ fuel' =>
            simp only [onStreamElab] at hn
            split at hn
            · rename_i cn item f' x body kn' kv' heq
              simp only [Expr.call.injEq] at heq
              obtain ⟨rfl, rfl, rfl, rfl⟩ := heq
              split at hn
              · cases hn
                exact ⟨_, _, _, rfl, by simpa using hlen⟩
              · cases hn
            · cases hn
        have hcont : ∀ (L : Option CandElab), (∀ c', L = some c' → NodeFull recv m c') →
            (match onStreamElab M fuel G cand m (.call (.attr recv m) a kn kv) with
              | some n => some (⟨n, cand, mi, true⟩ : CandElab)
              | Option.none => candElab M fuel G recv m args kwn kwv rest L) = some c → NodeFull recv m c := by
          intro L hL hh
          split at hh
          · rename_i n hn; cases hh; exact hfol n hn
          · exact candElab_full M fuel G recv m args kwn kwv rest L hL c hh
        cases hres : resolveRet defining M (mi.ret.getD .any) with
        | some t =>
          simp only [hres, callArgs] at h
          by_cases hLam : a.any isLamArg = true
          · simp only [hLam, Bool.not_true, Bool.not_false, if_true, Bool.false_eq_true, if_false] at h
            exact hcont _ (by intro c' hc'; cases hc'; exact hstatic _) h
          · simp only [Bool.not_eq_true] at hLam
            simp only [hLam, Bool.not_true, Bool.not_false, if_true, Bool.false_eq_true, if_false] at h
            cases h; exact hstatic _
        | none =>
          simp only [hres] at h
          cases last with
          | none =>
            simp only [if_true] at h
            exact hcont _ (by intro c' hc'; cases hc') h
          | some r =>
            by_cases hF : r.full = true
            · simp only [hF, Bool.not_true, Bool.false_eq_true, if_false] at h
              exact hl c h
            · simp only [Bool.not_eq_true] at hF
              simp only [hF, Bool.not_false, if_true, Bool.false_eq_true, if_false] at h
              exact hcont _ hl h

/-- **C07 (a typed call site)**: the call emitted for `recv.m(args, kws)` with `recv : objTy` is either the call as elaborated
    (no candidate declares `m`) or the deciding candidate's call — every declared parameter of its method present
    positionally — handed to the class-level and then the method-level callback. -/
theorem methodElab_full_positional (M : Model) (fuel : Nat) (G : Gamma) (objTy : Ty) (recv : Expr) (m : String)
    (args : List Expr) (kwn : List String) (kwv : List Expr) :
    methodElab M (fuel + 1) G objTy recv m args kwn kwv = .call (.attr recv m) args kwn kwv ∨
    ∃ c : CandElab, NodeFull recv m c ∧
      methodElab M (fuel + 1) G objTy recv m args kwn kwv = applyCbE c.mi.cb (applyCbE (classCbOf M 16 c.cand) c.node) := by
  simp only [methodElab]
  split
  · exact Or.inl rfl
  · rename_i r hr
    exact Or.inr ⟨r, candElab_full M fuel G recv m args kwn kwv _ Option.none (by intro c hc; cases hc) r hr, rfl⟩

/-- **C07 (lambda bodies)**: whenever the follower accepts an expression, the tree it returns is `elabOf` of the expression
    the user wrote — for every class model, environment, stream state and fuel. -/
theorem follow_emits_elab (M : Model) (fuel : Nat) (G : Gamma) (st : FSt) (e : Expr) (r : FRes)
    (h : follow M fuel G st e = .ok r) : r.e = elabOf M fuel G e :=
  (follow_elabSound M fuel).1 G st e r h

/-- **C07 (streams)**: the lambda Select / SelectMany / Where emit -/
theorem streamOp_emits_elab (M : Model) (op : String) (itemTy : Ty) (x : String) (body lam' : Expr) (t : Ty) (st : FSt)
    (h : streamOp M op itemTy (.lam [x] body) = .ok (lam', t, st)) : lam' = streamOpElab M itemTy x body := by
  simp only [streamOp] at h
  replace h := bindE_ok h
  obtain ⟨rb, hrb, h⟩ := h
  replace h := bindE_ok h
  obtain ⟨u, hu, h⟩ := h
  have he := follow_emits_elab M _ _ _ body rb hrb
  have hl : lam' = .lam [x] rb.e := by
    repeat' (split at h)
    all_goals (first | (cases h; done) | (simp only [pure, Except.pure, Except.ok.injEq, Prod.mk.injEq] at h; exact h.1.symm))
  rw [hl, he]; rfl

end Fadl
