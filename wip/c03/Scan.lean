import Fadl.Model.Recover
namespace Fadl
set_option linter.unusedSimpArgs false
set_option linter.unusedVariables false

/-! ### the token scan of `_parse_source_for_lambda` (model additions) -/

def isStopTok (t : Token) : Bool := t.kind == .op && (t.text == "," || t.text == ")")

/-- what `tokens_till` leaves in the tokenizer: the tokens after the stop token it consumed -/
def tokensTillRest : List Token → Int → Int → Int → List Token
  | [], _, _, _ => []
  | t :: ts, p, b, c =>
    if t.kind = .op ∧ (t.text = "," ∨ t.text = ")") ∧ p = 0 ∧ b = 0 ∧ c = 0 then ts
    else
      let p' := if t.kind = .op then (if t.text = "(" then p + 1 else if t.text = ")" then p - 1 else p) else p
      let b' := if t.kind = .op then (if t.text = "[" then b + 1 else if t.text = "]" then b - 1 else b) else b
      let c' := if t.kind = .op then (if t.text = "{" then c + 1 else if t.text = "}" then c - 1 else c) else c
      tokensTillRest ts p' b' c'

theorem tokensTillRest_length : ∀ (ts : List Token) (p b c : Int), (tokensTillRest ts p b c).length ≤ ts.length
  | [], _, _, _ => by simp [tokensTillRest]
  | t :: ts, p, b, c => by
    simp only [tokensTillRest]
    split
    · simp
    · have := tokensTillRest_length ts
        (if t.kind = .op then (if t.text = "(" then p + 1 else if t.text = ")" then p - 1 else p) else p)
        (if t.kind = .op then (if t.text = "[" then b + 1 else if t.text = "]" then b - 1 else b) else b)
        (if t.kind = .op then (if t.text = "{" then c + 1 else if t.text = "}" then c - 1 else c) else c)
      simp only [List.length_cons]; omega

/-- `find_identifier(ids, can_encounter_newline)`: (token before, the identifier token, what is left of the stream) -/
def findIdentifier (ids : List String) (canNewline : Bool) : List Token → Option Token → Option (Option Token × Token × List Token)
  | [], _ => Option.none
  | t :: ts, last =>
    if t.kind = .name then
      if ids.contains t.text then some (last, t, ts)
      else findIdentifier ids canNewline ts (some t)
    else if t.kind = .newline ∧ !canNewline then Option.none
    else findIdentifier ids canNewline ts last

theorem findIdentifier_length (ids : List String) (cn : Bool) : ∀ (ts : List Token) (last : Option Token) r,
    findIdentifier ids cn ts last = some r → r.2.2.length < ts.length
  | [], _, r, h => by simp [findIdentifier] at h
  | t :: ts, last, r, h => by
    simp only [findIdentifier] at h
    split at h
    · split at h
      · cases h; simp
      · have := findIdentifier_length ids cn ts _ r h; simp only [List.length_cons]; omega
    · split at h
      · cases h
      · have := findIdentifier_length ids cn ts _ r h; simp only [List.length_cons]; omega

def sawNewline (ts : List Token) : Bool := ts.any (fun t => t.kind == .newline || t.text == "\n")

/-- one `_get_lambda_in_stream`: the tokens handed to the parser after the `lambda` token, whether a newline was seen -/
def lambdaExtent (ts : List Token) : List Token × Bool :=
  let acc := tokensTill ts 0 0 0
  (acc, sawNewline acc)

/-- the loop "grab all the lambdas on a single line": for each lambda met, the NAME token before it (its key) and the
    tokens of its extent, in scan order; `ts` is the stream after the first `lambda` token -/
def scanLine : Nat → Option Token → List Token → List (Option String × List Token)
  | 0, _, _ => []
  | fuel + 1, key, ts =>
    let (acc, nl) := lambdaExtent ts
    let here := (key.map (·.text), acc)
    if nl then [here]
    else
      match findIdentifier ["lambda"] false (tokensTillRest ts 0 0 0) Option.none with
      | some (key', _, rest) => here :: scanLine fuel key' rest
      | Option.none => [here]

/-! ### what the extent scan returns -/

/-- bracket depth after a list of tokens -/
def depthAfter : List Token → Int × Int × Int → Int × Int × Int
  | [], d => d
  | t :: ts, (p, b, c) =>
    depthAfter ts
      (if t.kind = .op then (if t.text = "(" then p + 1 else if t.text = ")" then p - 1 else p) else p,
       if t.kind = .op then (if t.text = "[" then b + 1 else if t.text = "]" then b - 1 else b) else b,
       if t.kind = .op then (if t.text = "{" then c + 1 else if t.text = "}" then c - 1 else c) else c)

/-- no `,` / `)` of the body stands at bracket depth zero (counted from depth `d`) -/
def NoTopStop : List Token → Int × Int × Int → Prop
  | [], _ => True
  | t :: ts, (p, b, c) =>
    ¬ (t.kind = .op ∧ (t.text = "," ∨ t.text = ")") ∧ p = 0 ∧ b = 0 ∧ c = 0) ∧
    NoTopStop ts
      (if t.kind = .op then (if t.text = "(" then p + 1 else if t.text = ")" then p - 1 else p) else p,
       if t.kind = .op then (if t.text = "[" then b + 1 else if t.text = "]" then b - 1 else b) else b,
       if t.kind = .op then (if t.text = "{" then c + 1 else if t.text = "}" then c - 1 else c) else c)

/-- **C03 (extent)**: if the tokens after `lambda` are `body ++ stop :: rest`, no `,` / `)` of `body` stands at bracket
    depth zero, and `stop` is a `,` or `)` met at depth zero, then the scan hands exactly `body` (comments dropped) to the
    parser and leaves `rest` in the tokenizer — whatever follows. -/
theorem tokensTill_extent : ∀ (body : List Token) (stop : Token) (rest : List Token) (p b c : Int),
    NoTopStop body (p, b, c) → depthAfter body (p, b, c) = (0, 0, 0) →
    stop.kind = .op → (stop.text = "," ∨ stop.text = ")") →
    tokensTill (body ++ stop :: rest) p b c = body.filter (fun t => t.kind != .comment) ∧
    tokensTillRest (body ++ stop :: rest) p b c = rest
  | [], stop, rest, p, b, c, _, hd, hk, ht => by
    simp only [depthAfter, Prod.mk.injEq] at hd
    obtain ⟨rfl, rfl, rfl⟩ := hd
    simp [tokensTill, tokensTillRest, hk, ht]
  | t :: body, stop, rest, p, b, c, hn, hd, hk, ht => by
    simp only [NoTopStop] at hn
    obtain ⟨hn1, hn2⟩ := hn
    simp only [depthAfter] at hd
    obtain ⟨ih1, ih2⟩ := tokensTill_extent body stop rest _ _ _ hn2 hd hk ht
    simp only [List.cons_append, tokensTill, tokensTillRest, hn1, if_false]
    constructor
    · by_cases hc : t.kind = .comment
      · have hop : ¬ t.kind = .op := by rw [hc]; decide
        simp only [hop, if_false] at ih1
        simp only [hc, if_true, List.filter_cons]
        simp only [show (TKind.comment = TKind.op) = False from by simp, if_false, ih1]
        simp
      · simp only [hc, if_false, ih1, List.filter_cons]; simp [hc]
    · exact ih2

end Fadl

namespace Fadl
set_option linter.unusedSimpArgs false

/-- **C03 (scan)**: one turn of the loop over the lambdas of a logical line.  If the tokens after a `lambda` keyword are
    `body ++ stop :: rest` with `body` free of top-level `,` / `)` and of newlines, the scan records `(key, body)` for it and
    goes on from `rest`: the next candidate is the next `lambda` NAME token before any NEWLINE, keyed by the NAME token
    that precedes it. -/
theorem scanLine_step (fuel : Nat) (key : Option Token) (body : List Token) (stop : Token) (rest : List Token)
    (hn : NoTopStop body (0, 0, 0)) (hd : depthAfter body (0, 0, 0) = (0, 0, 0))
    (hk : stop.kind = .op) (ht : stop.text = "," ∨ stop.text = ")")
    (hnl : sawNewline (body.filter (fun t => t.kind != .comment)) = false) :
    scanLine (fuel + 1) key (body ++ stop :: rest) =
      (key.map (·.text), body.filter (fun t => t.kind != .comment)) ::
        (match findIdentifier ["lambda"] false rest Option.none with
         | some (key', _, rest') => scanLine fuel key' rest'
         | Option.none => []) := by
  obtain ⟨h1, h2⟩ := tokensTill_extent body stop rest 0 0 0 hn hd hk ht
  simp only [scanLine, lambdaExtent, h1, h2, hnl]
  cases findIdentifier ["lambda"] false rest Option.none with
  | none => simp
  | some r => obtain ⟨a, b, c⟩ := r; simp

/-- a lambda whose extent contains a NEWLINE token ends the scan of the line -/
theorem scanLine_newline (fuel : Nat) (key : Option Token) (ts : List Token)
    (hnl : sawNewline (tokensTill ts 0 0 0) = true) :
    scanLine (fuel + 1) key ts = [(key.map (·.text), tokensTill ts 0 0 0)] := by
  simp [scanLine, lambdaExtent, hnl]

/-- Worked instance: `ds.Select(lambda x: f(x, 1)).Where(lambda y: y[0, 1] > 2)` followed by NEWLINE — the tokens after
    the first `lambda`; two candidates, keyed Select and Where, each with exactly its own tokens. -/
example :
    scanLine 10 (some ⟨.name, "Select"⟩)
      [⟨.name, "x"⟩, ⟨.op, ":"⟩, ⟨.name, "f"⟩, ⟨.op, "("⟩, ⟨.name, "x"⟩, ⟨.op, ","⟩, ⟨.other, "1"⟩, ⟨.op, ")"⟩, ⟨.op, ")"⟩,
       ⟨.op, "."⟩, ⟨.name, "Where"⟩, ⟨.op, "("⟩, ⟨.name, "lambda"⟩, ⟨.name, "y"⟩, ⟨.op, ":"⟩, ⟨.name, "y"⟩, ⟨.op, "["⟩,
       ⟨.other, "0"⟩, ⟨.op, ","⟩, ⟨.other, "1"⟩, ⟨.op, "]"⟩, ⟨.op, ">"⟩, ⟨.other, "2"⟩, ⟨.op, ")"⟩, ⟨.newline, "\n"⟩]
    = [(some "Select", [⟨.name, "x"⟩, ⟨.op, ":"⟩, ⟨.name, "f"⟩, ⟨.op, "("⟩, ⟨.name, "x"⟩, ⟨.op, ","⟩, ⟨.other, "1"⟩, ⟨.op, ")"⟩]),
       (some "Where", [⟨.name, "y"⟩, ⟨.op, ":"⟩, ⟨.name, "y"⟩, ⟨.op, "["⟩, ⟨.other, "0"⟩, ⟨.op, ","⟩, ⟨.other, "1"⟩, ⟨.op, "]"⟩,
          ⟨.op, ">"⟩, ⟨.other, "2"⟩])] := by
  decide

end Fadl
