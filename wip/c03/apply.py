"""apply the C03 scan extension (run when no check is running)"""
import re
L='/verif/lean/'
scan=open('/verif/wip/c03/Scan.lean').read()
# split model / theorems
m_start=scan.index("/-! ### the token scan of `_parse_source_for_lambda` (model additions) -/")
m_end=scan.index("/-! ### what the extent scan returns -/")
model=scan[m_start:m_end]
# lemmas about lengths stay with the model (they are termination-style facts used nowhere else)
rest=scan[m_end:]
rec=open(L+'Fadl/Model/Recover.lean').read().rstrip()
assert rec.endswith("end Fadl")
if "def scanLine" not in rec:
    rec=rec[:-len("end Fadl")]+model+"end Fadl\n"
    open(L+'Fadl/Model/Recover.lean','w').write(rec)
thm='''/-
  C03 — the token scan of `_parse_source_for_lambda`: where a lambda's extent ends and which lambdas of a logical line become
  candidates (the tokens themselves come from CPython's tokenizer, and the extent is handed to CPython's parser: outside).
-/
import Fadl.Props.C03
namespace Fadl
set_option linter.unusedSimpArgs false
set_option linter.unusedVariables false

'''+rest[rest.index("/-- bracket depth after a list of tokens -/"):]
# the file has two namespace blocks; normalise: remove the inner "end Fadl\n\nnamespace Fadl\nset_option linter.unusedSimpArgs false\n"
thm=thm.replace("end Fadl\n\nnamespace Fadl\nset_option linter.unusedSimpArgs false\n","")
open(L+'Fadl/Props/C03Scan.lean','w').write(thm)
fp=open(L+'FadlProofs.lean').read()
if "C03Scan" not in fp:
    open(L+'FadlProofs.lean','w').write(fp.rstrip()+"\nimport Fadl.Props.C03Scan\n")
d=open(L+'Driver.lean').read()
if '"scanLine"' not in d:
    old='''  | "pick", [caller, argNames, cands] =>'''
    new='''  | "scanLine", [key, toks] =>
    -- the loop over the lambdas of a logical line: tokens after the first `lambda` keyword, the NAME token before it
    match SExpr.parse key, SExpr.parse toks with
    | some k, some (.list ts) =>
      let keyO : Option Token := match k with
        | .str s => some ⟨.name, s⟩
        | _ => none
      let kindOf (s : String) : TKind :=
        if s == "name" then .name else if s == "op" then .op else if s == "newline" then .newline
        else if s == "nl" then .nl else if s == "comment" then .comment else .other
      let parsed := ts.mapM (fun x => match x with
        | .list [.atom kd, .str tx] => some ({ kind := kindOf kd, text := tx } : Token)
        | _ => none)
      (match parsed with
       | some tl =>
         let res := scanLine (tl.length + 1) keyO tl
         "ok\\t" ++ (SExpr.list (res.map (fun p => SExpr.list [(match p.1 with | some s => SExpr.str s | none => SExpr.atom "none"),
           SExpr.list (p.2.map (fun t => SExpr.str t.text))]))).render
       | none => bad)
    | _, _ => bad
  | "pick", [caller, argNames, cands] =>'''
    assert old in d
    d=d.replace(old,new,1)
    open(L+'Driver.lean','w').write(d)
# harness
p='/verif/harness/props/c03.py'
s=open(p).read()
if "orig_till" not in s:
    s=s.replace('''        self.orig_find = ua._token_runner.find_identifier
        self.last_key = None
        rec = self
''','''        self.orig_find = ua._token_runner.find_identifier
        self.orig_till = ua._token_runner.tokens_till
        self.last_key = None
        self.extents = []      # per _get_lambda_in_stream: (key, texts of the tokens handed to the parser after `lambda`)
        self.first = None      # (runner, key token, start token) of the scan that found the first `lambda`
        rec = self
''')
    s=s.replace('''            r = rec.orig_find(self_, identifier, can_encounter_newline)
            rec.last_key = r[0].string if r[0] is not None else None
            return r
''','''            r = rec.orig_find(self_, identifier, can_encounter_newline)
            rec.last_key = r[0].string if r[0] is not None else None
            if "def" in identifier and r[1] is not None:
                rec.first = (self_, r[0], r[1])
            return r

        def tokens_till(self_, stop_condition):
            got = []
            rec.extents.append((rec.last_key, got))
            for t in rec.orig_till(self_, stop_condition):
                got.append(t.string)
                yield t
''')
    s=s.replace('''        self.find_identifier, self.get_lambda = find_identifier, get_lambda
''','''        self.find_identifier, self.get_lambda, self.tokens_till = find_identifier, get_lambda, tokens_till

    def scan_request(self):
        "the tokens after the first `lambda` keyword (re-tokenized independently) and the key, for the model's scanLine"
        import tokenize

        if self.first is None or self.first[2].string != "lambda":
            return None
        runner, key_tok, start = self.first
        toks = []
        try:
            for t in tokenize.generate_tokens(self.ua._line_string_reader(runner._source, runner._initial_line).readline):
                toks.append(t)
        except Exception:
            pass  # the tokenizer gave up later than the scan needed (the scan itself would have failed otherwise)
        idx = next((i for i, t in enumerate(toks) if t.start == start.start and t.string == "lambda"), None)
        if idx is None:
            return None
        kinds = {tokenize.NAME: "name", tokenize.OP: "op", tokenize.NEWLINE: "newline", tokenize.NL: "nl", tokenize.COMMENT: "comment"}
        body = " ".join(f"({kinds.get(t.type, 'other')} {q(t.string)})" for t in toks[idx + 1:])
        return [q(key_tok.string) if key_tok is not None else "none", "(" + body + ")"]
''')
    s=s.replace('''        self.ua._get_lambda_in_stream = self.get_lambda
        return self
''','''        self.ua._get_lambda_in_stream = self.get_lambda
        self.ua._token_runner.tokens_till = self.tokens_till
        return self
''')
    s=s.replace('''        self.ua._get_lambda_in_stream = self.orig_get
''','''        self.ua._get_lambda_in_stream = self.orig_get
        self.ua._token_runner.tokens_till = self.orig_till
''')
    s=s.replace('''                reqs.append(("pick", [q(name), "(" + " ".join(q(a) for a in argnames) + ")", cs]))
                keep.append(({"module": text, "operator": name}, want))
''','''                reqs.append(("pick", [q(name), "(" + " ".join(q(a) for a in argnames) + ")", cs]))
                keep.append(({"module": text, "operator": name}, want))
                # ---- correspondence of the token scan: extents and keys of the lambdas of the logical line
                sreq = rec.scan_request()
                if sreq is not None:
                    want_scan = "(" + " ".join(f"({q(k) if k is not None else 'none'} ({' '.join(q(x) for x in texts)}))" for k, texts in rec.extents) + ")"
                    scan_reqs.append(("scanLine", sreq))
                    scan_keep.append(({"module": text, "operator": name}, ("ok", want_scan)))
                    ctx.dist["scan:lines-compared"] += 1
                    ctx.dist[f"scan:lambdas-on-line={min(len(rec.extents), 4)}"] += 1
''')
    s=s.replace('''    reqs, keep = [], []
    n = ctx.n(300, 8000)''','''    reqs, keep = [], []
    scan_reqs, scan_keep = [], []
    n = ctx.n(300, 8000)''')
    s=s.replace('''        if tuple(m) != tuple(want):
            ctx.disagree("pickLambda", case, want, m)
''','''        if tuple(m) != tuple(want):
            ctx.disagree("pickLambda", case, want, m)
    for (case, want), m in zip(scan_keep, ctx.driver.batch(scan_reqs)):
        if tuple(m) != tuple(want):
            ctx.disagree("scanLine", case, want[1][:600], (m[0], m[1][:600]))
''')
    s=s.replace('THEOREMS = [','THEOREMS = ["tokensTill_extent", "scanLine_step", "scanLine_newline", ',1)
    open(p,'w').write(s)
print("applied")
