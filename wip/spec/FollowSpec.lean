/-
  The type follower, specified: the three specifications together.

  For every class model, the model of `Select` / `SelectMany` / `Where` on a typed or untyped stream (`streamOp`) is
  determined by three functions of the declarations and of the lambda the user wrote — `streamOpTy` (the item type, and the
  refusals), `streamOpElab` (the emitted lambda) and `streamOpEff` (MetaData attached, callbacks fired) — up to one thing
  they do not look at: `check_ast`'s refusal of a constant that cannot be transported (`ckErr`).
-/
import Fadl.Props.C07Elab
import Fadl.Props.C08Complete
import Fadl.Props.C09Sound
namespace Fadl

/-- whenever the follower accepts an expression: what it returns -/
theorem follow_spec (M : Model) (fuel : Nat) (G : Gamma) (st : FSt) (e : Expr) (r : FRes)
    (h : follow M fuel G st e = .ok r) :
    r.e = elabOf M fuel G e ∧ tyOf M fuel G e = .ok ⟨r.ty, r.elts⟩ ∧ r.st = st.app (effOf M fuel G e) :=
  ⟨follow_emits_elab M fuel G st e r h, follow_type_is_declared M fuel G st e r h,
   follow_effects_are_declared M fuel G st e r h⟩

/-- **the operators, when the declared-type checker accepts the lambda**: the emitted lambda, the item type and the effects
    are the specified ones — or `check_ast` refuses a constant -/
theorem streamOp_spec_ok (M : Model) (op : String) (itemTy : Ty) (x : String) (body : Expr) (t : Ty)
    (h : streamOpTy M op itemTy x body = .ok t) :
    streamOp M op itemTy (.lam [x] body) = .ok (streamOpElab M itemTy x body, t, streamOpEff M itemTy x body) ∨
    streamOp M op itemTy (.lam [x] body) = .error ckErr := by
  cases hs : streamOp M op itemTy (.lam [x] body) with
  | ok r =>
    left
    obtain ⟨l, t', s⟩ := r
    have h1 := streamOp_emits_elab M op itemTy x body l t' s hs
    have h2 := streamOp_type_is_declared M op itemTy x body l t' s hs
    have h3 := streamOp_effects_are_declared M op itemTy x body l t' s hs
    rw [h] at h2
    simp only [Except.ok.injEq] at h2
    rw [h1, h2, h3]
  | error err =>
    right
    rcases streamOp_refusals_are_declared M op itemTy x body err hs with h2 | h2
    · rw [h] at h2; cases h2
    · rw [h2]

/-- **the operators, when the declared-type checker refuses the lambda**: they refuse, with the same error (or with
    `check_ast`'s, if that comes first) -/
theorem streamOp_spec_error (M : Model) (op : String) (itemTy : Ty) (x : String) (body : Expr) (err : Err)
    (h : streamOpTy M op itemTy x body = .error err) :
    streamOp M op itemTy (.lam [x] body) = .error err ∨ streamOp M op itemTy (.lam [x] body) = .error ckErr := by
  cases hs : streamOp M op itemTy (.lam [x] body) with
  | ok r =>
    obtain ⟨l, t', s⟩ := r
    have h2 := streamOp_type_is_declared M op itemTy x body l t' s hs
    rw [h] at h2; cases h2
  | error err' =>
    rcases streamOp_refusals_are_declared M op itemTy x body err' hs with h2 | h2
    · rw [h] at h2
      simp only [Except.error.injEq] at h2
      left; rw [h2]
    · right; rw [h2]

end Fadl
