import Fadl.Props.C08Sound
namespace Fadl
set_option linter.unusedSimpArgs false
set_option linter.unusedVariables false

/-- `check_ast`'s refusal of a constant that is not transportable (the one refusal the declared-type checker does not see:
    it can be caused by a declared default that the follower filled in) -/
def ckErr : Err := .valueError "Invalid constant type"

theorem bindE_err {α β : Type} {x : Except Err α} {f : α → Except Err β} {err : Err} (h : (x >>= f) = .error err) :
    x = .error err ∨ ∃ a, x = .ok a ∧ f a = .error err := by
  cases x with
  | error e => left; simpa [bind, Except.bind] using h
  | ok a => right; exact ⟨a, rfl, h⟩

mutual
theorem checkAst_err : ∀ (e : Expr) (err : Err), checkAst e = .error err → err = ckErr
  | .name _, err, h => by simp [checkAst] at h
  | .const c, err, h => by
    simp only [checkAst] at h
    split at h
    · cases h
    · cases h; rfl
  | .attr v _, err, h => by simp only [checkAst] at h; exact checkAst_err v err h
  | .call f args _ kwv, err, h => by
    simp only [checkAst] at h
    rcases bindE_err h with h1 | ⟨_, _, h⟩
    · exact checkAst_err f err h1
    · rcases bindE_err h with h1 | ⟨_, _, h⟩
      · exact checkAstL_err args err h1
      · exact checkAstL_err kwv err h
  | .lam _ b, err, h => by simp only [checkAst] at h; exact checkAst_err b err h
  | .sub v s, err, h => by
    simp only [checkAst] at h
    rcases bindE_err h with h1 | ⟨_, _, h⟩
    · exact checkAst_err v err h1
    · exact checkAst_err s err h
  | .tuple es, err, h => by simp only [checkAst] at h; exact checkAstL_err es err h
  | .list es, err, h => by simp only [checkAst] at h; exact checkAstL_err es err h
  | .dict ks vs, err, h => by
    simp only [checkAst] at h
    rcases bindE_err h with h1 | ⟨_, _, h⟩
    · exact checkAstL_err ks err h1
    · exact checkAstL_err vs err h
  | .op _ args, err, h => by simp only [checkAst] at h; exact checkAstL_err args err h
  | .comp _ e t i ifs _, err, h => by
    simp only [checkAst] at h
    rcases bindE_err h with h1 | ⟨_, _, h⟩
    · exact checkAst_err e err h1
    · rcases bindE_err h with h1 | ⟨_, _, h⟩
      · exact checkAst_err t err h1
      · rcases bindE_err h with h1 | ⟨_, _, h⟩
        · exact checkAst_err i err h1
        · exact checkAstL_err ifs err h
theorem checkAstL_err : ∀ (es : List Expr) (err : Err), checkAstL es = .error err → err = ckErr
  | [], err, h => by simp [checkAstL] at h
  | e :: es, err, h => by
    simp only [checkAstL] at h
    rcases bindE_err h with h1 | ⟨_, _, h⟩
    · exact checkAst_err e err h1
    · exact checkAstL_err es err h
end

def TyComplete (M : Model) (fuel : Nat) : Prop :=
  (∀ G st e err, follow M fuel G st e = .error err → tyOf M fuel G e = .error err ∨ err = ckErr) ∧
  (∀ G st es err, followL M fuel G st es = .error err → tyOfL M fuel G es = .error err ∨ err = ckErr) ∧
  (∀ G st objTy recv m args args' kwn kwv kwv' err, SimL args args' → SimL kwv kwv' →
      methodCall M fuel G st objTy recv m args' kwn kwv' = .error err →
      methodTy M fuel G objTy m args kwn kwv = .error err ∨ err = ckErr) ∧
  (∀ G st recv m args args' kwn kwv kwv' cands last last' err, SimL args args' → SimL kwv kwv' → lastRel last last' →
      candLoop M fuel G st recv m args' kwn kwv' cands last' = .error err →
      candTy M fuel G m args kwn kwv cands last = .error err ∨ err = ckErr) ∧
  (∀ G st cand m filled filled' err, CallSim filled filled' →
      onStreamObj M fuel G st cand m filled' = .error err →
      onStreamTy M fuel G cand m filled = .error err ∨ err = ckErr)

/-- lift an error of a sub-computation through the specification's bind -/
theorem orErr_bind {α β : Type} {y : Except Err α} {g : α → Except Err β} {err : Err}
    (h : y = .error err ∨ err = ckErr) : (y >>= g) = .error err ∨ err = ckErr := by
  rcases h with h | h
  · left; rw [h]; rfl
  · right; exact h

macro "err_fin" h:ident : tactic => `(tactic| ((repeat' (split at $h:ident)) <;> first
  | (simp only [pure, Except.pure, reduceCtorEq] at $h:ident; done)
  | (cases $h:ident; rfl)
  | (cases $h:ident; simp_all; done)))

theorem follow_tyComplete (M : Model) : ∀ fuel, TyComplete M fuel := by
  intro fuel
  induction fuel with
  | zero =>
    refine ⟨?_, ?_, ?_, ?_, ?_⟩ <;> intros <;> left <;>
      simp_all [follow, followL, methodCall, candLoop, onStreamObj, tyOf, tyOfL, methodTy, candTy, onStreamTy]
  | succ fuel ih =>
    obtain ⟨ihS, ihL, ihM, ihC, ihO⟩ := ih
    have tyS := (follow_tySound M fuel).1
    have tyL := (follow_tySound M fuel).2.1
    have tyM := (follow_tySound M fuel).2.2.1
    have tyC := (follow_tySound M fuel).2.2.2.1
    have tyO := (follow_tySound M fuel).2.2.2.2
    refine ⟨?_, ?_, ?_, ?_, ?_⟩
    · intro G st e err h
      cases e with
      | name y =>
        simp only [follow] at h
        split at h
        · cases h
        · split at h <;> cases h
      | const k => simp [follow] at h
      | lam ps b => simp [follow] at h
      | attr v a =>
        simp only [follow] at h
        simp only [tyOf]
        replace h := bindE_err h
        rcases h with h1 | ⟨r, hv, h⟩
        · exact orErr_bind (ihS G st v err h1)
        · obtain ⟨tv, sv⟩ := tyS G st v r hv
          left
          simp only [tv, bind, Except.bind]
          split at h
          · rename_i ks' vs' hd
            obtain ⟨ks, vs, rfl, hk, hvs⟩ := Sim_dict_inv sv hd
            simp only []
            rw [← SimL_dictLitIndex a ks ks' 0 hk]
            simp only [bind, Except.bind] at h
            cases hoi : dictLitIndex a ks' 0 with
            | error e => simp only [hoi] at h ⊢; cases h; rfl
            | ok oi =>
              simp only [hoi] at h ⊢
              cases oi with
              | some i =>
                simp only [] at h ⊢
                have hsome := SimL_getElem?_isSome hvs i
                cases h1 : r.elts[i]? <;> cases h2 : vs'[i]? <;> cases h3 : vs[i]? <;>
                  simp only [h1, h2, h3] at h hsome ⊢ <;> first | (simp only [pure, Except.pure, reduceCtorEq] at h; done) | (cases h; rfl) | cases hsome
              | none => simp only [] at h ⊢; err_fin h
          · rename_i hnd
            have hnv := Sim_not_dict sv hnd
            cases v <;> first | exact absurd rfl (hnv _ _) | skip
            all_goals (simp only []; err_fin h)
      | sub v s =>
        simp only [follow] at h
        simp only [tyOf]
        replace h := bindE_err h
        rcases h with h1 | ⟨rv, hv, h⟩
        · exact orErr_bind (ihS G st v err h1)
        · obtain ⟨tv, sv⟩ := tyS G st v rv hv
          replace h := bindE_err h
          rcases h with h1 | ⟨rs, hs, h⟩
          · rcases ihS G rv.st s err h1 with h2 | h2
            · left; simp only [tv, h2, bind, Except.bind]
            · right; exact h2
          · obtain ⟨ts, ss⟩ := tyS G rv.st s rs hs
            left
            simp only [tv, ts, bind, Except.bind]
            split at h
            · rename_i es' hd
              obtain ⟨es, rfl, hes⟩ := Sim_tuple_inv sv hd
              have hlen := SimL_length es es' hes
              simp only []
              split at h
              · rename_i n hc
                have := Sim_const_inv ss hc; subst this
                simp only [hlen] at h ⊢
                by_cases hle : (es.length : Int) ≤ n
                · simp only [hle, if_true] at h ⊢; cases h; rfl
                · simp only [hle, if_false] at h ⊢
                  generalize hidx : (if n < 0 then (es.length : Int) + n else n) = idx at h ⊢
                  have hsome := SimL_getElem?_isSome hes idx.toNat
                  cases h1 : rv.elts[idx.toNat]? <;> cases h2 : es'[idx.toNat]? <;> cases h3 : es[idx.toNat]? <;>
                    simp only [h1, h2, h3] at h hsome ⊢ <;>
                    first | (cases hsome; done) | (cases h; rfl) | (err_fin h)
              · rename_i b hc
                have := Sim_const_inv ss hc; subst this
                simp only [hlen] at h ⊢
                generalize hidx : (if b = true then 1 else 0) = idx at h ⊢
                by_cases hle : es.length ≤ idx
                · simp only [hle, if_true] at h ⊢; cases h; rfl
                · simp only [hle, if_false] at h ⊢
                  have hsome := SimL_getElem?_isSome hes idx
                  cases h1 : rv.elts[idx]? <;> cases h2 : es'[idx]? <;> cases h3 : es[idx]? <;>
                    simp only [h1, h2, h3] at h hsome ⊢ <;>
                    first | (cases hsome; done) | (cases h; rfl) | (err_fin h)
              · rename_i hn1 hn2
                cases h
                split
                · rename_i n; exact absurd (Sim_of_const ss) (hn1 n)
                · rename_i b; exact absurd (Sim_of_const ss) (hn2 b)
                · rfl
            · rename_i hnt
              have hnv := Sim_not_tuple sv hnt
              have hlk : litKey rs.e = litKey s := by simp only [litKey]; exact Sim_literalEval s rs.e ss
              rw [hlk] at h
              cases v <;> first | exact absurd rfl (hnv _) | skip
              all_goals (
                simp only []
                split at h
                · rename_i hdc
                  simp only [hdc, if_true]
                  simp only [bind, Except.bind] at h
                  cases hk : litKey s with
                  | error e => simp only [hk] at h ⊢; cases h; rfl
                  | ok k => simp only [hk] at h ⊢; err_fin h
                · simp only [pure, Except.pure, reduceCtorEq] at h)
      | tuple es =>
        simp only [follow] at h
        simp only [tyOf]
        replace h := bindE_err h
        rcases h with h1 | ⟨r, _, h⟩
        · exact orErr_bind (ihL G st es err h1)
        · simp only [pure, Except.pure, reduceCtorEq] at h
      | list es =>
        simp only [follow] at h
        simp only [tyOf]
        replace h := bindE_err h
        rcases h with h1 | ⟨r, _, h⟩
        · exact orErr_bind (ihL G st es err h1)
        · simp only [pure, Except.pure, reduceCtorEq] at h
      | dict ks vs =>
        simp only [follow] at h
        simp only [tyOf]
        replace h := bindE_err h
        rcases h with h1 | ⟨⟨rk, st1⟩, hk, h⟩
        · exact orErr_bind (ihL G st ks err h1)
        · obtain ⟨tk, sk⟩ := tyL G st ks rk st1 hk
          replace h := bindE_err h
          rcases h with h1 | ⟨⟨rv, st2⟩, hv, h⟩
          · rcases ihL G st1 vs err h1 with h2 | h2
            · left; simp only [tk, h2, bind, Except.bind]
            · right; exact h2
          · obtain ⟨tv, sv⟩ := tyL G st1 vs rv st2 hv
            replace h := bindE_err h
            rcases h with h1 | ⟨kv, _, h⟩
            · left
              have : ks.mapM litKey = .error err := by rw [← SimL_mapM_litKey ks _ sk]; exact h1
              simp only [tk, tv, this, bind, Except.bind]
            · simp only [pure, Except.pure, reduceCtorEq] at h
      | op k args =>
        simp only [follow] at h
        simp only [tyOf]
        replace h := bindE_err h
        rcases h with h1 | ⟨⟨rs, st'⟩, hl, h⟩
        · exact orErr_bind (ihL G st args err h1)
        · obtain ⟨tl, sl⟩ := tyL G st args rs st' hl
          left
          simp only [tl, bind, Except.bind]
          simp only [] at h
          generalize rs.map (·.2) = ts at h ⊢
          have hop : opTy k ts = .error err := by
            simp only [opTy]
            repeat' (split at h)
            all_goals (first | (simp only [pure, Except.pure, reduceCtorEq] at h; done) | skip)
            all_goals (cases h; simp_all)
          simp only [hop]
      | comp kind el t i ifs a =>
        simp only [follow] at h
        simp only [tyOf]
        replace h := bindE_err h
        rcases h with h1 | ⟨r1, g1, h⟩
        · exact orErr_bind (ihS G st el err h1)
        · obtain ⟨t1, _⟩ := tyS G st el r1 g1
          replace h := bindE_err h
          rcases h with h1 | ⟨r2, g2, h⟩
          · rcases ihS G r1.st t err h1 with h2 | h2
            · left; simp only [t1, h2, bind, Except.bind]
            · right; exact h2
          · obtain ⟨t2, _⟩ := tyS G r1.st t r2 g2
            replace h := bindE_err h
            rcases h with h1 | ⟨r3, g3, h⟩
            · rcases ihS G r2.st i err h1 with h2 | h2
              · left; simp only [t1, t2, h2, bind, Except.bind]
              · right; exact h2
            · obtain ⟨t3, _⟩ := tyS G r2.st i r3 g3
              replace h := bindE_err h
              rcases h with h1 | ⟨r4, g4, h⟩
              · rcases ihL G r3.st ifs err h1 with h2 | h2
                · left; simp only [t1, t2, t3, h2, bind, Except.bind]
                · right; exact h2
              · simp only [pure, Except.pure, reduceCtorEq] at h
      | call f args kwn kwv =>
        simp only [follow] at h
        simp only [tyOf]
        replace h := bindE_err h
        rcases h with h1 | ⟨rf, hf, h⟩
        · exact orErr_bind (ihS G st f err h1)
        · have tf := (tyS G st f rf hf).1
          have sf := (tyS G st f rf hf).2
          replace h := bindE_err h
          rcases h with h1 | ⟨⟨as', st1⟩, ha, h⟩
          · rcases ihL G rf.st args err h1 with h2 | h2
            · left; simp only [tf, h2, bind, Except.bind]
            · right; exact h2
          · obtain ⟨ta, sa⟩ := tyL G rf.st args as' st1 ha
            replace h := bindE_err h
            rcases h with h1 | ⟨⟨ks', st2⟩, hk, h⟩
            · rcases ihL G st1 kwv err h1 with h2 | h2
              · left; simp only [tf, ta, h2, bind, Except.bind]
              · right; exact h2
            · obtain ⟨tk, sk⟩ := tyL G st1 kwv ks' st2 hk
              simp only [] at h
              simp only [tf, ta, tk, bind, Except.bind]
              split at h
              · -- a method call
                rename_i recv m recv0 a0 heq
                simp only []
                have hsf := sf
                simp only [Sim] at hsf
                obtain ⟨v', hv', srecv⟩ := hsf
                rw [heq] at hv'
                simp only [Expr.attr.injEq] at hv'
                obtain ⟨rfl, rfl⟩ := hv'
                replace h := bindE_err h
                rcases h with h1 | ⟨rr, hrr, h⟩
                · rcases ihS G st recv0 err h1 with h2 | h2
                  · left; simp only [h2]
                  · right; exact h2
                · have trr := (tyS G st recv0 rr hrr).1
                  simp only [trr]
                  exact ihM G st2 rr.ty recv m args _ kwn kwv _ err sa sk h
              · -- a function called by name
                rename_i f _ _ n heq
                have hfn : f = .name n := by
                  cases f <;> simp only [Sim] at sf <;> simp_all
                subst hfn
                simp only []
                left
                split at h
                · rename_i fi hfi
                  simp only [hfi]
                  have hfd := Sim_fillDefaults fi.params (.name n) (.name n) args _ kwn kwv _ sa sk
                  split at h
                  · rename_i e0 hc
                    rw [hc] at hfd
                    cases hc0 : fillDefaults fi.params (.name n) args kwn kwv with
                    | ok c0 => rw [hc0] at hfd; simp [ERel] at hfd
                    | error e1 => simp only []; cases h; rfl
                  · simp only [pure, Except.pure, reduceCtorEq] at h
                · simp only [pure, Except.pure, reduceCtorEq] at h
              · -- a parameterized property
                rename_i recv pn sl recv0 a0 sl0 heq
                simp only []
                have hsf := sf
                simp only [Sim] at hsf
                obtain ⟨v', s', hv', sv, ssl⟩ := hsf
                obtain ⟨r', hr', srecv⟩ := sv
                rw [heq, hr'] at hv'
                simp only [Expr.sub.injEq, Expr.attr.injEq] at hv'
                obtain ⟨⟨rfl, rfl⟩, rfl⟩ := hv'
                replace h := bindE_err h
                rcases h with h1 | ⟨rr, hrr, h⟩
                · rcases ihS G st recv0 err h1 with h2 | h2
                  · left; simp only [h2]
                  · right; exact h2
                · have trr := (tyS G st recv0 rr hrr).1
                  left
                  simp only [trr]
                  have hlk : litKey sl = litKey sl0 := by simp only [litKey]; exact Sim_literalEval sl0 sl ssl
                  rw [hlk] at h
                  split at h
                  · simp only [pure, Except.pure, reduceCtorEq] at h
                  · rename_i cn cargs hty
                    simp only [hty]
                    split at h
                    · rename_i p hp
                      simp only [hp]
                      split at h
                      · rename_i cb hcb
                        simp only [hcb]
                        simp only [bind, Except.bind] at h
                        cases hkk : litKey sl0 with
                        | error e1 => simp only [hkk] at h ⊢; cases h; rfl
                        | ok kk => simp only [hkk, pure, Except.pure, reduceCtorEq] at h
                      · rename_i hcb
                        simp only [hcb]; cases h; rfl
                    · rename_i hp
                      simp only [hp]; cases h; rfl
                  · simp only [pure, Except.pure, reduceCtorEq] at h
              · -- an immediately called lambda
                rename_i f _ _ ps body heq
                have hfn : f = .lam ps body := Sim_lam_inv sf heq
                subst hfn
                simp only []
                replace h := bindE_err h
                rcases h with h1 | ⟨rb, _, h⟩
                · rcases ihS _ st2 body err h1 with h2 | h2
                  · left; simp only [h2]
                  · right; exact h2
                · simp only [pure, Except.pure, reduceCtorEq] at h
              · simp only [pure, Except.pure, reduceCtorEq] at h
    · intro G st es err h
      cases es with
      | nil => simp [followL] at h
      | cons e rest =>
        simp only [followL] at h
        simp only [tyOfL]
        replace h := bindE_err h
        rcases h with h1 | ⟨r, he, h⟩
        · exact orErr_bind (ihS G st e err h1)
        · obtain ⟨t1, _⟩ := tyS G st e r he
          replace h := bindE_err h
          rcases h with h1 | ⟨rr, _, h⟩
          · rcases ihL G r.st rest err h1 with h2 | h2
            · left; simp only [t1, h2, bind, Except.bind]
            · right; exact h2
          · simp only [pure, Except.pure, reduceCtorEq] at h
    · intro G st objTy recv m args args' kwn kwv kwv' err sa sk h
      simp only [methodCall] at h
      simp only [methodTy]
      replace h := bindE_err h
      rcases h with h1 | ⟨⟨res', st'⟩, _, h⟩
      · exact orErr_bind (ihC G st recv m args args' kwn kwv kwv' _ Option.none Option.none err sa sk
          ⟨rfl, by intro r hr; cases hr⟩ h1)
      · exfalso
        cases res' <;> simp only [pure, Except.pure, reduceCtorEq] at h
    · intro G st recv m args args' kwn kwv kwv' cands last last' err sa sk hrel h
      cases cands with
      | nil => simp [candLoop] at h
      | cons cand rest =>
        simp only [candLoop] at h
        simp only [candTy]
        split at h
        · rename_i hfm
          simp only [hfm]
          exact ihC G st recv m args args' kwn kwv kwv' rest last last' err sa sk hrel h
        · rename_i defining mi hfm
          simp only [hfm]
          have hfd := Sim_fillDefaults mi.params (.name m) (.attr recv m) args args' kwn kwv kwv' sa sk
          replace h := bindE_err h
          rcases h with h1 | ⟨filled', hfd', h⟩
          · left
            rw [h1] at hfd
            cases hfd0 : fillDefaults mi.params (.name m) args kwn kwv with
            | ok c0 => rw [hfd0] at hfd; simp [ERel] at hfd
            | error e1 => rw [hfd0] at hfd; simp only [ERel] at hfd; subst hfd; rfl
          · rw [hfd'] at hfd
            cases hfd0 : fillDefaults mi.params (.name m) args kwn kwv with
            | error e => rw [hfd0] at hfd; simp [ERel] at hfd
            | ok filled =>
              rw [hfd0] at hfd; simp only [ERel] at hfd
              simp only [bind, Except.bind]
              have hcs := hfd
              obtain ⟨f0, f0', fa, fa', kn, kv, kv', rfl, rfl, hfa, hkv⟩ := hfd
              simp only [callArgs] at h ⊢
              simp only [SimL_anyLam fa fa' hfa] at h
              have hfollow : ∀ (L : Option (Ty × Bool)) (L' : Option MRes), lastRel L L' →
                  ((do
                    let followed ← onStreamObj M fuel G st cand m (f0'.call fa' kn kv')
                    match followed with
                      | some (n, t, st') => pure (some ({ node := n, ty := t, full := true, cand := cand, mi := mi } : MRes), st')
                      | Option.none => candLoop M fuel G st recv m args' kwn kwv' rest L') = .error err) →
                  (onStreamTy M fuel G cand m (f0.call fa kn kv) = .error err) ∨
                  (onStreamTy M fuel G cand m (f0.call fa kn kv) = .ok Option.none ∧
                    candTy M fuel G m args kwn kwv rest L = .error err) ∨ err = ckErr := by
                intro L L' hLL hh
                replace hh := bindE_err hh
                rcases hh with h1 | ⟨o', ho, hh⟩
                · rcases ihO G st cand m _ _ err hcs h1 with h2 | h2
                  · exact Or.inl h2
                  · exact Or.inr (Or.inr h2)
                · have to := (tyO G st cand m _ _ o' hcs ho).1
                  cases o' with
                  | none =>
                    simp only [Option.map_none] at to hh
                    rcases ihC G st recv m args args' kwn kwv kwv' rest L L' err sa sk hLL hh with h2 | h2
                    · exact Or.inr (Or.inl ⟨to, h2⟩)
                    · exact Or.inr (Or.inr h2)
                  | some p =>
                    obtain ⟨n, t, s⟩ := p
                    simp only [pure, Except.pure, reduceCtorEq] at hh
              cases hres : resolveRet defining M (mi.ret.getD .any) with
              | some t =>
                simp only [hres] at h ⊢
                by_cases hL : fa.any isLamArg = true
                · simp only [hL, Bool.not_true, Bool.not_false, if_true, Bool.false_eq_true, if_false] at h ⊢
                  rcases hfollow (some (t, false)) (some ⟨f0'.call fa' kn kv', t, false, cand, mi⟩)
                    ⟨rfl, by intro r hr; cases hr; exact ⟨_, _, _, _, rfl⟩⟩ h with h2 | ⟨h2, h3⟩ | h2
                  · left; simp only [h2]
                  · left; simp only [h2]; exact h3
                  · right; exact h2
                · simp only [Bool.not_eq_true] at hL
                  simp only [hL, Bool.not_true, Bool.not_false, if_true, Bool.false_eq_true, if_false, pure, Except.pure,
                    reduceCtorEq] at h
              | none =>
                simp only [hres] at h ⊢
                obtain ⟨hl1, hl2⟩ := hrel
                cases last' with
                | none =>
                  simp only [Option.map_none] at hl1; subst hl1
                  simp only [if_true] at h ⊢
                  rcases hfollow Option.none Option.none ⟨rfl, by intro r hr; cases hr⟩ h with h2 | ⟨h2, h3⟩ | h2
                  · left; simp only [h2]
                  · left; simp only [h2]; exact h3
                  · right; exact h2
                | some r =>
                  simp only [Option.map_some] at hl1; subst hl1
                  by_cases hF : r.full = true
                  · simp only [hF, Bool.not_true, Bool.false_eq_true, if_false, pure, Except.pure, reduceCtorEq] at h
                  · simp only [Bool.not_eq_true] at hF
                    simp only [hF, Bool.not_false, if_true, Bool.false_eq_true, if_false] at h ⊢
                    rcases hfollow (some (r.ty, false)) (some r) ⟨by simp only [Option.map_some, hF], hl2⟩ h
                      with h2 | ⟨h2, h3⟩ | h2
                    · left; simp only [h2]
                    · left; simp only [h2]; exact h3
                    · right; exact h2
    · intro G st cand m filled filled' err hcs h
      simp only [onStreamObj] at h
      obtain ⟨f0, f0', fa, fa', kn0, kv0, kv0', rfl, rfl, hfa, hkv⟩ := hcs
      split at h
      · rename_i cn item f' x body kn kv heq
        simp only [Expr.call.injEq] at heq
        obtain ⟨rfl, rfl, rfl, rfl⟩ := heq
        have := SimL_single_lam_inv hfa; subst this
        simp only [onStreamTy]
        split at h
        · rename_i hcond
          simp only [hcond, if_true]
          replace h := bindE_err h
          rcases h with h1 | ⟨rb, hrb, h⟩
          · exact orErr_bind (ihS _ _ body err h1)
          · have trb := (tyS _ _ body rb hrb).1
            replace h := bindE_err h
            rcases h with h1 | ⟨u, _, h⟩
            · right; exact checkAst_err _ err h1
            · left
              simp only [trb, bind, Except.bind]
              split at h
              · rename_i hw
                simp only [hw, if_true]; cases h; rfl
              · simp only [pure, Except.pure, reduceCtorEq] at h
        · simp only [pure, Except.pure, reduceCtorEq] at h
      · simp only [pure, Except.pure, reduceCtorEq] at h

end Fadl
