import Fadl.Model.SimplifyCk
namespace Fadl

mutual
def simpF : Nat → SStack → Nat → Expr → Except Err (Expr × Nat)
  | 0, _, _, _ => .error .fuel
  | fuel + 1, st, c, e =>
    match e with
    | .name x => .ok ((stackLookup x st).getD (.name x), c)
    | .const k => .ok (.const k, c)
    | .lam ps b => do
      let (ps', b', c1) := makeArgsUnique ps b c
      let (b'', c2) ← simpF fuel st c1 b'
      pure (.lam ps' b'', c2)
    | .attr v a =>
      match firstArg? v with
      | some (some first) =>
        let x := argName c
        let select := makeSelect first (.lam [x] (.attr (.name x) a))
        simpF fuel st (c + 1) (fcall "First" [select])
      | some Option.none => .error (.internal "IndexError")
      | Option.none => do
        let (v', c1) ← simpF fuel st c v
        match v' with
        | .dict ks vs =>
          match dictLookup ks vs (.str a) with
          | some r => pure (r, c1)
          | Option.none => pure (.attr v' a, c1)
        | _ =>
          match firstArg? v' with
          | some (some first) =>
            let x := argName c1
            let select := makeSelect first (.lam [x] (.attr (.name x) a))
            simpF fuel st (c1 + 1) (fcall "First" [select])
          | some Option.none => .error (.internal "IndexError")
          | Option.none => pure (.attr v' a, c1)
    | .sub v s => do
      let (v', c1) ← simpF fuel st c v
      let (s', c2) ← simpF fuel st c1 s
      let generic : Except Err (Expr × Nat) :=
        match firstArg? v' with
        | some (some first) =>
          let x := argName c2
          let select := makeSelect first (.lam [x] (.sub (.name x) s'))
          simpF fuel st (c2 + 1) (fcall "First" [select])
        | some Option.none => .error (.internal "IndexError")
        | Option.none => .ok (.sub v' s', c2)
      match s' with
      | .const (.int n) =>
        (match v' with
         | .tuple es =>
           if n ≥ 0 then
             (match es[n.toNat]? with
              | some el => pure (el, c2)
              | Option.none => .error .indexError)
           else generic
         | .list es =>
           if n ≥ 0 then
             (match es[n.toNat]? with
              | some el => pure (el, c2)
              | Option.none => .error .indexError)
           else generic
         | .dict ks vs =>
           (match dictLookup ks vs (.int n) with
            | some r => pure (r, c2)
            | Option.none => pure (.sub v' s', c2))
         | _ => generic)
      | .const (.str k) =>
        (match v' with
         | .dict ks vs =>
           (match dictLookup ks vs (.str k) with
            | some r => pure (r, c2)
            | Option.none => pure (.sub v' s', c2))
         | _ => generic)
      | _ => generic
    | .tuple es => do let (es', c1) ← simpLF fuel st c es; pure (.tuple es', c1)
    | .list es => do let (es', c1) ← simpLF fuel st c es; pure (.list es', c1)
    | .dict ks vs => do
      let (ks', c1) ← simpLF fuel st c ks
      let (vs', c2) ← simpLF fuel st c1 vs
      pure (.dict ks' vs', c2)
    | .op k args => do let (as', c1) ← simpLF fuel st c args; pure (.op k as', c1)
    | .comp kind el t i ifs a => do
      let (el', c1) ← simpF fuel st c el
      let (t', c2) ← simpF fuel st c1 t
      let (i', c3) ← simpF fuel st c2 i
      let (ifs', c4) ← simpLF fuel st c3 ifs
      pure (.comp kind el' t' i' ifs' a, c4)
    | .call f args kwn kwv =>
      let generic (head : Except Err (Expr × Nat)) : Except Err (Expr × Nat) := do
        let (f', c1) ← head
        let (as', c2) ← simpLF fuel st c1 args
        let (ks', c3) ← simpLF fuel st c2 kwv
        pure (.call f' as' kwn ks', c3)
      match f with
      | .lam ps body =>
        let npos := args.length
        if !distinctS ps || npos > ps.length || !distinctS kwn || !sameSet kwn (ps.drop npos) then generic (simpF fuel st c f)
        else do
          let (ps', body', c1) := makeArgsUnique ps body c
          let (as', c2) ← simpLF fuel st c1 args
          let (ks', c3) ← simpLF fuel st c2 kwv
          let ren := ps.zip ps'
          let frame : SFrame :=
            ((ps'.take npos).zip as') ++ (kwn.zip ks').map (fun p => ((renGet p.1 ren).getD p.1, p.2))
          simpF fuel (frame :: st) c3 body'
      | .attr v m =>
        match firstArg? v with
        | some (some seq) =>
          let x := argName c
          let call := Expr.call (.attr (.name x) m) args kwn kwv
          let select := makeSelect seq (.lam [x] call)
          simpF fuel st (c + 1) (fcall "First" [select])
        | some Option.none => .error (.internal "IndexError")
        | Option.none =>
          -- a method head: visited as an attribute (dictionary fields are resolved), never taken out of a First
          let head : Except Err (Expr × Nat) := do
            let (v', c1) ← simpF fuel st c v
            match v' with
            | .dict ks vs =>
              match dictLookup ks vs (.str m) with
              | some r => pure (r, c1)
              | Option.none => pure (.attr v' m, c1)
            | _ => pure (.attr v' m, c1)
          generic head
      | .name n =>
        if n = "Select" then callSelectF fuel st c args kwn kwv
        else if n = "SelectMany" then callSelectManyF fuel st c args kwn kwv
        else if n = "Where" then callWhereF fuel st c args kwn kwv
        else generic (simpF fuel st c f)
      | _ => generic (simpF fuel st c f)
def simpLF : Nat → SStack → Nat → List Expr → Except Err (List Expr × Nat)
  | 0, _, _, _ => .error .fuel
  | _ + 1, _, c, [] => .ok ([], c)
  | fuel + 1, st, c, e :: es => do
    let (e', c1) ← simpF fuel st c e
    let (es', c2) ← simpLF fuel st c1 es
    pure (e' :: es', c2)
def callSelectF : Nat → SStack → Nat → List Expr → List String → List Expr → Except Err (Expr × Nat)
  | 0, _, _, _, _, _ => .error .fuel
  | fuel + 1, st, c, args, _, _ =>
    match args with
    | source :: transform :: _ =>
      if !isLam transform then .error (.internal "AssertionError") else do
        let (parent, c1) ← simpF fuel st c source
        let dflt : Except Err (Expr × Nat) := do
          let (sel, c2) ← simpF fuel st c1 transform
          pure (makeSelect parent sel, c2)
        match opCall? parent with
        | some (n, pargs) =>
          if n = "Select" then
            (match pargs with
             | src :: f :: _ =>
               if !isLam f then .error (.internal "AssertionError") else do
                 let (conv, c2) ← convolute transform f c1
                 let (sel, c3) ← simpF fuel st c2 conv
                 pure (makeSelect src sel, c3)
             | _ => .error (.internal "IndexError"))
          else if n = "SelectMany" then
            (match pargs with
             | src :: f :: _ =>
               (match f with
                | .lam fps fb =>
                  simpF fuel st c1 (fcall "SelectMany" [src, .lam fps (makeSelect fb transform)])
                | _ => .error (.internal "AssertionError"))
             | _ => .error (.internal "IndexError"))
          else dflt
        | Option.none => dflt
    | _ => .error (.internal "IndexError")
def callSelectManyF : Nat → SStack → Nat → List Expr → List String → List Expr → Except Err (Expr × Nat)
  | 0, _, _, _, _, _ => .error .fuel
  | fuel + 1, st, c, args, _, _ =>
    match args with
    | source :: selection :: _ =>
      if !isLam selection then .error (.internal "AssertionError") else do
        let (parent, c1) ← simpF fuel st c source
        let dflt : Except Err (Expr × Nat) := do
          let (sel, c2) ← simpF fuel st c1 selection
          pure (fcall "SelectMany" [parent, sel], c2)
        match opCall? parent with
        | some (n, pargs) =>
          if n = "SelectMany" then
            (match pargs with
             | [seq, f] =>
               (match f with
                | .lam (p :: _) fb =>
                  simpF fuel st c1 (fcall "SelectMany" [seq, .lam [p] (fcall "SelectMany" [fb, selection])])
                | .lam [] _ => .error (.internal "IndexError")
                | _ => .error (.internal "AssertionError"))
             | _ => .error (.internal "AssertionError"))
          else if n = "Select" then
            (match pargs with
             | [seq, f] =>
               if !isLam f then .error (.internal "AssertionError") else do
                 let (conv, c2) ← convolute selection f c1
                 let (sel, c3) ← simpF fuel st c2 conv
                 pure (fcall "SelectMany" [seq, sel], c3)
             | _ => .error (.internal "AssertionError"))
          else dflt
        | Option.none => dflt
    | _ => .error (.internal "IndexError")
def callWhereF : Nat → SStack → Nat → List Expr → List String → List Expr → Except Err (Expr × Nat)
  | 0, _, _, _, _, _ => .error .fuel
  | fuel + 1, st, c, args, _, _ =>
    match args with
    | source :: filter :: _ =>
      if !isLam filter then .error (.internal "AssertionError") else do
        let (parent, c1) ← simpF fuel st c source
        let dflt : Except Err (Expr × Nat) := do
          let (f', c2) ← simpF fuel st c1 filter
          if lambdaIsTrue f' then pure (parent, c2) else pure (fcall "Where" [parent, f'], c2)
        match opCall? parent with
        | some (n, pargs) =>
          if n = "Where" then
            (match pargs with
             | src :: f :: _ =>
               if !isLam f then .error (.internal "AssertionError") else
                 let x := argName c1
                 let conv := Expr.lam [x] (.op .boolAnd [.call f [.name x] [] [], .call filter [.name x] [] []])
                 simpF fuel st (c1 + 1) (fcall "Where" [src, conv])
             | _ => .error (.internal "IndexError"))
          else if n = "Select" then
            (match pargs with
             | src :: f :: _ =>
               if !isLam f then .error (.internal "AssertionError") else do
                 let (conv, c2) ← convolute filter f c1
                 let (w, c3) ← simpF fuel st c2 conv
                 simpF fuel st c3 (makeSelect (fcall "Where" [src, w]) f)
             | _ => .error (.internal "IndexError"))
          else if n = "SelectMany" then
            (match pargs with
             | seq :: f :: _ =>
               (match f with
                | .lam fps fb =>
                  simpF fuel st c1 (fcall "SelectMany" [seq, .lam fps (fcall "Where" [fb, filter])])
                | _ => .error (.internal "AssertionError"))
             | _ => .error (.internal "IndexError"))
          else dflt
        | Option.none => dflt
    | _ => .error (.internal "IndexError")
end


/-! ## the checked model refines the plain one -/
set_option linter.unusedSimpArgs false
set_option linter.unusedVariables false

/-- `a'` succeeds with the same result whenever `a` succeeds -/
def Ref {α : Type} (a a' : Except Err α) : Prop := ∀ r, a = .ok r → a' = .ok r

theorem Ref.rfl' {α : Type} (a : Except Err α) : Ref a a := fun _ h => h
theorem Ref.err {α : Type} (e : Err) (a' : Except Err α) : Ref (.error e) a' := fun _ h => by cases h
theorem Ref.bind {α β : Type} {a a' : Except Err α} {f f' : α → Except Err β} (h : Ref a a') (hf : ∀ x, Ref (f x) (f' x)) :
    Ref (a >>= f) (a' >>= f') := by
  intro r hr
  cases a with
  | error e => cases hr
  | ok x =>
    have := h x rfl
    subst this
    exact hf x r hr
theorem Ref.guard {α : Type} {g : Bool} {a a' : Except Err α} {e : Err} (h : Ref a a') :
    Ref (if g = true then a else .error e) a' := by
  cases g <;> simp <;> first | exact h | exact Ref.err _ _
theorem Ref.nguard {α : Type} {g : Bool} {a a' : Except Err α} {e : Err} (h : Ref a a') :
    Ref (if (!g) = true then .error e else a) a' := by
  cases g <;> simp <;> first | exact h | exact Ref.err _ _

theorem Ref.pguard {α : Type} {P : Prop} [Decidable P] {a a' : Except Err α} {e : Err} (h : Ref a a') :
    Ref (if P then a else .error e) a' := by
  split
  · exact h
  · exact Ref.err _ _

theorem makeArgsUniqueCk_ref (ps : List String) (b : Expr) (c : Nat) (st : SStack) :
    Ref (makeArgsUniqueCk ps b c st) (.ok (makeArgsUnique ps b c)) := by
  unfold makeArgsUniqueCk
  simp only []
  split
  · exact Ref.rfl' _
  · exact Ref.err _ _

theorem convoluteCk_ref (g f : Expr) (c : Nat) (st : SStack) : Ref (convoluteCk g f c st) (convolute g f c) := by
  unfold convoluteCk convolute
  cases g <;> try exact Ref.err _ _
  rename_i gps gb
  cases f <;> try exact Ref.err _ _
  rename_i fps fb
  simp only []
  intro r h
  cases h1 : makeArgsUniqueCk gps gb c st with
  | error e => simp [h1, bind, Except.bind] at h
  | ok r1 =>
    obtain ⟨gps', gb', c1⟩ := r1
    simp only [h1, bind, Except.bind] at h
    cases h2 : makeArgsUniqueCk fps fb c1 st with
    | error e => simp [h2] at h
    | ok r2 =>
      obtain ⟨fps', fb', c2⟩ := r2
      simp only [h2] at h
      have e1 := makeArgsUniqueCk_ref _ _ _ _ _ h1
      have e2 := makeArgsUniqueCk_ref _ _ _ _ _ h2
      simp only [Except.ok.injEq] at e1 e2
      split at h
      · simp only [e1, e2]
        exact h
      · cases h

theorem Ref.bind_ok {α β : Type} {a : Except Err α} {x : α} {f : α → Except Err β} {b : Except Err β}
    (h : Ref a (.ok x)) (hf : Ref (f x) b) : Ref (a >>= f) b := by
  intro r hr
  cases a with
  | error e => cases hr
  | ok y =>
    have := h y rfl
    simp only [Except.ok.injEq] at this
    subst this
    exact hf r hr

/-- the subscript clause after both sub-expressions are simplified, as a function of the generic continuation -/
theorem subOuter_ref (v' s' : Expr) (c2 : Nat) (gen gen' : Except Err (Expr × Nat)) (hg : Ref gen gen') :
    Ref
      (match s' with
      | .const (.int n) =>
        (match v' with
         | .tuple es =>
           if n ≥ 0 then
             (match es[n.toNat]? with
              | some el => pure (el, c2)
              | Option.none => .error .indexError)
           else gen
         | .list es =>
           if n ≥ 0 then
             (match es[n.toNat]? with
              | some el => pure (el, c2)
              | Option.none => .error .indexError)
           else gen
         | .dict ks vs =>
           (match dictLookup ks vs (.int n) with
            | some r => pure (r, c2)
            | Option.none => pure (.sub v' s', c2))
         | _ => gen)
      | .const (.str k) =>
        (match v' with
         | .dict ks vs =>
           (match dictLookup ks vs (.str k) with
            | some r => pure (r, c2)
            | Option.none => pure (.sub v' s', c2))
         | _ => gen)
      | _ => gen)
      (match s' with
      | .const (.int n) =>
        (match v' with
         | .tuple es =>
           if n ≥ 0 then
             (match es[n.toNat]? with
              | some el => pure (el, c2)
              | Option.none => .error .indexError)
           else gen'
         | .list es =>
           if n ≥ 0 then
             (match es[n.toNat]? with
              | some el => pure (el, c2)
              | Option.none => .error .indexError)
           else gen'
         | .dict ks vs =>
           (match dictLookup ks vs (.int n) with
            | some r => pure (r, c2)
            | Option.none => pure (.sub v' s', c2))
         | _ => gen')
      | .const (.str k) =>
        (match v' with
         | .dict ks vs =>
           (match dictLookup ks vs (.str k) with
            | some r => pure (r, c2)
            | Option.none => pure (.sub v' s', c2))
         | _ => gen')
      | _ => gen') := by
  split
  · split
    · split
      · exact Ref.rfl' _
      · exact hg
    · split
      · exact Ref.rfl' _
      · exact hg
    · exact Ref.rfl' _
    · exact hg
  · split
    · exact Ref.rfl' _
    · exact hg
  · exact hg

theorem simpCk_ref : ∀ fuel : Nat,
    (∀ st c e, Ref (simpCk fuel st c e) (simpF fuel st c e)) ∧
    (∀ st c es, Ref (simpLCk fuel st c es) (simpLF fuel st c es)) ∧
    (∀ st c args kwn kwv, Ref (callSelectCk fuel st c args kwn kwv) (callSelectF fuel st c args kwn kwv)) ∧
    (∀ st c args kwn kwv, Ref (callSelectManyCk fuel st c args kwn kwv) (callSelectManyF fuel st c args kwn kwv)) ∧
    (∀ st c args kwn kwv, Ref (callWhereCk fuel st c args kwn kwv) (callWhereF fuel st c args kwn kwv)) := by
  intro fuel
  induction fuel with
  | zero =>
    refine ⟨?_, ?_, ?_, ?_, ?_⟩ <;> intros <;>
      simp only [simpCk, simpLCk, callSelectCk, callSelectManyCk, callWhereCk] <;> exact Ref.err _ _
  | succ fuel ih =>
    obtain ⟨ihS, ihL, ihSel, ihMany, ihWhere⟩ := ih
    refine ⟨?_, ?_, ?_, ?_, ?_⟩
    · intro st c e
      cases e with
      | name x => simp only [simpCk, simpF]; exact Ref.rfl' _
      | const k => simp only [simpCk, simpF]; exact Ref.rfl' _
      | lam ps b =>
        simp only [simpCk, simpF]
        refine Ref.bind_ok (makeArgsUniqueCk_ref ps b c st) ?_
        exact Ref.bind (ihS _ _ _) (fun x => Ref.rfl' _)
      | tuple es => simp only [simpCk, simpF]; exact Ref.bind (ihL _ _ _) (fun x => Ref.rfl' _)
      | list es => simp only [simpCk, simpF]; exact Ref.bind (ihL _ _ _) (fun x => Ref.rfl' _)
      | dict ks vs =>
        simp only [simpCk, simpF]
        exact Ref.bind (ihL _ _ _) (fun x => Ref.bind (ihL _ _ _) (fun y => Ref.rfl' _))
      | op k args => simp only [simpCk, simpF]; exact Ref.bind (ihL _ _ _) (fun x => Ref.rfl' _)
      | comp kind el t i ifs a => simp only [simpCk]; exact Ref.err _ _
      | attr v a =>
        simp only [simpCk, simpF]
        cases firstArg? v with
        | some o =>
          cases o with
          | some first => exact ihS _ _ _
          | none => exact Ref.rfl' _
        | none =>
          simp only []
          refine Ref.bind (ihS _ _ _) (fun x => ?_)
          obtain ⟨v', c1⟩ := x
          simp only []
          have hrest : Ref
              (match firstArg? v' with
               | some (some first) =>
                 if keyFree st (fcall "First" [makeSelect first (.lam [argName c1] (.attr (.name (argName c1)) a))]) = true then
                   simpCk fuel st (c1 + 1) (fcall "First" [makeSelect first (.lam [argName c1] (.attr (.name (argName c1)) a))])
                 else .error (sideErr "attribute pushed under First")
               | some Option.none => .error (.internal "IndexError")
               | Option.none => pure (.attr v' a, c1))
              (match firstArg? v' with
               | some (some first) =>
                 simpF fuel st (c1 + 1) (fcall "First" [makeSelect first (.lam [argName c1] (.attr (.name (argName c1)) a))])
               | some Option.none => .error (.internal "IndexError")
               | Option.none => pure (.attr v' a, c1)) := by
            cases firstArg? v' with
            | some o =>
              cases o with
              | some first => exact Ref.guard (ihS _ _ _)
              | none => exact Ref.rfl' _
            | none => exact Ref.rfl' _
          cases v' <;> first | exact hrest | exact Ref.rfl' _
      | sub v s =>
        simp only [simpCk, simpF]
        refine Ref.bind (ihS _ _ _) (fun x => ?_)
        obtain ⟨v', c1⟩ := x
        simp only []
        refine Ref.bind (ihS _ _ _) (fun y => ?_)
        obtain ⟨s', c2⟩ := y
        simp only []
        apply subOuter_ref
        cases firstArg? v' with
        | some o =>
          cases o with
          | some first => exact Ref.guard (ihS _ _ _)
          | none => exact Ref.rfl' _
        | none => exact Ref.rfl' _
      | call f args kwn kwv =>
        -- the generic continuation
        have hgen : ∀ (head head' : Except Err (Expr × Nat)) (P : Prop) [Decidable P], Ref head head' →
            Ref (do
              let __x ← head
              let __x_1 ← simpLCk fuel st __x.snd args
              let __x_2 ← simpLCk fuel st __x_1.snd kwv
              if P then pure (Expr.call __x.fst __x_1.fst kwn __x_2.fst, __x_2.snd)
              else Except.error (sideErr "a substituted name in callee position"))
            (do
              let __x ← head'
              let __x_1 ← simpLF fuel st __x.snd args
              let __x_2 ← simpLF fuel st __x_1.snd kwv
              pure (Expr.call __x.fst __x_1.fst kwn __x_2.fst, __x_2.snd)) := by
          intro head head' P _ hh
          refine Ref.bind hh (fun x => Ref.bind (ihL _ _ _) (fun y => Ref.bind (ihL _ _ _) (fun z => ?_)))
          exact Ref.pguard (Ref.rfl' _)
        cases f with
        | lam ps body =>
          simp only [simpCk, simpF]
          split
          · exact hgen _ _ _ (ihS _ _ _)
          · refine Ref.bind_ok (makeArgsUniqueCk_ref ps body c st) ?_
            refine Ref.bind (ihL _ _ _) (fun y => Ref.bind (ihL _ _ _) (fun z => ?_))
            exact Ref.guard (ihS _ _ _)
        | attr v m =>
          simp only [simpCk, simpF]
          cases firstArg? v with
          | some o =>
            cases o with
            | some seq => exact Ref.guard (ihS _ _ _)
            | none => exact Ref.rfl' _
          | none =>
            simp only []
            refine hgen _ _ _ ?_
            refine Ref.bind (ihS _ _ _) (fun x => Ref.rfl' _)
        | name n =>
          simp only [simpCk, simpF]
          split
          · exact ihSel _ _ _ _ _
          · split
            · exact ihMany _ _ _ _ _
            · split
              · exact ihWhere _ _ _ _ _
              · exact hgen _ _ _ (ihS _ _ _)
        | const k => simp only [simpCk, simpF]; exact hgen _ _ _ (ihS _ _ _)
        | sub v s => simp only [simpCk, simpF]; exact hgen _ _ _ (ihS _ _ _)
        | tuple es => simp only [simpCk, simpF]; exact hgen _ _ _ (ihS _ _ _)
        | list es => simp only [simpCk, simpF]; exact hgen _ _ _ (ihS _ _ _)
        | dict ks vs => simp only [simpCk, simpF]; exact hgen _ _ _ (ihS _ _ _)
        | op k es => simp only [simpCk, simpF]; exact hgen _ _ _ (ihS _ _ _)
        | comp kind el t i ifs a => simp only [simpCk, simpF]; exact hgen _ _ _ (ihS _ _ _)
        | call f2 a2 k2 v2 => simp only [simpCk, simpF]; exact hgen _ _ _ (ihS _ _ _)
    · intro st c es
      cases es with
      | nil => simp only [simpLCk, simpLF]; exact Ref.rfl' _
      | cons e es =>
        simp only [simpLCk, simpLF]
        exact Ref.bind (ihS _ _ _) (fun x => Ref.bind (ihL _ _ _) (fun y => Ref.rfl' _))
    · -- callSelect
      intro st c args kwn kwv
      simp only [callSelectCk, callSelectF]
      rcases args with _ | ⟨source, _ | ⟨transform, rest⟩⟩
      · exact Ref.rfl' _
      · exact Ref.rfl' _
      · simp only []
        split
        · exact Ref.rfl' _
        · refine Ref.bind (ihS _ _ _) (fun x => ?_)
          obtain ⟨parent, c1⟩ := x
          simp only []
          refine Ref.nguard ?_
          have hd : Ref (do let (sel, c2) ← simpCk fuel st c1 transform; pure (makeSelect parent sel, c2))
              (do let (sel, c2) ← simpF fuel st c1 transform; pure (makeSelect parent sel, c2)) :=
            Ref.bind (ihS _ _ _) (fun y => Ref.rfl' _)
          cases opCall? parent with
          | none => exact hd
          | some o =>
            obtain ⟨n, pargs⟩ := o
            simp only []
            split
            · rcases pargs with _ | ⟨src, _ | ⟨f, prest⟩⟩
              · exact Ref.rfl' _
              · exact Ref.rfl' _
              · simp only []
                split
                · exact Ref.rfl' _
                · exact Ref.bind (convoluteCk_ref _ _ _ _) (fun y => Ref.bind (ihS _ _ _) (fun z => Ref.rfl' _))
            · split
              · rcases pargs with _ | ⟨src, _ | ⟨f, prest⟩⟩
                · exact Ref.rfl' _
                · exact Ref.rfl' _
                · simp only []
                  cases f <;> first | exact Ref.rfl' _ | exact Ref.guard (ihS _ _ _)
              · exact hd
    · -- callSelectMany
      intro st c args kwn kwv
      simp only [callSelectManyCk, callSelectManyF]
      rcases args with _ | ⟨source, _ | ⟨selection, rest⟩⟩
      · exact Ref.rfl' _
      · exact Ref.rfl' _
      · simp only []
        split
        · exact Ref.rfl' _
        · refine Ref.bind (ihS _ _ _) (fun x => ?_)
          obtain ⟨parent, c1⟩ := x
          simp only []
          refine Ref.nguard ?_
          have hd : Ref (do let (sel, c2) ← simpCk fuel st c1 selection; pure (fcall "SelectMany" [parent, sel], c2))
              (do let (sel, c2) ← simpF fuel st c1 selection; pure (fcall "SelectMany" [parent, sel], c2)) :=
            Ref.bind (ihS _ _ _) (fun y => Ref.rfl' _)
          cases opCall? parent with
          | none => exact hd
          | some o =>
            obtain ⟨n, pargs⟩ := o
            simp only []
            split
            · rcases pargs with _ | ⟨seq, _ | ⟨f, _ | ⟨g, prest⟩⟩⟩
              · exact Ref.rfl' _
              · exact Ref.rfl' _
              · simp only []
                cases f with
                | lam fps fb =>
                  cases fps with
                  | nil => exact Ref.rfl' _
                  | cons p prest => exact Ref.guard (ihS _ _ _)
                | _ => exact Ref.rfl' _
              · exact Ref.rfl' _
            · split
              · rcases pargs with _ | ⟨seq, _ | ⟨f, _ | ⟨g, prest⟩⟩⟩
                · exact Ref.rfl' _
                · exact Ref.rfl' _
                · simp only []
                  split
                  · exact Ref.rfl' _
                  · exact Ref.bind (convoluteCk_ref _ _ _ _) (fun y => Ref.bind (ihS _ _ _) (fun z => Ref.rfl' _))
                · exact Ref.rfl' _
              · exact hd
    · -- callWhere
      intro st c args kwn kwv
      simp only [callWhereCk, callWhereF]
      rcases args with _ | ⟨source, _ | ⟨filter, rest⟩⟩
      · exact Ref.rfl' _
      · exact Ref.rfl' _
      · simp only []
        split
        · exact Ref.rfl' _
        · refine Ref.bind (ihS _ _ _) (fun x => ?_)
          obtain ⟨parent, c1⟩ := x
          simp only []
          refine Ref.nguard ?_
          have hd : Ref (do
                let (f', c2) ← simpCk fuel st c1 filter
                if lambdaIsTrue f' then pure (parent, c2) else pure (fcall "Where" [parent, f'], c2))
              (do
                let (f', c2) ← simpF fuel st c1 filter
                if lambdaIsTrue f' then pure (parent, c2) else pure (fcall "Where" [parent, f'], c2)) :=
            Ref.bind (ihS _ _ _) (fun y => Ref.rfl' _)
          cases opCall? parent with
          | none => exact hd
          | some o =>
            obtain ⟨n, pargs⟩ := o
            simp only []
            split
            · rcases pargs with _ | ⟨src, _ | ⟨f, prest⟩⟩
              · exact Ref.rfl' _
              · exact Ref.rfl' _
              · simp only []
                split
                · exact Ref.rfl' _
                · exact Ref.guard (ihS _ _ _)
            · split
              · rcases pargs with _ | ⟨src, _ | ⟨f, prest⟩⟩
                · exact Ref.rfl' _
                · exact Ref.rfl' _
                · simp only []
                  split
                  · exact Ref.rfl' _
                  · refine Ref.bind (convoluteCk_ref _ _ _ _) (fun y => Ref.bind (ihS _ _ _) (fun z => ?_))
                    exact Ref.guard (ihS _ _ _)
              · split
                · rcases pargs with _ | ⟨src, _ | ⟨f, prest⟩⟩
                  · exact Ref.rfl' _
                  · exact Ref.rfl' _
                  · simp only []
                    cases f <;> first | exact Ref.rfl' _ | exact Ref.guard (ihS _ _ _)
                · exact hd

end Fadl
