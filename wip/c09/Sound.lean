import Fadl.Props.C08Sound
import Fadl.Model.EffectSpec
namespace Fadl
set_option linter.unusedSimpArgs false
set_option linter.unusedVariables false

@[simp] theorem FSt.app_none (a : FSt) : a.app FSt.none = a := by cases a; simp [FSt.app, FSt.none]
@[simp] theorem FSt.none_app (a : FSt) : FSt.none.app a = a := by cases a; simp [FSt.app, FSt.none]
theorem FSt.app_assoc (a b c : FSt) : (a.app b).app c = a.app (b.app c) := by simp [FSt.app, List.append_assoc]

theorem applyCb_st (cb : Option CbSpec) (st : FSt) (e : Expr) : (applyCb cb st e).1 = st.app (cbEff cb) := by
  cases cb with
  | none => simp [applyCb, cbEff]
  | some c =>
    simp only [applyCb, cbEff, FSt.app]
    cases c.md <;> simp

theorem Sim_name_inv {v e' : Expr} {n : String} (h : Sim v e') (he : e' = .name n) : v = .name n := by
  subst he
  cases v <;> simp only [Sim] at h
  case name n' => cases h; rfl
  all_goals (simp at h)

def CRel : Option CandEff → Option MRes → Prop
  | Option.none, Option.none => True
  | some r, some r' => r.cand = r'.cand ∧ r.mi = r'.mi ∧ r.full = r'.full
  | _, _ => False

def effOr : Option CandEff → FSt
  | Option.none => FSt.none
  | some r => r.eff

def OSRel (st : FSt) : Option (Expr × Ty × FSt) → Option FSt → Prop
  | Option.none, Option.none => True
  | some (_, _, s), some w => s = st.app w
  | _, _ => False

def EffSound (M : Model) (fuel : Nat) : Prop :=
  (∀ G st e r, follow M fuel G st e = .ok r → r.st = st.app (effOf M fuel G e)) ∧
  (∀ G st es rs st', followL M fuel G st es = .ok (rs, st') → st' = st.app (effOfL M fuel G es)) ∧
  (∀ G st objTy recv m args args' kwn kwv kwv' r, SimL args args' → SimL kwv kwv' →
      methodCall M fuel G st objTy recv m args' kwn kwv' = .ok r →
      r.st = st.app (methodEff M fuel G objTy m args kwn kwv)) ∧
  (∀ G st recv m args args' kwn kwv kwv' cands last last' res' st', SimL args args' → SimL kwv kwv' →
      CRel last last' → effOr last = FSt.none →
      candLoop M fuel G st recv m args' kwn kwv' cands last' = .ok (res', st') →
      CRel (candEff M fuel G m args kwn kwv cands last) res' ∧
        st' = st.app (effOr (candEff M fuel G m args kwn kwv cands last))) ∧
  (∀ G st cand m filled filled' o', CallSim filled filled' →
      onStreamObj M fuel G st cand m filled' = .ok o' → OSRel st o' (onStreamEff M fuel G cand m filled))

theorem follow_effSound (M : Model) : ∀ fuel, EffSound M fuel := by
  intro fuel
  induction fuel with
  | zero =>
    refine ⟨?_, ?_, ?_, ?_, ?_⟩ <;> intros <;> simp_all [follow, followL, methodCall, candLoop, onStreamObj]
  | succ fuel ih =>
    obtain ⟨ihS, ihL, ihM, ihC, ihO⟩ := ih
    have tyS := (follow_tySound M fuel).1
    have tyL := (follow_tySound M fuel).2.1
    refine ⟨?_, ?_, ?_, ?_, ?_⟩
    · intro G st e x h
      cases e with
      | name y =>
        simp only [follow] at h
        split at h
        · cases h; simp [effOf]
        · split at h <;> cases h <;> simp [effOf]
      | const k => simp only [follow, Except.ok.injEq] at h; subst h; simp [effOf]
      | lam ps b => simp only [follow, Except.ok.injEq] at h; subst h; simp [effOf]
      | attr v a =>
        simp only [follow] at h
        replace h := bindE_ok h
        obtain ⟨r0, hv, h⟩ := h
        have e1 := ihS G st v r0 hv
        have hx : x.st = r0.st := by
          simp only [bind, Except.bind] at h
          repeat' (split at h)
          all_goals (first | (cases h; done) | (simp only [pure, Except.pure, Except.ok.injEq] at h; subst h; rfl))
        simp only [effOf]; rw [hx, e1]
      | sub v s =>
        simp only [follow] at h
        replace h := bindE_ok h
        obtain ⟨rv, hv, h⟩ := h
        replace h := bindE_ok h
        obtain ⟨rs, hs, h⟩ := h
        have e1 := ihS G st v rv hv
        have e2 := ihS G rv.st s rs hs
        have hx : x.st = rs.st := by
          simp only [bind, Except.bind] at h
          repeat' (split at h)
          all_goals (first | (cases h; done) | (simp only [pure, Except.pure, Except.ok.injEq] at h; subst h; rfl))
        simp only [effOf]; rw [hx, e2, e1, FSt.app_assoc]
      | tuple es =>
        simp only [follow] at h
        replace h := bindE_ok h
        obtain ⟨⟨rs, st'⟩, hl, h⟩ := h
        have e1 := ihL G st es rs st' hl
        simp only [pure, Except.pure, Except.ok.injEq] at h; subst h
        simp only [effOf]; exact e1
      | list es =>
        simp only [follow] at h
        replace h := bindE_ok h
        obtain ⟨⟨rs, st'⟩, hl, h⟩ := h
        have e1 := ihL G st es rs st' hl
        simp only [pure, Except.pure, Except.ok.injEq] at h; subst h
        simp only [effOf]; exact e1
      | dict ks vs =>
        simp only [follow] at h
        replace h := bindE_ok h
        obtain ⟨⟨rk, st1⟩, hk, h⟩ := h
        replace h := bindE_ok h
        obtain ⟨⟨rv, st2⟩, hv, h⟩ := h
        replace h := bindE_ok h
        obtain ⟨kv, hkv, h⟩ := h
        have e1 := ihL G st ks rk st1 hk
        have e2 := ihL G st1 vs rv st2 hv
        simp only [pure, Except.pure, Except.ok.injEq] at h; subst h
        simp only [effOf]; rw [e2, e1, FSt.app_assoc]
      | op k args =>
        simp only [follow] at h
        replace h := bindE_ok h
        obtain ⟨⟨rs, st'⟩, hl, h⟩ := h
        have e1 := ihL G st args rs st' hl
        have hx : x.st = st' := by
          simp only [] at h
          repeat' (split at h)
          all_goals (first | (cases h; done) | (simp only [pure, Except.pure, Except.ok.injEq] at h; subst h; rfl))
        simp only [effOf]; rw [hx, e1]
      | comp kind el t i ifs a =>
        simp only [follow] at h
        replace h := bindE_ok h
        obtain ⟨r1, h1, h⟩ := h
        replace h := bindE_ok h
        obtain ⟨r2, h2, h⟩ := h
        replace h := bindE_ok h
        obtain ⟨r3, h3, h⟩ := h
        replace h := bindE_ok h
        obtain ⟨⟨r4, st4⟩, h4, h⟩ := h
        have e1 := ihS G st el r1 h1
        have e2 := ihS G r1.st t r2 h2
        have e3 := ihS G r2.st i r3 h3
        have e4 := ihL G r3.st ifs r4 st4 h4
        simp only [pure, Except.pure, Except.ok.injEq] at h; subst h
        simp only [effOf]; rw [e4, e3, e2, e1]; simp only [FSt.app_assoc]
      | call f args kwn kwv =>
        simp only [follow] at h
        replace h := bindE_ok h
        obtain ⟨rf, hf, h⟩ := h
        replace h := bindE_ok h
        obtain ⟨⟨as', st1⟩, ha, h⟩ := h
        replace h := bindE_ok h
        obtain ⟨⟨ks', st2⟩, hk, h⟩ := h
        have e1 := ihS G st f rf hf
        have e2 := ihL G rf.st args as' st1 ha
        have e3 := ihL G st1 kwv ks' st2 hk
        have sf := (tyS G st f rf hf).2
        obtain ⟨ta, sa⟩ := tyL G rf.st args as' st1 ha
        obtain ⟨tk, sk⟩ := tyL G st1 kwv ks' st2 hk
        have hst2 : st2 = st.app (((effOf M fuel G f).app (effOfL M fuel G args)).app (effOfL M fuel G kwv)) := by
          rw [e3, e2, e1]; simp only [FSt.app_assoc]
        simp only [] at h
        simp only [effOf]
        split at h
        · -- a method call
          rename_i recv m recv0 a0 heq
          simp only []
          have hsf := sf
          simp only [Sim] at hsf
          obtain ⟨v', hv', srecv⟩ := hsf
          rw [heq] at hv'
          simp only [Expr.attr.injEq] at hv'
          obtain ⟨rfl, rfl⟩ := hv'
          replace h := bindE_ok h
          obtain ⟨rr, hrr, h⟩ := h
          have trr := (tyS G st recv0 rr hrr).1
          have em := ihM G st2 rr.ty recv m args _ kwn kwv _ x sa sk h
          simp only [trr]
          rw [em, hst2, FSt.app_assoc]
        · -- a function called by name
          rename_i f _ _ n heq
          have hfn : f = .name n := Sim_name_inv sf heq
          subst hfn
          simp only []
          split at h
          · rename_i fi hfi
            simp only [hfi]
            split at h
            · cases h
            · simp only [pure, Except.pure, Except.ok.injEq] at h; subst h
              simp only [applyCb_st]; rw [hst2, FSt.app_assoc]
          · rename_i hfi
            simp only [hfi]
            simp only [pure, Except.pure, Except.ok.injEq] at h; subst h
            exact hst2
        · -- a parameterized property
          rename_i recv pn sl recv0 a0 sl0 heq
          simp only []
          have hsf := sf
          simp only [Sim] at hsf
          obtain ⟨v', s', hv', sv, ssl⟩ := hsf
          obtain ⟨r', hr', srecv⟩ := sv
          rw [heq, hr'] at hv'
          simp only [Expr.sub.injEq, Expr.attr.injEq] at hv'
          obtain ⟨⟨rfl, rfl⟩, rfl⟩ := hv'
          replace h := bindE_ok h
          obtain ⟨rr, hrr, h⟩ := h
          have trr := (tyS G st recv0 rr hrr).1
          simp only [trr]
          split at h
          · rename_i hty
            simp only [hty]
            simp only [pure, Except.pure, Except.ok.injEq] at h; subst h
            exact hst2
          · rename_i cn cargs hty
            simp only [hty]
            split at h
            · rename_i p hp
              simp only [hp]
              split at h
              · rename_i cb hcb
                replace h := bindE_ok h
                obtain ⟨kk, hkk, h⟩ := h
                simp only [pure, Except.pure, Except.ok.injEq] at h; subst h
                simp only [applyCb_st, hcb]; rw [hst2, FSt.app_assoc]
              · cases h
            · cases h
          · simp only [pure, Except.pure, Except.ok.injEq] at h; subst h
            rename_i hne1 hne2
            first
              | exact hst2
              | (split
                 · rename_i cn cargs hc; exact absurd hc (hne2 cn cargs)
                 · exact hst2)
        · -- an immediately called lambda
          rename_i f _ _ ps body heq
          have hfn : f = .lam ps body := Sim_lam_inv sf heq
          subst hfn
          simp only [ta, tk]
          replace h := bindE_ok h
          obtain ⟨rb, hrb, h⟩ := h
          have eb := ihS _ st2 body rb hrb
          simp only [pure, Except.pure, Except.ok.injEq] at h; subst h
          simp only []; rw [eb, hst2, FSt.app_assoc]
        · -- anything else
          rename_i f _ _ hn1 hn2 hn3 hn4
          simp only [pure, Except.pure, Except.ok.injEq] at h; subst h
          have hsf := sf
          simp only []
          split
          · rename_i recv m
            simp only [Sim] at hsf
            obtain ⟨v', hv', _⟩ := hsf
            exact absurd rfl (hn3 _ _ _ _ hv')
          · rename_i n
            simp only [Sim] at hsf
            exact absurd hsf (hn1 n)
          · rename_i recv pn sl
            simp only [Sim] at hsf
            obtain ⟨v', s', hv', ⟨r', hr', _⟩, _⟩ := hsf
            rw [hr'] at hv'
            exact absurd rfl (hn4 _ _ _ _ _ _ hv')
          · rename_i ps body
            simp only [Sim] at hsf
            exact absurd hsf (hn2 ps body)
          · exact hst2
    · intro G st es rs st' h
      cases es with
      | nil =>
        simp only [followL, Except.ok.injEq, Prod.mk.injEq] at h
        obtain ⟨rfl, rfl⟩ := h
        simp [effOfL]
      | cons e rest =>
        simp only [followL] at h
        replace h := bindE_ok h
        obtain ⟨r, he, h⟩ := h
        replace h := bindE_ok h
        obtain ⟨⟨rr, st2⟩, hr, h⟩ := h
        have e1 := ihS G st e r he
        have e2 := ihL G r.st rest rr st2 hr
        simp only [pure, Except.pure, Except.ok.injEq, Prod.mk.injEq] at h
        obtain ⟨rfl, rfl⟩ := h
        simp only [effOfL]; rw [e2, e1, FSt.app_assoc]
    · intro G st objTy recv m args args' kwn kwv kwv' x sa sk h
      simp only [methodCall] at h
      replace h := bindE_ok h
      obtain ⟨⟨res', st'⟩, hc, h⟩ := h
      obtain ⟨hrel, hst⟩ := ihC G st recv m args args' kwn kwv kwv' _ Option.none Option.none res' st' sa sk
        (by simp [CRel]) rfl hc
      simp only [methodEff]
      generalize candEff M fuel G m args kwn kwv _ Option.none = ce at hrel hst ⊢
      cases ce with
      | none =>
        cases res' with
        | some r => simp [CRel] at hrel
        | none =>
          simp only [pure, Except.pure, Except.ok.injEq] at h; subst h
          simpa [effOr] using hst
      | some c =>
        cases res' with
        | none => simp [CRel] at hrel
        | some r =>
          simp only [CRel] at hrel
          obtain ⟨h1, h2, h3⟩ := hrel
          simp only [pure, Except.pure, Except.ok.injEq] at h; subst h
          simp only [applyCb_st, effOr] at hst ⊢
          rw [hst, h1, h2]; simp only [FSt.app_assoc]
    · intro G st recv m args args' kwn kwv kwv' cands last last' res' st' sa sk hrel hnone h
      cases cands with
      | nil =>
        simp only [candLoop, Except.ok.injEq, Prod.mk.injEq] at h
        obtain ⟨rfl, rfl⟩ := h
        simp only [candEff]
        exact ⟨hrel, by rw [hnone]; simp⟩
      | cons cand rest =>
        simp only [candLoop] at h
        simp only [candEff]
        split at h
        · rename_i hfm
          simp only [hfm]
          exact ihC G st recv m args args' kwn kwv kwv' rest last last' res' st' sa sk hrel hnone h
        · rename_i defining mi hfm
          simp only [hfm]
          replace h := bindE_ok h
          obtain ⟨filled', hfd', h⟩ := h
          have hfd := Sim_fillDefaults mi.params (.name m) (.attr recv m) args args' kwn kwv kwv' sa sk
          rw [hfd'] at hfd
          cases hfd0 : fillDefaults mi.params (.name m) args kwn kwv with
          | error e => rw [hfd0] at hfd; simp [ERel] at hfd
          | ok filled =>
            rw [hfd0] at hfd; simp only [ERel] at hfd
            simp only []
            have hcs := hfd
            obtain ⟨f0, f0', fa, fa', kn, kv, kv', rfl, rfl, hfa, hkv⟩ := hfd
            simp only [callArgs] at h ⊢
            simp only [SimL_anyLam fa fa' hfa] at h
            have hfollow : ∀ (L : Option CandEff) (L' : Option MRes), CRel L L' → effOr L = FSt.none →
                ((do
                  let followed ← onStreamObj M fuel G st cand m (f0'.call fa' kn kv')
                  match followed with
                    | some (n, t, st') => pure (some ({ node := n, ty := t, full := true, cand := cand, mi := mi } : MRes), st')
                    | Option.none => candLoop M fuel G st recv m args' kwn kwv' rest L') = .ok (res', st')) →
                ∃ R, ((∃ w, onStreamEff M fuel G cand m (f0.call fa kn kv) = some w ∧ R = some ⟨w, cand, mi, true⟩) ∨
                      (onStreamEff M fuel G cand m (f0.call fa kn kv) = Option.none ∧
                        R = candEff M fuel G m args kwn kwv rest L)) ∧
                  CRel R res' ∧ st' = st.app (effOr R) := by
              intro L L' hLL hLn hh
              replace hh := bindE_ok hh
              obtain ⟨o', ho, hh⟩ := hh
              have hos := ihO G st cand m _ _ o' hcs ho
              cases o' with
              | none =>
                cases hoe : onStreamEff M fuel G cand m (f0.call fa kn kv) with
                | some w => rw [hoe] at hos; simp [OSRel] at hos
                | none =>
                  simp only [] at hh
                  obtain ⟨c1, c2⟩ := ihC G st recv m args args' kwn kwv kwv' rest L L' res' st' sa sk hLL hLn hh
                  exact ⟨_, Or.inr ⟨rfl, rfl⟩, c1, c2⟩
              | some p =>
                obtain ⟨n, t, s⟩ := p
                cases hoe : onStreamEff M fuel G cand m (f0.call fa kn kv) with
                | none => rw [hoe] at hos; simp [OSRel] at hos
                | some w =>
                  rw [hoe] at hos; simp only [OSRel] at hos
                  simp only [pure, Except.pure, Except.ok.injEq, Prod.mk.injEq] at hh
                  obtain ⟨rfl, rfl⟩ := hh
                  exact ⟨_, Or.inl ⟨w, rfl, rfl⟩, by simp [CRel], by simp [effOr, hos]⟩
            cases hres : resolveRet defining M (mi.ret.getD .any) with
            | some t =>
              simp only [hres] at h ⊢
              by_cases hL : fa.any isLamArg = true
              · simp only [hL, Bool.not_true, Bool.not_false, if_true, Bool.false_eq_true, if_false] at h ⊢
                obtain ⟨R, hcase, hc1, hc2⟩ := hfollow (some ⟨FSt.none, cand, mi, false⟩)
                  (some ⟨f0'.call fa' kn kv', t, false, cand, mi⟩) (by simp [CRel]) rfl h
                rcases hcase with ⟨w, ho, rfl⟩ | ⟨ho, rfl⟩
                · simp only [ho]; exact ⟨hc1, hc2⟩
                · simp only [ho]; exact ⟨hc1, hc2⟩
              · simp only [Bool.not_eq_true] at hL
                simp only [hL, Bool.not_true, Bool.not_false, if_true, Bool.false_eq_true, if_false, pure, Except.pure,
                  Except.ok.injEq, Prod.mk.injEq] at h ⊢
                obtain ⟨rfl, rfl⟩ := h
                exact ⟨by simp [CRel], by simp [effOr]⟩
            | none =>
              simp only [hres] at h ⊢
              cases last' with
              | none =>
                cases last with
                | some r => simp [CRel] at hrel
                | none =>
                  simp only [if_true] at h ⊢
                  obtain ⟨R, hcase, hc1, hc2⟩ := hfollow Option.none Option.none (by simp [CRel]) rfl h
                  rcases hcase with ⟨w, ho, rfl⟩ | ⟨ho, rfl⟩
                  · simp only [ho]; exact ⟨hc1, hc2⟩
                  · simp only [ho]; exact ⟨hc1, hc2⟩
              | some r' =>
                cases last with
                | none => simp [CRel] at hrel
                | some r =>
                  have hrel' := hrel
                  simp only [CRel] at hrel'
                  obtain ⟨q1, q2, q3⟩ := hrel'
                  by_cases hF : r'.full = true
                  · simp only [hF, q3, Bool.not_true, Bool.false_eq_true, if_false, pure, Except.pure, Except.ok.injEq,
                      Prod.mk.injEq] at h ⊢
                    obtain ⟨rfl, rfl⟩ := h
                    exact ⟨hrel, by rw [hnone]; simp⟩
                  · simp only [Bool.not_eq_true] at hF
                    simp only [hF, q3, Bool.not_false, if_true, Bool.false_eq_true, if_false] at h ⊢
                    obtain ⟨R, hcase, hc1, hc2⟩ := hfollow (some r) (some r') hrel hnone h
                    rcases hcase with ⟨w, ho, rfl⟩ | ⟨ho, rfl⟩
                    · simp only [ho]; exact ⟨hc1, hc2⟩
                    · simp only [ho]; exact ⟨hc1, hc2⟩
    · intro G st cand m filled filled' o' hcs h
      simp only [onStreamObj] at h
      obtain ⟨f0, f0', fa, fa', kn0, kv0, kv0', rfl, rfl, hfa, hkv⟩ := hcs
      split at h
      · rename_i cn item f' x body kn kv heq
        simp only [Expr.call.injEq] at heq
        obtain ⟨rfl, rfl, rfl, rfl⟩ := heq
        have := SimL_single_lam_inv hfa; subst this
        simp only [onStreamEff]
        split at h
        · rename_i hcond
          simp only [hcond, if_true]
          replace h := bindE_ok h
          obtain ⟨rb, hrb, h⟩ := h
          replace h := bindE_ok h
          obtain ⟨u, hu, h⟩ := h
          have eb := ihS _ _ body rb hrb
          split at h
          · cases h
          · simp only [pure, Except.pure, Except.ok.injEq] at h; subst h
            simp only [OSRel, eb, FSt.app, List.nil_append]
        · rename_i hcond
          simp only [hcond]
          simp only [pure, Except.pure, Except.ok.injEq] at h; subst h
          simp [OSRel]
      · rename_i hneg
        simp only [pure, Except.pure, Except.ok.injEq] at h; subst h
        simp only [onStreamEff]
        split
        · rename_i cn item f'' x body kn kv heq
          simp only [Expr.call.injEq] at heq
          obtain ⟨rfl, rfl, rfl, rfl⟩ := heq
          have := SimL_of_single_lam hfa; subst this
          exact absurd rfl (hneg _ _ _ _ _ _ _ rfl)
        · simp [OSRel]

end Fadl
