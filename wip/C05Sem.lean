/-
  C05 — inlining called lambdas (captured one-line helpers) preserves the value.

  For an expression without comprehensions, whose immediately called lambdas all bind positionally (so that they are
  inlined) and whose lambda parameters are not used as function names: whenever the expression evaluates (deferred
  execution), the expression `resolveCalled` returns evaluates to a refinement of that value - to the same value when
  it contains no deferred failure.  The renaming of locals that an argument mentions (fix "names bound inside an
  inlined body …") is inside the theorem.
-/
import Fadl.Model.Called
import Fadl.Props.C05
import Fadl.Lemmas.MonoLz
import Fadl.Lemmas.Rename
import Fadl.Lemmas.BindFrame
namespace Fadl
set_option linter.unusedSimpArgs false
set_option linter.unusedVariables false

/-- what the stack promises about one name: a substituted name's value (in the environment of the original) is refined
    by the value of the expression substituted for it; any other name has a refined value in the new environment -/
def NameRel (w : World) (st : List Frame) (envM env : Env) (y : String) : Prop :=
  match stackGet y st with
  | some (some a) => ∀ v, envM y = some v → ∃ v', denLz w a env = .ok v' ∧ VLe v v'
  | _ => ∀ v, envM y = some v → ∃ v', env y = some v' ∧ VLe v v'

mutual
/-- every immediately called lambda binds positionally (so it is inlined) -/
def allInlinable : Expr → Bool
  | .name _ => true
  | .const _ => true
  | .attr v _ => allInlinable v
  | .call f args _ kwv =>
    (match f with
     | .lam ps _ => decide (ps.length = args.length)
     | _ => true) && allInlinable f && allInlinableL args && allInlinableL kwv
  | .lam _ b => allInlinable b
  | .sub v s => allInlinable v && allInlinable s
  | .tuple es => allInlinableL es
  | .list es => allInlinableL es
  | .dict ks vs => allInlinableL ks && allInlinableL vs
  | .op _ args => allInlinableL args
  | .comp _ e t i ifs _ => allInlinable e && allInlinable t && allInlinable i && allInlinableL ifs
def allInlinableL : List Expr → Bool
  | [] => true
  | e :: es => allInlinable e && allInlinableL es
end

mutual
/-- every lambda that is not immediately called (an operator argument) has exactly one parameter -/
def lam1 : Expr → Bool
  | .name _ => true
  | .const _ => true
  | .attr v _ => lam1 v
  | .call f args _ kwv =>
    (match f with
     | .lam _ body => lam1 body
     | f => lam1 f) && lam1L args && lam1L kwv
  | .lam ps b => decide (ps.length = 1) && lam1 b
  | .sub v s => lam1 v && lam1 s
  | .tuple es => lam1L es
  | .list es => lam1L es
  | .dict ks vs => lam1L ks && lam1L vs
  | .op _ args => lam1L args
  | .comp _ e t i ifs _ => lam1 e && lam1 t && lam1 i && lam1L ifs
def lam1L : List Expr → Bool
  | [] => true
  | e :: es => lam1 e && lam1L es
end

/-! ### names of stack values are active names -/

theorem frameGet_mem {x : String} {r : Option Expr} : ∀ {f : Frame}, frameGet x f = some r → (x, r) ∈ f
  | [], h => by simp [frameGet] at h
  | (k, v) :: rest, h => by
    simp only [frameGet] at h
    split at h
    · rename_i hk; cases h; subst hk; exact List.mem_cons_self
    · exact List.mem_cons_of_mem _ (frameGet_mem h)

theorem stackGet_mem {x : String} {r : Option Expr} : ∀ {st : List Frame}, stackGet x st = some r → ∃ f ∈ st, (x, r) ∈ f
  | [], h => by simp [stackGet] at h
  | f :: fs, h => by
    simp only [stackGet] at h
    cases hf : frameGet x f with
    | some r' =>
      rw [hf] at h; cases h
      exact ⟨f, List.mem_cons_self, frameGet_mem hf⟩
    | none =>
      rw [hf] at h
      obtain ⟨g, hg, hm⟩ := stackGet_mem h
      exact ⟨g, List.mem_cons_of_mem _ hg, hm⟩

theorem allNames_sub_active {st : List Frame} {x : String} {a : Expr} (h : stackGet x st = some (some a)) :
    ∀ z ∈ allNames a, z ∈ activeNames st := by
  intro z hz
  obtain ⟨f, hf, hm⟩ := stackGet_mem h
  simp only [activeNames, List.mem_flatMap]
  exact ⟨f, hf, (x, some a), hm, hz⟩

theorem fv_sub_allNames_both :
    (∀ e : Expr, ∀ bound x, x ∈ freeNames bound e → x ∈ allNames e) ∧
    (∀ es : List Expr, ∀ bound x, x ∈ freeNamesL bound es → x ∈ allNamesL es) := by
  apply Expr.size.mutual_induct
    (motive_1 := fun e => ∀ bound x, x ∈ freeNames bound e → x ∈ allNames e)
    (motive_2 := fun es => ∀ bound x, x ∈ freeNamesL bound es → x ∈ allNamesL es)
  all_goals intros
  all_goals simp only [freeNames, freeNamesL, allNames, allNamesL, List.mem_append, List.not_mem_nil] at *
  all_goals grind

/-! ### the frame of an inlined call and the environment `bindParams` builds -/

theorem frameGet_append (y : String) (f g : Frame) :
    frameGet y (f ++ g) = match frameGet y f with | some r => some r | Option.none => frameGet y g := by
  induction f with
  | nil => rfl
  | cons p rest ih =>
    obtain ⟨k, v⟩ := p
    simp only [List.cons_append, frameGet]
    split
    · rfl
    · exact ih

/-- the values bound to the parameters are refined by the values of the argument expressions -/
def ArgRel (w : World) (env : Env) : List Val → List Expr → Prop
  | [], [] => True
  | v :: vs, a :: as => (∃ v', denLz w a env = .ok v' ∧ VLe v v') ∧ ArgRel w env vs as
  | _, _ => False

theorem frame_overlay (w : World) (env : Env) : ∀ (ps : List String) (vs : List Val) (as : List Expr) (E : Env),
    ps.length = vs.length → ArgRel w env vs as → ∀ y,
    match frameGet y (bindFrame ps as) with
    | some (some a) => ∃ v v', overlay (ps.zip vs) E y = some v ∧ denLz w a env = .ok v' ∧ VLe v v'
    | some Option.none => False
    | Option.none => overlay (ps.zip vs) E y = E y
  | [], vs, as, E, hl, hr, y => by
    cases vs with
    | nil => cases as <;> simp [bindFrame, frameGet, overlay]
    | cons v vs => simp at hl
  | p :: ps, [], as, E, hl, hr, y => by simp at hl
  | p :: ps, v :: vs, [], E, hl, hr, y => by simp [ArgRel] at hr
  | p :: ps, v :: vs, a :: as, E, hl, hr, y => by
    simp only [ArgRel] at hr
    have ih := frame_overlay w env ps vs as (E.upd p v) (by simpa using hl) hr.2 y
    simp only [bindFrame, frameGet_append, List.zip_cons_cons]
    have hov : overlay ((p, v) :: ps.zip vs) E = overlay (ps.zip vs) (E.upd p v) := by simp [overlay]
    rw [hov]
    cases hf : frameGet y (bindFrame ps as) with
    | some r =>
      rw [hf] at ih
      cases r with
      | some a2 => simpa using ih
      | none => exact ih.elim
    | none =>
      rw [hf] at ih
      simp only [frameGet]
      by_cases hpy : p = y
      · subst hpy
        simp only [if_true]
        obtain ⟨v', hv', hvv⟩ := hr.1
        exact ⟨v, v', by rw [ih]; simp [Env.upd], hv', hvv⟩
      · simp only [hpy, if_false]
        rw [ih]
        have : ¬ y = p := fun h => hpy h.symm
        simp [Env.upd, this]

/-- hiding one name: it is kept (and then no argument mentions it) or replaced by a name that no argument and no name
    of the body mentions -/
theorem hide1 (st : List Frame) (x : String) (body : List String) :
    ∃ x' r, hideRename st [x] body = ([x'], [(x, r)]) ∧ x' ∉ activeNames st ∧
      ((x' = x ∧ r = Option.none) ∨ (r = some (.name x') ∧ x' ∉ body ∧ x' ≠ x)) := by
  simp only [hideRename, hideLoop]
  split
  · rename_i hu
    refine ⟨_, _, rfl, ?_, Or.inr ⟨rfl, ?_, ?_⟩⟩
    · intro h
      exact freshLocal_fresh x _ (List.mem_append_left _ (List.mem_append_left _ h))
    · intro h
      exact freshLocal_fresh x _ (List.mem_append_right _ h)
    · intro h
      have := freshLocal_fresh x (activeNames st ++ [x] ++ body)
      rw [h] at this
      exact this (by simp)
  · rename_i hu
    exact ⟨x, Option.none, rfl, by simpa using hu, Or.inl ⟨rfl, rfl⟩⟩

theorem frameGet_bindFrame_none (y : String) : ∀ (ps : List String) (as : List Expr), y ∉ ps → frameGet y (bindFrame ps as) = Option.none
  | [], _, _ => by simp [bindFrame, frameGet]
  | p :: ps, [], _ => by simp [bindFrame, frameGet]
  | p :: ps, a :: as, h => by
    simp only [List.mem_cons, not_or] at h
    simp only [bindFrame, frameGet_append, frameGet_bindFrame_none y ps as h.2, frameGet]
    have : ¬ p = y := fun hh => h.1 hh.symm
    simp [this]

theorem argRel_of_all2 (w : World) (envM env : Env) : ∀ (as es' : List Expr) (vs : List Val),
    All2 (DRel envM env) (denLLz w as) (denLLz w es') → evalAll (denLLz w as) envM = .ok vs → ArgRel w env vs es'
  | [], [], vs, _, h => by
    simp [denLLz, evalAll, seqRes] at h
    subst h; trivial
  | [], e' :: es', vs, hall, _ => by simp [denLLz] at hall; cases hall
  | a :: as, [], vs, hall, _ => by simp [denLLz] at hall; cases hall
  | a :: as, e' :: es', vs, hall, h => by
    simp only [denLLz] at hall
    cases hall with
    | cons h1 h2 =>
      simp only [denLLz, evalAll, List.map_cons, seqRes] at h
      cases ha : denLz w a envM with
      | error e => simp [ha, bind, Except.bind] at h
      | ok v =>
        simp only [ha, bind, Except.bind] at h
        cases hr : seqRes (List.map (fun x => x envM) (denLLz w as)) with
        | error e => simp [hr] at h
        | ok rest =>
          simp only [hr, pure, Except.pure, Except.ok.injEq] at h
          subst h
          exact ⟨h1.1 v ha, argRel_of_all2 w envM env as es' rest h2 hr⟩

theorem evalAllLz_length (w : World) (env : Env) : ∀ (as : List Expr) (vs : List Val),
    evalAll (denLLz w as) env = .ok vs → vs.length = as.length
  | [], vs, h => by simp [denLLz, evalAll, seqRes] at h; subst h; rfl
  | a :: as, vs, h => by
    simp only [denLLz, evalAll, List.map_cons, seqRes] at h
    cases ha : denLz w a env with
    | error e => simp [ha, bind, Except.bind] at h
    | ok v =>
      simp only [ha, bind, Except.bind] at h
      cases hr : seqRes (List.map (fun x => x env) (denLLz w as)) with
      | error e => simp [hr] at h
      | ok rest =>
        simp only [hr, pure, Except.pure, Except.ok.injEq] at h
        subst h
        simp [evalAllLz_length w env as rest hr]

/-! ### the main induction -/

def SubOK (w : World) (st : List Frame) (envM env : Env) (names heads : List String) : Prop :=
  (∀ y ∈ names, NameRel w st envM env y) ∧ (∀ g ∈ heads, ∀ a, stackGet g st ≠ some (some a))

theorem SubOK.mono {w : World} {st : List Frame} {envM env : Env} {n n' h h' : List String}
    (hs : SubOK w st envM env n h) (hn : ∀ y ∈ n', y ∈ n) (hh : ∀ g ∈ h', g ∈ h) : SubOK w st envM env n' h' :=
  ⟨fun y hy => hs.1 y (hn y hy), fun g hg => hs.2 g (hh g hg)⟩

/-- the three global conditions on the expression -/
def Inl (e : Expr) : Prop :=
  (noComp e = true ∧ lam1 e = true) ∧ allInlinable e = true ∧ ∀ p ∈ bindersOf e, p ∉ headNames e

def InlL (es : List Expr) : Prop :=
  (noCompL es = true ∧ lam1L es = true) ∧ allInlinableL es = true ∧ ∀ p ∈ bindersOfL es, p ∉ headNamesL es

theorem lamRel_self (w : World) (hw : WorldOK w) (e : Expr) (env : Env) (henv : EnvLe env env) :
    LamRel env env (denLamLz w e) (denLamLz w e) := ((denLz_mono_both w hw).1 e env env henv henv).2.2

theorem dRel_of (w : World) (hw : WorldOK w) {envM env : Env} (henv : EnvLe env env) {e e' : Expr}
    (h : RLe (denLz w e envM) (denLz w e' env)) : DRel envM env (denLz w e) (denLz w e') :=
  ⟨h, denLz_self w hw e' env henv⟩

theorem lamRel_of (w : World) (hw : WorldOK w) {envM env : Env} (henv : EnvLe env env) {l : LamD} {e' : Expr}
    (h1 : FnLe (applyLam1 l envM) (applyLam1 (denLamLz w e') env))
    (h2 : FnLe2 (applyLam2 l envM) (applyLam2 (denLamLz w e') env)) : LamRel envM env l (denLamLz w e') :=
  ⟨h1, (lamRel_self w hw e' env henv).1, h2, (lamRel_self w hw e' env henv).2.2.1⟩

theorem lamRel_none_left (w : World) (hw : WorldOK w) {envM env : Env} (henv : EnvLe env env) (e' : Expr) :
    LamRel envM env Option.none (denLamLz w e') :=
  lamRel_of w hw henv (fun _ _ _ _ => RLe.error _ _) (fun _ _ _ _ _ _ _ _ => RLe.error _ _)

theorem mem_bindersOf_call_f {p : String} {f : Expr} (h : p ∈ bindersOf f) (args : List Expr) (kwn : List String) (kwv : List Expr) :
    p ∈ bindersOf (.call f args kwn kwv) := by simp [bindersOf, h]

theorem mem_headNames_call_f {p : String} {f : Expr} (h : p ∈ headNames f) (args : List Expr) (kwn : List String) (kwv : List Expr) :
    p ∈ headNames (.call f args kwn kwv) := by simp [headNames, h]

/-- the statement for the body of a lambda (used when the lambda is immediately called) -/
def BodyOK (w : World) (b : Expr) : Prop :=
  Inl b → ∀ (st : List Frame) (envM env : Env), EnvLe env env → SubOK w st envM env (allNames b) (headNames b) →
    RLe (denLz w b envM) (denLz w (resolveCalled st b) env)

theorem resolveCalled_sem_both (w : World) (hw : WorldOK w) :
    (∀ e : Expr, (∀ ps b, e = .lam ps b → BodyOK w b) ∧ (Inl e → ∀ (st : List Frame) (envM env : Env), EnvLe env env →
        SubOK w st envM env (allNames e) (headNames e) →
        RLe (denLz w e envM) (denLz w (resolveCalled st e) env) ∧
        ((∀ x, e = .name x → ∀ a, stackGet x st ≠ some (some a)) → (∀ ps b, e ≠ .lam ps b) →
          HeadRel envM env (denHeadLz w e) (denHeadLz w (resolveCalled st e))) ∧
        LamRel envM env (denLamLz w e) (denLamLz w (resolveCalled st e)))) ∧
    (∀ es : List Expr, InlL es → ∀ (st : List Frame) (envM env : Env), EnvLe env env →
        SubOK w st envM env (allNamesL es) (headNamesL es) →
        All2 (DRel envM env) (denLLz w es) (denLLz w (resolveCalledL st es)) ∧
        All2 (LamRel envM env) (denLamLLz w es) (denLamLLz w (resolveCalledL st es))) := by
  apply Expr.size.mutual_induct
    (motive_1 := fun e => (∀ ps b, e = .lam ps b → BodyOK w b) ∧ (Inl e → ∀ (st : List Frame) (envM env : Env), EnvLe env env →
        SubOK w st envM env (allNames e) (headNames e) →
        RLe (denLz w e envM) (denLz w (resolveCalled st e) env) ∧
        ((∀ x, e = .name x → ∀ a, stackGet x st ≠ some (some a)) → (∀ ps b, e ≠ .lam ps b) →
          HeadRel envM env (denHeadLz w e) (denHeadLz w (resolveCalled st e))) ∧
        LamRel envM env (denLamLz w e) (denLamLz w (resolveCalled st e))))
    (motive_2 := fun es => InlL es → ∀ (st : List Frame) (envM env : Env), EnvLe env env →
        SubOK w st envM env (allNamesL es) (headNamesL es) →
        All2 (DRel envM env) (denLLz w es) (denLLz w (resolveCalledL st es)) ∧
        All2 (LamRel envM env) (denLamLLz w es) (denLamLLz w (resolveCalledL st es)))
  case case1 =>
    intro x
    refine ⟨fun ps b h => (by cases h), ?_⟩
    intro _ st envM env henv hs
    have hn := hs.1 x (by simp [allNames])
    refine ⟨?_, ?_, ?_⟩
    · unfold NameRel at hn
      simp only [resolveCalled]
      intro v hv
      simp only [denLz] at hv
      cases hx : envM x with
      | none => simp [hx] at hv
      | some u =>
        simp only [hx, Except.ok.injEq] at hv; subst hv
        cases hst : stackGet x st with
        | none =>
          rw [hst] at hn
          obtain ⟨v', hv', hvv⟩ := hn u hx
          exact ⟨v', by simp [denLz, hv'], hvv⟩
        | some r =>
          cases r with
          | none =>
            rw [hst] at hn
            obtain ⟨v', hv', hvv⟩ := hn u hx
            exact ⟨v', by simp [denLz, hv'], hvv⟩
          | some a =>
            rw [hst] at hn
            exact hn u hx
    · intro hns _
      have := hns x rfl
      simp only [resolveCalled]
      cases hst : stackGet x st with
      | none => simp [denHeadLz, HeadRel]
      | some r =>
        cases r with
        | none => simp [denHeadLz, HeadRel]
        | some a => exact absurd hst (this a)
    · exact lamRel_none_left w hw henv _
  case case2 =>
    intro c
    refine ⟨fun ps b h => (by cases h), ?_⟩
    intro _ st envM env henv _
    exact ⟨RLe.refl_of_ok (fun v h => constVal_wf c v h), fun _ _ => by simp [resolveCalled, denHeadLz, HeadRel], lamRel_none_left w hw henv _⟩
  case case3 =>
    intro v a ih
    refine ⟨fun ps b h => (by cases h), ?_⟩
    intro hI st envM env henv hs
    have hIv : Inl v := by
      obtain ⟨h1, h2, h3⟩ := hI
      exact ⟨⟨by simpa [noComp] using h1.1, by simpa [lam1] using h1.2⟩, by simpa [allInlinable] using h2, by simpa [bindersOf, headNames] using h3⟩
    have h := (ih.2 hIv st envM env henv (hs.mono (fun y hy => by simp [allNames, hy]) (fun g hg => by simp [headNames, hg]))).1
    refine ⟨?_, fun _ _ => ?_, lamRel_none_left w hw henv _⟩
    · simp only [resolveCalled, denLz]
      exact RLe.bind h (fun x x' hx => getAttrLz_mono a hx)
    · simp only [resolveCalled, denHeadLz, HeadRel, true_and]
      exact dRel_of w hw henv h
  case case4 =>
    intro f args kwn kwv ihf iha ihk
    refine ⟨fun ps b h => (by cases h), ?_⟩
    intro hI st envM env henv hs
    have hhead : ∀ e', HeadRel envM env (denHeadLz w (Expr.call f args kwn kwv)) e' := fun e' => by simp [denHeadLz, HeadRel]
    refine ⟨?_, fun _ _ => hhead _, lamRel_none_left w hw henv _⟩
    obtain ⟨h1, h2, h3⟩ := hI
    -- the arguments
    have hargs : ∀ (hla : lam1L args = true) (hlk : lam1L kwv = true) (hna : noCompL args = true) (hnk : noCompL kwv = true)
        (hia : allInlinableL args = true) (hik : allInlinableL kwv = true),
        (All2 (DRel envM env) (denLLz w args) (denLLz w (resolveCalledL st args)) ∧
          All2 (LamRel envM env) (denLamLLz w args) (denLamLLz w (resolveCalledL st args))) ∧
        (All2 (DRel envM env) (denLLz w kwv) (denLLz w (resolveCalledL st kwv)) ∧
          All2 (LamRel envM env) (denLamLLz w kwv) (denLamLLz w (resolveCalledL st kwv))) := by
      intro hla hlk hna hnk hia hik
      have hIa : InlL args := ⟨⟨hna, hla⟩, hia, fun p hp hh => h3 p (by simp [bindersOf, hp]) (by simp [headNames, hh])⟩
      have hIk : InlL kwv := ⟨⟨hnk, hlk⟩, hik, fun p hp hh => h3 p (by simp [bindersOf, hp]) (by simp [headNames, hh])⟩
      exact ⟨iha hIa st envM env henv (hs.mono (fun y hy => by simp [allNames, hy]) (fun g hg => by simp [headNames, hg])),
        ihk hIk st envM env henv (hs.mono (fun y hy => by simp [allNames, hy]) (fun g hg => by simp [headNames, hg]))⟩
    -- a callee that is not a lambda
    have hgen : ∀ (hf : Inl f) (hnl : ∀ ps b, f ≠ .lam ps b)
        (hname : ∀ x, f = .name x → ∀ a, stackGet x st ≠ some (some a))
        (hla : lam1L args = true) (hlk : lam1L kwv = true) (hna : noCompL args = true) (hnk : noCompL kwv = true)
        (hia : allInlinableL args = true) (hik : allInlinableL kwv = true),
        RLe (denLz w (.call f args kwn kwv) envM)
          (denLz w (.call (resolveCalled st f) (resolveCalledL st args) kwn (resolveCalledL st kwv)) env) := by
      intro hf hnl hname hla hlk hna hnk hia hik
      obtain ⟨ra, rk⟩ := hargs hla hlk hna hnk hia hik
      have rf := (ihf.2 hf st envM env henv (hs.mono (fun y hy => by simp [allNames, hy]) (fun g hg => by simp [headNames, hg]))).2.1 hname hnl
      simp only [denLz]
      exact callSemLz_rel w hw kwn rf ra.1 ra.2 rk.1
    cases f with
    | lam ps body =>
      simp only [noComp, lam1, allInlinable, Bool.and_eq_true, decide_eq_true_eq] at h1 h2
      have hlen : ps.length = args.length := h2.1.1.1
      obtain ⟨ra, rk⟩ := hargs h1.2.1.2 h1.2.2 h1.1.1.2 h1.1.2 h2.1.2 h2.2
      have hIb : Inl body := ⟨⟨h1.1.1.1, h1.2.1.1⟩, h2.1.1.2, fun p hp hh => h3 p (by simp [bindersOf, hp]) (by simp [headNames, hh])⟩
      have hbody := ihf.1 ps body rfl
      simp only [resolveCalled, hlen, if_true]
      intro out ho
      simp only [denLz, denHeadLz, callSemLz] at ho
      cases hvs : evalAll (denLLz w args) envM with
      | error e => simp [hvs, bind, Except.bind] at ho
      | ok vs =>
        simp only [hvs, bind, Except.bind] at ho
        cases hkv : evalAll (denLLz w kwv) envM with
        | error e => simp [hkv] at ho
        | ok kvs =>
          simp only [hkv] at ho
          cases hbp : bindParams ps vs kwn kvs envM with
          | error e => simp [hbp] at ho
          | ok envM2 =>
            simp only [hbp] at ho
            have hvl : vs.length = args.length := evalAllLz_length w envM args vs hvs
            obtain ⟨hd, _, hkl, henv2, hkw, _, _⟩ := bindParams_char ps vs kwn kvs envM envM2 hbp
            have hkn : kwn = [] := by
              cases kwn with
              | nil => rfl
              | cons k ks =>
                have := hkw k List.mem_cons_self
                rw [hvl, ← hlen] at this
                simp at this
            subst hkn
            have hkvs : kvs = [] := by
              cases kvs with
              | nil => rfl
              | cons a b => simp at hkl
            subst hkvs
            have henv2' : envM2 = overlay (ps.zip vs) envM := by
              rw [henv2, hvl, ← hlen]; simp
            have harg := argRel_of_all2 w envM env args (resolveCalledL st args) vs ra.1 hvs
            have hfo := frame_overlay w env ps vs (resolveCalledL st args) envM (by rw [hvl, hlen]) harg
            refine hbody hIb (bindFrame ps (resolveCalledL st args) :: st) envM2 env henv ⟨?_, ?_⟩ out ho
            · intro y hy
              unfold NameRel
              have hy' := hfo y
              simp only [stackGet]
              cases hfg : frameGet y (bindFrame ps (resolveCalledL st args)) with
              | some r =>
                rw [hfg] at hy'
                cases r with
                | some a =>
                  simp only [] at hy' ⊢
                  obtain ⟨v, v', hv, hv', hvv⟩ := hy'
                  intro u hu
                  rw [henv2', hv] at hu
                  cases hu
                  exact ⟨v', hv', hvv⟩
                | none => exact hy'.elim
              | none =>
                rw [hfg] at hy'
                simp only [] at hy' ⊢
                have hold := hs.1 y (by simp [allNames, hy])
                unfold NameRel at hold
                rw [henv2', hy']
                exact hold
            · intro g hg a
              have hgp : g ∉ ps := by
                intro hgp
                exact h3 g (by simp [bindersOf, hgp]) (by simp [headNames, hg])
              simp only [stackGet, frameGet_bindFrame_none g ps _ hgp]
              exact hs.2 g (by simp [headNames, hg]) a
    | name g =>
      simp only [noComp, lam1, allInlinable, Bool.and_eq_true, decide_eq_true_eq] at h1 h2
      have hng : ∀ a, stackGet g st ≠ some (some a) := hs.2 g (by simp [headNames])
      have := hgen ⟨⟨by simp [noComp], by simp [lam1]⟩, by simp [allInlinable], by simp [bindersOf]⟩ (fun _ _ h => by cases h)
        (fun x hx => by cases hx; exact hng) h1.2.1.2 h1.2.2 h1.1.1.2 h1.1.2 h2.1.2 h2.2
      simpa [resolveCalled] using this
    | const c =>
      simp only [noComp, lam1, allInlinable, Bool.and_eq_true, decide_eq_true_eq] at h1 h2
      have := hgen ⟨⟨by simp [noComp], by simp [lam1]⟩, by simp [allInlinable], by simp [bindersOf]⟩ (fun _ _ h => by cases h)
        (fun x hx => by cases hx) h1.2.1.2 h1.2.2 h1.1.1.2 h1.1.2 h2.1.2 h2.2
      simpa [resolveCalled] using this
    | attr v a =>
      have hf : Inl (.attr v a) := ⟨⟨by simp_all [noComp], by simp_all [lam1]⟩, by simp_all [allInlinable],
        fun p hp hh => h3 p (mem_bindersOf_call_f hp _ _ _) (mem_headNames_call_f hh _ _ _)⟩
      have hparts : lam1L args = true ∧ lam1L kwv = true ∧ noCompL args = true ∧ noCompL kwv = true ∧
          allInlinableL args = true ∧ allInlinableL kwv = true := by simp_all [noComp, lam1, allInlinable]
      have := hgen hf (fun _ _ h => by cases h) (fun x hx => by cases hx) hparts.1 hparts.2.1 hparts.2.2.1 hparts.2.2.2.1
        hparts.2.2.2.2.1 hparts.2.2.2.2.2
      simpa [resolveCalled] using this
    | sub v s2 =>
      have hf : Inl (.sub v s2) := ⟨⟨by simp_all [noComp], by simp_all [lam1]⟩, by simp_all [allInlinable],
        fun p hp hh => h3 p (mem_bindersOf_call_f hp _ _ _) (mem_headNames_call_f hh _ _ _)⟩
      have hparts : lam1L args = true ∧ lam1L kwv = true ∧ noCompL args = true ∧ noCompL kwv = true ∧
          allInlinableL args = true ∧ allInlinableL kwv = true := by simp_all [noComp, lam1, allInlinable]
      have := hgen hf (fun _ _ h => by cases h) (fun x hx => by cases hx) hparts.1 hparts.2.1 hparts.2.2.1 hparts.2.2.2.1
        hparts.2.2.2.2.1 hparts.2.2.2.2.2
      simpa [resolveCalled] using this
    | tuple es =>
      have hf : Inl (.tuple es) := ⟨⟨by simp_all [noComp], by simp_all [lam1]⟩, by simp_all [allInlinable],
        fun p hp hh => h3 p (mem_bindersOf_call_f hp _ _ _) (mem_headNames_call_f hh _ _ _)⟩
      have hparts : lam1L args = true ∧ lam1L kwv = true ∧ noCompL args = true ∧ noCompL kwv = true ∧
          allInlinableL args = true ∧ allInlinableL kwv = true := by simp_all [noComp, lam1, allInlinable]
      have := hgen hf (fun _ _ h => by cases h) (fun x hx => by cases hx) hparts.1 hparts.2.1 hparts.2.2.1 hparts.2.2.2.1
        hparts.2.2.2.2.1 hparts.2.2.2.2.2
      simpa [resolveCalled] using this
    | list es =>
      have hf : Inl (.list es) := ⟨⟨by simp_all [noComp], by simp_all [lam1]⟩, by simp_all [allInlinable],
        fun p hp hh => h3 p (mem_bindersOf_call_f hp _ _ _) (mem_headNames_call_f hh _ _ _)⟩
      have hparts : lam1L args = true ∧ lam1L kwv = true ∧ noCompL args = true ∧ noCompL kwv = true ∧
          allInlinableL args = true ∧ allInlinableL kwv = true := by simp_all [noComp, lam1, allInlinable]
      have := hgen hf (fun _ _ h => by cases h) (fun x hx => by cases hx) hparts.1 hparts.2.1 hparts.2.2.1 hparts.2.2.2.1
        hparts.2.2.2.2.1 hparts.2.2.2.2.2
      simpa [resolveCalled] using this
    | dict ks vs =>
      have hf : Inl (.dict ks vs) := ⟨⟨by simp_all [noComp], by simp_all [lam1]⟩, by simp_all [allInlinable],
        fun p hp hh => h3 p (mem_bindersOf_call_f hp _ _ _) (mem_headNames_call_f hh _ _ _)⟩
      have hparts : lam1L args = true ∧ lam1L kwv = true ∧ noCompL args = true ∧ noCompL kwv = true ∧
          allInlinableL args = true ∧ allInlinableL kwv = true := by simp_all [noComp, lam1, allInlinable]
      have := hgen hf (fun _ _ h => by cases h) (fun x hx => by cases hx) hparts.1 hparts.2.1 hparts.2.2.1 hparts.2.2.2.1
        hparts.2.2.2.2.1 hparts.2.2.2.2.2
      simpa [resolveCalled] using this
    | op k es =>
      have hf : Inl (.op k es) := ⟨⟨by simp_all [noComp], by simp_all [lam1]⟩, by simp_all [allInlinable],
        fun p hp hh => h3 p (mem_bindersOf_call_f hp _ _ _) (mem_headNames_call_f hh _ _ _)⟩
      have hparts : lam1L args = true ∧ lam1L kwv = true ∧ noCompL args = true ∧ noCompL kwv = true ∧
          allInlinableL args = true ∧ allInlinableL kwv = true := by simp_all [noComp, lam1, allInlinable]
      have := hgen hf (fun _ _ h => by cases h) (fun x hx => by cases hx) hparts.1 hparts.2.1 hparts.2.2.1 hparts.2.2.2.1
        hparts.2.2.2.2.1 hparts.2.2.2.2.2
      simpa [resolveCalled] using this
    | comp kind el t i ifs a =>
      simp [noComp] at h1
    | call f2 a2 k2 v2 =>
      have hf : Inl (.call f2 a2 k2 v2) := ⟨⟨by simp_all [noComp], by simp_all [lam1]⟩, by simp_all [allInlinable],
        fun p hp hh => h3 p (mem_bindersOf_call_f hp _ _ _) (mem_headNames_call_f hh _ _ _)⟩
      have hparts : lam1L args = true ∧ lam1L kwv = true ∧ noCompL args = true ∧ noCompL kwv = true ∧
          allInlinableL args = true ∧ allInlinableL kwv = true := by simp_all [noComp, lam1, allInlinable]
      have := hgen hf (fun _ _ h => by cases h) (fun x hx => by cases hx) hparts.1 hparts.2.1 hparts.2.2.1 hparts.2.2.2.1
        hparts.2.2.2.2.1 hparts.2.2.2.2.2
      simpa [resolveCalled] using this
  case case5 =>
    intro ps b ih
    refine ⟨fun ps' b' h => (by
      cases h
      exact fun hIb st envM env henv hs => (ih.2 hIb st envM env henv hs).1), ?_⟩
    intro hI st envM env henv hs
    obtain ⟨h1, h2, h3⟩ := hI
    simp only [noComp, lam1, allInlinable, Bool.and_eq_true, decide_eq_true_eq] at h1 h2
    have hIb : Inl b := ⟨⟨h1.1, h1.2.2⟩, h2, fun p hp hh => h3 p (by simp [bindersOf, hp]) (by simpa [headNames] using hh)⟩
    obtain ⟨x, rfl⟩ : ∃ x, ps = [x] := by
      rcases ps with _ | ⟨x, _ | ⟨y, r⟩⟩ <;> simp at h1
      exact ⟨x, rfl⟩
    obtain ⟨x', r, hhide, hact, hcase⟩ := hide1 st x (allNames b)
    have hxh : x ∉ headNames b := by
      have := h3 x (by simp [bindersOf])
      simpa [headNames] using this
    refine ⟨RLe.error _ _, fun _ hne => absurd rfl (hne [x] b), ?_⟩
    have hrc : resolveCalled st (.lam [x] b) = .lam [x'] (resolveCalled ([(x, r)] :: st) b) := by
      simp only [resolveCalled, hhide]
    rw [hrc]
    apply lamRel_of w hw henv
    · -- one-parameter application
      intro v v' hv hv'
      simp only [denLamLz, applyLam1]
      refine (ih.2 hIb ([(x, r)] :: st) (envM.upd x v) (env.upd x' v') (henv.upd x' hv') ⟨?_, ?_⟩).1
      · intro y hy
        unfold NameRel
        by_cases hyx : y = x
        · subst hyx
          have hsg : stackGet y ([(y, r)] :: st) = some r := by simp [stackGet, frameGet]
          rw [hsg]
          rcases hcase with ⟨rfl, rfl⟩ | ⟨rfl, _, _⟩
          · simp only []
            intro u hu
            simp only [Env.upd, if_true, Option.some.injEq] at hu; subst hu
            exact ⟨v', by simp [Env.upd], hv⟩
          · simp only []
            intro u hu
            simp only [Env.upd, if_true, Option.some.injEq] at hu; subst hu
            exact ⟨v', by simp [denLz, Env.upd], hv⟩
        · have hsg : stackGet y ([(x, r)] :: st) = stackGet y st := by
            have : ¬ x = y := fun h => hyx h.symm
            simp [stackGet, frameGet, this]
          rw [hsg]
          have hold := hs.1 y (by simpa [allNames] using hy)
          unfold NameRel at hold
          have hyx' : y ≠ x' := by
            rcases hcase with ⟨rfl, _⟩ | ⟨_, hnb, _⟩
            · exact hyx
            · intro h; subst h; exact hnb hy
          cases hst : stackGet y st with
          | none =>
            rw [hst] at hold
            simp only []
            intro u hu
            simp only [Env.upd, hyx, if_false] at hu
            obtain ⟨u', hu', huu⟩ := hold u hu
            exact ⟨u', by simp [Env.upd, hyx', hu'], huu⟩
          | some r2 =>
            cases r2 with
            | none =>
              rw [hst] at hold
              simp only []
              intro u hu
              simp only [Env.upd, hyx, if_false] at hu
              obtain ⟨u', hu', huu⟩ := hold u hu
              exact ⟨u', by simp [Env.upd, hyx', hu'], huu⟩
            | some a =>
              rw [hst] at hold
              simp only []
              intro u hu
              simp only [Env.upd, hyx, if_false] at hu
              obtain ⟨u', hu', huu⟩ := hold u hu
              refine ⟨u', ?_, huu⟩
              rw [denLz_upd_fresh w a env x' v' ?_]
              · exact hu'
              · intro hfv
                exact hact (allNames_sub_active hst x' (fv_sub_allNames_both.1 a [] x' hfv))
      · intro g hg a
        have hgx : g ≠ x := fun h => hxh (h ▸ hg)
        have hsg : stackGet g ([(x, r)] :: st) = stackGet g st := by
          have : ¬ x = g := fun h => hgx h.symm
          simp [stackGet, frameGet, this]
        rw [hsg]
        exact hs.2 g (by simpa [headNames] using hg) a
    · intro a a' v v' _ _ _ _
      simp only [denLamLz, applyLam2]
      exact RLe.error _ _
  case case6 =>
    intro v s ihv ihs
    refine ⟨fun ps b h => (by cases h), ?_⟩
    intro hI st envM env henv hs
    obtain ⟨h1, h2, h3⟩ := hI
    simp only [noComp, lam1, allInlinable, Bool.and_eq_true] at h1 h2
    have hIv : Inl v := ⟨⟨h1.1.1, h1.2.1⟩, h2.1, fun p hp hh => h3 p (by simp [bindersOf, hp]) (by simp [headNames, hh])⟩
    have hIs : Inl s := ⟨⟨h1.1.2, h1.2.2⟩, h2.2, fun p hp hh => h3 p (by simp [bindersOf, hp]) (by simp [headNames, hh])⟩
    have r1 := (ihv.2 hIv st envM env henv (hs.mono (fun y hy => by simp [allNames, hy]) (fun g hg => by simp [headNames, hg]))).1
    have r2 := (ihs.2 hIs st envM env henv (hs.mono (fun y hy => by simp [allNames, hy]) (fun g hg => by simp [headNames, hg]))).1
    refine ⟨?_, fun _ _ => by simp [resolveCalled, denHeadLz, HeadRel], lamRel_none_left w hw henv _⟩
    simp only [resolveCalled, denLz]
    exact RLe.bind r1 (fun x x' hx => RLe.bind r2 (fun i i' hi => subscriptLz_mono hx hi))
  case case7 =>
    intro es ih
    refine ⟨fun ps b h => (by cases h), ?_⟩
    intro hI st envM env henv hs
    have hIes : InlL es := by
      obtain ⟨h1, h2, h3⟩ := hI
      exact ⟨⟨by simpa [noComp] using h1.1, by simpa [lam1] using h1.2⟩, by simpa [allInlinable] using h2, by simpa [bindersOf, headNames] using h3⟩
    have r := (ih hIes st envM env henv (hs.mono (fun y hy => by simp [allNames, hy]) (fun g hg => by simp [headNames, hg]))).1
    refine ⟨?_, fun _ _ => by simp [resolveCalled, denHeadLz, HeadRel], lamRel_none_left w hw henv _⟩
    simp only [resolveCalled, denLz]
    apply RLeS.bindR (evalAll_rel r) (evalAll_rel_self r)
    intro vs vs' hv _ out ho
    cases ho
    exact ⟨.tuple vs', rfl, by simpa [VLe] using hv⟩
  case case8 =>
    intro es ih
    refine ⟨fun ps b h => (by cases h), ?_⟩
    intro hI st envM env henv hs
    have hIes : InlL es := by
      obtain ⟨h1, h2, h3⟩ := hI
      exact ⟨⟨by simpa [noComp] using h1.1, by simpa [lam1] using h1.2⟩, by simpa [allInlinable] using h2, by simpa [bindersOf, headNames] using h3⟩
    have r := (ih hIes st envM env henv (hs.mono (fun y hy => by simp [allNames, hy]) (fun g hg => by simp [headNames, hg]))).1
    refine ⟨?_, fun _ _ => by simp [resolveCalled, denHeadLz, HeadRel], lamRel_none_left w hw henv _⟩
    simp only [resolveCalled, denLz]
    apply RLeS.bindR (evalAll_rel r) (evalAll_rel_self r)
    intro vs vs' hv _ out ho
    cases ho
    exact ⟨.list vs', rfl, by simp only [VLe]; exact hv.toL⟩
  case case9 =>
    intro ks vs ihk ihv
    refine ⟨fun ps b h => (by cases h), ?_⟩
    intro hI st envM env henv hs
    obtain ⟨h1, h2, h3⟩ := hI
    simp only [noComp, lam1, allInlinable, Bool.and_eq_true] at h1 h2
    have hIk : InlL ks := ⟨⟨h1.1.1, h1.2.1⟩, h2.1, fun p hp hh => h3 p (by simp [bindersOf, hp]) (by simp [headNames, hh])⟩
    have hIv : InlL vs := ⟨⟨h1.1.2, h1.2.2⟩, h2.2, fun p hp hh => h3 p (by simp [bindersOf, hp]) (by simp [headNames, hh])⟩
    have r1 := (ihk hIk st envM env henv (hs.mono (fun y hy => by simp [allNames, hy]) (fun g hg => by simp [headNames, hg]))).1
    have r2 := (ihv hIv st envM env henv (hs.mono (fun y hy => by simp [allNames, hy]) (fun g hg => by simp [headNames, hg]))).1
    refine ⟨?_, fun _ _ => by simp [resolveCalled, denHeadLz, HeadRel], lamRel_none_left w hw henv _⟩
    simp only [resolveCalled, denLz]
    apply RLeS.bindR (evalAll_rel r1) (evalAll_rel_self r1)
    intro kv kv' hkv _
    apply RLeS.bindR (evalAll_rel r2) (evalAll_rel_self r2)
    intro vv vv' hvv _
    rw [← VLeS.length hkv, ← VLeS.length hvv]
    split
    · exact mkDictLz_mono hkv hvv
    · exact RLe.error _ _
  case case10 =>
    intro k args ih
    refine ⟨fun ps b h => (by cases h), ?_⟩
    intro hI st envM env henv hs
    have hIes : InlL args := by
      obtain ⟨h1, h2, h3⟩ := hI
      exact ⟨⟨by simpa [noComp] using h1.1, by simpa [lam1] using h1.2⟩, by simpa [allInlinable] using h2, by simpa [bindersOf, headNames] using h3⟩
    have r := (ih hIes st envM env henv (hs.mono (fun y hy => by simp [allNames, hy]) (fun g hg => by simp [headNames, hg]))).1
    refine ⟨?_, fun _ _ => by simp [resolveCalled, denHeadLz, HeadRel], lamRel_none_left w hw henv _⟩
    simp only [resolveCalled, denLz]
    exact evOpLz_mono k (All2_map_env r)
  case case11 =>
    intro kind el t i ifs a _ _ _ _
    refine ⟨fun ps b h => (by cases h), ?_⟩
    intro hI
    have := hI.1.1
    simp [noComp] at this
  case case12 =>
    intro _ st envM env _ _
    exact ⟨.nil, .nil⟩
  case case13 =>
    intro e es ihe ihes hI st envM env henv hs
    obtain ⟨h1, h2, h3⟩ := hI
    simp only [noCompL, lam1L, allInlinableL, Bool.and_eq_true] at h1 h2
    have hIe : Inl e := ⟨⟨h1.1.1, h1.2.1⟩, h2.1, fun p hp hh => h3 p (by simp [bindersOfL, hp]) (by simp [headNamesL, hh])⟩
    have hIes : InlL es := ⟨⟨h1.1.2, h1.2.2⟩, h2.2, fun p hp hh => h3 p (by simp [bindersOfL, hp]) (by simp [headNamesL, hh])⟩
    have r1 := ihe.2 hIe st envM env henv (hs.mono (fun y hy => by simp [allNamesL, hy]) (fun g hg => by simp [headNamesL, hg]))
    have r2 := ihes hIes st envM env henv (hs.mono (fun y hy => by simp [allNamesL, hy]) (fun g hg => by simp [headNamesL, hg]))
    exact ⟨.cons (dRel_of w hw henv r1.1) r2.1, .cons r1.2.2 r2.2⟩

theorem nameRel_init (w : World) (env : Env) (henv : EnvLe env env) (y : String) : NameRel w [] env env y := by
  unfold NameRel
  simp only [stackGet]
  exact fun v hv => henv y v hv

/-- **C05 (inlining refines the value)**: for an expression without comprehensions, whose called lambdas all bind
    positionally, whose other lambdas have one parameter and whose parameters are not used as function names: whenever it
    evaluates (deferred execution; any well-behaved world, any well-formed environment), what `_resolve_called_lambdas`
    returns evaluates to a refinement of that value -/
theorem resolveCalled_refines (w : World) (hw : WorldOK w) (e : Expr) (hI : Inl e) (env : Env) (henv : EnvLe env env) :
    RLe (denLz w e env) (denLz w (resolveCalled [] e) env) :=
  (((resolveCalled_sem_both w hw).1 e).2 hI [] env env henv
    ⟨fun y _ => nameRel_init w env henv y, fun g _ a => by simp [stackGet]⟩).1

/-- … and to the very same value when that value contains no deferred failure -/
theorem resolveCalled_preserves (w : World) (hw : WorldOK w) (e : Expr) (hI : Inl e) (env : Env) (henv : EnvLe env env)
    (v : Val) (hv : evLz w env e = .ok v) (hclean : v.clean = true) : evLz w env (resolveCalled [] e) = .ok v := by
  obtain ⟨v', hv', hvv⟩ := resolveCalled_refines w hw e hI env henv v hv
  rw [VLe.eq_of_clean hclean hvv] at hv'
  exact hv'

/-- Non-vacuity: a helper with an inner lambda that re-uses the caller's variable name (the repaired capture) meets the
    conditions, and is inlined with its local renamed. -/
example : Inl (.call (.lam ["x"] (mcall (.attr (.name "x") "jets") "Select" [.lam ["j"] (.op (.bin "Add") [.attr (.name "j") "pt", .attr (.name "x") "met"])]))
    [.name "j"] [] []) := by
  refine ⟨⟨by decide, by decide⟩, by decide, ?_⟩
  intro p hp hh
  simp [bindersOf, bindersOfL, mcall] at hp
  simp [headNames, headNamesL, mcall] at hh

end Fadl
