import Fadl.Props.C10NoInt
import Fadl.Props.C08Complete
namespace Fadl
set_option linter.unusedSimpArgs false
set_option linter.unusedVariables false

mutual
/-- fuel the follower model needs on an untyped expression -/
def need : Expr → Nat
  | .name _ => 1
  | .const _ => 1
  | .lam _ _ => 1
  | .attr v _ => need v + 1
  | .sub v s => max (need v) (need s) + 1
  | .tuple es => needL es + 1
  | .list es => needL es + 1
  | .dict ks vs => max (needL ks) (needL vs) + 1
  | .op _ es => needL es + 1
  | .comp _ e t i ifs _ => max (max (need e) (need t)) (max (need i) (needL ifs)) + 1
  | .call f args _ kwv =>
    max (max (need f) (needL args)) (max (needL kwv) (max 3 (match f with
      | .lam _ b => need b
      | _ => 0))) + 1
def needL : List Expr → Nat
  | [] => 1
  | e :: es => max (need e) (needL es) + 1
end

mutual
theorem need_le_size : ∀ (e : Expr), need e ≤ 3 * e.size
  | .name _ => by simp [need, Expr.size]
  | .const _ => by simp [need, Expr.size]
  | .lam _ b => by simp only [need, Expr.size]; omega
  | .attr v _ => by have := need_le_size v; simp only [need, Expr.size]; omega
  | .sub v s => by have := need_le_size v; have := need_le_size s; simp only [need, Expr.size]; omega
  | .tuple es => by have := needL_le_size es; simp only [need, Expr.size]; omega
  | .list es => by have := needL_le_size es; simp only [need, Expr.size]; omega
  | .dict ks vs => by have := needL_le_size ks; have := needL_le_size vs; simp only [need, Expr.size]; omega
  | .op _ es => by have := needL_le_size es; simp only [need, Expr.size]; omega
  | .comp _ e t i ifs _ => by
    have := need_le_size e; have := need_le_size t; have := need_le_size i; have := needL_le_size ifs
    simp only [need, Expr.size]; omega
  | .call f args _ kwv => by
    have h1 := need_le_size f; have h2 := needL_le_size args; have h3 := needL_le_size kwv
    have hsz : 1 ≤ f.size := by cases f <;> simp only [Expr.size] <;> omega
    cases f with
    | lam ps b =>
      have hb := need_le_size b
      simp only [Expr.size] at h1 hsz ⊢
      simp only [need] at h1 ⊢
      omega
    | _ => simp only [need, Expr.size] at h1 hsz ⊢ <;> omega
theorem needL_le_size : ∀ (es : List Expr), needL es ≤ 3 * Expr.sizeL es + 1
  | [] => by simp [needL, Expr.sizeL]
  | e :: es => by
    have := need_le_size e; have := needL_le_size es
    have hsz : 1 ≤ e.size := by cases e <;> simp only [Expr.size] <;> omega
    simp only [needL, Expr.sizeL]; omega
end

theorem need_le_followFuel (e : Expr) : need e ≤ followFuel e := by
  have := need_le_size e; simp only [followFuel]; omega

def NoFuel {α : Type} (r : Except Err α) : Prop := r ≠ .error .fuel

theorem NoFuel.ok {α : Type} (a : α) : NoFuel (.ok a : Except Err α) := by intro h; cases h
theorem NoFuel.pure {α : Type} (a : α) : NoFuel (pure a : Except Err α) := by intro h; cases h
theorem NoFuel.err {α : Type} (e : Err) (h : e ≠ .fuel) : NoFuel (.error e : Except Err α) := by
  intro h2; cases h2; exact h rfl
theorem NoFuel.bind {α β : Type} {x : Except Err α} {f : α → Except Err β} (hx : NoFuel x)
    (hf : ∀ a, x = .ok a → NoFuel (f a)) : NoFuel (x >>= f) := by
  intro h
  cases x with
  | error e => cases h; exact hx rfl
  | ok a => exact hf a rfl h

theorem methodCall_untyped_noFuel (M : Model) (fuel : Nat) (G : Gamma) (st : FSt) {objTy : Ty} (recv : Expr) (m : String)
    (args : List Expr) (kwn : List String) (kwv : List Expr) (h : objTy.untyped = true) (hf : 3 ≤ fuel) :
    NoFuel (methodCall M fuel G st objTy recv m args kwn kwv) := by
  match fuel, hf with
  | k + 3, _ =>
    simp only [methodCall, isIterable_untyped M h, Bool.false_eq_true, if_false]
    simp only [candLoop, findMethod_untyped M 16 h, bind, Except.bind]
    exact NoFuel.pure _


macro "nofuel_leaf" : tactic => `(tactic| first
  | exact NoFuel.pure _
  | exact NoFuel.ok _
  | (apply NoFuel.err; intro hh; cases hh))

theorem litKey_noFuel (e : Expr) : NoFuel (litKey e) → True := fun _ => trivial

mutual
theorem literalEval_noFuel : ∀ (e : Expr), NoFuel (literalEval e)
  | .const c => by cases c <;> simp only [literalEval, constToPyVal] <;> nofuel_leaf
  | .tuple es => by
    simp only [literalEval]; exact NoFuel.bind (literalEvalL_noFuel es) (fun _ _ => NoFuel.pure _)
  | .list es => by
    simp only [literalEval]; exact NoFuel.bind (literalEvalL_noFuel es) (fun _ _ => NoFuel.pure _)
  | .dict ks vs => by
    simp only [literalEval]
    refine NoFuel.bind (literalEvalL_noFuel ks) (fun _ _ => NoFuel.bind (literalEvalL_noFuel vs) (fun _ _ => ?_))
    repeat' split
    all_goals nofuel_leaf
  | .op k es => by
    cases k with
    | un n =>
      cases es with
      | nil => simp only [literalEval]; nofuel_leaf
      | cons a rest =>
        cases rest with
        | nil =>
          simp only [literalEval]
          refine NoFuel.bind (literalEval_noFuel a) (fun _ _ => ?_)
          repeat' split
          all_goals nofuel_leaf
        | cons b r2 => simp only [literalEval]; nofuel_leaf
    | _ => simp only [literalEval]; nofuel_leaf
  | .name _ => by simp only [literalEval]; nofuel_leaf
  | .attr _ _ => by simp only [literalEval]; nofuel_leaf
  | .call _ _ _ _ => by simp only [literalEval]; nofuel_leaf
  | .lam _ _ => by simp only [literalEval]; nofuel_leaf
  | .sub _ _ => by simp only [literalEval]; nofuel_leaf
  | .comp _ _ _ _ _ _ => by simp only [literalEval]; nofuel_leaf
theorem literalEvalL_noFuel : ∀ (es : List Expr), NoFuel (literalEvalL es)
  | [] => by simp only [literalEvalL]; nofuel_leaf
  | e :: es => by
    simp only [literalEvalL]
    exact NoFuel.bind (literalEval_noFuel e) (fun _ _ => NoFuel.bind (literalEvalL_noFuel es) (fun _ _ => NoFuel.pure _))
end

theorem mapM_litKey_noFuel : ∀ (es : List Expr), NoFuel (es.mapM litKey)
  | [] => by simp only [List.mapM_nil]; exact NoFuel.pure _
  | e :: es => by
    simp only [List.mapM_cons]
    refine NoFuel.bind (by simp only [litKey]; exact literalEval_noFuel e) (fun a _ => ?_)
    exact NoFuel.bind (mapM_litKey_noFuel es) (fun b _ => NoFuel.pure _)


theorem need_pos (e : Expr) : 1 ≤ need e := by
  cases e <;> (unfold need; omega)

theorem needL_pos (es : List Expr) : 1 ≤ needL es := by
  cases es <;> (unfold needL; omega)

theorem dictLitIndex_noFuel (k : String) (es : List Expr) (i : Nat) : NoFuel (dictLitIndex k es i) := by
  obtain ⟨o, ho⟩ := dictLitIndex_noInt k es i
  rw [ho]; exact NoFuel.ok _

theorem follow_noFuel (M : Model) : ∀ fuel : Nat,
    (∀ G st e, GammaU G → noFuncCall M e = true → need e ≤ fuel → NoFuel (follow M fuel G st e)) ∧
    (∀ G st es, GammaU G → noFuncCallL M es = true → needL es ≤ fuel → NoFuel (followL M fuel G st es)) := by
  intro fuel
  induction fuel with
  | zero =>
    constructor
    · intro G st e _ _ h; have := need_pos e; omega
    · intro G st es _ _ h; have := needL_pos es; omega
  | succ fuel ih =>
    obtain ⟨ihS, ihL⟩ := ih
    have inS := (follow_untyped M fuel).1
    have inL := (follow_untyped M fuel).2
    constructor
    · intro G st e hG hn hf
      cases e with
      | name y =>
        simp only [follow]
        split
        · nofuel_leaf
        · split <;> nofuel_leaf
      | const k => simp only [follow]; nofuel_leaf
      | lam ps b => simp only [follow]; nofuel_leaf
      | attr v a =>
        simp only [noFuncCall] at hn
        simp only [need] at hf
        simp only [follow]
        refine NoFuel.bind (ihS G st v hG hn (by omega)) (fun r hr => ?_)
        split
        · refine NoFuel.bind (dictLitIndex_noFuel _ _ _) (fun oi _ => ?_)
          repeat' split
          all_goals nofuel_leaf
        · repeat' split
          all_goals nofuel_leaf
      | sub v s =>
        simp only [noFuncCall, Bool.and_eq_true] at hn
        simp only [need] at hf
        simp only [follow]
        refine NoFuel.bind (ihS G st v hG hn.1 (by omega)) (fun rv hv => ?_)
        refine NoFuel.bind (ihS G rv.st s hG hn.2 (by omega)) (fun rs hs2 => ?_)
        split
        · repeat' split
          all_goals nofuel_leaf
        · split
          · refine NoFuel.bind (by simp only [litKey]; exact literalEval_noFuel _) (fun k _ => ?_)
            repeat' split
            all_goals nofuel_leaf
          · nofuel_leaf
      | tuple es =>
        simp only [noFuncCall] at hn
        simp only [need] at hf
        simp only [follow]
        exact NoFuel.bind (ihL G st es hG hn (by omega)) (fun r _ => NoFuel.pure _)
      | list es =>
        simp only [noFuncCall] at hn
        simp only [need] at hf
        simp only [follow]
        exact NoFuel.bind (ihL G st es hG hn (by omega)) (fun r _ => NoFuel.pure _)
      | dict ks vs =>
        simp only [noFuncCall, Bool.and_eq_true] at hn
        simp only [need] at hf
        simp only [follow]
        refine NoFuel.bind (ihL G st ks hG hn.1 (by omega)) (fun rk _ => ?_)
        refine NoFuel.bind (ihL G _ vs hG hn.2 (by omega)) (fun rv _ => ?_)
        refine NoFuel.bind (mapM_litKey_noFuel _) (fun kv _ => ?_)
        nofuel_leaf
      | op k args =>
        simp only [noFuncCall] at hn
        simp only [need] at hf
        simp only [follow]
        refine NoFuel.bind (ihL G st args hG hn (by omega)) (fun r _ => ?_)
        repeat' split
        all_goals nofuel_leaf
      | comp kind el t i ifs a =>
        simp only [noFuncCall, Bool.and_eq_true] at hn
        simp only [need] at hf
        simp only [follow]
        refine NoFuel.bind (ihS G st el hG hn.1.1.1 (by omega)) (fun r1 _ => ?_)
        refine NoFuel.bind (ihS G r1.st t hG hn.1.1.2 (by omega)) (fun r2 _ => ?_)
        refine NoFuel.bind (ihS G r2.st i hG hn.1.2 (by omega)) (fun r3 _ => ?_)
        refine NoFuel.bind (ihL G r3.st ifs hG hn.2 (by omega)) (fun r4 _ => ?_)
        nofuel_leaf
      | call f args kwn kwv =>
        simp only [noFuncCall, Bool.and_eq_true] at hn
        obtain ⟨⟨⟨hnf, hna⟩, hnk⟩, hnm⟩ := hn
        unfold need at hf
        simp only [follow]
        refine NoFuel.bind (ihS G st f hG hnf (by omega)) (fun rf hrf => ?_)
        obtain ⟨f1, _, f3, _⟩ := inS G st f hG hnf rf hrf
        refine NoFuel.bind (ihL G rf.st args hG hna (by omega)) (fun ra ha => ?_)
        obtain ⟨as', st1⟩ := ra
        obtain ⟨a1, a2, a3⟩ := inL G rf.st args hG hna as' st1 ha
        simp only []
        refine NoFuel.bind (ihL G st1 kwv hG hnk (by omega)) (fun rk hk => ?_)
        obtain ⟨ks', st2⟩ := rk
        obtain ⟨k1, k2, k3⟩ := inL G st1 kwv hG hnk ks' st2 hk
        simp only []
        rw [f1]
        cases f with
        | attr recv m =>
          simp only []
          simp only [noFuncCall] at hnf
          simp only [need] at hf
          refine NoFuel.bind (ihS G st recv hG hnf (by omega)) (fun rr hr => ?_)
          obtain ⟨_, r2, _, _⟩ := inS G st recv hG hnf rr hr
          exact methodCall_untyped_noFuel M fuel G st2 recv m _ kwn _ r2 (by omega)
        | name n =>
          simp only []
          repeat' split
          all_goals nofuel_leaf
        | sub fv sl =>
          cases fv with
          | attr recv pn =>
            simp only []
            simp only [noFuncCall, Bool.and_eq_true] at hnf
            simp only [need] at hf
            refine NoFuel.bind (ihS G st recv hG hnf.1 (by omega)) (fun rr hr => ?_)
            obtain ⟨_, r2, _, _⟩ := inS G st recv hG hnf.1 rr hr
            split
            · nofuel_leaf
            · rename_i cn cargs hc
              rw [hc] at r2; simp [Ty.untyped] at r2
            · nofuel_leaf
          | _ => simp only []; nofuel_leaf
        | lam ps body =>
          simp only []
          simp only [] at hf
          simp only [noFuncCall] at hnf
          have hG' : GammaU (lamArgTys ps (as'.map (·.2)) kwn (ks'.map (·.2)) ++ G) :=
            gammaU_append (lamArgTys_untyped ps _ kwn _ a2 k2) hG
          refine NoFuel.bind (ihS _ st2 body hG' hnf (by omega)) (fun rb _ => ?_)
          nofuel_leaf
        | const c => simp only []; nofuel_leaf
        | tuple es => simp only []; nofuel_leaf
        | list es => simp only []; nofuel_leaf
        | dict ks vs => simp only []; nofuel_leaf
        | op k es => simp only []; nofuel_leaf
        | comp kind el t i ifs a => simp only []; nofuel_leaf
        | call f2 a2' k2' v2 => simp only []; nofuel_leaf
    · intro G st es hG hn hf
      cases es with
      | nil => simp only [followL]; nofuel_leaf
      | cons e rest =>
        simp only [noFuncCallL, Bool.and_eq_true] at hn
        simp only [needL] at hf
        simp only [followL]
        refine NoFuel.bind (ihS G st e hG hn.1 (by omega)) (fun r _ => ?_)
        refine NoFuel.bind (ihL G r.st rest hG hn.2 (by omega)) (fun rr _ => ?_)
        nofuel_leaf


theorem checkAst_noFuel (e : Expr) : NoFuel (checkAst e) := by
  intro h
  have := checkAst_err e _ h
  simp [ckErr] at this

/-- **C10 (refusals, final form)**: Select / SelectMany / Where on a stream whose items have an untyped type, given a
    one-parameter lambda that calls no registered function by name and is a tree the parser can produce: whatever the
    operator fails with is a `ValueError` (or the lambda holds an opaque constant outside the modelled fragment) — the
    model's fuel is always enough here. -/
theorem streamOp_untyped_refuses_with_valueError (M : Model) (op : String) (itemTy : Ty) (x : String) (body : Expr) (err : Err)
    (hi : itemTy.untyped = true) (hn : noFuncCall M body = true) (hw : wfU body = true)
    (h : streamOp M op itemTy (.lam [x] body) = .error err) :
    (∃ msg, err = .valueError msg) ∨ (∃ w, err = .unsupported w) := by
  have hd := streamOp_untyped_no_internal M op itemTy x body err hi hn hw h
  have hG : GammaU [(x, itemTy)] := by
    intro y t hy
    simp only [gammaGet] at hy
    split at hy
    · cases hy; exact hi
    · cases hy
  have hnf : NoFuel (streamOp M op itemTy (.lam [x] body)) := by
    simp only [streamOp]
    refine NoFuel.bind ((follow_noFuel M _).1 _ _ body hG hn (need_le_followFuel body)) (fun rb _ => ?_)
    refine NoFuel.bind (checkAst_noFuel _) (fun _ _ => ?_)
    repeat' split
    all_goals nofuel_leaf
  cases err with
  | valueError m => exact Or.inl ⟨m, rfl⟩
  | unsupported w => exact Or.inr ⟨w, rfl⟩
  | fuel => exact absurd h hnf
  | _ => simp [Err.designed] at hd

end Fadl
