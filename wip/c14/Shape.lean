import Fadl.Model.WfQuery
namespace Fadl
set_option linter.unusedSimpArgs false
set_option linter.unusedVariables false

/-! ### shapes: which values are packs (C14) -/

/-- the shape of a value as far as packing goes -/
inductive Shape where
  | opq                                        -- no pack inside: scalars, opaque objects, sequences of such
  | tup (ss : List Shape)
  | lst (ss : List Shape)
  | dct (ks : List Const) (ss : List Shape)    -- a dictionary literal's constant keys and the shapes of its values
  | seq (s : Shape)                            -- a sequence of packs (`seq opq` is written `opq`)
  deriving Repr, Inhabited

def Shape.isOpq : Shape → Bool
  | .opq => true
  | _ => false

def mkSeq (s : Shape) : Shape := if s.isOpq then .opq else .seq s

/-- element shape of a sequence -/
def elemOf : Shape → Option Shape
  | .opq => some .opq
  | .seq s => if s.isOpq then Option.none else some s
  | _ => Option.none

def shapeGet (x : String) : List (String × Shape) → Shape
  | [] => .opq                                  -- free names (the dataset, functions) hold no pack
  | (k, s) :: rest => if k = x then s else shapeGet x rest

/-- first value whose key equals `k` the way the simplifier compares keys -/
def dctGet : List Const → List Shape → Const → Option Shape
  | c :: ks, s :: ss, k => if constKeyEq c k then some s else dctGet ks ss k
  | _, _, _ => Option.none

def constsOf : List Expr → Option (List Const)
  | [] => some []
  | .const c :: ks => (constsOf ks).map (c :: ·)
  | _ :: _ => Option.none

def isStageOp (e : Expr) : Bool :=
  match opCall? e with
  | some (m, _) => m = "Select" || m = "SelectMany" || m = "Where"
  | Option.none => false

mutual
/-- shape of an expression of a pack chain, or `none` if it is not one: packs are only built by literals and taken apart
    by constant selectors; everything else (operators, calls, attributes of objects) handles pack-free values; the source
    of a stage is another stage or pack-free -/
def shapeOf : Nat → List (String × Shape) → Expr → Option Shape
  | 0, _, _ => Option.none
  | fuel + 1, G, e =>
    match e with
    | .name x => some (shapeGet x G)
    | .const _ => some .opq
    | .lam _ _ => Option.none
    | .comp _ _ _ _ _ _ => Option.none
    | .attr v a =>
      match shapeOf fuel G v with
      | some .opq => some .opq
      | some (.dct ks ss) => dctGet ks ss (.str a)
      | _ => Option.none
    | .sub v s =>
      match shapeOf fuel G v, shapeOf fuel G s with
      | some .opq, some .opq => some .opq
      | some (.tup cs), some .opq =>
        (match s with
         | .const (.int n) => if n ≥ 0 then cs[n.toNat]? else Option.none
         | _ => Option.none)
      | some (.lst cs), some .opq =>
        (match s with
         | .const (.int n) => if n ≥ 0 then cs[n.toNat]? else Option.none
         | _ => Option.none)
      | some (.dct ks ss), some .opq =>
        (match s with
         | .const (.int n) => dctGet ks ss (.int n)
         | .const (.str k) => dctGet ks ss (.str k)
         | _ => Option.none)
      | _, _ => Option.none
    | .tuple es => (shapeOfL fuel G es).map .tup
    | .list es => (shapeOfL fuel G es).map .lst
    | .dict ks vs =>
      match constsOf ks, shapeOfL fuel G vs with
      | some cs, some ss => some (.dct cs ss)
      | _, _ => Option.none
    | .op _ args =>
      match shapeOfL fuel G args with
      | some ss => if ss.all Shape.isOpq then some .opq else Option.none
      | Option.none => Option.none
    | .call f args kwn kwv =>
      match f, args, kwn, kwv with
      | .name "Select", [src, .lam [x] b], [], [] =>
        (match shapeOf fuel G src with
         | some s =>
           if !(isStageOp src || s.isOpq) then Option.none
           else match elemOf s with
             | some el => (shapeOf fuel ((x, el) :: G) b).map mkSeq
             | Option.none => Option.none
         | Option.none => Option.none)
      | .name "SelectMany", [src, .lam [x] b], [], [] =>
        (match shapeOf fuel G src with
         | some s =>
           if !(isStageOp src || s.isOpq) then Option.none
           else match elemOf s with
             | some el =>
               (match shapeOf fuel ((x, el) :: G) b with
                | some .opq => some .opq
                | some (.seq t) => if t.isOpq then Option.none else some (.seq t)
                | _ => Option.none)
             | Option.none => Option.none
         | Option.none => Option.none)
      | .name "Where", [src, .lam [x] c], [], [] =>
        (match shapeOf fuel G src with
         | some s =>
           if !(isStageOp src || s.isOpq) then Option.none
           else match elemOf s with
             | some el =>
               (match shapeOf fuel ((x, el) :: G) c with
                | some .opq => some s
                | _ => Option.none)
             | Option.none => Option.none
         | Option.none => Option.none)
      | .name "First", [src], [], [] =>
        (match shapeOf fuel G src with
         | some s => elemOf s
         | Option.none => Option.none)
      | .name _, _, _, _ =>
        (match shapeOfL fuel G args, shapeOfL fuel G kwv with
         | some sa, some sk => if sa.all Shape.isOpq && sk.all Shape.isOpq then some .opq else Option.none
         | _, _ => Option.none)
      | .attr v _, _, _, _ =>
        (match shapeOf fuel G v, shapeOfL fuel G args, shapeOfL fuel G kwv with
         | some .opq, some sa, some sk => if sa.all Shape.isOpq && sk.all Shape.isOpq then some .opq else Option.none
         | _, _, _ => Option.none)
      | _, _, _, _ => Option.none
def shapeOfL : Nat → List (String × Shape) → List Expr → Option (List Shape)
  | 0, _, _ => Option.none
  | _ + 1, _, [] => some []
  | fuel + 1, G, e :: es =>
    match shapeOf fuel G e, shapeOfL fuel G es with
    | some s, some ss => some (s :: ss)
    | _, _ => Option.none
end

mutual
/-- no tuple / list / dictionary construction anywhere -/
def noLit : Expr → Bool
  | .name _ => true
  | .const _ => true
  | .attr v _ => noLit v
  | .lam _ b => noLit b
  | .sub v s => noLit v && noLit s
  | .tuple _ => false
  | .list _ => false
  | .dict _ _ => false
  | .op _ es => noLitL es
  | .comp _ e t i ifs _ => noLit e && noLit t && noLit i && noLitL ifs
  | .call f args _ kwv => noLit f && noLitL args && noLitL kwv
def noLitL : List Expr → Bool
  | [] => true
  | e :: es => noLit e && noLitL es
end

end Fadl

namespace Fadl
set_option linter.unusedSimpArgs false
set_option linter.unusedVariables false

mutual
/-- literals occur only in RESULT position: as the value a stage's lambda returns (possibly under `First`, possibly nested
    in other literals) — never under a projection, an operator, a call or in the source of a stage -/
def resOK : Expr → Bool
  | .tuple es => resOKL es
  | .list es => resOKL es
  | .dict ks vs => noLitL ks && resOKL vs
  | .lam _ b => resOK b
  | .call f args kwn kwv =>
    match f, args with
    | .name n, src :: l :: [] =>
      if n = "Select" || n = "SelectMany" then noLit src && resOK l && noLitL kwv
      else if n = "Where" then resOK src && noLit l && noLitL kwv
      else noLit (.call f args kwn kwv)
    | .name n, s :: [] =>
      if n = "First" then resOK s && noLitL kwv else noLit (.call f args kwn kwv)
    | _, _ => noLit (.call f args kwn kwv)
  | e => noLit e
def resOKL : List Expr → Bool
  | [] => true
  | e :: es => resOK e && resOKL es
end

end Fadl
