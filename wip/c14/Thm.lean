namespace Fadl
set_option linter.unusedSimpArgs false
set_option linter.unusedVariables false

def GOpq (G : List (String × Shape)) : Prop := ∀ x, (shapeGet x G).isOpq = true

theorem GOpq.cons {G : List (String × Shape)} (h : GOpq G) (x : String) : GOpq ((x, .opq) :: G) := by
  intro y
  simp only [shapeGet]
  split
  · rfl
  · exact h y

def Shape.isPack : Shape → Bool
  | .tup _ => true
  | .lst _ => true
  | .dct _ _ => true
  | _ => false

def isLit : Expr → Bool
  | .tuple _ => true
  | .list _ => true
  | .dict _ _ => true
  | _ => false

theorem constsOf_allConst : ∀ (ks : List Expr) (cs : List Const), constsOf ks = some cs → allConstKeys ks = true
  | [], _, _ => rfl
  | .const c :: ks, cs, h => by
    simp only [constsOf] at h
    cases h2 : constsOf ks with
    | none => simp [h2] at h
    | some cs' => simp only [allConstKeys]; exact constsOf_allConst ks cs' h2
  | .name _ :: _, _, h => by simp [constsOf] at h
  | .attr _ _ :: _, _, h => by simp [constsOf] at h
  | .call _ _ _ _ :: _, _, h => by simp [constsOf] at h
  | .lam _ _ :: _, _, h => by simp [constsOf] at h
  | .sub _ _ :: _, _, h => by simp [constsOf] at h
  | .tuple _ :: _, _, h => by simp [constsOf] at h
  | .list _ :: _, _, h => by simp [constsOf] at h
  | .dict _ _ :: _, _, h => by simp [constsOf] at h
  | .op _ _ :: _, _, h => by simp [constsOf] at h
  | .comp _ _ _ _ _ _ :: _, _, h => by simp [constsOf] at h

theorem shapeOfL_length : ∀ (fuel : Nat) (G : List (String × Shape)) (es : List Expr) (ss : List Shape),
    shapeOfL fuel G es = some ss → ss.length = es.length
  | 0, _, _, _, h => by simp [shapeOfL] at h
  | fuel + 1, G, [], ss, h => by simp only [shapeOfL, Option.some.injEq] at h; subst h; rfl
  | fuel + 1, G, e :: es, ss, h => by
    simp only [shapeOfL] at h
    split at h
    · rename_i s ss' h1 h2
      simp only [Option.some.injEq] at h; subst h
      simp [shapeOfL_length fuel G es ss' h2]
    · cases h

/-- a typed key lookup in a dictionary literal finds what the simplifier's lookup finds -/
theorem dctGet_findSome (k : Const) (f : Expr × Expr → Option Expr)
    (hf : ∀ c v, f (.const c, v) = if constKeyEq c k = true then some v else Option.none) :
    ∀ (ks vs : List Expr) (cs : List Const) (ss : List Shape) (σ : Shape),
    constsOf ks = some cs → ss.length = vs.length → dctGet cs ss k = some σ → ((ks.zip vs).findSome? f).isSome = true
  | [], vs, cs, ss, σ, hc, hl, hg => by
    simp only [constsOf, Option.some.injEq] at hc; subst hc; simp [dctGet] at hg
  | .const c :: ks, [], cs, ss, σ, hc, hl, hg => by
    simp only [List.length_nil, List.length_eq_zero_iff] at hl; subst hl
    cases cs <;> simp [dctGet] at hg
  | .const c :: ks, v :: vs, cs, ss, σ, hc, hl, hg => by
    simp only [constsOf] at hc
    cases h2 : constsOf ks with
    | none => simp [h2] at hc
    | some cs' =>
      simp only [h2, Option.map_some, Option.some.injEq] at hc; subst hc
      cases ss with
      | nil => simp at hl
      | cons s ss' =>
        simp only [List.length_cons, Nat.add_right_cancel_iff] at hl
        simp only [dctGet] at hg
        simp only [List.zip_cons_cons, List.findSome?_cons, hf]
        by_cases hk : constKeyEq c k = true
        · simp [hk]
        · simp only [hk, if_false] at hg ⊢
          exact dctGet_findSome k f hf ks vs cs' ss' σ h2 hl hg
  | .name _ :: _, _, _, _, _, h, _, _ => by simp [constsOf] at h
  | .attr _ _ :: _, _, _, _, _, h, _, _ => by simp [constsOf] at h
  | .call _ _ _ _ :: _, _, _, _, _, h, _, _ => by simp [constsOf] at h
  | .lam _ _ :: _, _, _, _, _, h, _, _ => by simp [constsOf] at h
  | .sub _ _ :: _, _, _, _, _, h, _, _ => by simp [constsOf] at h
  | .tuple _ :: _, _, _, _, _, h, _, _ => by simp [constsOf] at h
  | .list _ :: _, _, _, _, _, h, _, _ => by simp [constsOf] at h
  | .dict _ _ :: _, _, _, _, _, h, _, _ => by simp [constsOf] at h
  | .op _ _ :: _, _, _, _, _, h, _, _ => by simp [constsOf] at h
  | .comp _ _ _ _ _ _ :: _, _, _, _, _, h, _, _ => by simp [constsOf] at h

theorem dctGet_dictLookup (ks vs : List Expr) (cs : List Const) (ss : List Shape) (k : Const) (σ : Shape)
    (hc : constsOf ks = some cs) (hl : ss.length = vs.length) (hg : dctGet cs ss k = some σ) :
    (dictLookup ks vs k).isSome = true := by
  simp only [dictLookup, constsOf_allConst ks cs hc, if_true]
  exact dctGet_findSome k _ (fun c v => rfl) ks vs cs ss σ hc hl hg

end Fadl
