namespace Fadl
set_option linter.unusedSimpArgs false
set_option linter.unusedVariables false

theorem isOpq_eq {s : Shape} (h : s.isOpq = true) : s = .opq := by cases s <;> simp_all [Shape.isOpq]

theorem isPack_not_opq {s : Shape} (h : s.isOpq = true) : s.isPack = false := by rw [isOpq_eq h]; rfl

mutual
theorem resOK_of_noLit : ∀ (e : Expr), noLit e = true → resOK e = true
  | .name _, _ => by simp [resOK, noLit]
  | .const _, _ => by simp [resOK, noLit]
  | .attr v a, h => by simp only [resOK]; exact h
  | .lam ps b, h => by simp only [noLit] at h; simp only [resOK]; exact resOK_of_noLit b h
  | .sub v s, h => by simp only [resOK]; exact h
  | .tuple _, h => by simp [noLit] at h
  | .list _, h => by simp [noLit] at h
  | .dict _ _, h => by simp [noLit] at h
  | .op _ _, h => by simp only [resOK]; exact h
  | .comp _ _ _ _ _ _, h => by simp only [resOK]; exact h
  | .call f args kwn kwv, h => by
    have h' := h
    simp only [noLit, Bool.and_eq_true] at h'
    obtain ⟨⟨hf, ha⟩, hk⟩ := h'
    unfold resOK
    split
    · rename_i n src l
      simp only [noLitL, Bool.and_eq_true] at ha
      obtain ⟨h1, h2, _⟩ := ha
      split
      · simp only [h1, resOK_of_noLit l h2, hk, Bool.and_self]
      · split
        · simp only [resOK_of_noLit src h1, h2, hk, Bool.and_self]
        · exact h
    · rename_i n s
      simp only [noLitL, Bool.and_eq_true] at ha
      split
      · simp only [resOK_of_noLit s ha.1, hk, Bool.and_self]
      · exact h
    · exact h
theorem resOKL_of_noLitL : ∀ (es : List Expr), noLitL es = true → resOKL es = true
  | [], _ => rfl
  | e :: es, h => by
    simp only [noLitL, Bool.and_eq_true] at h
    simp only [resOKL, resOK_of_noLit e h.1, resOKL_of_noLitL es h.2, Bool.and_self]
end

theorem constsOf_noLitL : ∀ (ks : List Expr) (cs : List Const), constsOf ks = some cs → noLitL ks = true
  | [], _, _ => rfl
  | .const c :: ks, cs, h => by
    simp only [constsOf] at h
    cases h2 : constsOf ks with
    | none => simp [h2] at h
    | some cs' => simp only [noLitL, noLit, Bool.true_and]; exact constsOf_noLitL ks cs' h2
  | .name _ :: _, _, h => by simp [constsOf] at h
  | .attr _ _ :: _, _, h => by simp [constsOf] at h
  | .call _ _ _ _ :: _, _, h => by simp [constsOf] at h
  | .lam _ _ :: _, _, h => by simp [constsOf] at h
  | .sub _ _ :: _, _, h => by simp [constsOf] at h
  | .tuple _ :: _, _, h => by simp [constsOf] at h
  | .list _ :: _, _, h => by simp [constsOf] at h
  | .dict _ _ :: _, _, h => by simp [constsOf] at h
  | .op _ _ :: _, _, h => by simp [constsOf] at h
  | .comp _ _ _ _ _ _ :: _, _, h => by simp [constsOf] at h

/-- what a typed normal form looks like -/
def Concl (e : Expr) (σ : Shape) : Prop :=
  resOK e = true ∧ (σ.isOpq = true → noLit e = true) ∧ (σ.isPack = true → isLit e = true ∨ (firstArg? e).isSome = true)

def ConclL (es : List Expr) (ss : List Shape) : Prop :=
  resOKL es = true ∧ (ss.all Shape.isOpq = true → noLitL es = true)

theorem concl_opq {e : Expr} (h : noLit e = true) : Concl e .opq :=
  ⟨resOK_of_noLit e h, fun _ => h, fun hp => by simp [Shape.isPack] at hp⟩

end Fadl
