namespace Fadl
set_option linter.unusedSimpArgs false
set_option linter.unusedVariables false

theorem all_opq_cons {s : Shape} {ss : List Shape} : (s :: ss).all Shape.isOpq = true ↔ s.isOpq = true ∧ ss.all Shape.isOpq = true := by
  simp [List.all_cons]

theorem lit_of_tup {fuel : Nat} {G : List (String × Shape)} {v : Expr} {cs : List Shape}
    (hv : shapeOf fuel G v = some (.tup cs)) (hl : isLit v = true) : ∃ es, v = .tuple es := by
  cases fuel with
  | zero => simp [shapeOf] at hv
  | succ k =>
    cases v with
    | tuple es => exact ⟨es, rfl⟩
    | list es => simp only [shapeOf] at hv; cases hsl : shapeOfL k G es <;> simp [hsl] at hv
    | dict kx vs => simp only [shapeOf] at hv; split at hv <;> simp at hv
    | _ => simp [isLit] at hl

theorem lit_of_lst {fuel : Nat} {G : List (String × Shape)} {v : Expr} {cs : List Shape}
    (hv : shapeOf fuel G v = some (.lst cs)) (hl : isLit v = true) : ∃ es, v = .list es := by
  cases fuel with
  | zero => simp [shapeOf] at hv
  | succ k =>
    cases v with
    | list es => exact ⟨es, rfl⟩
    | tuple es => simp only [shapeOf] at hv; cases hsl : shapeOfL k G es <;> simp [hsl] at hv
    | dict kx vs => simp only [shapeOf] at hv; split at hv <;> simp at hv
    | _ => simp [isLit] at hl

theorem lit_of_dct {fuel : Nat} {G : List (String × Shape)} {v : Expr} {ks : List Const} {ss : List Shape}
    (hv : shapeOf fuel G v = some (.dct ks ss)) (hl : isLit v = true) :
    ∃ kx vs, v = .dict kx vs ∧ constsOf kx = some ks ∧ ss.length = vs.length := by
  cases fuel with
  | zero => simp [shapeOf] at hv
  | succ k =>
    cases v with
    | tuple es => simp only [shapeOf] at hv; cases hsl : shapeOfL k G es <;> simp [hsl] at hv
    | list es => simp only [shapeOf] at hv; cases hsl : shapeOfL k G es <;> simp [hsl] at hv
    | dict kx vs =>
      simp only [shapeOf] at hv
      split at hv
      · rename_i cs ss' hc hs
        simp only [Option.some.injEq, Shape.dct.injEq] at hv
        obtain ⟨rfl, rfl⟩ := hv
        exact ⟨kx, vs, rfl, hc, shapeOfL_length k G vs _ hs⟩
      · cases hv
    | _ => simp [isLit] at hl

theorem isFusable_where_eq (p : Expr) : isFusable "Where" p = isStageOp p := by
  simp only [isFusable, isStageOp]
  cases opCall? p with
  | none => rfl
  | some r => obtain ⟨m, _⟩ := r; simp [Bool.or_comm, Bool.or_assoc, Bool.or_left_comm]

/-- in a typed normal form the source of a stage holds no pack -/
theorem stage_src_opq (fuel : Nat) (G : List (String × Shape)) (src : Expr) (s : Shape) (n : String)
    (hn : n = "Select" ∨ n = "SelectMany" ∨ n = "Where")
    (hs : shapeOf fuel G src = some s) (hr : (isStageOp src || s.isOpq) = true)
    (hnf : nf src = true) (hfus : isFusable n src = false) : s.isOpq = true := by
  by_cases hso : isStageOp src = true
  · -- the source is itself a stage: not fusable with `n`, so it is a Where, whose own source is not a stage
    cases src with
    | call f pargs kn kv =>
      cases f with
      | name m =>
        simp only [isStageOp, opCall?] at hso
        simp only [isFusable, opCall?] at hfus
        have hm : m = "Where" := by
          rcases hn with rfl | rfl | rfl <;> simp_all
        subst hm
        cases fuel with
        | zero => simp [shapeOf] at hs
        | succ k =>
          simp only [shapeOf] at hs
          split at hs
          all_goals (try (simp_all; done))
          · -- the Where pattern
            rename_i base x c
            simp only [nf, nfL, Bool.and_eq_true, Bool.not_eq_true'] at hnf
            obtain ⟨⟨⟨hnb, _⟩, _⟩, hfb⟩ := hnf
            rw [isFusable_where_eq] at hfb
            split at hs
            · rename_i sb hsb
              split at hs
              · cases hs
              · rename_i hcond
                simp only [hfb, Bool.false_or, Bool.not_eq_true', Bool.not_eq_false] at hcond
                split at hs
                · split at hs
                  · simp only [Option.some.injEq] at hs; subst hs
                    simpa using hcond
                  · cases hs
                · cases hs
            · cases hs
          · -- the generic clause
            split at hs
            · split at hs
              · simp only [Option.some.injEq] at hs; subst hs; rfl
              · cases hs
            · cases hs
      | _ => simp [isStageOp, opCall?] at hso
    | _ => simp [isStageOp, opCall?] at hso
  · simp only [Bool.not_eq_true] at hso
    simpa [hso] using hr

theorem typed_nf_packed : ∀ fuel : Nat,
    (∀ G e σ, GOpq G → shapeOf fuel G e = some σ → nf e = true → Concl e σ) ∧
    (∀ G es ss, GOpq G → shapeOfL fuel G es = some ss → nfL es = true → ConclL es ss) := by
  intro fuel
  induction fuel with
  | zero =>
    constructor
    · intro G e σ _ h; simp [shapeOf] at h
    · intro G es ss _ h; simp [shapeOfL] at h
  | succ fuel ih =>
    obtain ⟨ihS, ihL⟩ := ih
    constructor
    · intro G e σ hG h hn
      cases e with
      | name x =>
        simp only [shapeOf, Option.some.injEq] at h; subst h
        have := isOpq_eq (hG x)
        rw [this]; exact concl_opq rfl
      | const c => simp only [shapeOf, Option.some.injEq] at h; subst h; exact concl_opq rfl
      | lam ps b => simp [shapeOf] at h
      | comp k a b c d f => simp [shapeOf] at h
      | attr v a =>
        simp only [nf, Bool.and_eq_true, Bool.not_eq_true', Option.isNone_iff_eq_none] at hn
        obtain ⟨⟨hnv, hred⟩, hfirst⟩ := hn
        simp only [shapeOf] at h
        split at h
        · rename_i hv
          simp only [Option.some.injEq] at h; subst h
          obtain ⟨_, c2, _⟩ := ihS G v .opq hG hv hnv
          exact concl_opq (by simp only [noLit]; exact c2 rfl)
        · rename_i ks ss hv
          exfalso
          have c3 := (ihS G v (.dct ks ss) hG hv hnv).2.2
          rcases c3 rfl with hl | hf
          · cases fuel with
            | zero => simp [shapeOf] at hv
            | succ k =>
              cases v with
              | tuple es =>
                simp only [shapeOf] at hv
                cases hsl : shapeOfL k G es <;> simp [hsl] at hv
              | list es =>
                simp only [shapeOf] at hv
                cases hsl : shapeOfL k G es <;> simp [hsl] at hv
              | dict kx vs =>
                simp only [shapeOf] at hv
                split at hv
                · rename_i cs ss' hc hs
                  simp only [Option.some.injEq, Shape.dct.injEq] at hv
                  obtain ⟨rfl, rfl⟩ := hv
                  have hlen := shapeOfL_length k G vs ss' hs
                  have := dctGet_dictLookup kx vs cs ss' (.str a) σ hc hlen h
                  simp only [isAttrRedex] at hred
                  rw [hred] at this; cases this
                · cases hv
              | _ => simp [isLit] at hl
          · rw [hfirst] at hf; cases hf
        · cases h
      | sub v s =>
        simp only [nf, Bool.and_eq_true, Bool.not_eq_true', Option.isNone_iff_eq_none] at hn
        obtain ⟨⟨⟨hnv, hns⟩, hred⟩, hfirst⟩ := hn
        simp only [shapeOf] at h
        -- a pack-shaped base in normal form would be a literal (a redex) or a First (excluded)
        have hpack : ∀ sv, shapeOf fuel G v = some sv → sv.isPack = true → isLit v = true := by
          intro sv hv hp
          rcases (ihS G v sv hG hv hnv).2.2 hp with hl | hf
          · exact hl
          · rw [hfirst] at hf; cases hf
        split at h
        · rename_i hv hs
          simp only [Option.some.injEq] at h; subst h
          have c2 := (ihS G v .opq hG hv hnv).2.1 rfl
          have d2 := (ihS G s .opq hG hs hns).2.1 rfl
          exact concl_opq (by simp only [noLit, c2, d2, Bool.and_self])
        · rename_i cs hv hs
          exfalso
          obtain ⟨es, rfl⟩ := lit_of_tup hv (hpack _ hv rfl)
          split at h
          · rename_i n
            split at h
            · rename_i hge; simp [isLitProjRedex, hge] at hred
            · cases h
          · cases h
        · rename_i cs hv hs
          exfalso
          obtain ⟨es, rfl⟩ := lit_of_lst hv (hpack _ hv rfl)
          split at h
          · rename_i n
            split at h
            · rename_i hge; simp [isLitProjRedex, hge] at hred
            · cases h
          · cases h
        · rename_i ks ss hv hs
          exfalso
          obtain ⟨kx, vs, rfl, hc, hlen⟩ := lit_of_dct hv (hpack _ hv rfl)
          split at h
          · rename_i n
            have := dctGet_dictLookup kx vs ks ss (.int n) σ hc hlen h
            simp only [isLitProjRedex] at hred
            rw [hred] at this; cases this
          · rename_i k
            have := dctGet_dictLookup kx vs ks ss (.str k) σ hc hlen h
            simp only [isLitProjRedex] at hred
            rw [hred] at this; cases this
          · cases h
        · cases h
      | tuple es =>
        simp only [nf] at hn
        simp only [shapeOf] at h
        cases hs : shapeOfL fuel G es with
        | none => simp [hs] at h
        | some ss =>
          simp only [hs, Option.map_some, Option.some.injEq] at h; subst h
          obtain ⟨d1, _⟩ := ihL G es ss hG hs hn
          exact ⟨by simp only [resOK]; exact d1, fun ho => by simp [Shape.isOpq] at ho, fun _ => Or.inl rfl⟩
      | list es =>
        simp only [nf] at hn
        simp only [shapeOf] at h
        cases hs : shapeOfL fuel G es with
        | none => simp [hs] at h
        | some ss =>
          simp only [hs, Option.map_some, Option.some.injEq] at h; subst h
          obtain ⟨d1, _⟩ := ihL G es ss hG hs hn
          exact ⟨by simp only [resOK]; exact d1, fun ho => by simp [Shape.isOpq] at ho, fun _ => Or.inl rfl⟩
      | dict ks vs =>
        simp only [nf, Bool.and_eq_true] at hn
        simp only [shapeOf] at h
        split at h
        · rename_i cs ss hc hs
          simp only [Option.some.injEq] at h; subst h
          obtain ⟨d1, _⟩ := ihL G vs ss hG hs hn.2
          exact ⟨by simp only [resOK, constsOf_noLitL ks cs hc, d1, Bool.and_self],
                 fun ho => by simp [Shape.isOpq] at ho, fun _ => Or.inl rfl⟩
        · cases h
      | op k args =>
        simp only [nf] at hn
        simp only [shapeOf] at h
        split at h
        · rename_i ss hs
          split at h
          · rename_i hall
            simp only [Option.some.injEq] at h; subst h
            obtain ⟨_, d2⟩ := ihL G args ss hG hs hn
            exact concl_opq (by simp only [noLit]; exact d2 hall)
          · cases h
        · cases h
      | call f args kwn kwv =>
        simp only [shapeOf] at h
        split at h
        · -- Select(src, lambda x: b)
          rename_i src x b
          simp only [nf, nfL, Bool.and_eq_true, Bool.not_eq_true', Bool.and_true] at hn
          obtain ⟨⟨hns, hnb⟩, hfus⟩ := hn
          split at h
          · rename_i s hs
            split at h
            · cases h
            · rename_i hcond
              simp only [Bool.not_eq_true', Bool.not_eq_false] at hcond
              have hso := stage_src_opq fuel G src s "Select" (Or.inl rfl) hs hcond hns hfus
              have := isOpq_eq hso; subst this
              simp only [elemOf] at h
              cases hb : shapeOf fuel ((x, .opq) :: G) b with
              | none => simp [hb] at h
              | some sb =>
                simp only [hb, Option.map_some, Option.some.injEq] at h; subst h
                have cs := (ihS G src .opq hG hs hns).2.1 rfl
                obtain ⟨b1, b2, _⟩ := ihS _ b sb (hG.cons x) hb hnb
                refine ⟨?_, ?_, ?_⟩
                · unfold resOK; simp [cs, resOK, b1, noLitL]
                · intro ho
                  have : sb.isOpq = true := by
                    simp only [mkSeq] at ho; split at ho
                    · assumption
                    · simp [Shape.isOpq] at ho
                  simp [noLit, noLitL, cs, b2 this]
                · intro hp; simp only [mkSeq] at hp; split at hp <;> simp [Shape.isPack] at hp
          · cases h
        · -- SelectMany(src, lambda x: b)
          rename_i src x b
          simp only [nf, nfL, Bool.and_eq_true, Bool.not_eq_true', Bool.and_true] at hn
          obtain ⟨⟨hns, hnb⟩, hfus⟩ := hn
          split at h
          · rename_i s hs
            split at h
            · cases h
            · rename_i hcond
              simp only [Bool.not_eq_true', Bool.not_eq_false] at hcond
              have hso := stage_src_opq fuel G src s "SelectMany" (Or.inr (Or.inl rfl)) hs hcond hns hfus
              have := isOpq_eq hso; subst this
              simp only [elemOf] at h
              have cs := (ihS G src .opq hG hs hns).2.1 rfl
              split at h
              · rename_i hb
                simp only [Option.some.injEq] at h; subst h
                obtain ⟨b1, b2, _⟩ := ihS _ b .opq (hG.cons x) hb hnb
                exact concl_opq (by simp [noLit, noLitL, cs, b2 rfl])
              · rename_i t hb
                split at h
                · cases h
                · simp only [Option.some.injEq] at h; subst h
                  obtain ⟨b1, _, _⟩ := ihS _ b (.seq t) (hG.cons x) hb hnb
                  refine ⟨?_, fun ho => by simp [Shape.isOpq] at ho, fun hp => by simp [Shape.isPack] at hp⟩
                  unfold resOK; simp [cs, resOK, b1, noLitL]
              · cases h
          · cases h
        · -- Where(src, lambda x: c)
          rename_i src x c
          simp only [nf, nfL, Bool.and_eq_true, Bool.not_eq_true', Bool.and_true] at hn
          obtain ⟨⟨hns, hnc⟩, hfus⟩ := hn
          split at h
          · rename_i s hs
            split at h
            · cases h
            · rename_i hcond
              simp only [Bool.not_eq_true', Bool.not_eq_false] at hcond
              have hso := stage_src_opq fuel G src s "Where" (Or.inr (Or.inr rfl)) hs hcond hns hfus
              have := isOpq_eq hso; subst this
              simp only [elemOf] at h
              have cs := (ihS G src .opq hG hs hns).2.1 rfl
              split at h
              · rename_i hc
                simp only [Option.some.injEq] at h; subst h
                have c2 := (ihS _ c .opq (hG.cons x) hc hnc).2.1 rfl
                exact concl_opq (by simp [noLit, noLitL, cs, c2])
              · cases h
          · cases h
        · -- First(src)
          rename_i src
          simp only [nf, nfL, Bool.and_eq_true, Bool.not_eq_true', Bool.and_true] at hn
          obtain ⟨hns, hfus⟩ := hn
          split at h
          · rename_i s hs
            obtain ⟨c1, c2, _⟩ := ihS G src s hG hs hns
            refine ⟨?_, ?_, fun _ => Or.inr (by simp [firstArg?])⟩
            · unfold resOK; simp [c1, noLitL]
            · intro ho
              have hσ := isOpq_eq ho; subst hσ
              cases s with
              | opq => simp [noLit, noLitL, c2 rfl]
              | seq t =>
                simp only [elemOf] at h
                split at h
                · cases h
                · rename_i ht
                  simp only [Option.some.injEq] at h; subst h
                  simp [Shape.isOpq] at ht
              | _ => simp [elemOf] at h
          · cases h
        · -- any other function called by name
          rename_i n _ _ _ _
          split at h
          · rename_i sa sk ha hk
            split at h
            · rename_i hall
              simp only [Bool.and_eq_true] at hall
              simp only [Option.some.injEq] at h; subst h
              simp only [nf, Bool.and_eq_true] at hn
              obtain ⟨⟨hna, hnk⟩, _⟩ := hn
              have a2 := (ihL G args sa hG ha hna).2 hall.1
              have k2 := (ihL G kwv sk hG hk hnk).2 hall.2
              exact concl_opq (by simp [noLit, a2, k2])
            · cases h
          · cases h
        · -- a method call
          rename_i v m
          split at h
          · rename_i sa sk hv ha hk
            split at h
            · rename_i hall
              simp only [Bool.and_eq_true] at hall
              simp only [Option.some.injEq] at h; subst h
              simp only [nf, Bool.and_eq_true] at hn
              obtain ⟨⟨hna, hnk⟩, hnv, _⟩ := hn
              have v2 := (ihS G v .opq hG hv hnv).2.1 rfl
              have a2 := (ihL G args sa hG ha hna).2 hall.1
              have k2 := (ihL G kwv sk hG hk hnk).2 hall.2
              exact concl_opq (by simp [noLit, v2, a2, k2])
            · cases h
          · cases h
        · cases h
    · intro G es ss hG h hn
      cases es with
      | nil =>
        simp only [shapeOfL, Option.some.injEq] at h; subst h
        exact ⟨rfl, fun _ => rfl⟩
      | cons e rest =>
        simp only [nfL, Bool.and_eq_true] at hn
        simp only [shapeOfL] at h
        split at h
        · rename_i s ss' h1 h2
          simp only [Option.some.injEq] at h; subst h
          obtain ⟨c1, c2, _⟩ := ihS G e s hG h1 hn.1
          obtain ⟨d1, d2⟩ := ihL G rest ss' hG h2 hn.2
          refine ⟨by simp only [resOKL, c1, d1, Bool.and_self], ?_⟩
          intro hall
          rw [all_opq_cons] at hall
          simp only [noLitL, c2 hall.1, d2 hall.2, Bool.and_self]
        · cases h

end Fadl
