/-
  The checked simplifier model refines the plain one: whenever `simpCk` returns a result, `simp` returns the same
  result.  (The guards of `simpCk` only add failures.)
-/
import Fadl.Model.SimplifyCk
namespace Fadl
set_option linter.unusedSimpArgs false
set_option maxHeartbeats 1000000

theorem firstArg?_eq_cons (first : Expr) (tail : List Expr) (k1 : List String) (k2 : List Expr) :
    firstArg? (.call (.name "First") (first :: tail) k1 k2) = some (some first) := by simp [firstArg?]

theorem firstArg?_eq_nil (k1 : List String) (k2 : List Expr) :
    firstArg? (.call (.name "First") [] k1 k2) = some Option.none := by simp [firstArg?]

theorem firstArg?_none_of {v : Expr}
    (h1 : ∀ first tail k1 k2, v = .call (.name "First") (first :: tail) k1 k2 → False)
    (h2 : ∀ k1 k2, v = .call (.name "First") [] k1 k2 → False) : firstArg? v = Option.none := by
  cases v with
  | call f args k1 k2 =>
    cases f with
    | name n =>
      simp only [firstArg?]
      split
      · rename_i hn; subst hn
        cases args with
        | nil => exact absurd rfl (h2 k1 k2)
        | cons a rest => exact absurd rfl (h1 a rest k1 k2)
      · rfl
    | _ => rfl
  | _ => rfl

theorem makeArgsUniqueCk_eq {ps : List String} {b : Expr} {c : Nat} {st : SStack} {r : List String × Expr × Nat}
    (h : makeArgsUniqueCk ps b c st = .ok r) : makeArgsUnique ps b c = r := by
  unfold makeArgsUniqueCk at h
  simp only [] at h
  by_cases hg : (freshFor (makeArgsUnique ps b c).1 ps b st && distinctS ps) = true
  · simp only [hg, if_true, Except.ok.injEq] at h; exact h
  · simp [hg] at h

theorem convoluteCk_eq {g f : Expr} {c : Nat} {st : SStack} {r : Expr × Nat}
    (h : convoluteCk g f c st = .ok r) : convolute g f c = .ok r := by
  unfold convoluteCk at h
  unfold convolute
  cases g <;> try (simp at h)
  rename_i gps gb
  cases f <;> try (simp at h)
  rename_i fps fb
  cases h1 : makeArgsUniqueCk gps gb c st with
  | error e => simp [h1, bind, Except.bind] at h
  | ok r1 =>
    obtain ⟨gps', gb', c1⟩ := r1
    simp only [h1, bind, Except.bind] at h
    cases h2 : makeArgsUniqueCk fps fb c1 st with
    | error e => simp [h2] at h
    | ok r2 =>
      obtain ⟨fps', fb', c2⟩ := r2
      simp only [h2] at h
      have e1 := makeArgsUniqueCk_eq h1
      have e2 := makeArgsUniqueCk_eq h2
      split at h
      · simp only [e1, e2]
        exact h
      · cases h

/-- the part of the subscript clause after both sub-expressions are simplified, as a function of the generic continuation -/
def subOuter (v' s' : Expr) (c2 : Nat) (gen : Except Err (Expr × Nat)) : Except Err (Expr × Nat) :=
  match s' with
  | .const (.int n) =>
    (match v' with
     | .tuple es =>
       if n ≥ 0 then
         (match es[n.toNat]? with
          | some el => pure (el, c2)
          | Option.none => .error .indexError)
       else gen
     | .list es =>
       if n ≥ 0 then
         (match es[n.toNat]? with
          | some el => pure (el, c2)
          | Option.none => .error .indexError)
       else gen
     | .dict ks vs =>
       (match dictLookup ks vs (.int n) with
        | some r => pure (r, c2)
        | Option.none => pure (.sub v' s', c2))
     | _ => gen)
  | .const (.str k) =>
    (match v' with
     | .dict ks vs =>
       (match dictLookup ks vs (.str k) with
        | some r => pure (r, c2)
        | Option.none => pure (.sub v' s', c2))
     | _ => gen)
  | _ => gen

theorem subOuter_mono (v' s' : Expr) (c2 : Nat) (gen gen' : Except Err (Expr × Nat)) (r : Expr × Nat)
    (hg : gen = .ok r → gen' = .ok r) (h : subOuter v' s' c2 gen = .ok r) : subOuter v' s' c2 gen' = .ok r := by
  unfold subOuter at h ⊢
  split <;> simp only [] at h
  · split <;> simp only [] at h
    · split <;> simp only [*, if_true, if_false] at h
      · exact h
      · exact hg h
    · split <;> simp only [*, if_true, if_false] at h
      · exact h
      · exact hg h
    · exact h
    · exact hg h
  · split <;> simp only [] at h
    · exact h
    · exact hg h
  · exact hg h

theorem simpCk_refines_simp : ∀ fuel : Nat,
    (∀ st c e r, simpCk fuel st c e = .ok r → simp fuel st c e = .ok r) ∧
    (∀ st c es r, simpLCk fuel st c es = .ok r → simpL fuel st c es = .ok r) ∧
    (∀ st c args kwn kwv r, callSelectCk fuel st c args kwn kwv = .ok r → callSelect fuel st c args kwn kwv = .ok r) ∧
    (∀ st c args kwn kwv r, callSelectManyCk fuel st c args kwn kwv = .ok r → callSelectMany fuel st c args kwn kwv = .ok r) ∧
    (∀ st c args kwn kwv r, callWhereCk fuel st c args kwn kwv = .ok r → callWhere fuel st c args kwn kwv = .ok r) := by
  intro fuel
  induction fuel with
  | zero =>
    refine ⟨?_, ?_, ?_, ?_, ?_⟩ <;> intros <;> rename_i h <;> simp [simpCk, simpLCk, callSelectCk, callSelectManyCk, callWhereCk] at h
  | succ fuel ih =>
    obtain ⟨ihS, ihL, ihSel, ihMany, ihWhere⟩ := ih
    refine ⟨?_, ?_, ?_, ?_, ?_⟩
    · intro st c e r h
      cases e with
      | name x => simpa [simpCk, simp] using h
      | const k => simpa [simpCk, simp] using h
      | lam ps b =>
        simp only [simpCk] at h
        cases hm : makeArgsUniqueCk ps b c st with
        | error e => simp [hm, bind, Except.bind] at h
        | ok r1 =>
          obtain ⟨ps', b', c1⟩ := r1
          simp only [hm, bind, Except.bind] at h
          cases hb : simpCk fuel st c1 b' with
          | error e => simp [hb] at h
          | ok r2 =>
            simp only [hb] at h
            simp only [simp, makeArgsUniqueCk_eq hm, ihS _ _ _ _ hb, bind, Except.bind]
            exact h
      | tuple es =>
        simp only [simpCk] at h
        cases hl : simpLCk fuel st c es with
        | error e => simp [hl, bind, Except.bind] at h
        | ok r1 =>
          simp only [hl, bind, Except.bind] at h
          simp only [simp, ihL _ _ _ _ hl, bind, Except.bind]
          exact h
      | list es =>
        simp only [simpCk] at h
        cases hl : simpLCk fuel st c es with
        | error e => simp [hl, bind, Except.bind] at h
        | ok r1 =>
          simp only [hl, bind, Except.bind] at h
          simp only [simp, ihL _ _ _ _ hl, bind, Except.bind]
          exact h
      | dict ks vs =>
        simp only [simpCk] at h
        cases hl : simpLCk fuel st c ks with
        | error e => simp [hl, bind, Except.bind] at h
        | ok r1 =>
          simp only [hl, bind, Except.bind] at h
          cases hl2 : simpLCk fuel st r1.2 vs with
          | error e => simp [hl2] at h
          | ok r2 =>
            simp only [hl2] at h
            simp only [simp, ihL _ _ _ _ hl, ihL _ _ _ _ hl2, bind, Except.bind]
            exact h
      | op k args =>
        simp only [simpCk] at h
        cases hl : simpLCk fuel st c args with
        | error e => simp [hl, bind, Except.bind] at h
        | ok r1 =>
          simp only [hl, bind, Except.bind] at h
          simp only [simp, ihL _ _ _ _ hl, bind, Except.bind]
          exact h
      | comp kind el t i ifs a => simp [simpCk] at h
      | attr v a =>
        simp only [simpCk] at h
        unfold simp
        simp only []
        split
        · rename_i first tail k1 k2
          simp only [firstArg?_eq_cons] at h
          exact ihS _ _ _ _ h
        · rename_i k1 k2
          simp [firstArg?_eq_nil] at h
        · rename_i hn1 hn2
          have hfa := firstArg?_none_of hn1 hn2
          simp only [hfa] at h
          cases hv : simpCk fuel st c v with
          | error x => simp [hv, bind, Except.bind] at h
          | ok r1 =>
            simp only [hv, bind, Except.bind] at h
            simp only [ihS _ _ _ _ hv, bind, Except.bind]
            exact h
      | sub v s =>
        simp only [simpCk] at h
        cases hv : simpCk fuel st c v with
        | error x => simp [hv, bind, Except.bind] at h
        | ok r1 =>
          obtain ⟨v', c1⟩ := r1
          simp only [hv, bind, Except.bind] at h
          cases hs : simpCk fuel st c1 s with
          | error x => simp [hs] at h
          | ok r2 =>
            obtain ⟨s', c2⟩ := r2
            simp only [hs] at h
            simp only [simp, ihS _ _ _ _ hv, ihS _ _ _ _ hs, bind, Except.bind]
            refine subOuter_mono v' s' c2 _ _ r ?_ h
            -- the generic continuation
            intro hg
            split
            · rename_i first tail k1 k2
              simp only [firstArg?_eq_cons] at hg
              split at hg
              · exact ihS _ _ _ _ hg
              · cases hg
            · rename_i k1 k2
              simp [firstArg?_eq_nil] at hg
            · rename_i hn1 hn2
              have hfa := firstArg?_none_of hn1 hn2
              simp only [hfa] at hg
              exact hg
      | call f args kwn kwv =>
        -- the generic continuation
        have hgen : ∀ (P : Prop) [Decidable P], (do
              let __x ← simpCk fuel st c f
              let __x_1 ← simpLCk fuel st __x.snd args
              let __x_2 ← simpLCk fuel st __x_1.snd kwv
              if P then pure (Expr.call __x.fst __x_1.fst kwn __x_2.fst, __x_2.snd)
              else Except.error (sideErr "a substituted name in callee position")) = .ok r →
            (do
              let __x ← simp fuel st c f
              let __x_1 ← simpL fuel st __x.snd args
              let __x_2 ← simpL fuel st __x_1.snd kwv
              pure (Expr.call __x.fst __x_1.fst kwn __x_2.fst, __x_2.snd)) = .ok r := by
          intro P _ hg
          cases hf : simpCk fuel st c f with
          | error x => simp [hf, bind, Except.bind] at hg
          | ok r1 =>
            simp only [hf, bind, Except.bind] at hg
            cases ha : simpLCk fuel st r1.2 args with
            | error x => simp [ha] at hg
            | ok r2 =>
              simp only [ha] at hg
              cases hk : simpLCk fuel st r2.2 kwv with
              | error x => simp [hk] at hg
              | ok r3 =>
                simp only [hk] at hg
                simp only [ihS _ _ _ _ hf, ihL _ _ _ _ ha, ihL _ _ _ _ hk, bind, Except.bind]
                by_cases hP : P
                · simpa [hP] using hg
                · simp [hP] at hg
        cases f with
        | lam ps body =>
          simp only [simpCk] at h
          simp only [simp]
          split at h
          · rename_i hc
            simp only [hc, if_true]
            exact hgen _ h
          · rename_i hc
            simp only [hc, if_false]
            cases hm : makeArgsUniqueCk ps body c st with
            | error x => simp [hm, bind, Except.bind] at h
            | ok r1 =>
              obtain ⟨ps', body', c1⟩ := r1
              simp only [hm, bind, Except.bind] at h
              cases ha : simpLCk fuel st c1 args with
              | error x => simp [ha] at h
              | ok r2 =>
                simp only [ha] at h
                cases hk : simpLCk fuel st r2.2 kwv with
                | error x => simp [hk] at h
                | ok r3 =>
                  simp only [hk] at h
                  split at h
                  · simp only [makeArgsUniqueCk_eq hm, ihL _ _ _ _ ha, ihL _ _ _ _ hk, bind, Except.bind]
                    exact ihS _ _ _ _ h
                  · cases h
        | attr v m =>
          simp only [simpCk] at h
          unfold simp
          simp only []
          split
          · rename_i fargs k1 k2
            cases fargs with
            | nil => simp [firstArg?] at h
            | cons seq tail =>
              simp only [firstArg?_eq_cons] at h
              split at h
              · exact ihS _ _ _ _ h
              · cases h
          · rename_i hnf
            have hfa : firstArg? v = Option.none ∨ True := Or.inr trivial
            cases hfa' : firstArg? v with
            | some o =>
              exfalso
              cases o with
              | some first =>
                -- v is a First call: the first alternative would have matched
                cases v with
                | call f2 a2 k1 k2 =>
                  cases f2 with
                  | name n =>
                    simp only [firstArg?] at hfa'
                    split at hfa'
                    · rename_i hn; subst hn; exact hnf a2 k1 k2 rfl
                    · cases hfa'
                  | _ => simp [firstArg?] at hfa'
                | _ => simp [firstArg?] at hfa'
              | none =>
                cases v with
                | call f2 a2 k1 k2 =>
                  cases f2 with
                  | name n =>
                    simp only [firstArg?] at hfa'
                    split at hfa'
                    · rename_i hn; subst hn; exact hnf a2 k1 k2 rfl
                    · cases hfa'
                  | _ => simp [firstArg?] at hfa'
                | _ => simp [firstArg?] at hfa'
            | none =>
              simp only [hfa'] at h
              exact hgen _ h
        | name n =>
          simp only [simpCk] at h
          unfold simp
          simp only []
          split at h
          · rename_i hn; subst hn; simp only []; exact ihSel _ _ _ _ _ _ h
          · split at h
            · rename_i hn; subst hn; simp only []; exact ihMany _ _ _ _ _ _ h
            · split at h
              · rename_i hn; subst hn; simp only []; exact ihWhere _ _ _ _ _ _ h
              · rename_i h1 h2 h3
                split
                · rename_i heq; cases heq
                · rename_i heq; cases heq
                · rename_i heq; cases heq; exact absurd rfl h1
                · rename_i heq; cases heq; exact absurd rfl h2
                · rename_i heq; cases heq; exact absurd rfl h3
                · exact hgen _ h
        | const k => simp only [simpCk] at h; simp only [simp]; exact hgen _ h
        | sub v s => simp only [simpCk] at h; simp only [simp]; exact hgen _ h
        | tuple es => simp only [simpCk] at h; simp only [simp]; exact hgen _ h
        | list es => simp only [simpCk] at h; simp only [simp]; exact hgen _ h
        | dict ks vs => simp only [simpCk] at h; simp only [simp]; exact hgen _ h
        | op k es => simp only [simpCk] at h; simp only [simp]; exact hgen _ h
        | comp kind el t i ifs a => simp only [simpCk] at h; simp only [simp]; exact hgen _ h
        | call f2 a2 k2 v2 => simp only [simpCk] at h; simp only [simp]; exact hgen _ h
    · intro st c es r h
      cases es with
      | nil => simpa [simpLCk, simpL] using h
      | cons e es =>
        simp only [simpLCk] at h
        cases he : simpCk fuel st c e with
        | error x => simp [he, bind, Except.bind] at h
        | ok r1 =>
          simp only [he, bind, Except.bind] at h
          cases hes : simpLCk fuel st r1.2 es with
          | error x => simp [hes] at h
          | ok r2 =>
            simp only [hes] at h
            simp only [simpL, ihS _ _ _ _ he, ihL _ _ _ _ hes, bind, Except.bind]
            exact h
    · sorry
    · sorry
    · sorry

end Fadl
