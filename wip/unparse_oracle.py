p='/verif/harness/simplify.py'
s=open(p).read()
old='''                text = ast.unparse(out)
                compile(ast.fix_missing_locations(ast.Expression(copy.deepcopy(out))), "<simplified>", "eval")
                parse_expr(text)
            except Exception as e:
                ctx.violate({"src": src, "error": f"{type(e).__name__}: {e}"[:200]}, "C18: the simplified AST cannot be unparsed and compiled")
'''
new='''                text = ast.unparse(out)
                compile(ast.fix_missing_locations(ast.Expression(copy.deepcopy(out))), "<simplified>", "eval")
                parse_expr(text)
                # the text must be the text of THE tree: ast.unparse keeps its parenthesisation state per node object, so a
                # node object standing in two places can lose its parentheses; compare with the text of a rebuilt tree
                # (every position its own node)
                from astcodec import dec_text

                rebuilt = ast.unparse(dec_text(enc(out)))
                if rebuilt != text:
                    ctx.violate({"src": src, "unparse": text[:300], "unparse_of_rebuilt_tree": rebuilt[:300]},
                                "C18: ast.unparse of the simplified AST is not the text of the tree (a node object is shared between positions)")
            except Unsupported:
                pass
            except Exception as e:
                ctx.violate({"src": src, "error": f"{type(e).__name__}: {e}"[:200]}, "C18: the simplified AST cannot be unparsed and compiled")
'''
assert old in s
s=s.replace(old,new,1)
open(p,'w').write(s)
print("applied")
