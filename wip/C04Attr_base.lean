/-
  C04 — inlining captured values preserves the meaning of the lambda.

  For a snapshot whose entries are plain values (`lit c`) or helpers left by name (`keep`), and no attribute table /
  constructor table: in every environment that binds the captured names - wherever they are not hidden by a parameter or
  a comprehension variable - to the very values of the snapshot, the rewritten lambda body evaluates (deferred
  execution) exactly like the original one.  So the recorded query computes what the Python lambda computes with the
  values its free variables had at the call.
-/
import Fadl.Model.Capture
import Fadl.Lemmas.Coincide
import Fadl.Lemmas.Rename
namespace Fadl
set_option linter.unusedSimpArgs false
set_option linter.unusedVariables false

/-- only plain values and helpers left by name -/
def LitSnapshot (snap : Snapshot) : Prop :=
  ∀ x r, snapGet x snap = some r → r = .keep ∨ ∃ c, r = .lit c

/-- `env` gives every captured name that is not hidden its captured value -/
def EnvHas (snap : Snapshot) (ig : List (List String)) (env : Env) : Prop :=
  ∀ x c, isIgnored x ig = false → snapGet x snap = some (.lit c) → ∃ v, constVal c = .ok v ∧ env x = some v

theorem isIgnored_cons (x : String) (f : List String) (ig : List (List String)) :
    isIgnored x (f :: ig) = (f.contains x || isIgnored x ig) := by
  simp [isIgnored]

theorem EnvHas.upd {snap : Snapshot} {ig : List (List String)} {env : Env} (h : EnvHas snap ig env) (f : List String)
    (y : String) (v : Val) (hy : y ∈ f) : EnvHas snap (f :: ig) (env.upd y v) := by
  intro x c hx hs
  rw [isIgnored_cons] at hx
  simp only [Bool.or_eq_false_iff] at hx
  obtain ⟨u, hu, he⟩ := h x c hx.2 hs
  refine ⟨u, hu, ?_⟩
  simp only [Env.upd]
  split
  · rename_i hxy
    subst hxy
    have : f.contains x = true := by simpa using hy
    rw [this] at hx; exact absurd hx.1 (by simp)
  · exact he

theorem EnvHas.mono {snap : Snapshot} {ig : List (List String)} {env env' : Env} (h : EnvHas snap ig env) (f : List String)
    (hagree : ∀ x, f.contains x = false → env' x = env x) : EnvHas snap (f :: ig) env' := by
  intro x c hx hs
  rw [isIgnored_cons] at hx
  simp only [Bool.or_eq_false_iff] at hx
  obtain ⟨u, hu, he⟩ := h x c hx.2 hs
  exact ⟨u, hu, by rw [hagree x hx.1]; exact he⟩

theorem headAgree_refl (env : Env) (h : Head) : HeadAgree env env h h := by
  cases h <;> simp [HeadAgree]

theorem lamAgree_refl (env : Env) (l : LamD) : LamAgree env env l l := ⟨fun _ => rfl, fun _ _ => rfl⟩

abbrev rw0 (snap : Snapshot) (ig : List (List String)) (e : Expr) : Expr := rewriteCaptured snap [] [] ig e
abbrev rwL0 (snap : Snapshot) (ig : List (List String)) (es : List Expr) : List Expr := rewriteCapturedL snap [] [] ig es

theorem keptChild_cases (v v' : Expr) : keptChild v v' = v ∨ keptChild v v' = v' := by
  unfold keptChild
  split <;> simp

/-- **C04 (semantics)**, with the list of hidden names carried along -/
theorem rewriteCaptured_sem_both (w : World) (snap : Snapshot) (hs : LitSnapshot snap) :
    (∀ e : Expr, ∀ (ig : List (List String)) (env : Env), EnvHas snap ig env →
        denLz w (rw0 snap ig e) env = denLz w e env ∧
        ((∀ x, e ≠ .name x) → HeadAgree env env (denHeadLz w (rw0 snap ig e)) (denHeadLz w e)) ∧
        LamAgree env env (denLamLz w (rw0 snap ig e)) (denLamLz w e)) ∧
    (∀ es : List Expr, ∀ (ig : List (List String)) (env : Env), EnvHas snap ig env →
        All2 (DAgree env env) (denLLz w (rwL0 snap ig es)) (denLLz w es) ∧
        All2 (LamAgree env env) (denLamLLz w (rwL0 snap ig es)) (denLamLLz w es)) := by
  have lamNone : ∀ env, LamAgree env env Option.none Option.none := fun env => ⟨fun _ => rfl, fun _ _ => rfl⟩
  apply Expr.size.mutual_induct
    (motive_1 := fun e => ∀ (ig : List (List String)) (env : Env), EnvHas snap ig env →
        denLz w (rw0 snap ig e) env = denLz w e env ∧
        ((∀ x, e ≠ .name x) → HeadAgree env env (denHeadLz w (rw0 snap ig e)) (denHeadLz w e)) ∧
        LamAgree env env (denLamLz w (rw0 snap ig e)) (denLamLz w e))
    (motive_2 := fun es => ∀ (ig : List (List String)) (env : Env), EnvHas snap ig env →
        All2 (DAgree env env) (denLLz w (rwL0 snap ig es)) (denLLz w es) ∧
        All2 (LamAgree env env) (denLamLLz w (rwL0 snap ig es)) (denLamLLz w es))
  case case1 =>
    intro x ig env henv
    refine ⟨?_, fun h => absurd rfl (h x), ?_⟩
    · simp only [rw0, rewriteCaptured]
      split
      · rfl
      · rename_i hig
        cases hsx : snapGet x snap with
        | none => rfl
        | some r =>
          rcases hs x r hsx with rfl | ⟨c, rfl⟩
          · rfl
          · obtain ⟨v, hv, he⟩ := henv x c (by simpa using hig) hsx
            simp [denLz, hv, he]
    · simp only [rw0, rewriteCaptured]
      split
      · exact lamNone env
      · cases hsx : snapGet x snap with
        | none => exact lamNone env
        | some r =>
          rcases hs x r hsx with rfl | ⟨c, rfl⟩ <;> exact lamNone env
  case case2 =>
    intro c ig env _
    exact ⟨rfl, fun _ => headAgree_refl env _, lamNone env⟩
  case case3 =>
    intro v a ih ig env henv
    have h := (ih ig env henv).1
    have hk : denLz w (keptChild v (rw0 snap ig v)) env = denLz w v env := by
      rcases keptChild_cases v (rw0 snap ig v) with h1 | h1 <;> rw [h1]
      exact h
    have hform : rw0 snap ig (.attr v a) = .attr (keptChild v (rw0 snap ig v)) a := by
      simp only [rw0, rewriteCaptured, attrGet]
      split <;> rfl
    rw [hform]
    refine ⟨by simp [denLz, hk], fun _ => by simp [denHeadLz, HeadAgree, hk], lamNone env⟩
  case case4 =>
    intro f args kwn kwv ihf iha ihk ig env henv
    have h2 := iha ig env henv
    have h3 := ihk ig env henv
    refine ⟨?_, fun _ => by
      have : ∀ g a2 k2 v2, denHeadLz w (Expr.call g a2 k2 v2) = .other := fun _ _ _ _ => rfl
      simp only [rw0, rewriteCaptured]
      split <;> (try split) <;> simp [denHeadLz, HeadAgree], ?_⟩
    · -- the callee: a name stays that name, anything else is rewritten
      have hcall : ∀ (g : Expr), HeadAgree env env (denHeadLz w g) (denHeadLz w f) →
          denLz w (.call g (rwL0 snap ig args) kwn (rwL0 snap ig kwv)) env = denLz w (.call f args kwn kwv) env := by
        intro g hg
        simp only [denLz]
        exact callSemLz_agree w kwn hg h2.1 h2.2 h3.1
      simp only [rw0, rewriteCaptured, List.contains_nil, Bool.false_eq_true, if_false]
      split
      · exact hcall f (headAgree_refl env _)
      · exact hcall f (headAgree_refl env _)
      · rename_i hnc1 hnc2
        by_cases hn : ∃ x, f = .name x
        · obtain ⟨x, rfl⟩ := hn
          -- a name that is not replaced by a constant is left as it is
          have : rewriteCaptured snap [] [] ig (.name x) = .name x := by
            simp only [rewriteCaptured] at hnc1 hnc2 ⊢
            split
            · rfl
            · cases hsx : snapGet x snap with
              | none => rfl
              | some r =>
                rcases hs x r hsx with rfl | ⟨c, rfl⟩
                · rfl
                · exfalso
                  simp only [hsx] at hnc1 hnc2
                  split at hnc2 <;> simp_all
          rw [this]
          exact hcall _ (headAgree_refl env _)
        · exact hcall _ ((ihf ig env henv).2.1 (fun x h => hn ⟨x, h⟩))
    · simp only [rw0, rewriteCaptured]
      split <;> (try split) <;> exact lamNone env
  case case5 =>
    intro ps b ih ig env henv
    simp only [rw0, rewriteCaptured]
    refine ⟨rfl, fun _ => ?_, ?_⟩
    · simp only [denHeadLz, HeadAgree]
      intro vs kwn kvs
      cases hbp : bindParams ps vs kwn kvs env with
      | error e => rfl
      | ok env2 =>
        simp only [bind, Except.bind]
        have hfr := bindParams_frame ps vs kwn kvs env env2 hbp
        exact (ih (ps :: ig) env2 (henv.mono ps (fun x hx => hfr x (by simpa using hx)))).1
    · simp only [denLamLz]
      constructor
      · intro v
        match ps with
        | [x] =>
          simp only [applyLam1]
          exact (ih ([x] :: ig) _ (henv.upd [x] x v (by simp))).1
        | [] => rfl
        | _ :: _ :: _ => rfl
      · intro a v
        match ps with
        | [x, y] =>
          simp only [applyLam2]
          split
          · rfl
          · refine (ih ([x, y] :: ig) _ (henv.mono [x, y] ?_)).1
            intro z hz
            simp only [List.contains_cons, List.contains_nil, Bool.or_false, Bool.or_eq_false_iff, beq_eq_false_iff_ne] at hz
            simp [Env.upd, hz.1, hz.2]
        | [] => rfl
        | [_] => rfl
        | _ :: _ :: _ :: _ => rfl
  case case6 =>
    intro v s ihv ihs ig env henv
    have h1 := (ihv ig env henv).1
    have h2 := (ihs ig env henv).1
    simp only [rw0] at h1 h2
    refine ⟨by simp [rw0, rewriteCaptured, denLz, h1, h2], fun _ => by simp [rw0, rewriteCaptured, denHeadLz, HeadAgree], lamNone env⟩
  case case7 =>
    intro es ih ig env henv
    have h := (ih ig env henv).1
    refine ⟨by simp [rw0, rewriteCaptured, denLz, evalAll_agree h], fun _ => by simp [rw0, rewriteCaptured, denHeadLz, HeadAgree], lamNone env⟩
  case case8 =>
    intro es ih ig env henv
    have h := (ih ig env henv).1
    refine ⟨by simp [rw0, rewriteCaptured, denLz, evalAll_agree h], fun _ => by simp [rw0, rewriteCaptured, denHeadLz, HeadAgree], lamNone env⟩
  case case9 =>
    intro ks vs ihk ihv ig env henv
    have h1 := (ihk ig env henv).1
    have h2 := (ihv ig env henv).1
    refine ⟨by simp [rw0, rewriteCaptured, denLz, evalAll_agree h1, evalAll_agree h2], fun _ => by simp [rw0, rewriteCaptured, denHeadLz, HeadAgree], lamNone env⟩
  case case10 =>
    intro k args ih ig env henv
    have h := (ih ig env henv).1
    refine ⟨by simp [rw0, rewriteCaptured, denLz, map_env_agree h], fun _ => by simp [rw0, rewriteCaptured, denHeadLz, HeadAgree], lamNone env⟩
  case case11 =>
    intro kind el t i ifs a ihe _ ihi ihifs ig env henv
    refine ⟨?_, fun _ => by simp [rw0, rewriteCaptured, denHeadLz, HeadAgree], lamNone env⟩
    simp only [rw0, rewriteCaptured, denLz]
    cases t with
    | name x =>
      simp only [targetName, targetNames]
      apply compSemLz_agree
      · exact (ihi ig env henv).1
      · intro v
        exact (ihe ([x] :: ig) _ (henv.upd [x] x v (by simp))).1
      · intro v
        exact (ihifs ([x] :: ig) _ (henv.upd [x] x v (by simp))).1
    | _ => simp [targetName, compSemLz]
  case case12 =>
    intro ig env _
    exact ⟨.nil, .nil⟩
  case case13 =>
    intro e es ihe ihes ig env henv
    have h1 := ihe ig env henv
    have h2 := ihes ig env henv
    exact ⟨.cons h1.1 h2.1, .cons h1.2.2 h2.2⟩

/-- **C04 (the recorded expression means what the original means)**: with the captured names bound to their captured
    values, the rewritten expression evaluates like the original - for every world and environment. -/
theorem rewriteCaptured_preserves (w : World) (snap : Snapshot) (hs : LitSnapshot snap) (e : Expr) (env : Env)
    (h : EnvHas snap [] env) : evLz w env (rewriteCaptured snap [] [] [] e) = evLz w env e :=
  ((rewriteCaptured_sem_both w snap hs).1 e [] env h).1

/-- … and for the lambda that is recorded: applied to any argument it gives what the Python lambda gives (its own
    parameter hides a captured variable of the same name) -/
theorem rewriteCaptured_lambda (w : World) (snap : Snapshot) (hs : LitSnapshot snap) (x : String) (b : Expr) (env : Env)
    (h : EnvHas snap [] env) (v : Val) :
    evLz w (env.upd x v) (rewriteCaptured snap [] [] [[x]] b) = evLz w (env.upd x v) b :=
  ((rewriteCaptured_sem_both w snap hs).1 b [[x]] (env.upd x v) (h.upd [x] x v (by simp))).1

/-- Non-vacuity: a snapshot with a captured integer and a helper left by name, and an environment that has them. -/
example : LitSnapshot [("G1", .lit (.int 5)), ("helper", .keep)] := by
  intro x r h
  simp only [snapGet] at h
  split at h
  · cases h; exact Or.inr ⟨_, rfl⟩
  · split at h
    · cases h; exact Or.inl rfl
    · cases h
example : EnvHas [("G1", .lit (.int 5)), ("helper", .keep)] [] (Env.empty.upd "G1" (.int 5)) := by
  intro x c _ h
  simp only [snapGet] at h
  split at h
  · rename_i hx; cases h; subst hx; exact ⟨.int 5, rfl, by simp [Env.upd]⟩
  · split at h <;> cases h

end Fadl
