namespace Fadl
set_option linter.unusedSimpArgs false
set_option linter.unusedVariables false

/-! ## shape inversion for `Sim` -/

theorem Sim_dict_inv {v e' : Expr} {ks' vs' : List Expr} (h : Sim v e') (he : e' = .dict ks' vs') :
    ∃ ks vs, v = .dict ks vs ∧ SimL ks ks' ∧ SimL vs vs' := by
  subst he
  cases v <;> simp only [Sim] at h
  case dict ks vs => obtain ⟨a, b, hh, h1, h2⟩ := h; cases hh; exact ⟨ks, vs, rfl, h1, h2⟩
  all_goals (simp at h)

theorem Sim_not_dict {v e' : Expr} (h : Sim v e') (he : ∀ ks' vs', e' ≠ .dict ks' vs') : ∀ ks vs, v ≠ .dict ks vs := by
  intro ks vs hv
  subst hv
  simp only [Sim] at h
  obtain ⟨a, b, hh, _⟩ := h
  exact he a b hh

theorem Sim_tuple_inv {v e' : Expr} {es' : List Expr} (h : Sim v e') (he : e' = .tuple es') :
    ∃ es, v = .tuple es ∧ SimL es es' := by
  subst he
  cases v <;> simp only [Sim] at h
  case tuple es => obtain ⟨a, hh, h1⟩ := h; cases hh; exact ⟨es, rfl, h1⟩
  all_goals (simp at h)

theorem Sim_not_tuple {v e' : Expr} (h : Sim v e') (he : ∀ es', e' ≠ .tuple es') : ∀ es, v ≠ .tuple es := by
  intro es hv
  subst hv
  simp only [Sim] at h
  obtain ⟨a, hh, _⟩ := h
  exact he a hh

theorem Sim_const_inv {v e' : Expr} {c : Const} (h : Sim v e') (he : e' = .const c) : v = .const c := by
  subst he
  cases v <;> simp only [Sim] at h
  case const c' => cases h; rfl
  all_goals (simp at h)

theorem Sim_lam_inv {v e' : Expr} {ps : List String} {b : Expr} (h : Sim v e') (he : e' = .lam ps b) : v = .lam ps b := by
  subst he
  cases v <;> simp only [Sim] at h
  case lam ps' b' => cases h; rfl
  all_goals (simp at h)

theorem SimL_single_lam_inv {fa : List Expr} {ps : List String} {b : Expr} (h : SimL fa [.lam ps b]) : fa = [.lam ps b] := by
  cases fa with
  | nil => simp [SimL] at h
  | cons e rest =>
    simp only [SimL] at h
    obtain ⟨e', rest', heq, h1, h2⟩ := h
    simp only [List.cons.injEq] at heq
    obtain ⟨rfl, rfl⟩ := heq
    cases rest with
    | nil => rw [Sim_lam_inv h1 rfl]
    | cons a r => simp [SimL] at h2

theorem SimL_of_single_lam {fa' : List Expr} {ps : List String} {b : Expr} (h : SimL [.lam ps b] fa') : fa' = [.lam ps b] := by
  simp only [SimL, Sim] at h
  obtain ⟨e', rest, rfl, rfl, rfl⟩ := h
  rfl

theorem Sim_of_const {c : Const} {e' : Expr} (h : Sim (.const c) e') : e' = .const c := by simpa [Sim] using h

theorem SimL_getElem?_isSome {es es' : List Expr} (h : SimL es es') (i : Nat) : (es'[i]?).isSome = (es[i]?).isSome := by
  have hl := SimL_length es es' h
  by_cases hi : i < es.length
  · have hi' : i < es'.length := by omega
    simp [List.getElem?_eq_getElem hi, List.getElem?_eq_getElem hi']
  · have h1 : es.length ≤ i := by omega
    have h2 : es'.length ≤ i := by omega
    simp [List.getElem?_eq_none h1, List.getElem?_eq_none h2]

def tinfo (r : FRes) : TInfo := ⟨r.ty, r.elts⟩

end Fadl
