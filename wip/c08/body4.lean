namespace Fadl
set_option linter.unusedSimpArgs false
set_option linter.unusedVariables false

def isCallE (e : Expr) : Prop := ∃ f a kn kv, e = .call f a kn kv

def lastRel (l : Option (Ty × Bool)) (l' : Option MRes) : Prop :=
  l = l'.map (fun r => (r.ty, r.full)) ∧ ∀ r, l' = some r → isCallE r.node

theorem applyCbCall_isCall (cb : CbSpec) {e : Expr} (h : isCallE e) : isCallE (applyCbCall cb e) := by
  obtain ⟨f, a, kn, kv, rfl⟩ := h
  simp only [applyCbCall]
  exact ⟨_, _, _, _, rfl⟩

theorem applyCb_isCall (cb : Option CbSpec) (st : FSt) {e : Expr} (h : isCallE e) : isCallE (applyCb cb st e).2 := by
  cases cb with
  | none => exact h
  | some c => simp only [applyCb]; exact applyCbCall_isCall c h

theorem Sim_call_of_isCall (f : Expr) (a : List Expr) (kn : List String) (kv : List Expr) {e' : Expr} (h : isCallE e') :
    Sim (.call f a kn kv) e' := by
  simp only [Sim]; exact h

theorem CallSim_isCall {c c' : Expr} (h : CallSim c c') : isCallE c' := by
  obtain ⟨f, f', fa, fa', kn, kv, kv', _, rfl, _, _⟩ := h
  exact ⟨_, _, _, _, rfl⟩

def TySound (M : Model) (fuel : Nat) : Prop :=
  (∀ G st e r, follow M fuel G st e = .ok r → tyOf M fuel G e = .ok ⟨r.ty, r.elts⟩ ∧ Sim e r.e) ∧
  (∀ G st es rs st', followL M fuel G st es = .ok (rs, st') →
      tyOfL M fuel G es = .ok (rs.map (·.2)) ∧ SimL es (rs.map (·.1))) ∧
  (∀ G st objTy recv m args args' kwn kwv kwv' r, SimL args args' → SimL kwv kwv' →
      methodCall M fuel G st objTy recv m args' kwn kwv' = .ok r →
      methodTy M fuel G objTy m args kwn kwv = .ok ⟨r.ty, r.elts⟩ ∧ isCallE r.e) ∧
  (∀ G st recv m args args' kwn kwv kwv' cands last last' res' st', SimL args args' → SimL kwv kwv' → lastRel last last' →
      candLoop M fuel G st recv m args' kwn kwv' cands last' = .ok (res', st') →
      ∃ res, candTy M fuel G m args kwn kwv cands last = .ok res ∧ lastRel res res') ∧
  (∀ G st cand m filled filled' o', CallSim filled filled' →
      onStreamObj M fuel G st cand m filled' = .ok o' →
      onStreamTy M fuel G cand m filled = .ok (o'.map (·.2.1)) ∧ ∀ n t s, o' = some (n, t, s) → isCallE n)

theorem bindE_ok {α β : Type} {x : Except Err α} {f : α → Except Err β} {b : β} (h : (x >>= f) = .ok b) :
    ∃ a, x = .ok a ∧ f a = .ok b := by
  cases x with
  | error e => cases h
  | ok a => exact ⟨a, rfl, h⟩

theorem follow_tySound (M : Model) : ∀ fuel, TySound M fuel := by
  intro fuel
  induction fuel with
  | zero =>
    refine ⟨?_, ?_, ?_, ?_, ?_⟩ <;> intros <;> simp_all [follow, followL, methodCall, candLoop, onStreamObj]
  | succ fuel ih =>
    obtain ⟨ihS, ihL, ihM, ihC, ihO⟩ := ih
    refine ⟨?_, ?_, ?_, ?_, ?_⟩
    · intro G st e x h
      cases e with
      | name y =>
        simp only [follow] at h
        split at h
        · rename_i t ht; cases h
          exact ⟨by simp only [tyOf, ht]; rfl, by simp [Sim]⟩
        · rename_i ht
          split at h <;> cases h <;> exact ⟨by simp only [tyOf, ht, *]; rfl, by simp [Sim]⟩
      | const k => simp only [follow, Except.ok.injEq] at h; subst h; exact ⟨by simp only [tyOf]; rfl, by simp [Sim]⟩
      | lam ps b => simp only [follow, Except.ok.injEq] at h; subst h; exact ⟨by simp only [tyOf]; rfl, by simp [Sim]⟩
      | attr v a =>
        simp only [follow] at h
        replace h := bindE_ok h
        obtain ⟨r, hv, h⟩ := h
        obtain ⟨tv, sv⟩ := ihS G st v r hv
        simp only [tyOf, tv, bind, Except.bind]
        split at h
        · rename_i ks' vs' hd
          obtain ⟨ks, vs, rfl, hk, hvs⟩ := Sim_dict_inv sv hd
          simp only []
          rw [← SimL_dictLitIndex a ks ks' 0 hk]
          replace h := bindE_ok h
          obtain ⟨oi, hi, h⟩ := h
          simp only [hi]
          cases oi with
          | some i =>
            simp only [] at h ⊢
            have hsome := SimL_getElem?_isSome hvs i
            split at h
            · rename_i t w ht hw
              simp only [pure, Except.pure, Except.ok.injEq] at h; subst h
              rw [hw] at hsome
              cases hvi : vs[i]? with
              | none => rw [hvi] at hsome; cases hsome
              | some w0 =>
                simp only [ht]
                exact ⟨rfl, by simp only [Sim]; exact ⟨r.e, rfl, sv⟩⟩
            · cases h
          | none =>
            simp only [] at h ⊢
            split at h
            · simp only [pure, Except.pure, Except.ok.injEq] at h; subst h
              rename_i hz
              simp only [hz, if_true]
              exact ⟨rfl, by simp only [Sim]; exact ⟨r.e, rfl, sv⟩⟩
            · cases h
        · rename_i hnd
          have hnv := Sim_not_dict sv hnd
          have hS : Sim (.attr v a) (.attr r.e a) := by simp only [Sim]; exact ⟨r.e, rfl, sv⟩
          have hB : (if isDC r.ty = true then
                (match dcField a r.ty with
                  | some t => pure ⟨t, []⟩
                  | Option.none => .error (.valueError "Key not found in dataclass/dictionary"))
              else pure ⟨.any, []⟩ : Except Err TInfo) = .ok ⟨x.ty, x.elts⟩ ∧ Sim (.attr v a) x.e := by
            split at h
            · rename_i hdc
              split at h
              · rename_i t hf
                simp only [pure, Except.pure, Except.ok.injEq] at h; subst h
                simp only [hdc, hf, if_true]; exact ⟨rfl, hS⟩
              · cases h
            · rename_i hdc
              simp only [pure, Except.pure, Except.ok.injEq] at h; subst h
              simp only [hdc]; exact ⟨rfl, hS⟩
          cases v <;> first | exact absurd rfl (hnv _ _) | exact hB
      | sub v s =>
        simp only [follow] at h
        replace h := bindE_ok h
        obtain ⟨rv, hv, h⟩ := h
        replace h := bindE_ok h
        obtain ⟨rs, hs, h⟩ := h
        obtain ⟨tv, sv⟩ := ihS G st v rv hv
        obtain ⟨ts, ss⟩ := ihS G rv.st s rs hs
        have hS : Sim (.sub v s) (.sub rv.e rs.e) := by simp only [Sim]; exact ⟨rv.e, rs.e, rfl, sv, ss⟩
        simp only [tyOf, tv, ts, bind, Except.bind]
        split at h
        · rename_i es' hd
          obtain ⟨es, rfl, hes⟩ := Sim_tuple_inv sv hd
          have hlen := SimL_length es es' hes
          simp only []
          split at h
          · rename_i n hc
            have := Sim_const_inv ss hc; subst this
            simp only [hlen] at h ⊢
            by_cases hle : (es.length : Int) ≤ n
            · simp only [hle, if_true] at h; cases h
            · simp only [hle, if_false] at h ⊢
              generalize hidx : (if n < 0 then (es.length : Int) + n else n) = idx at h ⊢
              have hsome := SimL_getElem?_isSome hes idx.toNat
              split at h
              · rename_i t w ht hw
                rw [hw] at hsome
                cases hvi : es[idx.toNat]? with
                | none => rw [hvi] at hsome; cases hsome
                | some w0 =>
                  simp only [ht]
                  by_cases hneg : idx < 0
                  · simp only [hneg, if_true] at h; cases h
                  · simp only [hneg, if_false, pure, Except.pure, Except.ok.injEq] at h; subst h
                    simp only [hneg, if_false]; exact ⟨rfl, hS⟩
              · cases h
          · rename_i b hc
            have := Sim_const_inv ss hc; subst this
            simp only [hlen] at h ⊢
            generalize hidx : (if b = true then 1 else 0) = idx at h ⊢
            by_cases hle : es.length ≤ idx
            · simp only [hle, if_true] at h; cases h
            · simp only [hle, if_false] at h ⊢
              have hsome := SimL_getElem?_isSome hes idx
              split at h
              · rename_i t w ht hw
                rw [hw] at hsome
                cases hvi : es[idx]? with
                | none => rw [hvi] at hsome; cases hsome
                | some w0 =>
                  simp only [ht]
                  simp only [pure, Except.pure, Except.ok.injEq] at h; subst h
                  exact ⟨rfl, hS⟩
              · cases h
          · cases h
        · rename_i hnt
          have hnv := Sim_not_tuple sv hnt
          cases v
          case tuple es => exact absurd rfl (hnv es)
          all_goals (
            simp only []
            split at h
            · rename_i hdc
              replace h := bindE_ok h
              obtain ⟨k, hk, h⟩ := h
              have hk' : litKey s = .ok k := by
                simp only [litKey] at hk ⊢; rw [← Sim_literalEval s rs.e ss]; exact hk
              simp only [hdc, hk', if_true]
              split at h
              · rename_i ks hks
                split at h
                · rename_i t hf
                  simp only [pure, Except.pure, Except.ok.injEq] at h; subst h
                  simp only [hks, hf]; exact ⟨rfl, hS⟩
                · cases h
              · cases h
            · rename_i hdc
              simp only [pure, Except.pure, Except.ok.injEq] at h; subst h
              simp only [hdc]; exact ⟨rfl, hS⟩)
      | tuple es =>
        simp only [follow] at h
        replace h := bindE_ok h
        obtain ⟨⟨rs, st'⟩, hl, h⟩ := h
        obtain ⟨tl, sl⟩ := ihL G st es rs st' hl
        simp only [pure, Except.pure, Except.ok.injEq] at h; subst h
        exact ⟨by simp only [tyOf, tl, bind, Except.bind]; rfl, by simp only [Sim]; exact ⟨_, rfl, sl⟩⟩
      | list es =>
        simp only [follow] at h
        replace h := bindE_ok h
        obtain ⟨⟨rs, st'⟩, hl, h⟩ := h
        obtain ⟨tl, sl⟩ := ihL G st es rs st' hl
        simp only [pure, Except.pure, Except.ok.injEq] at h; subst h
        exact ⟨by simp only [tyOf, tl, bind, Except.bind]; rfl, by simp only [Sim]; exact ⟨_, rfl, sl⟩⟩
      | dict ks vs =>
        simp only [follow] at h
        replace h := bindE_ok h
        obtain ⟨⟨rk, st1⟩, hk, h⟩ := h
        replace h := bindE_ok h
        obtain ⟨⟨rv, st2⟩, hv, h⟩ := h
        replace h := bindE_ok h
        obtain ⟨kv, hkv, h⟩ := h
        obtain ⟨tk, sk⟩ := ihL G st ks rk st1 hk
        obtain ⟨tv, sv⟩ := ihL G st1 vs rv st2 hv
        simp only [pure, Except.pure, Except.ok.injEq] at h; subst h
        have hkv' : ks.mapM litKey = .ok kv := by rw [← SimL_mapM_litKey ks _ sk]; exact hkv
        exact ⟨by simp only [tyOf, tk, tv, hkv', bind, Except.bind]; rfl, by simp only [Sim]; exact ⟨_, _, rfl, sk, sv⟩⟩
      | op k args =>
        simp only [follow] at h
        replace h := bindE_ok h
        obtain ⟨⟨rs, st'⟩, hl, h⟩ := h
        obtain ⟨tl, sl⟩ := ihL G st args rs st' hl
        simp only [] at h
        have hop : opTy k (rs.map (·.2)) = .ok x.ty ∧ x.e = .op k (rs.map (·.1)) ∧ x.elts = [] := by
          generalize rs.map (·.2) = ts at h ⊢
          repeat' (split at h)
          all_goals (try (cases h; done))
          all_goals (simp only [pure, Except.pure, Except.ok.injEq] at h; subst h)
          all_goals (first | (simp_all [opTy, binTy, pure, Except.pure]; done) | (refine ⟨?_, rfl, rfl⟩; simp only [opTy]; split <;> simp_all [pure, Except.pure]))
        obtain ⟨h1, h2, h3⟩ := hop
        refine ⟨by simp only [tyOf, tl, h1, h3, bind, Except.bind]; rfl, ?_⟩
        rw [h2]; simp only [Sim]; exact ⟨_, rfl, sl⟩
      | comp kind el t i ifs a =>
        simp only [follow] at h
        replace h := bindE_ok h
        obtain ⟨r1, h1, h⟩ := h
        replace h := bindE_ok h
        obtain ⟨r2, h2, h⟩ := h
        replace h := bindE_ok h
        obtain ⟨r3, h3, h⟩ := h
        replace h := bindE_ok h
        obtain ⟨⟨r4, st4⟩, h4, h⟩ := h
        obtain ⟨t1, _⟩ := ihS G st el r1 h1
        obtain ⟨t2, _⟩ := ihS G r1.st t r2 h2
        obtain ⟨t3, _⟩ := ihS G r2.st i r3 h3
        obtain ⟨t4, _⟩ := ihL G r3.st ifs r4 st4 h4
        simp only [pure, Except.pure, Except.ok.injEq] at h; subst h
        exact ⟨by simp only [tyOf, t1, t2, t3, t4, bind, Except.bind]; rfl, by simp only [Sim]; exact ⟨_, _, _, _, _, _, rfl⟩⟩
      | call f args kwn kwv =>
        simp only [follow] at h
        replace h := bindE_ok h
        obtain ⟨rf, hf, h⟩ := h
        replace h := bindE_ok h
        obtain ⟨⟨as', st1⟩, ha, h⟩ := h
        replace h := bindE_ok h
        obtain ⟨⟨ks', st2⟩, hk, h⟩ := h
        obtain ⟨tf, sf⟩ := ihS G st f rf hf
        obtain ⟨ta, sa⟩ := ihL G rf.st args as' st1 ha
        obtain ⟨tk, sk⟩ := ihL G st1 kwv ks' st2 hk
        simp only [] at h
        simp only [tyOf, tf, ta, tk, bind, Except.bind]
        split at h
        · -- a method call
          rename_i recv m recv0 a0 heq
          simp only []
          have hsf := sf
          simp only [Sim] at hsf
          obtain ⟨v', hv', srecv⟩ := hsf
          rw [heq] at hv'
          simp only [Expr.attr.injEq] at hv'
          obtain ⟨rfl, rfl⟩ := hv'
          replace h := bindE_ok h
          obtain ⟨rr, hrr, h⟩ := h
          obtain ⟨trr, _⟩ := ihS G st recv0 rr hrr
          obtain ⟨tm, cm⟩ := ihM G st2 rr.ty recv m args _ kwn kwv _ x sa sk h
          simp only [trr]
          exact ⟨tm, Sim_call_of_isCall _ _ _ _ cm⟩
        · -- a function called by name
          rename_i f _ _ n heq
          have := sf
          have hfn : f = .name n := by
            cases f <;> simp only [Sim] at this <;> simp_all
          subst hfn
          simp only []
          split at h
          · rename_i fi hfi
            simp only [hfi]
            have hfd := Sim_fillDefaults fi.params (.name n) (.name n) args _ kwn kwv _ sa sk
            split at h
            · cases h
            · rename_i c hc
              rw [hc] at hfd
              cases hc0 : fillDefaults fi.params (.name n) args kwn kwv with
              | error e => rw [hc0] at hfd; simp [ERel] at hfd
              | ok c0 =>
                rw [hc0] at hfd; simp only [ERel] at hfd
                simp only [pure, Except.pure, Except.ok.injEq] at h; subst h
                exact ⟨rfl, Sim_call_of_isCall _ _ _ _ (applyCb_isCall _ _ (CallSim_isCall hfd))⟩
          · rename_i hfi
            simp only [hfi]
            simp only [pure, Except.pure, Except.ok.injEq] at h; subst h
            exact ⟨rfl, Sim_call_of_isCall _ _ _ _ ⟨_, _, _, _, rfl⟩⟩
        · -- a parameterized property
          rename_i recv pn sl recv0 a0 sl0 heq
          simp only []
          have hsf := sf
          simp only [Sim] at hsf
          obtain ⟨v', s', hv', sv, ssl⟩ := hsf
          obtain ⟨r', hr', srecv⟩ := sv
          rw [heq, hr'] at hv'
          simp only [Expr.sub.injEq, Expr.attr.injEq] at hv'
          obtain ⟨⟨rfl, rfl⟩, rfl⟩ := hv'
          replace h := bindE_ok h
          obtain ⟨rr, hrr, h⟩ := h
          obtain ⟨trr, _⟩ := ihS G st recv0 rr hrr
          simp only [trr]
          split at h
          · rename_i hty
            simp only [hty]
            simp only [pure, Except.pure, Except.ok.injEq] at h; subst h
            exact ⟨rfl, Sim_call_of_isCall _ _ _ _ ⟨_, _, _, _, rfl⟩⟩
          · rename_i cn cargs hty
            simp only [hty]
            split at h
            · rename_i p hp
              simp only [hp]
              split at h
              · rename_i cb hcb
                replace h := bindE_ok h
                obtain ⟨kk, hkk, h⟩ := h
                have hkk' : litKey sl0 = .ok kk := by
                  simp only [litKey] at hkk ⊢; rw [← Sim_literalEval sl0 sl ssl]; exact hkk
                simp only [hcb, hkk']
                simp only [pure, Except.pure, Except.ok.injEq] at h; subst h
                exact ⟨rfl, Sim_call_of_isCall _ _ _ _ (applyCb_isCall _ _ ⟨_, _, _, _, rfl⟩)⟩
              · cases h
            · cases h
          · simp only [pure, Except.pure, Except.ok.injEq] at h; subst h
            rename_i hne1 hne2
            refine ⟨?_, Sim_call_of_isCall _ _ _ _ ⟨_, _, _, _, rfl⟩⟩
            split <;> first | rfl | (exfalso; simp_all; done)
        · -- an immediately called lambda
          rename_i f _ _ ps body heq
          have := sf
          have hfn : f = .lam ps body := by
            cases f <;> simp only [Sim] at this <;> simp_all
          subst hfn
          simp only []
          replace h := bindE_ok h
          obtain ⟨rb, hrb, h⟩ := h
          obtain ⟨trb, _⟩ := ihS _ st2 body rb hrb
          simp only [trb]
          simp only [pure, Except.pure, Except.ok.injEq] at h; subst h
          exact ⟨rfl, Sim_call_of_isCall _ _ _ _ ⟨_, _, _, _, rfl⟩⟩
        · -- anything else
          rename_i f _ _ hn1 hn2 hn3 hn4
          simp only [pure, Except.pure, Except.ok.injEq] at h; subst h
          refine ⟨?_, Sim_call_of_isCall _ _ _ _ ⟨_, _, _, _, rfl⟩⟩
          have hsf := sf
          split
          · rename_i recv m
            simp only [Sim] at hsf
            obtain ⟨v', hv', _⟩ := hsf
            exact absurd rfl (hn3 _ _ _ _ hv')
          · rename_i n
            simp only [Sim] at hsf
            exact absurd hsf (hn1 n)
          · rename_i recv pn sl
            simp only [Sim] at hsf
            obtain ⟨v', s', hv', ⟨r', hr', _⟩, _⟩ := hsf
            rw [hr'] at hv'
            exact absurd rfl (hn4 _ _ _ _ _ _ hv')
          · rename_i ps body
            simp only [Sim] at hsf
            exact absurd hsf (hn2 ps body)
          · rfl
    · intro G st es rs st' h
      cases es with
      | nil =>
        simp only [followL, Except.ok.injEq, Prod.mk.injEq] at h
        obtain ⟨rfl, rfl⟩ := h
        exact ⟨by simp only [tyOfL]; rfl, by simp [SimL]⟩
      | cons e rest =>
        simp only [followL] at h
        replace h := bindE_ok h
        obtain ⟨r, he, h⟩ := h
        replace h := bindE_ok h
        obtain ⟨⟨rr, st2⟩, hr, h⟩ := h
        obtain ⟨t1, s1⟩ := ihS G st e r he
        obtain ⟨t2, s2⟩ := ihL G r.st rest rr st2 hr
        simp only [pure, Except.pure, Except.ok.injEq, Prod.mk.injEq] at h
        obtain ⟨rfl, rfl⟩ := h
        refine ⟨by simp only [tyOfL, t1, t2, bind, Except.bind]; rfl, ?_⟩
        simp only [List.map_cons, SimL]
        exact ⟨_, _, rfl, s1, s2⟩
    · intro G st objTy recv m args args' kwn kwv kwv' x sa sk h
      simp only [methodCall] at h
      replace h := bindE_ok h
      obtain ⟨⟨res', st'⟩, hc, h⟩ := h
      obtain ⟨res, tc, hrel⟩ := ihC G st recv m args args' kwn kwv kwv' _ Option.none Option.none res' st' sa sk
        ⟨rfl, by intro r hr; cases hr⟩ hc
      simp only [methodTy, tc, bind, Except.bind]
      obtain ⟨hres, hcall⟩ := hrel
      cases res' with
      | none =>
        simp only [Option.map_none] at hres; subst hres
        simp only [pure, Except.pure, Except.ok.injEq] at h; subst h
        exact ⟨rfl, ⟨_, _, _, _, rfl⟩⟩
      | some r =>
        simp only [Option.map_some] at hres; subst hres
        simp only [pure, Except.pure, Except.ok.injEq] at h; subst h
        exact ⟨rfl, applyCb_isCall _ _ (applyCb_isCall _ _ (hcall r rfl))⟩
    · intro G st recv m args args' kwn kwv kwv' cands last last' res' st' sa sk hrel h
      cases cands with
      | nil =>
        simp only [candLoop, Except.ok.injEq, Prod.mk.injEq] at h
        obtain ⟨rfl, rfl⟩ := h
        exact ⟨last, by simp only [candTy]; rfl, hrel⟩
      | cons cand rest =>
        simp only [candLoop] at h
        simp only [candTy]
        split at h
        · rename_i hfm
          simp only [hfm]
          exact ihC G st recv m args args' kwn kwv kwv' rest last last' res' st' sa sk hrel h
        · rename_i defining mi hfm
          simp only [hfm]
          replace h := bindE_ok h
          obtain ⟨filled', hfd', h⟩ := h
          have hfd := Sim_fillDefaults mi.params (.name m) (.attr recv m) args args' kwn kwv kwv' sa sk
          rw [hfd'] at hfd
          cases hfd0 : fillDefaults mi.params (.name m) args kwn kwv with
          | error e => rw [hfd0] at hfd; simp [ERel] at hfd
          | ok filled =>
            rw [hfd0] at hfd; simp only [ERel] at hfd
            simp only [bind, Except.bind]
            have hcs := hfd
            obtain ⟨f0, f0', fa, fa', kn, kv, kv', rfl, rfl, hfa, hkv⟩ := hfd
            simp only [callArgs] at h ⊢
            simp only [SimL_anyLam fa fa' hfa] at h
            -- the continuation when the lambda argument has to be followed
            have hfollow : ∀ (L : Option (Ty × Bool)) (L' : Option MRes), lastRel L L' →
                (∀ r, L' = some r → r.full = false) →
                ((do
                  let followed ← onStreamObj M fuel G st cand m (f0'.call fa' kn kv')
                  match followed with
                    | some (n, t, st') => pure (some ({ node := n, ty := t, full := true, cand := cand, mi := mi } : MRes), st')
                    | Option.none => candLoop M fuel G st recv m args' kwn kwv' rest L') = .ok (res', st')) →
                ∃ res, (∃ o, onStreamTy M fuel G cand m (f0.call fa kn kv) = .ok o ∧
                  ((o = Option.none ∧ candTy M fuel G m args kwn kwv rest L = .ok res) ∨
                   (∃ t, o = some t ∧ res = some (t, true)))) ∧ lastRel res res' := by
              intro L L' hLL hnf hh
              replace hh := bindE_ok hh
              obtain ⟨o', ho, hh⟩ := hh
              obtain ⟨to, co⟩ := ihO G st cand m _ _ o' hcs ho
              cases o' with
              | none =>
                simp only [Option.map_none] at hh to
                obtain ⟨res, h1, h2⟩ := ihC G st recv m args args' kwn kwv kwv' rest L L' res' st' sa sk hLL hh
                exact ⟨res, ⟨_, to, Or.inl ⟨rfl, h1⟩⟩, h2⟩
              | some p =>
                obtain ⟨n, t, s⟩ := p
                simp only [Option.map_some, pure, Except.pure, Except.ok.injEq, Prod.mk.injEq] at hh to
                obtain ⟨rfl, rfl⟩ := hh
                exact ⟨_, ⟨_, to, Or.inr ⟨t, rfl, rfl⟩⟩, rfl, by intro r hr; cases hr; exact co n t s rfl⟩
            cases hres : resolveRet defining M (mi.ret.getD .any) with
            | some t =>
              simp only [hres] at h ⊢
              by_cases hL : fa.any isLamArg = true
              · simp only [hL, Bool.not_true, Bool.not_false, if_true, Bool.false_eq_true, if_false] at h ⊢
                obtain ⟨res, ⟨o, ho, hcase⟩, hl⟩ := hfollow (some (t, false)) (some ⟨f0'.call fa' kn kv', t, false, cand, mi⟩) ⟨rfl, by intro r hr; cases hr; exact ⟨_, _, _, _, rfl⟩⟩ (by intro r hr; cases hr; rfl) h
                refine ⟨res, ?_, hl⟩
                simp only [ho]
                rcases hcase with ⟨rfl, h1⟩ | ⟨t', rfl, rfl⟩
                · exact h1
                · rfl
              · simp only [Bool.not_eq_true] at hL
                simp only [hL, Bool.not_true, Bool.not_false, if_true, Bool.false_eq_true, if_false, pure, Except.pure,
                  Except.ok.injEq, Prod.mk.injEq] at h ⊢
                obtain ⟨rfl, rfl⟩ := h
                exact ⟨_, rfl, rfl, by intro r hr; cases hr; exact ⟨_, _, _, _, rfl⟩⟩
            | none =>
              simp only [hres] at h ⊢
              obtain ⟨hl1, hl2⟩ := hrel
              cases last' with
              | none =>
                simp only [Option.map_none] at hl1; subst hl1
                simp only [if_true] at h ⊢
                obtain ⟨res, ⟨o, ho, hcase⟩, hl⟩ := hfollow Option.none Option.none ⟨rfl, by intro r hr; cases hr⟩ (by intro r hr; cases hr) h
                refine ⟨res, ?_, hl⟩
                simp only [ho]
                rcases hcase with ⟨rfl, h1⟩ | ⟨t', rfl, rfl⟩
                · exact h1
                · rfl
              | some r =>
                simp only [Option.map_some] at hl1; subst hl1
                by_cases hF : r.full = true
                · simp only [hF, Bool.not_true, Bool.false_eq_true, if_false, pure, Except.pure, Except.ok.injEq,
                    Prod.mk.injEq] at h ⊢
                  obtain ⟨rfl, rfl⟩ := h
                  exact ⟨_, rfl, by simp only [Option.map_some, hF], hl2⟩
                · simp only [Bool.not_eq_true] at hF
                  simp only [hF, Bool.not_false, if_true, Bool.false_eq_true, if_false] at h ⊢
                  obtain ⟨res, ⟨o, ho, hcase⟩, hl⟩ := hfollow (some (r.ty, false)) (some r) ⟨by simp only [Option.map_some, hF], hl2⟩ (by intro r' hr; cases hr; exact hF) h
                  refine ⟨res, ?_, hl⟩
                  simp only [ho]
                  rcases hcase with ⟨rfl, h1⟩ | ⟨t', rfl, rfl⟩
                  · exact h1
                  · rfl
    · intro G st cand m filled filled' o' hcs h
      simp only [onStreamObj] at h
      obtain ⟨f0, f0', fa, fa', kn0, kv0, kv0', rfl, rfl, hfa, hkv⟩ := hcs
      split at h
      · rename_i cn item f' x body kn kv heq
        simp only [Expr.call.injEq] at heq
        obtain ⟨rfl, rfl, rfl, rfl⟩ := heq
        have := SimL_single_lam_inv hfa; subst this
        simp only [onStreamTy]
        split at h
        · rename_i hcond
          simp only [hcond, if_true]
          replace h := bindE_ok h
          obtain ⟨rb, hrb, h⟩ := h
          replace h := bindE_ok h
          obtain ⟨u, hu, h⟩ := h
          obtain ⟨trb, _⟩ := ihS _ _ body rb hrb
          simp only [trb, bind, Except.bind]
          split at h
          · cases h
          · rename_i hw
            simp only [hw, if_false]
            simp only [pure, Except.pure, Except.ok.injEq] at h; subst h
            refine ⟨?_, ?_⟩
            · simp only [Option.map_some, operatorElemTy]; rfl
            · intro n t s hn
              simp only [Option.some.injEq, Prod.mk.injEq] at hn
              obtain ⟨rfl, _, _⟩ := hn
              exact ⟨_, _, _, _, rfl⟩
        · rename_i hcond
          simp only [hcond]
          simp only [pure, Except.pure, Except.ok.injEq] at h; subst h
          exact ⟨rfl, by intro n t s hn; cases hn⟩
      · rename_i hneg
        simp only [pure, Except.pure, Except.ok.injEq] at h; subst h
        refine ⟨?_, by intro n t s hn; cases hn⟩
        simp only [onStreamTy, Option.map_none]
        split
        · rename_i cn item f'' x body kn kv heq
          simp only [Expr.call.injEq] at heq
          obtain ⟨rfl, rfl, rfl, rfl⟩ := heq
          have := SimL_of_single_lam hfa; subst this
          exact absurd rfl (hneg _ _ _ _ _ _ _ rfl)
        · rfl

end Fadl
