namespace Fadl
set_option linter.unusedSimpArgs false
set_option linter.unusedVariables false

/-! ## what the follower does to the tree: call nodes are rewritten, everything else keeps its shape -/

mutual
def Sim : Expr → Expr → Prop
  | .name x, e' => e' = .name x
  | .const c, e' => e' = .const c
  | .lam ps b, e' => e' = .lam ps b
  | .attr v a, e' => ∃ v', e' = .attr v' a ∧ Sim v v'
  | .sub v s, e' => ∃ v' s', e' = .sub v' s' ∧ Sim v v' ∧ Sim s s'
  | .tuple es, e' => ∃ es', e' = .tuple es' ∧ SimL es es'
  | .list es, e' => ∃ es', e' = .list es' ∧ SimL es es'
  | .dict ks vs, e' => ∃ ks' vs', e' = .dict ks' vs' ∧ SimL ks ks' ∧ SimL vs vs'
  | .op k es, e' => ∃ es', e' = .op k es' ∧ SimL es es'
  | .comp _ _ _ _ _ _, e' => ∃ k a b c d f, e' = .comp k a b c d f
  | .call _ _ _ _, e' => ∃ f a kn kv, e' = .call f a kn kv
def SimL : List Expr → List Expr → Prop
  | [], es' => es' = []
  | e :: es, es' => ∃ e' rest, es' = e' :: rest ∧ Sim e e' ∧ SimL es rest
end

theorem SimL_length : ∀ (es es' : List Expr), SimL es es' → es'.length = es.length
  | [], es', h => by simp [SimL] at h; simp [h]
  | e :: es, es', h => by
    simp only [SimL] at h
    obtain ⟨e', rest, rfl, _, h2⟩ := h
    simp [SimL_length es rest h2]

mutual
theorem Sim_literalEval : ∀ (e e' : Expr), Sim e e' → literalEval e' = literalEval e
  | .name x, e', h => by simp only [Sim] at h; rw [h]
  | .const c, e', h => by simp only [Sim] at h; rw [h]
  | .lam ps b, e', h => by simp only [Sim] at h; rw [h]
  | .attr v a, e', h => by
    simp only [Sim] at h; obtain ⟨v', rfl, _⟩ := h; simp [literalEval]
  | .sub v s, e', h => by
    simp only [Sim] at h; obtain ⟨v', s', rfl, _, _⟩ := h; simp [literalEval]
  | .tuple es, e', h => by
    simp only [Sim] at h; obtain ⟨es', rfl, h⟩ := h
    simp only [literalEval, SimL_literalEvalL es es' h]
  | .list es, e', h => by
    simp only [Sim] at h; obtain ⟨es', rfl, h⟩ := h
    simp only [literalEval, SimL_literalEvalL es es' h]
  | .dict ks vs, e', h => by
    simp only [Sim] at h; obtain ⟨ks', vs', rfl, h1, h2⟩ := h
    simp only [literalEval, SimL_literalEvalL ks ks' h1, SimL_literalEvalL vs vs' h2]
  | .op k es, e', h => by
    simp only [Sim] at h; obtain ⟨es', rfl, h⟩ := h
    cases k with
    | un n =>
      cases es with
      | nil => simp only [SimL] at h; subst h; rfl
      | cons a rest =>
        simp only [SimL] at h
        obtain ⟨a', rest', rfl, ha, hr⟩ := h
        cases rest with
        | nil =>
          simp only [SimL] at hr; subst hr
          simp only [literalEval, Sim_literalEval a a' ha]
        | cons b rest2 =>
          simp only [SimL] at hr
          obtain ⟨b', rest2', rfl, _, _⟩ := hr
          simp [literalEval]
    | _ => simp [literalEval]
  | .comp _ _ _ _ _ _, e', h => by
    simp only [Sim] at h; obtain ⟨k, a, b, c, d, f, rfl⟩ := h; simp [literalEval]
  | .call _ _ _ _, e', h => by
    simp only [Sim] at h; obtain ⟨f, a, kn, kv, rfl⟩ := h; simp [literalEval]
theorem SimL_literalEvalL : ∀ (es es' : List Expr), SimL es es' → literalEvalL es' = literalEvalL es
  | [], es', h => by simp only [SimL] at h; rw [h]
  | e :: es, es', h => by
    simp only [SimL] at h
    obtain ⟨e', rest, rfl, h1, h2⟩ := h
    simp only [literalEvalL, Sim_literalEval e e' h1, SimL_literalEvalL es rest h2]
end

theorem SimL_mapM_litKey : ∀ (es es' : List Expr), SimL es es' → es'.mapM litKey = es.mapM litKey
  | [], es', h => by simp only [SimL] at h; rw [h]
  | e :: es, es', h => by
    simp only [SimL] at h
    obtain ⟨e', rest, rfl, h1, h2⟩ := h
    simp only [List.mapM_cons, litKey, Sim_literalEval e e' h1]
    have := SimL_mapM_litKey es rest h2
    simp only [litKey] at this
    rw [this]

theorem Sim_const_iff {e e' : Expr} (h : Sim e e') (c : Const) : e' = .const c ↔ e = .const c := by
  cases e <;> simp only [Sim] at h
  case const c' => rw [h]
  all_goals (constructor <;> intro h' <;> first | (subst h'; simp_all) | (obtain ⟨_, h, _⟩ := h; simp_all) | simp_all)

theorem SimL_dictLitIndex (k : String) : ∀ (es es' : List Expr) (i : Nat), SimL es es' →
    dictLitIndex k es' i = dictLitIndex k es i
  | [], es', i, h => by simp only [SimL] at h; rw [h]
  | e :: es, es', i, h => by
    simp only [SimL] at h
    obtain ⟨e', rest, rfl, h1, h2⟩ := h
    cases e with
    | const c =>
      simp only [Sim] at h1; subst h1
      simp only [dictLitIndex]
      cases c <;> simp only [SimL_dictLitIndex k es rest (i + 1) h2]
    | name x => simp only [Sim] at h1; subst h1; rfl
    | lam ps b => simp only [Sim] at h1; subst h1; rfl
    | attr v a => simp only [Sim] at h1; obtain ⟨_, rfl, _⟩ := h1; rfl
    | sub v s => simp only [Sim] at h1; obtain ⟨_, _, rfl, _⟩ := h1; rfl
    | tuple l => simp only [Sim] at h1; obtain ⟨_, rfl, _⟩ := h1; rfl
    | list l => simp only [Sim] at h1; obtain ⟨_, rfl, _⟩ := h1; rfl
    | dict l1 l2 => simp only [Sim] at h1; obtain ⟨_, _, rfl, _⟩ := h1; rfl
    | op k l => simp only [Sim] at h1; obtain ⟨_, rfl, _⟩ := h1; rfl
    | comp a b c d e f => simp only [Sim] at h1; obtain ⟨_, _, _, _, _, _, rfl⟩ := h1; rfl
    | call a b c d => simp only [Sim] at h1; obtain ⟨_, _, _, _, rfl⟩ := h1; rfl

end Fadl
