namespace Fadl
set_option linter.unusedSimpArgs false
set_option linter.unusedVariables false

/-! ## filling in defaults does not look at the arguments -/

def ERel {α β : Type} (R : α → β → Prop) : Except Err α → Except Err β → Prop
  | .ok a, .ok b => R a b
  | .error x, .error y => x = y
  | _, _ => False

theorem SimL_append : ∀ (as as' bs bs' : List Expr), SimL as as' → SimL bs bs' → SimL (as ++ bs) (as' ++ bs')
  | [], as', bs, bs', h1, h2 => by simp only [SimL] at h1; subst h1; simpa using h2
  | a :: as, as', bs, bs', h1, h2 => by
    simp only [SimL] at h1
    obtain ⟨a', rest, rfl, ha, hr⟩ := h1
    simp only [List.cons_append, SimL]
    exact ⟨a', rest ++ bs', rfl, ha, SimL_append as rest bs bs' hr h2⟩

theorem SimL_single {e e' : Expr} (h : Sim e e') : SimL [e] [e'] := by
  simp only [SimL]; exact ⟨e', [], rfl, h, rfl⟩

theorem Sim_refl_const (c : Const) : Sim (.const c) (.const c) := by simp [Sim]

def FKRel : Option (Expr × List String × List Expr) → Option (Expr × List String × List Expr) → Prop
  | Option.none, Option.none => True
  | some (e, ks, vs), some (e', ks', vs') => Sim e e' ∧ ks = ks' ∧ SimL vs vs'
  | _, _ => False

theorem SimL_findKeyword (n : String) : ∀ (kwn : List String) (kwv kwv' : List Expr), SimL kwv kwv' →
    FKRel (findKeyword n kwn kwv) (findKeyword n kwn kwv')
  | [], kwv, kwv', h => by cases kwv <;> cases kwv' <;> simp [findKeyword, FKRel]
  | k :: ks, [], kwv', h => by simp only [SimL] at h; subst h; simp [findKeyword, FKRel]
  | k :: ks, v :: vs, kwv', h => by
    simp only [SimL] at h
    obtain ⟨v', vs', rfl, hv, hr⟩ := h
    simp only [findKeyword]
    split
    · exact ⟨hv, rfl, hr⟩
    · have ih := SimL_findKeyword n ks vs vs' hr
      cases h1 : findKeyword n ks vs with
      | none =>
        cases h2 : findKeyword n ks vs' with
        | none => simp [FKRel]
        | some r => rw [h1, h2] at ih; simp [FKRel] at ih
      | some r =>
        obtain ⟨e, ks1, vs1⟩ := r
        cases h2 : findKeyword n ks vs' with
        | none => rw [h1, h2] at ih; simp [FKRel] at ih
        | some r' =>
          obtain ⟨e', ks1', vs1'⟩ := r'
          rw [h1, h2] at ih
          simp only [FKRel] at ih ⊢
          obtain ⟨a, b, c⟩ := ih
          refine ⟨a, by rw [b], ?_⟩
          simp only [SimL]
          exact ⟨v', vs1', rfl, hv, c⟩

def FLRel : (List Expr × List String × List Expr) → (List Expr × List String × List Expr) → Prop
  | (a, kn, kv), (a', kn', kv') => SimL a a' ∧ kn = kn' ∧ SimL kv kv'

theorem SimL_fillLoop : ∀ (ps : List Param) (i : Nat) (args args' : List Expr) (kwn : List String) (kwv kwv' : List Expr),
    SimL args args' → SimL kwv kwv' → ERel FLRel (fillLoop ps i args kwn kwv) (fillLoop ps i args' kwn kwv')
  | [], i, args, args', kwn, kwv, kwv', h1, h2 => by simp only [fillLoop, ERel, FLRel]; exact ⟨h1, by simp, h2⟩
  | p :: ps, i, args, args', kwn, kwv, kwv', h1, h2 => by
    simp only [fillLoop, SimL_length args args' h1]
    split
    · have hk := SimL_findKeyword p.name kwn kwv kwv' h2
      cases h3 : findKeyword p.name kwn kwv with
      | none =>
        cases h4 : findKeyword p.name kwn kwv' with
        | some r => rw [h3, h4] at hk; simp [FKRel] at hk
        | none =>
          simp only []
          cases p.dflt with
          | none => simp [ERel]
          | some c =>
            simp only []
            exact SimL_fillLoop ps (i + 1) _ _ kwn kwv kwv' (SimL_append _ _ _ _ h1 (SimL_single (Sim_refl_const c))) h2
      | some r =>
        obtain ⟨e, ks1, vs1⟩ := r
        cases h4 : findKeyword p.name kwn kwv' with
        | none => rw [h3, h4] at hk; simp [FKRel] at hk
        | some r' =>
          obtain ⟨e', ks1', vs1'⟩ := r'
          rw [h3, h4] at hk
          simp only [FKRel] at hk
          obtain ⟨a, b, c⟩ := hk
          subst b
          simp only []
          exact SimL_fillLoop ps (i + 1) _ _ ks1 vs1 vs1' (SimL_append _ _ _ _ h1 (SimL_single a)) c
    · exact SimL_fillLoop ps (i + 1) args args' kwn kwv kwv' h1 h2

/-- a filled call and the same call filled from the rewritten arguments -/
def CallSim (c c' : Expr) : Prop :=
  ∃ f f' fa fa' kn kv kv', c = .call f fa kn kv ∧ c' = .call f' fa' kn kv' ∧ SimL fa fa' ∧ SimL kv kv'

theorem Sim_fillDefaults (ps : List Param) (f f' : Expr) (args args' : List Expr) (kwn : List String) (kwv kwv' : List Expr)
    (h1 : SimL args args') (h2 : SimL kwv kwv') :
    ERel CallSim (fillDefaults ps f args kwn kwv) (fillDefaults ps f' args' kwn kwv') := by
  simp only [fillDefaults]
  have h := SimL_fillLoop (ps.filter (fun p => p.name != "known_types")) 0 args args' kwn kwv kwv' h1 h2
  cases h3 : fillLoop (ps.filter (fun p => p.name != "known_types")) 0 args kwn kwv with
  | error x =>
    cases h4 : fillLoop (ps.filter (fun p => p.name != "known_types")) 0 args' kwn kwv' with
    | error y => rw [h3, h4] at h; simp only [ERel] at h; subst h; simp [bind, Except.bind, ERel]
    | ok r => rw [h3, h4] at h; simp [ERel] at h
  | ok r =>
    obtain ⟨a, kn, kv⟩ := r
    cases h4 : fillLoop (ps.filter (fun p => p.name != "known_types")) 0 args' kwn kwv' with
    | error y => rw [h3, h4] at h; simp [ERel] at h
    | ok r' =>
      obtain ⟨a', kn', kv'⟩ := r'
      rw [h3, h4] at h
      simp only [ERel, FLRel] at h
      obtain ⟨ha, hk, hv⟩ := h
      subst hk
      simp only [bind, Except.bind, SimL_length a a' ha, SimL_length args args' h1]
      split
      · simp only [pure, Except.pure, ERel, CallSim]
        exact ⟨f, f', a, a', kn, kv, kv', rfl, rfl, ha, hv⟩
      · simp only [pure, Except.pure, ERel, CallSim]
        exact ⟨f, f', args, args', kwn, kwv, kwv', rfl, rfl, h1, h2⟩

theorem Sim_isLam {e e' : Expr} (h : Sim e e') : isLamArg e' = isLamArg e := by
  cases e <;> simp only [Sim] at h
  case lam ps b => rw [h]
  case name x => rw [h]
  case const c => rw [h]
  case attr => obtain ⟨_, rfl, _⟩ := h; rfl
  case sub => obtain ⟨_, _, rfl, _⟩ := h; rfl
  case tuple => obtain ⟨_, rfl, _⟩ := h; rfl
  case list => obtain ⟨_, rfl, _⟩ := h; rfl
  case dict => obtain ⟨_, _, rfl, _⟩ := h; rfl
  case op => obtain ⟨_, rfl, _⟩ := h; rfl
  case comp => obtain ⟨_, _, _, _, _, _, rfl⟩ := h; rfl
  case call => obtain ⟨_, _, _, _, rfl⟩ := h; rfl

theorem SimL_anyLam : ∀ (es es' : List Expr), SimL es es' → es'.any isLamArg = es.any isLamArg
  | [], es', h => by simp only [SimL] at h; rw [h]
  | e :: es, es', h => by
    simp only [SimL] at h
    obtain ⟨e', rest, rfl, h1, h2⟩ := h
    simp only [List.any_cons, Sim_isLam h1, SimL_anyLam es rest h2]

end Fadl
