/-
  The declared-type checker: what the annotations of a class model imply for an expression.

  `tyOf` is a function of the class model's *declarations* only (classes, inheritance, type parameters, method and
  function signatures, return annotations, registered collection classes), the types of the names in scope and the
  expression the user wrote.  It has no stream state, runs no callback, builds no tree and fills in no default value:
  it is the specification the type follower (`follow`, Model/Follow.lean: the model of `remap_by_types`) is proved to
  agree with in Props/C08Sound.lean, and it is also run against the implementation's item types by the C08 check.

  Fuel: like every recursive model here, `tyOf` takes a fuel argument; it is re-entered for the body of a lambda that
  is the argument of a collection operator, and for the body of an immediately called lambda.
-/
import Fadl.Model.Follow
namespace Fadl

/-- the type of a node and, for a tuple or dictionary literal, the types of its elements / values -/
structure TInfo where
  ty : Ty
  elts : List Ty
  deriving Inhabited

/-- arithmetic: `Any` is contagious, then `float`, true division gives `float`, everything else `int` -/
def binTy (n : String) (tl tr : Ty) : Ty :=
  if Ty.beq tl .any || Ty.beq tr .any then .any
  else if Ty.beq tl .float || Ty.beq tr .float then .float
  else if n == "Div" then .float
  else .int

/-- operators: `not`, comparisons, `and` / `or` give `bool`; unary operators keep the operand's type; a conditional
    needs equal branch types, or two number-like branches (then `float`) -/
def opTy (k : OpKind) (ts : List Ty) : Except Err Ty :=
  match k, ts with
  | .un "Not", _ => pure .bool
  | .un _, [t] => pure t
  | .bin n, [tl, tr] => pure (binTy n tl tr)
  | .boolAnd, _ => pure .bool
  | .boolOr, _ => pure .bool
  | .cmp _, _ => pure .bool
  | .ifExp, [_, tt, tf] =>
    if Ty.beq tt tf then pure tt
    else if numLike tt && numLike tf then pure .float
    else .error (.valueError "IfExp branches have different types")
  | _, _ => pure .any

/-- the item type a collection operator produces from the item type and the type of its lambda's body -/
def operatorElemTy (M : Model) (m : String) (item body : Ty) : Ty :=
  if m == "Select" then body else if m == "SelectMany" then unwrapIterable M body else item

mutual
def tyOf (M : Model) : Nat → Gamma → Expr → Except Err TInfo
  | 0, _, _ => .error .fuel
  | fuel + 1, G, e =>
    match e with
    | .name x =>
      match gammaGet x G with
      | some t => pure ⟨t, []⟩
      | Option.none => if M.funcs.any (fun f => f.name == x) then pure ⟨.callable, []⟩ else pure ⟨.any, []⟩
    | .const c => pure ⟨constTy c, []⟩
    | .lam _ _ => pure ⟨.callable, []⟩
    | .attr v a => do
      let r ← tyOf M fuel G v
      match v with
      | .dict ks vs =>
        -- a field of a dictionary literal: the type of that value
        match ← dictLitIndex a ks 0 with
        | some i =>
          match r.elts[i]?, vs[i]? with
          | some t, some _ => pure ⟨t, []⟩
          | _, _ => .error (.internal "IndexError")
        | Option.none =>
          if a.toLower == "zip" then pure ⟨.any, []⟩ else .error (.valueError "Key not found in dict expression")
      | _ =>
        -- a field of a value built from a dictionary literal elsewhere: the field's type
        if isDC r.ty then
          match dcField a r.ty with
          | some t => pure ⟨t, []⟩
          | Option.none => .error (.valueError "Key not found in dataclass/dictionary")
        else pure ⟨.any, []⟩
    | .sub v s => do
      let rv ← tyOf M fuel G v
      let _ ← tyOf M fuel G s
      match v with
      | .tuple elts =>
        -- a constant index into a tuple literal: the type of that element
        match s with
        | .const (.int n) =>
          if (elts.length : Int) ≤ n then .error (.valueError "Index out of range")
          else
            let idx := if n < 0 then (elts.length : Int) + n else n
            match rv.elts[idx.toNat]?, elts[idx.toNat]? with
            | some t, some _ => if idx < 0 then .error (.internal "IndexError") else pure ⟨t, []⟩
            | _, _ => .error (.internal "IndexError")
        | .const (.bool b) =>
          let n := if b then 1 else 0
          if elts.length ≤ n then .error (.valueError "Index out of range")
          else match rv.elts[n]?, elts[n]? with
            | some t, some _ => pure ⟨t, []⟩
            | _, _ => .error (.internal "IndexError")
        | _ => .error (.valueError "Slices must be indexable constants only")
      | _ =>
        if isDC rv.ty then do
          let k ← litKey s
          match keyStr k with
          | some ks =>
            match dcField ks rv.ty with
            | some t => pure ⟨t, []⟩
            | Option.none => .error (.valueError "Key not found in dataclass/dictionary")
          | Option.none => .error (.valueError "Key not found in dataclass/dictionary")
        else
          -- subscripting anything else: the element type
          pure ⟨unwrapIterable M rv.ty, []⟩
    | .tuple es => do
      let ts ← tyOfL M fuel G es
      pure ⟨.any, ts⟩
    | .list es => do
      let _ ← tyOfL M fuel G es
      pure ⟨.any, []⟩
    | .dict ks vs => do
      let _ ← tyOfL M fuel G ks
      let tv ← tyOfL M fuel G vs
      let kv ← ks.mapM litKey
      pure ⟨mkDictTy kv tv, tv⟩
    | .op k args => do
      let ts ← tyOfL M fuel G args
      let t ← opTy k ts
      pure ⟨t, []⟩
    | .comp _ el t i ifs _ => do
      let _ ← tyOf M fuel G el
      let _ ← tyOf M fuel G t
      let _ ← tyOf M fuel G i
      let _ ← tyOfL M fuel G ifs
      pure ⟨.any, []⟩
    | .call f args kwn kwv => do
      let _ ← tyOf M fuel G f
      let ta ← tyOfL M fuel G args
      let tk ← tyOfL M fuel G kwv
      match f with
      | .attr recv m => do
        -- a method call: by the type of the receiver
        let rr ← tyOf M fuel G recv
        methodTy M fuel G rr.ty m args kwn kwv
      | .name n =>
        -- a registered function: its return annotation (the call must bind)
        match M.funcs.find? (fun fi => fi.name == n) with
        | some fi =>
          match fillDefaults fi.params (.name n) args kwn kwv with
          | .error _ => .error (.valueError "Error processing function call")
          | .ok _ => pure ⟨fi.ret.getD .any, []⟩
        | Option.none => pure ⟨.any, []⟩
      | .sub (.attr recv pn) sl => do
        -- a parameterized property of an object of a declared class: its declared type
        let rr ← tyOf M fuel G recv
        match rr.ty with
        | .any => pure ⟨.any, []⟩
        | .cls cn _ =>
          match (findClass M cn).bind (fun k => k.props.find? (fun p => p.name == pn)) with
          | some p =>
            match p.cb with
            | some _ => do
              let _ ← litKey sl
              pure ⟨p.ret, []⟩
            | Option.none => .error (.valueError "Property was not decorated")
          | Option.none => .error (.internal "AttributeError")
        | _ => pure ⟨.any, []⟩
      | .lam ps body => do
        -- an immediately called lambda: the type of its body, parameters typed by the arguments
        let rb ← tyOf M fuel (lamArgTys ps ta kwn tk ++ G) body
        pure ⟨rb.ty, []⟩
      | _ => pure ⟨.any, []⟩
def tyOfL (M : Model) : Nat → Gamma → List Expr → Except Err (List Ty)
  | 0, _, _ => .error .fuel
  | _ + 1, _, [] => pure []
  | fuel + 1, G, e :: es => do
    let r ← tyOf M fuel G e
    let rest ← tyOfL M fuel G es
    pure (r.ty :: rest)
/-- `recv.m(args, kws)` with `recv : objTy`: the candidates are the object's own class and, for an iterable, every
    registered collection class at the element type -/
def methodTy (M : Model) : Nat → Gamma → Ty → String → List Expr → List String → List Expr → Except Err TInfo
  | 0, _, _, _, _, _, _ => .error .fuel
  | fuel + 1, G, objTy, m, args, kwn, kwv => do
    let coll : List Ty :=
      if isIterable M objTy then
        (M.classes.filter (·.collection)).map (fun k => Ty.cls k.name [unwrapIterable M objTy])
      else []
    let last ← candTy M fuel G m args kwn kwv (objTy :: coll) Option.none
    match last with
    | Option.none => pure ⟨.any, []⟩
    | some r => pure ⟨r.1, []⟩
/-- candidates in order; the answer is that of the first candidate declaring `m` whose return annotation resolves and
    whose call has no lambda argument, or whose lambda can be followed (a collection operator); failing those, the
    last resolved annotation; `(type, fully resolved)` -/
def candTy (M : Model) : Nat → Gamma → String → List Expr → List String → List Expr → List Ty → Option (Ty × Bool) →
    Except Err (Option (Ty × Bool))
  | 0, _, _, _, _, _, _, _ => .error .fuel
  | _ + 1, _, _, _, _, _, [], last => pure last
  | fuel + 1, G, m, args, kwn, kwv, cand :: rest, last =>
    match findMethod M 16 cand m with
    | Option.none => candTy M fuel G m args kwn kwv rest last
    | some (defining, mi) => do
      -- the call must bind to the declared signature
      let filled ← fillDefaults mi.params (.name m) args kwn kwv
      let fargs := match filled with
        | .call _ as _ _ => as
        | _ => []
      let hasLam := fargs.any (fun a => match a with | .lam _ _ => true | _ => false)
      -- the annotated return type with the class's type variables substituted
      let last1 : Option (Ty × Bool) :=
        match resolveRet defining M (mi.ret.getD .any) with
        | some t => some (t, !hasLam)
        | Option.none => last
      let needFollow := match last1 with
        | Option.none => true
        | some r => !r.2
      if needFollow then do
        let followed ← onStreamTy M fuel G cand m filled
        match followed with
        | some t => pure (some (t, true))
        | Option.none =>
          match last1 with
          | some r => if r.2 then pure last1 else candTy M fuel G m args kwn kwv rest last1
          | Option.none => candTy M fuel G m args kwn kwv rest last1
      else pure last1
/-- `Select` / `SelectMany` / `Where` of a collection class with one single-parameter lambda: the lambda's body is
    typed with the parameter at the item type; Select gives the body's type, SelectMany its element type, Where keeps
    the item type and refuses a non-boolean filter -/
def onStreamTy (M : Model) : Nat → Gamma → Ty → String → Expr → Except Err (Option Ty)
  | 0, _, _, _, _ => .error .fuel
  | fuel + 1, G, cand, m, filled =>
    match cand, filled with
    | .cls cn [item], .call _ [.lam [x] body] _ _ =>
      if (findClass M cn).any (·.collection) && opNamesFollow.contains m then do
        let rb ← tyOf M fuel ((x, item) :: G) body
        if m == "Where" && !(Ty.beq rb.ty .bool) then .error (.valueError "The Where filter must return a boolean")
        else pure (some (.iterable (operatorElemTy M m item rb.ty)))
      else pure Option.none
    | _, _ => pure Option.none
end

/-- the item type `Select` / `SelectMany` / `Where` give a stream of `itemTy` for `lambda x: body` -/
def streamOpTy (M : Model) (op : String) (itemTy : Ty) (x : String) (body : Expr) : Except Err Ty := do
  let rb ← tyOf M (followFuel body) [(x, itemTy)] body
  if op == "Where" then
    if Ty.beq rb.ty .bool then pure itemTy else .error (.valueError "The Where filter must return a boolean")
  else if op == "SelectMany" then pure (unwrapIterable M rb.ty)
  else pure rb.ty

end Fadl
namespace Fadl
set_option linter.unusedSimpArgs false
set_option linter.unusedVariables false

/-! ## what the follower does to the tree: call nodes are rewritten, everything else keeps its shape -/

mutual
def Sim : Expr → Expr → Prop
  | .name x, e' => e' = .name x
  | .const c, e' => e' = .const c
  | .lam ps b, e' => e' = .lam ps b
  | .attr v a, e' => ∃ v', e' = .attr v' a ∧ Sim v v'
  | .sub v s, e' => ∃ v' s', e' = .sub v' s' ∧ Sim v v' ∧ Sim s s'
  | .tuple es, e' => ∃ es', e' = .tuple es' ∧ SimL es es'
  | .list es, e' => ∃ es', e' = .list es' ∧ SimL es es'
  | .dict ks vs, e' => ∃ ks' vs', e' = .dict ks' vs' ∧ SimL ks ks' ∧ SimL vs vs'
  | .op k es, e' => ∃ es', e' = .op k es' ∧ SimL es es'
  | .comp _ _ _ _ _ _, e' => ∃ k a b c d f, e' = .comp k a b c d f
  | .call _ _ _ _, e' => ∃ f a kn kv, e' = .call f a kn kv
def SimL : List Expr → List Expr → Prop
  | [], es' => es' = []
  | e :: es, es' => ∃ e' rest, es' = e' :: rest ∧ Sim e e' ∧ SimL es rest
end

theorem SimL_length : ∀ (es es' : List Expr), SimL es es' → es'.length = es.length
  | [], es', h => by simp [SimL] at h; simp [h]
  | e :: es, es', h => by
    simp only [SimL] at h
    obtain ⟨e', rest, rfl, _, h2⟩ := h
    simp [SimL_length es rest h2]

mutual
theorem Sim_literalEval : ∀ (e e' : Expr), Sim e e' → literalEval e' = literalEval e
  | .name x, e', h => by simp only [Sim] at h; rw [h]
  | .const c, e', h => by simp only [Sim] at h; rw [h]
  | .lam ps b, e', h => by simp only [Sim] at h; rw [h]
  | .attr v a, e', h => by
    simp only [Sim] at h; obtain ⟨v', rfl, _⟩ := h; simp [literalEval]
  | .sub v s, e', h => by
    simp only [Sim] at h; obtain ⟨v', s', rfl, _, _⟩ := h; simp [literalEval]
  | .tuple es, e', h => by
    simp only [Sim] at h; obtain ⟨es', rfl, h⟩ := h
    simp only [literalEval, SimL_literalEvalL es es' h]
  | .list es, e', h => by
    simp only [Sim] at h; obtain ⟨es', rfl, h⟩ := h
    simp only [literalEval, SimL_literalEvalL es es' h]
  | .dict ks vs, e', h => by
    simp only [Sim] at h; obtain ⟨ks', vs', rfl, h1, h2⟩ := h
    simp only [literalEval, SimL_literalEvalL ks ks' h1, SimL_literalEvalL vs vs' h2]
  | .op k es, e', h => by
    simp only [Sim] at h; obtain ⟨es', rfl, h⟩ := h
    cases k with
    | un n =>
      cases es with
      | nil => simp only [SimL] at h; subst h; rfl
      | cons a rest =>
        simp only [SimL] at h
        obtain ⟨a', rest', rfl, ha, hr⟩ := h
        cases rest with
        | nil =>
          simp only [SimL] at hr; subst hr
          simp only [literalEval, Sim_literalEval a a' ha]
        | cons b rest2 =>
          simp only [SimL] at hr
          obtain ⟨b', rest2', rfl, _, _⟩ := hr
          simp [literalEval]
    | _ => simp [literalEval]
  | .comp _ _ _ _ _ _, e', h => by
    simp only [Sim] at h; obtain ⟨k, a, b, c, d, f, rfl⟩ := h; simp [literalEval]
  | .call _ _ _ _, e', h => by
    simp only [Sim] at h; obtain ⟨f, a, kn, kv, rfl⟩ := h; simp [literalEval]
theorem SimL_literalEvalL : ∀ (es es' : List Expr), SimL es es' → literalEvalL es' = literalEvalL es
  | [], es', h => by simp only [SimL] at h; rw [h]
  | e :: es, es', h => by
    simp only [SimL] at h
    obtain ⟨e', rest, rfl, h1, h2⟩ := h
    simp only [literalEvalL, Sim_literalEval e e' h1, SimL_literalEvalL es rest h2]
end

theorem SimL_mapM_litKey : ∀ (es es' : List Expr), SimL es es' → es'.mapM litKey = es.mapM litKey
  | [], es', h => by simp only [SimL] at h; rw [h]
  | e :: es, es', h => by
    simp only [SimL] at h
    obtain ⟨e', rest, rfl, h1, h2⟩ := h
    simp only [List.mapM_cons, litKey, Sim_literalEval e e' h1]
    have := SimL_mapM_litKey es rest h2
    simp only [litKey] at this
    rw [this]

theorem Sim_const_iff {e e' : Expr} (h : Sim e e') (c : Const) : e' = .const c ↔ e = .const c := by
  cases e <;> simp only [Sim] at h
  case const c' => rw [h]
  all_goals (constructor <;> intro h' <;> first | (subst h'; simp_all) | (obtain ⟨_, h, _⟩ := h; simp_all) | simp_all)

theorem SimL_dictLitIndex (k : String) : ∀ (es es' : List Expr) (i : Nat), SimL es es' →
    dictLitIndex k es' i = dictLitIndex k es i
  | [], es', i, h => by simp only [SimL] at h; rw [h]
  | e :: es, es', i, h => by
    simp only [SimL] at h
    obtain ⟨e', rest, rfl, h1, h2⟩ := h
    cases e with
    | const c =>
      simp only [Sim] at h1; subst h1
      simp only [dictLitIndex]
      cases c <;> simp only [SimL_dictLitIndex k es rest (i + 1) h2]
    | name x => simp only [Sim] at h1; subst h1; rfl
    | lam ps b => simp only [Sim] at h1; subst h1; rfl
    | attr v a => simp only [Sim] at h1; obtain ⟨_, rfl, _⟩ := h1; rfl
    | sub v s => simp only [Sim] at h1; obtain ⟨_, _, rfl, _⟩ := h1; rfl
    | tuple l => simp only [Sim] at h1; obtain ⟨_, rfl, _⟩ := h1; rfl
    | list l => simp only [Sim] at h1; obtain ⟨_, rfl, _⟩ := h1; rfl
    | dict l1 l2 => simp only [Sim] at h1; obtain ⟨_, _, rfl, _⟩ := h1; rfl
    | op k l => simp only [Sim] at h1; obtain ⟨_, rfl, _⟩ := h1; rfl
    | comp a b c d e f => simp only [Sim] at h1; obtain ⟨_, _, _, _, _, _, rfl⟩ := h1; rfl
    | call a b c d => simp only [Sim] at h1; obtain ⟨_, _, _, _, rfl⟩ := h1; rfl

end Fadl
namespace Fadl
set_option linter.unusedSimpArgs false
set_option linter.unusedVariables false

/-! ## filling in defaults does not look at the arguments -/

def ERel {α β : Type} (R : α → β → Prop) : Except Err α → Except Err β → Prop
  | .ok a, .ok b => R a b
  | .error x, .error y => x = y
  | _, _ => False

theorem SimL_append : ∀ (as as' bs bs' : List Expr), SimL as as' → SimL bs bs' → SimL (as ++ bs) (as' ++ bs')
  | [], as', bs, bs', h1, h2 => by simp only [SimL] at h1; subst h1; simpa using h2
  | a :: as, as', bs, bs', h1, h2 => by
    simp only [SimL] at h1
    obtain ⟨a', rest, rfl, ha, hr⟩ := h1
    simp only [List.cons_append, SimL]
    exact ⟨a', rest ++ bs', rfl, ha, SimL_append as rest bs bs' hr h2⟩

theorem SimL_single {e e' : Expr} (h : Sim e e') : SimL [e] [e'] := by
  simp only [SimL]; exact ⟨e', [], rfl, h, rfl⟩

theorem Sim_refl_const (c : Const) : Sim (.const c) (.const c) := by simp [Sim]

def FKRel : Option (Expr × List String × List Expr) → Option (Expr × List String × List Expr) → Prop
  | Option.none, Option.none => True
  | some (e, ks, vs), some (e', ks', vs') => Sim e e' ∧ ks = ks' ∧ SimL vs vs'
  | _, _ => False

theorem SimL_findKeyword (n : String) : ∀ (kwn : List String) (kwv kwv' : List Expr), SimL kwv kwv' →
    FKRel (findKeyword n kwn kwv) (findKeyword n kwn kwv')
  | [], kwv, kwv', h => by cases kwv <;> cases kwv' <;> simp [findKeyword, FKRel]
  | k :: ks, [], kwv', h => by simp only [SimL] at h; subst h; simp [findKeyword, FKRel]
  | k :: ks, v :: vs, kwv', h => by
    simp only [SimL] at h
    obtain ⟨v', vs', rfl, hv, hr⟩ := h
    simp only [findKeyword]
    split
    · exact ⟨hv, rfl, hr⟩
    · have ih := SimL_findKeyword n ks vs vs' hr
      cases h1 : findKeyword n ks vs with
      | none =>
        cases h2 : findKeyword n ks vs' with
        | none => simp [FKRel]
        | some r => rw [h1, h2] at ih; simp [FKRel] at ih
      | some r =>
        obtain ⟨e, ks1, vs1⟩ := r
        cases h2 : findKeyword n ks vs' with
        | none => rw [h1, h2] at ih; simp [FKRel] at ih
        | some r' =>
          obtain ⟨e', ks1', vs1'⟩ := r'
          rw [h1, h2] at ih
          simp only [FKRel] at ih ⊢
          obtain ⟨a, b, c⟩ := ih
          refine ⟨a, by rw [b], ?_⟩
          simp only [SimL]
          exact ⟨v', vs1', rfl, hv, c⟩

def FLRel : (List Expr × List String × List Expr) → (List Expr × List String × List Expr) → Prop
  | (a, kn, kv), (a', kn', kv') => SimL a a' ∧ kn = kn' ∧ SimL kv kv'

theorem SimL_fillLoop : ∀ (ps : List Param) (i : Nat) (args args' : List Expr) (kwn : List String) (kwv kwv' : List Expr),
    SimL args args' → SimL kwv kwv' → ERel FLRel (fillLoop ps i args kwn kwv) (fillLoop ps i args' kwn kwv')
  | [], i, args, args', kwn, kwv, kwv', h1, h2 => by simp only [fillLoop, ERel, FLRel]; exact ⟨h1, by simp, h2⟩
  | p :: ps, i, args, args', kwn, kwv, kwv', h1, h2 => by
    simp only [fillLoop, SimL_length args args' h1]
    split
    · have hk := SimL_findKeyword p.name kwn kwv kwv' h2
      cases h3 : findKeyword p.name kwn kwv with
      | none =>
        cases h4 : findKeyword p.name kwn kwv' with
        | some r => rw [h3, h4] at hk; simp [FKRel] at hk
        | none =>
          simp only []
          cases p.dflt with
          | none => simp [ERel]
          | some c =>
            simp only []
            exact SimL_fillLoop ps (i + 1) _ _ kwn kwv kwv' (SimL_append _ _ _ _ h1 (SimL_single (Sim_refl_const c))) h2
      | some r =>
        obtain ⟨e, ks1, vs1⟩ := r
        cases h4 : findKeyword p.name kwn kwv' with
        | none => rw [h3, h4] at hk; simp [FKRel] at hk
        | some r' =>
          obtain ⟨e', ks1', vs1'⟩ := r'
          rw [h3, h4] at hk
          simp only [FKRel] at hk
          obtain ⟨a, b, c⟩ := hk
          subst b
          simp only []
          exact SimL_fillLoop ps (i + 1) _ _ ks1 vs1 vs1' (SimL_append _ _ _ _ h1 (SimL_single a)) c
    · exact SimL_fillLoop ps (i + 1) args args' kwn kwv kwv' h1 h2

/-- a filled call and the same call filled from the rewritten arguments -/
def CallSim (c c' : Expr) : Prop :=
  ∃ f f' fa fa' kn kv kv', c = .call f fa kn kv ∧ c' = .call f' fa' kn kv' ∧ SimL fa fa' ∧ SimL kv kv'

theorem Sim_fillDefaults (ps : List Param) (f f' : Expr) (args args' : List Expr) (kwn : List String) (kwv kwv' : List Expr)
    (h1 : SimL args args') (h2 : SimL kwv kwv') :
    ERel CallSim (fillDefaults ps f args kwn kwv) (fillDefaults ps f' args' kwn kwv') := by
  simp only [fillDefaults]
  have h := SimL_fillLoop (ps.filter (fun p => p.name != "known_types")) 0 args args' kwn kwv kwv' h1 h2
  cases h3 : fillLoop (ps.filter (fun p => p.name != "known_types")) 0 args kwn kwv with
  | error x =>
    cases h4 : fillLoop (ps.filter (fun p => p.name != "known_types")) 0 args' kwn kwv' with
    | error y => rw [h3, h4] at h; simp only [ERel] at h; subst h; simp [bind, Except.bind, ERel]
    | ok r => rw [h3, h4] at h; simp [ERel] at h
  | ok r =>
    obtain ⟨a, kn, kv⟩ := r
    cases h4 : fillLoop (ps.filter (fun p => p.name != "known_types")) 0 args' kwn kwv' with
    | error y => rw [h3, h4] at h; simp [ERel] at h
    | ok r' =>
      obtain ⟨a', kn', kv'⟩ := r'
      rw [h3, h4] at h
      simp only [ERel, FLRel] at h
      obtain ⟨ha, hk, hv⟩ := h
      subst hk
      simp only [bind, Except.bind, SimL_length a a' ha, SimL_length args args' h1]
      split
      · simp only [pure, Except.pure, ERel, CallSim]
        exact ⟨f, f', a, a', kn, kv, kv', rfl, rfl, ha, hv⟩
      · simp only [pure, Except.pure, ERel, CallSim]
        exact ⟨f, f', args, args', kwn, kwv, kwv', rfl, rfl, h1, h2⟩

def isLamB : Expr → Bool
  | .lam _ _ => true
  | _ => false

theorem Sim_isLam {e e' : Expr} (h : Sim e e') : isLamB e' = isLamB e := by
  cases e <;> simp only [Sim] at h
  case lam ps b => rw [h]
  case name x => rw [h]
  case const c => rw [h]
  case attr => obtain ⟨_, rfl, _⟩ := h; rfl
  case sub => obtain ⟨_, _, rfl, _⟩ := h; rfl
  case tuple => obtain ⟨_, rfl, _⟩ := h; rfl
  case list => obtain ⟨_, rfl, _⟩ := h; rfl
  case dict => obtain ⟨_, _, rfl, _⟩ := h; rfl
  case op => obtain ⟨_, rfl, _⟩ := h; rfl
  case comp => obtain ⟨_, _, _, _, _, _, rfl⟩ := h; rfl
  case call => obtain ⟨_, _, _, _, rfl⟩ := h; rfl

theorem SimL_anyLam : ∀ (es es' : List Expr), SimL es es' → es'.any isLamB = es.any isLamB
  | [], es', h => by simp only [SimL] at h; rw [h]
  | e :: es, es', h => by
    simp only [SimL] at h
    obtain ⟨e', rest, rfl, h1, h2⟩ := h
    simp only [List.any_cons, Sim_isLam h1, SimL_anyLam es rest h2]

theorem isLamB_eq : (fun a : Expr => match a with | .lam _ _ => true | _ => false) = isLamB := by
  funext a; cases a <;> rfl

end Fadl
namespace Fadl
set_option linter.unusedSimpArgs false
set_option linter.unusedVariables false

/-! ## shape inversion for `Sim` -/

theorem Sim_dict_inv {v e' : Expr} {ks' vs' : List Expr} (h : Sim v e') (he : e' = .dict ks' vs') :
    ∃ ks vs, v = .dict ks vs ∧ SimL ks ks' ∧ SimL vs vs' := by
  subst he
  cases v <;> simp only [Sim] at h
  case dict ks vs => obtain ⟨a, b, hh, h1, h2⟩ := h; cases hh; exact ⟨ks, vs, rfl, h1, h2⟩
  all_goals (simp at h)

theorem Sim_not_dict {v e' : Expr} (h : Sim v e') (he : ∀ ks' vs', e' ≠ .dict ks' vs') : ∀ ks vs, v ≠ .dict ks vs := by
  intro ks vs hv
  subst hv
  simp only [Sim] at h
  obtain ⟨a, b, hh, _⟩ := h
  exact he a b hh

theorem Sim_tuple_inv {v e' : Expr} {es' : List Expr} (h : Sim v e') (he : e' = .tuple es') :
    ∃ es, v = .tuple es ∧ SimL es es' := by
  subst he
  cases v <;> simp only [Sim] at h
  case tuple es => obtain ⟨a, hh, h1⟩ := h; cases hh; exact ⟨es, rfl, h1⟩
  all_goals (simp at h)

theorem Sim_not_tuple {v e' : Expr} (h : Sim v e') (he : ∀ es', e' ≠ .tuple es') : ∀ es, v ≠ .tuple es := by
  intro es hv
  subst hv
  simp only [Sim] at h
  obtain ⟨a, hh, _⟩ := h
  exact he a hh

theorem Sim_const_inv {v e' : Expr} {c : Const} (h : Sim v e') (he : e' = .const c) : v = .const c := by
  subst he
  cases v <;> simp only [Sim] at h
  case const c' => cases h; rfl
  all_goals (simp at h)

theorem Sim_of_const {c : Const} {e' : Expr} (h : Sim (.const c) e') : e' = .const c := by simpa [Sim] using h

theorem SimL_getElem?_isSome {es es' : List Expr} (h : SimL es es') (i : Nat) : (es'[i]?).isSome = (es[i]?).isSome := by
  have hl := SimL_length es es' h
  by_cases hi : i < es.length
  · have hi' : i < es'.length := by omega
    simp [List.getElem?_eq_getElem hi, List.getElem?_eq_getElem hi']
  · have h1 : es.length ≤ i := by omega
    have h2 : es'.length ≤ i := by omega
    simp [List.getElem?_eq_none h1, List.getElem?_eq_none h2]

def tinfo (r : FRes) : TInfo := ⟨r.ty, r.elts⟩

end Fadl
namespace Fadl
set_option linter.unusedSimpArgs false
set_option linter.unusedVariables false

def isCallE (e : Expr) : Prop := ∃ f a kn kv, e = .call f a kn kv

def lastRel (l : Option (Ty × Bool)) (l' : Option MRes) : Prop :=
  l = l'.map (fun r => (r.ty, r.full)) ∧ ∀ r, l' = some r → isCallE r.node

theorem applyCbCall_isCall (cb : CbSpec) {e : Expr} (h : isCallE e) : isCallE (applyCbCall cb e) := by
  obtain ⟨f, a, kn, kv, rfl⟩ := h
  simp only [applyCbCall]
  exact ⟨_, _, _, _, rfl⟩

theorem applyCb_isCall (cb : Option CbSpec) (st : FSt) {e : Expr} (h : isCallE e) : isCallE (applyCb cb st e).2 := by
  cases cb with
  | none => exact h
  | some c => simp only [applyCb]; exact applyCbCall_isCall c h

theorem Sim_call_of_isCall (f : Expr) (a : List Expr) (kn : List String) (kv : List Expr) {e' : Expr} (h : isCallE e') :
    Sim (.call f a kn kv) e' := by
  simp only [Sim]; exact h

theorem CallSim_isCall {c c' : Expr} (h : CallSim c c') : isCallE c' := by
  obtain ⟨f, f', fa, fa', kn, kv, kv', _, rfl, _, _⟩ := h
  exact ⟨_, _, _, _, rfl⟩

def TySound (M : Model) (fuel : Nat) : Prop :=
  (∀ G st e r, follow M fuel G st e = .ok r → tyOf M fuel G e = .ok ⟨r.ty, r.elts⟩ ∧ Sim e r.e) ∧
  (∀ G st es rs st', followL M fuel G st es = .ok (rs, st') →
      tyOfL M fuel G es = .ok (rs.map (·.2)) ∧ SimL es (rs.map (·.1))) ∧
  (∀ G st objTy recv m args args' kwn kwv kwv' r, SimL args args' → SimL kwv kwv' →
      methodCall M fuel G st objTy recv m args' kwn kwv' = .ok r →
      methodTy M fuel G objTy m args kwn kwv = .ok ⟨r.ty, r.elts⟩ ∧ isCallE r.e) ∧
  (∀ G st recv m args args' kwn kwv kwv' cands last last' res' st', SimL args args' → SimL kwv kwv' → lastRel last last' →
      candLoop M fuel G st recv m args' kwn kwv' cands last' = .ok (res', st') →
      ∃ res, candTy M fuel G m args kwn kwv cands last = .ok res ∧ lastRel res res') ∧
  (∀ G st cand m filled filled' o', CallSim filled filled' →
      onStreamObj M fuel G st cand m filled' = .ok o' →
      onStreamTy M fuel G cand m filled = .ok (o'.map (·.2.1)) ∧ ∀ n t s, o' = some (n, t, s) → isCallE n)

theorem bindE_ok {α β : Type} {x : Except Err α} {f : α → Except Err β} {b : β} (h : (x >>= f) = .ok b) :
    ∃ a, x = .ok a ∧ f a = .ok b := by
  cases x with
  | error e => cases h
  | ok a => exact ⟨a, rfl, h⟩

theorem follow_tySound (M : Model) : ∀ fuel, TySound M fuel := by
  intro fuel
  induction fuel with
  | zero =>
    refine ⟨?_, ?_, ?_, ?_, ?_⟩ <;> intros <;> simp_all [follow, followL, methodCall, candLoop, onStreamObj]
  | succ fuel ih =>
    obtain ⟨ihS, ihL, ihM, ihC, ihO⟩ := ih
    refine ⟨?_, ?_, ?_, ?_, ?_⟩
    · intro G st e x h
      cases e with
      | name y =>
        simp only [follow] at h
        split at h
        · rename_i t ht; cases h
          exact ⟨by simp only [tyOf, ht]; rfl, by simp [Sim]⟩
        · rename_i ht
          split at h <;> cases h <;> exact ⟨by simp only [tyOf, ht, *]; rfl, by simp [Sim]⟩
      | const k => simp only [follow, Except.ok.injEq] at h; subst h; exact ⟨by simp only [tyOf]; rfl, by simp [Sim]⟩
      | lam ps b => simp only [follow, Except.ok.injEq] at h; subst h; exact ⟨by simp only [tyOf]; rfl, by simp [Sim]⟩
      | attr v a =>
        simp only [follow] at h
        replace h := bindE_ok h
        obtain ⟨r, hv, h⟩ := h
        obtain ⟨tv, sv⟩ := ihS G st v r hv
        simp only [tyOf, tv, bind, Except.bind]
        split at h
        · rename_i ks' vs' hd
          obtain ⟨ks, vs, rfl, hk, hvs⟩ := Sim_dict_inv sv hd
          simp only []
          rw [← SimL_dictLitIndex a ks ks' 0 hk]
          replace h := bindE_ok h
          obtain ⟨oi, hi, h⟩ := h
          simp only [hi]
          cases oi with
          | some i =>
            simp only [] at h ⊢
            have hsome := SimL_getElem?_isSome hvs i
            split at h
            · rename_i t w ht hw
              simp only [pure, Except.pure, Except.ok.injEq] at h; subst h
              rw [hw] at hsome
              cases hvi : vs[i]? with
              | none => rw [hvi] at hsome; cases hsome
              | some w0 =>
                simp only [ht]
                exact ⟨rfl, by simp only [Sim]; exact ⟨r.e, rfl, sv⟩⟩
            · cases h
          | none =>
            simp only [] at h ⊢
            split at h
            · simp only [pure, Except.pure, Except.ok.injEq] at h; subst h
              rename_i hz
              simp only [hz, if_true]
              exact ⟨rfl, by simp only [Sim]; exact ⟨r.e, rfl, sv⟩⟩
            · cases h
        · rename_i hnd
          have hnv := Sim_not_dict sv hnd
          have hS : Sim (.attr v a) (.attr r.e a) := by simp only [Sim]; exact ⟨r.e, rfl, sv⟩
          have hB : (if isDC r.ty = true then
                (match dcField a r.ty with
                  | some t => pure ⟨t, []⟩
                  | Option.none => .error (.valueError "Key not found in dataclass/dictionary"))
              else pure ⟨.any, []⟩ : Except Err TInfo) = .ok ⟨x.ty, x.elts⟩ ∧ Sim (.attr v a) x.e := by
            split at h
            · rename_i hdc
              split at h
              · rename_i t hf
                simp only [pure, Except.pure, Except.ok.injEq] at h; subst h
                simp only [hdc, hf, if_true]; exact ⟨rfl, hS⟩
              · cases h
            · rename_i hdc
              simp only [pure, Except.pure, Except.ok.injEq] at h; subst h
              simp only [hdc]; exact ⟨rfl, hS⟩
          cases v <;> first | exact absurd rfl (hnv _ _) | exact hB
      | sub v s =>
        simp only [follow] at h
        replace h := bindE_ok h
        obtain ⟨rv, hv, h⟩ := h
        replace h := bindE_ok h
        obtain ⟨rs, hs, h⟩ := h
        obtain ⟨tv, sv⟩ := ihS G st v rv hv
        obtain ⟨ts, ss⟩ := ihS G rv.st s rs hs
        have hS : Sim (.sub v s) (.sub rv.e rs.e) := by simp only [Sim]; exact ⟨rv.e, rs.e, rfl, sv, ss⟩
        simp only [tyOf, tv, ts, bind, Except.bind]
        split at h
        · rename_i es' hd
          obtain ⟨es, rfl, hes⟩ := Sim_tuple_inv sv hd
          have hlen := SimL_length es es' hes
          simp only []
          split at h
          · rename_i n hc
            have := Sim_const_inv ss hc; subst this
            simp only [hlen] at h ⊢
            by_cases hle : (es.length : Int) ≤ n
            · simp only [hle, if_true] at h; cases h
            · simp only [hle, if_false] at h ⊢
              generalize hidx : (if n < 0 then (es.length : Int) + n else n) = idx at h ⊢
              have hsome := SimL_getElem?_isSome hes idx.toNat
              split at h
              · rename_i t w ht hw
                rw [hw] at hsome
                cases hvi : es[idx.toNat]? with
                | none => rw [hvi] at hsome; cases hsome
                | some w0 =>
                  simp only [ht]
                  by_cases hneg : idx < 0
                  · simp only [hneg, if_true] at h; cases h
                  · simp only [hneg, if_false, pure, Except.pure, Except.ok.injEq] at h; subst h
                    simp only [hneg, if_false]; exact ⟨rfl, hS⟩
              · cases h
          · rename_i b hc
            have := Sim_const_inv ss hc; subst this
            simp only [hlen] at h ⊢
            generalize hidx : (if b = true then 1 else 0) = idx at h ⊢
            by_cases hle : es.length ≤ idx
            · simp only [hle, if_true] at h; cases h
            · simp only [hle, if_false] at h ⊢
              have hsome := SimL_getElem?_isSome hes idx
              split at h
              · rename_i t w ht hw
                rw [hw] at hsome
                cases hvi : es[idx]? with
                | none => rw [hvi] at hsome; cases hsome
                | some w0 =>
                  simp only [ht]
                  simp only [pure, Except.pure, Except.ok.injEq] at h; subst h
                  exact ⟨rfl, hS⟩
              · cases h
          · cases h
        · rename_i hnt
          have hnv := Sim_not_tuple sv hnt
          cases v
          case tuple es => exact absurd rfl (hnv es)
          all_goals (
            simp only []
            split at h
            · rename_i hdc
              replace h := bindE_ok h
              obtain ⟨k, hk, h⟩ := h
              have hk' : litKey s = .ok k := by
                simp only [litKey] at hk ⊢; rw [← Sim_literalEval s rs.e ss]; exact hk
              simp only [hdc, hk', if_true]
              split at h
              · rename_i ks hks
                split at h
                · rename_i t hf
                  simp only [pure, Except.pure, Except.ok.injEq] at h; subst h
                  simp only [hks, hf]; exact ⟨rfl, hS⟩
                · cases h
              · cases h
            · rename_i hdc
              simp only [pure, Except.pure, Except.ok.injEq] at h; subst h
              simp only [hdc]; exact ⟨rfl, hS⟩)
      | tuple es =>
        simp only [follow] at h
        replace h := bindE_ok h
        obtain ⟨⟨rs, st'⟩, hl, h⟩ := h
        obtain ⟨tl, sl⟩ := ihL G st es rs st' hl
        simp only [pure, Except.pure, Except.ok.injEq] at h; subst h
        exact ⟨by simp only [tyOf, tl, bind, Except.bind]; rfl, by simp only [Sim]; exact ⟨_, rfl, sl⟩⟩
      | list es =>
        simp only [follow] at h
        replace h := bindE_ok h
        obtain ⟨⟨rs, st'⟩, hl, h⟩ := h
        obtain ⟨tl, sl⟩ := ihL G st es rs st' hl
        simp only [pure, Except.pure, Except.ok.injEq] at h; subst h
        exact ⟨by simp only [tyOf, tl, bind, Except.bind]; rfl, by simp only [Sim]; exact ⟨_, rfl, sl⟩⟩
      | dict ks vs =>
        simp only [follow] at h
        replace h := bindE_ok h
        obtain ⟨⟨rk, st1⟩, hk, h⟩ := h
        replace h := bindE_ok h
        obtain ⟨⟨rv, st2⟩, hv, h⟩ := h
        replace h := bindE_ok h
        obtain ⟨kv, hkv, h⟩ := h
        obtain ⟨tk, sk⟩ := ihL G st ks rk st1 hk
        obtain ⟨tv, sv⟩ := ihL G st1 vs rv st2 hv
        simp only [pure, Except.pure, Except.ok.injEq] at h; subst h
        have hkv' : ks.mapM litKey = .ok kv := by rw [← SimL_mapM_litKey ks _ sk]; exact hkv
        exact ⟨by simp only [tyOf, tk, tv, hkv', bind, Except.bind]; rfl, by simp only [Sim]; exact ⟨_, _, rfl, sk, sv⟩⟩
      | op k args =>
        simp only [follow] at h
        replace h := bindE_ok h
        obtain ⟨⟨rs, st'⟩, hl, h⟩ := h
        obtain ⟨tl, sl⟩ := ihL G st args rs st' hl
        simp only [] at h
        have hop : opTy k (rs.map (·.2)) = .ok x.ty ∧ x.e = .op k (rs.map (·.1)) ∧ x.elts = [] := by
          generalize rs.map (·.2) = ts at h ⊢
          repeat' (split at h)
          all_goals (try (cases h; done))
          all_goals (simp only [pure, Except.pure, Except.ok.injEq] at h; subst h)
          all_goals (first | (simp_all [opTy, binTy, pure, Except.pure]; done) | (refine ⟨?_, rfl, rfl⟩; simp only [opTy]; split <;> simp_all [pure, Except.pure]))
        obtain ⟨h1, h2, h3⟩ := hop
        refine ⟨by simp only [tyOf, tl, h1, h3, bind, Except.bind]; rfl, ?_⟩
        rw [h2]; simp only [Sim]; exact ⟨_, rfl, sl⟩
      | comp kind el t i ifs a =>
        simp only [follow] at h
        replace h := bindE_ok h
        obtain ⟨r1, h1, h⟩ := h
        replace h := bindE_ok h
        obtain ⟨r2, h2, h⟩ := h
        replace h := bindE_ok h
        obtain ⟨r3, h3, h⟩ := h
        replace h := bindE_ok h
        obtain ⟨⟨r4, st4⟩, h4, h⟩ := h
        obtain ⟨t1, _⟩ := ihS G st el r1 h1
        obtain ⟨t2, _⟩ := ihS G r1.st t r2 h2
        obtain ⟨t3, _⟩ := ihS G r2.st i r3 h3
        obtain ⟨t4, _⟩ := ihL G r3.st ifs r4 st4 h4
        simp only [pure, Except.pure, Except.ok.injEq] at h; subst h
        exact ⟨by simp only [tyOf, t1, t2, t3, t4, bind, Except.bind]; rfl, by simp only [Sim]; exact ⟨_, _, _, _, _, _, rfl⟩⟩
      | call f args kwn kwv =>
        simp only [follow] at h
        replace h := bindE_ok h
        obtain ⟨rf, hf, h⟩ := h
        replace h := bindE_ok h
        obtain ⟨⟨as', st1⟩, ha, h⟩ := h
        replace h := bindE_ok h
        obtain ⟨⟨ks', st2⟩, hk, h⟩ := h
        obtain ⟨tf, sf⟩ := ihS G st f rf hf
        obtain ⟨ta, sa⟩ := ihL G rf.st args as' st1 ha
        obtain ⟨tk, sk⟩ := ihL G st1 kwv ks' st2 hk
        simp only [] at h
        simp only [tyOf, tf, ta, tk, bind, Except.bind]
        split at h
        · -- a method call
          rename_i recv m recv0 a0 heq
          simp only []
          have hsf := sf
          simp only [Sim] at hsf
          obtain ⟨v', hv', srecv⟩ := hsf
          rw [heq] at hv'
          simp only [Expr.attr.injEq] at hv'
          obtain ⟨rfl, rfl⟩ := hv'
          replace h := bindE_ok h
          obtain ⟨rr, hrr, h⟩ := h
          obtain ⟨trr, _⟩ := ihS G st recv0 rr hrr
          obtain ⟨tm, cm⟩ := ihM G st2 rr.ty recv m args _ kwn kwv _ x sa sk h
          simp only [trr]
          exact ⟨tm, Sim_call_of_isCall _ _ _ _ cm⟩
        · -- a function called by name
          rename_i f _ _ n heq
          have := sf
          have hfn : f = .name n := by
            cases f <;> simp only [Sim] at this <;> simp_all
          subst hfn
          simp only []
          split at h
          · rename_i fi hfi
            simp only [hfi]
            have hfd := Sim_fillDefaults fi.params (.name n) (.name n) args _ kwn kwv _ sa sk
            split at h
            · cases h
            · rename_i c hc
              rw [hc] at hfd
              cases hc0 : fillDefaults fi.params (.name n) args kwn kwv with
              | error e => rw [hc0] at hfd; simp [ERel] at hfd
              | ok c0 =>
                rw [hc0] at hfd; simp only [ERel] at hfd
                simp only [pure, Except.pure, Except.ok.injEq] at h; subst h
                exact ⟨rfl, Sim_call_of_isCall _ _ _ _ (applyCb_isCall _ _ (CallSim_isCall hfd))⟩
          · rename_i hfi
            simp only [hfi]
            simp only [pure, Except.pure, Except.ok.injEq] at h; subst h
            exact ⟨rfl, Sim_call_of_isCall _ _ _ _ ⟨_, _, _, _, rfl⟩⟩
        · -- a parameterized property
          rename_i recv pn sl recv0 a0 sl0 heq
          simp only []
          have hsf := sf
          simp only [Sim] at hsf
          obtain ⟨v', s', hv', sv, ssl⟩ := hsf
          obtain ⟨r', hr', srecv⟩ := sv
          rw [heq, hr'] at hv'
          simp only [Expr.sub.injEq, Expr.attr.injEq] at hv'
          obtain ⟨⟨rfl, rfl⟩, rfl⟩ := hv'
          replace h := bindE_ok h
          obtain ⟨rr, hrr, h⟩ := h
          obtain ⟨trr, _⟩ := ihS G st recv0 rr hrr
          simp only [trr]
          split at h
          · rename_i hty
            simp only [hty]
            simp only [pure, Except.pure, Except.ok.injEq] at h; subst h
            exact ⟨rfl, Sim_call_of_isCall _ _ _ _ ⟨_, _, _, _, rfl⟩⟩
          · rename_i cn cargs hty
            simp only [hty]
            split at h
            · rename_i p hp
              simp only [hp]
              split at h
              · rename_i cb hcb
                replace h := bindE_ok h
                obtain ⟨kk, hkk, h⟩ := h
                have hkk' : litKey sl0 = .ok kk := by
                  simp only [litKey] at hkk ⊢; rw [← Sim_literalEval sl0 sl ssl]; exact hkk
                simp only [hcb, hkk']
                simp only [pure, Except.pure, Except.ok.injEq] at h; subst h
                exact ⟨rfl, Sim_call_of_isCall _ _ _ _ (applyCb_isCall _ _ ⟨_, _, _, _, rfl⟩)⟩
              · cases h
            · cases h
          · simp only [pure, Except.pure, Except.ok.injEq] at h; subst h
            rename_i hne1 hne2
            refine ⟨?_, Sim_call_of_isCall _ _ _ _ ⟨_, _, _, _, rfl⟩⟩
            split <;> first | rfl | (exfalso; simp_all; done)
        · -- an immediately called lambda
          rename_i f _ _ ps body heq
          have := sf
          have hfn : f = .lam ps body := by
            cases f <;> simp only [Sim] at this <;> simp_all
          subst hfn
          simp only []
          replace h := bindE_ok h
          obtain ⟨rb, hrb, h⟩ := h
          obtain ⟨trb, _⟩ := ihS _ st2 body rb hrb
          simp only [trb]
          simp only [pure, Except.pure, Except.ok.injEq] at h; subst h
          exact ⟨rfl, Sim_call_of_isCall _ _ _ _ ⟨_, _, _, _, rfl⟩⟩
        · -- anything else
          rename_i f _ _ hn1 hn2 hn3 hn4
          simp only [pure, Except.pure, Except.ok.injEq] at h; subst h
          refine ⟨?_, Sim_call_of_isCall _ _ _ _ ⟨_, _, _, _, rfl⟩⟩
          have hsf := sf
          split
          · rename_i recv m
            simp only [Sim] at hsf
            obtain ⟨v', hv', _⟩ := hsf
            exact absurd rfl (hn3 _ _ _ _ hv')
          · rename_i n
            simp only [Sim] at hsf
            exact absurd hsf (hn1 n)
          · rename_i recv pn sl
            simp only [Sim] at hsf
            obtain ⟨v', s', hv', ⟨r', hr', _⟩, _⟩ := hsf
            rw [hr'] at hv'
            exact absurd rfl (hn4 _ _ _ _ _ _ hv')
          · rename_i ps body
            simp only [Sim] at hsf
            exact absurd hsf (hn2 ps body)
          · rfl
    · intro G st es rs st' h
      cases es with
      | nil =>
        simp only [followL, Except.ok.injEq, Prod.mk.injEq] at h
        obtain ⟨rfl, rfl⟩ := h
        exact ⟨by simp only [tyOfL]; rfl, by simp [SimL]⟩
      | cons e rest =>
        simp only [followL] at h
        replace h := bindE_ok h
        obtain ⟨r, he, h⟩ := h
        replace h := bindE_ok h
        obtain ⟨⟨rr, st2⟩, hr, h⟩ := h
        obtain ⟨t1, s1⟩ := ihS G st e r he
        obtain ⟨t2, s2⟩ := ihL G r.st rest rr st2 hr
        simp only [pure, Except.pure, Except.ok.injEq, Prod.mk.injEq] at h
        obtain ⟨rfl, rfl⟩ := h
        refine ⟨by simp only [tyOfL, t1, t2, bind, Except.bind]; rfl, ?_⟩
        simp only [List.map_cons, SimL]
        exact ⟨_, _, rfl, s1, s2⟩
    · intro G st objTy recv m args args' kwn kwv kwv' x sa sk h
      simp only [methodCall] at h
      replace h := bindE_ok h
      obtain ⟨⟨res', st'⟩, hc, h⟩ := h
      obtain ⟨res, tc, hrel⟩ := ihC G st recv m args args' kwn kwv kwv' _ Option.none Option.none res' st' sa sk
        ⟨rfl, by intro r hr; cases hr⟩ hc
      simp only [methodTy, tc, bind, Except.bind]
      obtain ⟨hres, hcall⟩ := hrel
      cases res' with
      | none =>
        simp only [Option.map_none] at hres; subst hres
        simp only [pure, Except.pure, Except.ok.injEq] at h; subst h
        exact ⟨rfl, ⟨_, _, _, _, rfl⟩⟩
      | some r =>
        simp only [Option.map_some] at hres; subst hres
        simp only [pure, Except.pure, Except.ok.injEq] at h; subst h
        exact ⟨rfl, applyCb_isCall _ _ (applyCb_isCall _ _ (hcall r rfl))⟩
    · intro G st recv m args args' kwn kwv kwv' cands last last' res' st' sa sk hrel h
      cases cands with
      | nil =>
        simp only [candLoop, Except.ok.injEq, Prod.mk.injEq] at h
        obtain ⟨rfl, rfl⟩ := h
        exact ⟨last, by simp only [candTy]; rfl, hrel⟩
      | cons cand rest =>
        simp only [candLoop] at h
        simp only [candTy]
        split at h
        · rename_i hfm
          simp only [hfm]
          exact ihC G st recv m args args' kwn kwv kwv' rest last last' res' st' sa sk hrel h
        · rename_i defining mi hfm
          simp only [hfm]
          replace h := bindE_ok h
          obtain ⟨filled', hfd', h⟩ := h
          have hfd := Sim_fillDefaults mi.params (.name m) (.attr recv m) args args' kwn kwv kwv' sa sk
          rw [hfd'] at hfd
          cases hfd0 : fillDefaults mi.params (.name m) args kwn kwv with
          | error e => rw [hfd0] at hfd; simp [ERel] at hfd
          | ok filled =>
            rw [hfd0] at hfd; simp only [ERel] at hfd
            simp only [bind, Except.bind]
            have hcs := hfd
            obtain ⟨f0, f0', fa, fa', kn, kv, kv', rfl, rfl, hfa, hkv⟩ := hfd
            simp only [isLamB_eq] at h ⊢
            rw [SimL_anyLam fa fa' hfa] at h
            trace_state
            sorry
    all_goals sorry

end Fadl
