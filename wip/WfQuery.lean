/-
  Well-formed queries for the simplifier (C18): operator names occur only in callee position, and calls of the four
  operators the simplifier knows by name have their arity and a one-parameter lambda where the simplifier expects one.
  `Props/C18Total.lean` proves that on such queries the visitor model cannot fail with an internal error.
-/
import Fadl.Model.Simplify
namespace Fadl

/-- the four operators the simplifier knows by name -/
def isSimpOp (n : String) : Bool := n = "First" || n = "Select" || n = "SelectMany" || n = "Where"

/-- operator calls have their arity and a one-parameter lambda where the simplifier expects one -/
def opShape (n : String) (args : List Expr) : Bool :=
  if n = "First" then (match args with | [_] => true | _ => false)
  else if n = "Select" || n = "SelectMany" || n = "Where" then
    (match args with
     | [_, .lam [_] _] => true
     | _ => false)
  else true

mutual
/-- well-formed query: operator names only in callee position, operator calls well shaped -/
def wfq : Expr → Bool
  | .name x => !isSimpOp x
  | .const _ => true
  | .attr v _ => wfq v
  | .lam _ b => wfq b
  | .sub v s => wfq v && wfq s
  | .tuple es => wfqL es
  | .list es => wfqL es
  | .dict ks vs => wfqL ks && wfqL vs
  | .op _ es => wfqL es
  | .comp _ e t i ifs _ => wfq e && wfq t && wfq i && wfqL ifs
  | .call f args _ kwv =>
    wfqL args && wfqL kwv &&
      (match f with
       | .name n => opShape n args
       | f => wfq f)
def wfqL : List Expr → Bool
  | [] => true
  | e :: es => wfq e && wfqL es
end

end Fadl
