#!/usr/bin/env python3
"""Development helper: compile a wip Lean file and print, for every error, the message head and the goal only."""
import subprocess, sys, re
out = subprocess.run(["lake", "env", "lean", sys.argv[1]], cwd="/verif/lean", capture_output=True, text=True).stdout
blocks = re.split(r"(?m)^(?=\S+\.lean:\d+:\d+: )", out)
keep = int(sys.argv[2]) if len(sys.argv) > 2 else 40
for b in blocks:
    if not b.strip():
        continue
    lines = b.splitlines()
    print(lines[0])
    if "⊢" in b:
        hyps = [l for l in lines[1:] if re.match(r"^(h\w*|heq\w*|e\d|em|this|hx\w*) :", l)]
        g = b[b.index("⊢"):].splitlines()
        for l in hyps[:12]:
            print("   ", l[:200])
        print("\n".join(g[:keep]))
    else:
        print("\n".join(lines[1:8]))
    print("-----")
