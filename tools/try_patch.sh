#!/bin/bash
# usage: try_patch.sh <patch.diff> <Cxx> [more props]  -- apply to /repo, run quick checks, always revert
patch=$(realpath "$1"); shift
cd /repo || exit 2
if ! git diff --quiet; then echo "/repo dirty"; exit 2; fi
git apply "$patch" || { echo "patch does not apply"; exit 2; }
for p in "$@"; do
  (cd /verif && timeout 1800 ./check $p ${TIER:-quick}; echo "exit=$?")
done
git -C /repo checkout -- .
git -C /repo status --short | head
