#!/bin/bash
# usage: import_seed.sh <worktree> <mutdir-name> <seed-id>
# Confirms in the scratch worktree: patch applies, suite passes with it, demo fails with it and passes without; then
# stores patch.diff, demo.py, meta.json under /verif/seeded/<seed-id>/.
wt=$1; mut=$2; id=$3
src=$wt/_seed/$mut
cd $wt || exit 2
git checkout -q -- . ; git apply --check $src/patch.diff || { echo "NOAPPLY"; exit 1; }
FADL_ROOT=$wt /venv/bin/python $src/demo.py $wt >/tmp/seed_demo_clean.log 2>&1; clean=$?
git apply $src/patch.diff
tests=$(/venv/bin/python -m pytest -q -p no:cacheprovider 2>&1 | tail -1)
FADL_ROOT=$wt /venv/bin/python $src/demo.py $wt >/tmp/seed_demo_patched.log 2>&1; patched=$?
git checkout -q -- .
echo "clean-demo-exit=$clean patched-demo-exit=$patched tests: $tests"
if [ $clean -ne 0 ] || [ $patched -eq 0 ] || ! echo "$tests" | grep -q "412 passed"; then echo "REJECTED"; exit 1; fi
mkdir -p /verif/seeded/$id
cp $src/patch.diff $src/demo.py /verif/seeded/$id/
/venv/bin/python - "$src/meta.json" "/verif/seeded/$id/meta.json" "$tests" <<'PY'
import json,sys
m=json.load(open(sys.argv[1]))
m["confirmed"]={"in":"scratch git worktree of /repo under /tmp (removed afterwards)","suite_with_patch":sys.argv[3],"demo_without_patch":"exit 0","demo_with_patch":"non-zero exit","ran":"git apply patch.diff; pytest -q; python demo.py <root>; git checkout -- .; python demo.py <root>"}
json.dump(m,open(sys.argv[2],"w"),indent=1)
PY
echo "IMPORTED $id"
