#!/venv/bin/python
"""development aid: union of the raw line hits dumped by quick runs (VERIF_COVER_DUMP=/tmp/cov/Cxx.json) ->
functions of func_adl with lines that no property's run reaches."""
import glob, json, sys
sys.path.insert(0, "/verif/harness")
import cover
hits = set()
for f in glob.glob(sys.argv[1] + "/*.json"):
    for fn, ln in json.load(open(f)):
        hits.add((fn, ln))
files = sorted({fn for fn, _ in hits})
import os
for root, _d, fs in os.walk("/repo/func_adl"):
    for f in fs:
        if f.endswith(".py"):
            p = os.path.join(root, f)
            funcs = cover._functions(p)
            h = {ln for fn, ln in hits if fn == p}
            tot = sum(len(v) for v in funcs.values()); got = sum(len(v & h) for v in funcs.values())
            print(f"== {p[len('/repo/'):]}: {got}/{tot}" + ("   (never measured: not an anchored file of any property)" if p not in files else ""))
            for q, lines in sorted(funcs.items()):
                miss = sorted(lines - h)
                if miss and p in files:
                    print(f"   {q}: {len(lines)-len(miss)}/{len(lines)} missing {miss}")
