#!/venv/bin/python
"""Regenerate MANIFEST.json from the property modules present in harness/props/."""
import importlib
import json
import sys
from pathlib import Path

VERIF = Path(__file__).resolve().parent.parent
sys.path.insert(0, str(VERIF / "harness"))

props = [json.loads(l) for l in (VERIF / "properties.jsonl").read_text().splitlines() if l.strip()]
NA_REASONS = {}
na_file = VERIF / "tools" / "not_applicable.json"
if na_file.exists():
    NA_REASONS = json.loads(na_file.read_text())

checks, na, served = [], [], []
for p in props:
    pid = p["id"]
    f = VERIF / "harness" / "props" / f"{pid.lower()}.py"
    if not f.exists() or pid in NA_REASONS:
        na.append({"property_id": pid, "reason": NA_REASONS.get(pid, "check under construction in this round (not a judgement that the technique cannot apply)")})
        continue
    mod = importlib.import_module(f"props.{pid.lower()}")
    served.append(pid)
    checks.append({
        "property_id": pid,
        "quick_cmd": f"./check {pid} quick",
        "thorough_cmd": f"./check {pid} thorough",
        "evidence_file": f"evidence/{pid}.json",
        "replay_cmd_template": f"./check {pid} --replay {{path}}",
        "engine": "lean4-model-and-proofs",
        "level_claimed": {
            "category": "proof",
            "text": getattr(mod, "LEVEL_TEXT", mod.EXPLANATION),
            "design_ref": getattr(mod, "DESIGN_REF", f"DESIGN.md section 5, {pid}"),
        },
        "level_note": getattr(mod, "LEVEL_NOTE",
            "Trusted: Lean kernel + propext/Classical.choice/Quot.sound; the hand-written model is tied to the "
            "code by the per-run correspondence check (differential, on generated inputs) and constant-table ties; "
            "`ev` as the reference semantics. " + " ".join(getattr(mod, "ASSUMPTIONS", []))),
        "technique": getattr(mod, "TECHNIQUE", "Lean 4 theorems about a hand-written executable model + per-run correspondence check against the real code + direct property oracle"),
    })

m = {
    "version": 1,
    "setup_cmd": "./check --setup",
    "hooks": {
        "guard": "FUNC_ADL_VERIF",
        "enable": "no hooks are needed: every observation point is reachable through the public API or importable module internals; the variable is reserved (the harness sets FUNC_ADL_VERIF=1)",
        "baseline_off_cmd": "cd /repo && /venv/bin/python -m pytest -q -p no:cacheprovider --timeout=900",
        "source_commits": [],
        "add_only": True,
    },
    "engines": [
        {"name": "lean4-model-and-proofs", "path": "lean/", "serves_properties": served,
         "kind_free_text": "Lean 4 models (Fadl/Model), reference semantics (Fadl/Sem.lean), property theorems (Fadl/Props), compiled line-protocol driver"},
        {"name": "python-harness", "path": "harness/", "serves_properties": served,
         "kind_free_text": "seeded generators, correspondence run (real func_adl vs compiled Lean model), direct property oracles, verdict/evidence"},
    ],
    "checks": checks,
    "not_applicable": na,
    "notes": "Machine-checked proof (Lean 4) about hand-written models + executed correspondence; see DESIGN.md.",
}
(VERIF / "MANIFEST.json").write_text(json.dumps(m, indent=1) + "\n")
import subprocess
r = subprocess.run(["python3-vt", "-c", "import json,jsonschema,sys; jsonschema.validate(json.load(open(sys.argv[1])), json.load(open('/root/.vp/MANIFEST.schema.json'))); print('schema ok')", str(VERIF / "MANIFEST.json")], capture_output=True, text=True)
print(f"MANIFEST.json: {len(checks)} checks, {len(na)} not_applicable;", (r.stdout + r.stderr).strip()[-300:])
