#!/bin/bash
# confirm a sub-agent's seed myself (suite passes with the patch, demo 0 on /repo and non-zero with the patch), then run the checks
# usage: wave3.sh <seed-dir> <Cxx> [more props]
d=$(realpath "$1"); shift
cd /repo || exit 2
if ! git diff --quiet; then echo "/repo dirty"; exit 2; fi
/venv/bin/python "$d/demo.py" /repo >/dev/null 2>&1; echo "demo clean exit=$?"
git apply "$d/patch.diff" || { echo "patch does not apply"; exit 2; }
/venv/bin/python -m pytest -q -p no:cacheprovider 2>&1 | tail -1
/venv/bin/python "$d/demo.py" /repo >/dev/null 2>&1; echo "demo patched exit=$?"
for p in "$@"; do
  (cd /verif && timeout 1800 ./check $p ${TIER:-quick} 2>&1 | tail -2; echo "exit=${PIPESTATUS[0]}")
done
git -C /repo checkout -- .
git -C /repo status --short | head
