#!/bin/bash
# development tool: run the thorough tier of every property, one after the other; summary lines to wip/thorough.log
cd /verif
: > wip/thorough.log
for p in C01 C02 C03 C04 C05 C06 C07 C08 C09 C10 C11 C12 C13 C14 C15 C16 C17 C18 C19 C20; do
  timeout 7200 ./check $p thorough 2>&1 | grep -E "^VIOLATION|thorough seed" >> wip/thorough.log
  echo "exit=${PIPESTATUS[0]} $p" >> wip/thorough.log
done
