#!/bin/bash
# validate every evidence file against the schema
for f in /verif/evidence/*.json; do
python3-vt -c "import json,jsonschema,sys; jsonschema.validate(json.load(open(sys.argv[1])), json.load(open('/root/.vp/EVIDENCE.schema.json'))); print(sys.argv[1],'ok')" $f
done
