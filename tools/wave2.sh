#!/bin/bash
# usage: wave2.sh Cxx  -- import /tmp/w2_Cxx/_seed/mut{1,2} as seeds Cxx-3 / Cxx-4 and run the property's quick check on each
p=$1
for n in 1 2; do
  id=$p-$((n+2))
  if [ -d /tmp/w2_$p/_seed/mut$n ]; then
    tools/import_seed.sh /tmp/w2_$p mut$n $id 2>&1 | tail -2
    if [ -d seeded/$id ]; then tools/try_patch.sh seeded/$id/patch.diff $p 2>&1 | grep -E "quick|patch does not" | cut -c1-170; fi
  fi
done
